//! generates the property registry from the files present in src/ (c??.rs)
use std::io::Write;
fn main() {
    let dir = std::path::Path::new(env!("CARGO_MANIFEST_DIR")).join("src");
    let mut props: Vec<String> = std::fs::read_dir(&dir)
        .unwrap()
        .filter_map(|e| e.ok())
        .map(|e| e.file_name().to_string_lossy().to_string())
        .filter(|n| n.len() == 6 && n.starts_with('c') && n.ends_with(".rs") && n[1..3].chars().all(|c| c.is_ascii_digit()))
        .map(|n| n[..3].to_string())
        .collect();
    props.sort();
    let out = std::path::Path::new(&std::env::var("OUT_DIR").unwrap()).join("registry.rs");
    let mut f = std::fs::File::create(out).unwrap();
    for p in &props {
        writeln!(f, "#[path = \"{}/{}.rs\"] mod {};", dir.display(), p, p).unwrap();
    }
    writeln!(f, "pub fn table(prop: &str) -> Option<(GenFn, ExecFn)> {{ Some(match prop {{").unwrap();
    for p in &props {
        writeln!(f, "  \"{}\" => ({}::generate, {}::exec),", p.to_uppercase(), p, p).unwrap();
    }
    writeln!(f, "  _ => return None }}) }}").unwrap();
    println!("cargo:rerun-if-changed=src");
}
