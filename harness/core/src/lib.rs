//! Shared part of the correspondence harness.
//!
//! Every property is its own binary `vh-cNN` (harness/props/cNN) so that one property's
//! harness failing to build against /repo never takes the others down:
//!
//!   vh-cNN gen  <seed> <tier> <stats.json>   > requests   (one self-contained case per line)
//!   vh-cNN exec               < requests     > replies    (real implementation, in-process)
pub mod rxgen;
pub mod tgen;
pub mod util;

use std::io::{BufRead, Write};

pub struct GenCtx {
    pub rng: util::Rng,
    pub thorough: bool,
    pub stats: util::Stats,
    pub out: std::io::BufWriter<std::io::Stdout>,
}

impl GenCtx {
    pub fn emit(&mut self, line: &str) {
        debug_assert!(!line.contains('\n'));
        writeln!(self.out, "{}", line).unwrap();
        self.stats.bump("requests");
    }
}

pub type GenFn = fn(&mut GenCtx);
pub type ExecFn = fn(&str) -> String;

/// stateful executors keep their state in thread-locals / statics; requests are processed in order
pub fn main_loop(g: GenFn, e: ExecFn) {
    let args: Vec<String> = std::env::args().collect();
    std::panic::set_hook(Box::new(|_| {}));
    match args.get(1).map(|s| s.as_str()) {
        Some("gen") => {
            let seed: u64 = args.get(2).and_then(|s| s.parse().ok()).unwrap_or(0);
            let thorough = args.get(3).map(|s| s == "thorough").unwrap_or(false);
            let mut ctx = GenCtx {
                rng: util::Rng::new(seed),
                thorough,
                stats: util::Stats::default(),
                out: std::io::BufWriter::new(std::io::stdout()),
            };
            g(&mut ctx);
            ctx.out.flush().unwrap();
            if let Some(p) = args.get(4) {
                std::fs::write(p, ctx.stats.to_json()).unwrap();
            }
        }
        Some("exec") => {
            let stdin = std::io::stdin();
            let mut out = std::io::BufWriter::new(std::io::stdout());
            for line in stdin.lock().lines() {
                let line = line.unwrap();
                let r = match util::catch(std::panic::AssertUnwindSafe(|| e(&line))) {
                    Ok(r) => r,
                    Err(m) => format!("panic={}", util::hex(&m)),
                };
                writeln!(out, "{}", r).unwrap();
                // one reply per line, flushed: if the real code hangs or aborts on a request, the
                // number of replies received identifies that request
                out.flush().unwrap();
            }
            out.flush().unwrap();
        }
        _ => {
            eprintln!("usage: vh-cNN gen <seed> <tier> <stats.json> | exec");
            std::process::exit(2);
        }
    }
}
