//! shared helpers: PRNG, hex, abstract terms and their protocol rendering
use std::fmt::Write as _;

/// xoshiro256** seeded through splitmix64 — every random choice of a run derives from one state
#[derive(Clone)]
pub struct Rng {
    s: [u64; 4],
}

impl Rng {
    pub fn new(seed: u64) -> Self {
        let mut x = seed;
        let mut sm = || {
            x = x.wrapping_add(0x9E3779B97F4A7C15);
            let mut z = x;
            z = (z ^ (z >> 30)).wrapping_mul(0xBF58476D1CE4E5B9);
            z = (z ^ (z >> 27)).wrapping_mul(0x94D049BB133111EB);
            z ^ (z >> 31)
        };
        Rng {
            s: [sm(), sm(), sm(), sm()],
        }
    }
    pub fn next(&mut self) -> u64 {
        let r = self.s[1].wrapping_mul(5).rotate_left(7).wrapping_mul(9);
        let t = self.s[1] << 17;
        self.s[2] ^= self.s[0];
        self.s[3] ^= self.s[1];
        self.s[1] ^= self.s[2];
        self.s[0] ^= self.s[3];
        self.s[2] ^= t;
        self.s[3] = self.s[3].rotate_left(45);
        r
    }
    /// uniform in 0..n (n > 0)
    pub fn below(&mut self, n: usize) -> usize {
        (self.next() % (n as u64)) as usize
    }
    pub fn range(&mut self, lo: usize, hi: usize) -> usize {
        lo + self.below(hi - lo + 1)
    }
    pub fn chance(&mut self, num: usize, den: usize) -> bool {
        self.below(den) < num
    }
    pub fn pick<'a, T>(&mut self, xs: &'a [T]) -> &'a T {
        &xs[self.below(xs.len())]
    }
}

pub fn hex(s: &str) -> String {
    hex_bytes(s.as_bytes())
}

pub fn hex_bytes(b: &[u8]) -> String {
    if b.is_empty() {
        return "_".to_string();
    }
    let mut o = String::with_capacity(b.len() * 2);
    for x in b {
        write!(o, "{:02x}", x).unwrap();
    }
    o
}

pub fn unhex_bytes(h: &str) -> Option<Vec<u8>> {
    if h == "_" {
        return Some(vec![]);
    }
    if h.len() % 2 != 0 {
        return None;
    }
    (0..h.len() / 2)
        .map(|i| u8::from_str_radix(&h[2 * i..2 * i + 2], 16).ok())
        .collect()
}

pub fn unhex(h: &str) -> Option<String> {
    String::from_utf8(unhex_bytes(h)?).ok()
}

/// abstract term, mirrors `SophiaModel.Term`
#[derive(Clone, Debug, PartialEq, Eq, Hash, PartialOrd, Ord)]
pub enum T {
    Iri(String),
    Bnode(String),
    Lit(String, String),
    Lang(String, String),
    Triple(Box<[T; 3]>),
    Var(String),
}

impl T {
    pub fn render(&self) -> String {
        match self {
            T::Iri(s) => format!("i {}", hex(s)),
            T::Bnode(s) => format!("b {}", hex(s)),
            T::Var(s) => format!("v {}", hex(s)),
            T::Lit(l, d) => format!("l {} {}", hex(l), hex(d)),
            T::Lang(l, t) => format!("g {} {}", hex(l), hex(t)),
            T::Triple(b) => format!("t {} {} {}", b[0].render(), b[1].render(), b[2].render()),
        }
    }
    pub fn parse<'a>(toks: &mut impl Iterator<Item = &'a str>) -> Option<T> {
        let k = toks.next()?;
        Some(match k {
            "i" => T::Iri(unhex(toks.next()?)?),
            "b" => T::Bnode(unhex(toks.next()?)?),
            "v" => T::Var(unhex(toks.next()?)?),
            "l" => T::Lit(unhex(toks.next()?)?, unhex(toks.next()?)?),
            "g" => T::Lang(unhex(toks.next()?)?, unhex(toks.next()?)?),
            "t" => {
                let s = T::parse(toks)?;
                let p = T::parse(toks)?;
                let o = T::parse(toks)?;
                T::Triple(Box::new([s, p, o]))
            }
            _ => return None,
        })
    }
    pub fn depth(&self) -> usize {
        match self {
            T::Triple(b) => 1 + b.iter().map(|t| t.depth()).max().unwrap(),
            _ => 0,
        }
    }
}

/// abstract quad; `g == None` is the default graph
#[derive(Clone, Debug, PartialEq, Eq, Hash, PartialOrd, Ord)]
pub struct Q {
    pub s: T,
    pub p: T,
    pub o: T,
    pub g: Option<T>,
}

impl Q {
    pub fn render(&self) -> String {
        format!(
            "{} {} {} {}",
            self.s.render(),
            self.p.render(),
            self.o.render(),
            match &self.g {
                None => "-".to_string(),
                Some(g) => g.render(),
            }
        )
    }
    pub fn parse<'a>(toks: &mut std::iter::Peekable<impl Iterator<Item = &'a str>>) -> Option<Q> {
        let s = T::parse(toks)?;
        let p = T::parse(toks)?;
        let o = T::parse(toks)?;
        let g = if toks.peek() == Some(&"-") {
            toks.next();
            None
        } else {
            Some(T::parse(toks)?)
        };
        Some(Q { s, p, o, g })
    }
}

/// run `f`, mapping a panic to `Err(message)`
pub fn catch<R>(f: impl FnOnce() -> R + std::panic::UnwindSafe) -> Result<R, String> {
    std::panic::catch_unwind(f).map_err(|e| {
        if let Some(s) = e.downcast_ref::<&str>() {
            s.to_string()
        } else if let Some(s) = e.downcast_ref::<String>() {
            s.clone()
        } else {
            "panic".to_string()
        }
    })
}

/// coverage counters written as JSON on stderr-free side channel
#[derive(Default)]
pub struct Stats {
    pub counters: std::collections::BTreeMap<String, u64>,
    pub samples: Vec<String>,
}

impl Stats {
    pub fn bump(&mut self, k: &str) {
        *self.counters.entry(k.to_string()).or_insert(0) += 1;
    }
    pub fn add(&mut self, k: &str, n: u64) {
        *self.counters.entry(k.to_string()).or_insert(0) += n;
    }
    pub fn sample(&mut self, s: String) {
        if self.samples.len() < 8 {
            self.samples.push(s);
        }
    }
    pub fn to_json(&self) -> String {
        let mut o = String::from("{\"counters\":{");
        let mut first = true;
        for (k, v) in &self.counters {
            if !first {
                o.push(',');
            }
            first = false;
            write!(o, "{}:{}", json_str(k), v).unwrap();
        }
        o.push_str("},\"samples\":[");
        for (i, s) in self.samples.iter().enumerate() {
            if i > 0 {
                o.push(',');
            }
            o.push_str(&json_str(s));
        }
        o.push_str("]}");
        o
    }
}

pub fn json_str(s: &str) -> String {
    let mut o = String::from("\"");
    for c in s.chars() {
        match c {
            '"' => o.push_str("\\\""),
            '\\' => o.push_str("\\\\"),
            '\n' => o.push_str("\\n"),
            '\r' => o.push_str("\\r"),
            '\t' => o.push_str("\\t"),
            c if (c as u32) < 0x20 => write!(o, "\\u{:04x}", c as u32).unwrap(),
            c => o.push(c),
        }
    }
    o.push('"');
    o
}
