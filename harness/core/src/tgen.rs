//! abstract terms <-> sophia terms, and the structured random term generator shared by the properties
use crate::util::{Rng, Q, T};
use sophia_api::term::{BnodeId, IriRef, LanguageTag, SimpleTerm, Term, TermKind, VarName};

pub const XSD: &str = "http://www.w3.org/2001/XMLSchema#";

/// IRIs that differ from a well-known vocabulary term by little: same namespace and a local name that
/// has the well-known one as a proper suffix / prefix, differs in case, or is empty; same local name in
/// another namespace. Code that recognises `xsd:string`, `rdf:langString`, `rdf:first` … by anything
/// weaker than full equality treats one of these as the well-known term.
pub const NEAR_MISS_DATATYPES: &[&str] = &[
    "http://www.w3.org/2001/XMLSchema#substring",
    "http://www.w3.org/2001/XMLSchema#my-string",
    "http://www.w3.org/2001/XMLSchema#string2",
    "http://www.w3.org/2001/XMLSchema#strin",
    "http://www.w3.org/2001/XMLSchema#String",
    "http://www.w3.org/2001/XMLSchema#",
    "http://www.w3.org/2001/XMLSchema",
    "http://ex.org/XMLSchema#string",
    "http://www.w3.org/1999/02/22-rdf-syntax-ns#xlangString",
    "http://www.w3.org/1999/02/22-rdf-syntax-ns#langStrin",
    "http://www.w3.org/2001/XMLSchema#xinteger",
    "http://www.w3.org/2001/XMLSchema#xdecimal",
    "http://www.w3.org/2001/XMLSchema#xdouble",
    "http://www.w3.org/2001/XMLSchema#xboolean",
];
pub const NEAR_MISS_VOCAB: &[&str] = &[
    "http://www.w3.org/1999/02/22-rdf-syntax-ns#xtype",
    "http://www.w3.org/1999/02/22-rdf-syntax-ns#typ",
    "http://www.w3.org/1999/02/22-rdf-syntax-ns#xfirst",
    "http://www.w3.org/1999/02/22-rdf-syntax-ns#xrest",
    "http://www.w3.org/1999/02/22-rdf-syntax-ns#xnil",
    "http://www.w3.org/1999/02/22-rdf-syntax-ns#",
    "http://ex.org/22-rdf-syntax-ns#nil",
];
pub const RDF: &str = "http://www.w3.org/1999/02/22-rdf-syntax-ns#";

/// build an owned `SimpleTerm` (no validation: the generator only produces valid components,
/// and properties that need invalid ones say so)
pub fn to_simple(t: &T) -> SimpleTerm<'static> {
    match t {
        T::Iri(s) => SimpleTerm::Iri(IriRef::new_unchecked(s.clone().into())),
        T::Bnode(s) => SimpleTerm::BlankNode(BnodeId::new_unchecked(s.clone().into())),
        T::Var(s) => SimpleTerm::Variable(VarName::new_unchecked(s.clone().into())),
        T::Lit(l, d) => SimpleTerm::LiteralDatatype(l.clone().into(), IriRef::new_unchecked(d.clone().into())),
        T::Lang(l, t) => SimpleTerm::LiteralLanguage(l.clone().into(), LanguageTag::new_unchecked(t.clone().into())),
        T::Triple(b) => SimpleTerm::Triple(Box::new([to_simple(&b[0]), to_simple(&b[1]), to_simple(&b[2])])),
    }
}

/// read any `Term` back through its accessors
pub fn view<X: Term>(x: X) -> T {
    match x.kind() {
        TermKind::Iri => T::Iri(x.iri().unwrap().as_str().to_string()),
        TermKind::BlankNode => T::Bnode(x.bnode_id().unwrap().as_str().to_string()),
        TermKind::Variable => T::Var(x.variable().unwrap().as_str().to_string()),
        TermKind::Literal => {
            let lex = x.lexical_form().unwrap().to_string();
            match x.language_tag() {
                Some(tag) => T::Lang(lex, tag.as_str().to_string()),
                None => T::Lit(lex, x.datatype().unwrap().as_str().to_string()),
            }
        }
        TermKind::Triple => {
            let [s, p, o] = x.to_triple().unwrap();
            T::Triple(Box::new([view(s), view(p), view(o)]))
        }
    }
}

pub fn q_to_simple(q: &Q) -> ([SimpleTerm<'static>; 3], Option<SimpleTerm<'static>>) {
    ([to_simple(&q.s), to_simple(&q.p), to_simple(&q.o)], q.g.as_ref().map(to_simple))
}

pub fn view_quad<X: sophia_api::quad::Quad>(q: X) -> Q {
    Q { s: view(q.s()), p: view(q.p()), o: view(q.o()), g: q.g().map(view) }
}

pub fn view_triple<X: sophia_api::triple::Triple>(t: X) -> Q {
    Q { s: view(t.s()), p: view(t.p()), o: view(t.o()), g: None }
}

/// small colliding alphabets (so that equal / nearly-equal terms are frequent)
pub struct TermGen {
    pub iris: Vec<String>,
    pub bnodes: Vec<String>,
    pub vars: Vec<String>,
    pub lexicals: Vec<String>,
    pub datatypes: Vec<String>,
    pub tags: Vec<String>,
    pub max_depth: usize,
    /// allow variables / quoted triples / literals at all
    pub generalized: bool,
    pub star: bool,
}

impl Default for TermGen {
    fn default() -> Self {
        let s = |v: &[&str]| v.iter().map(|x| x.to_string()).collect::<Vec<_>>();
        TermGen {
            iris: s(&["http://ex.org/a", "http://ex.org/b", "http://ex.org/a#x", "http://ex.org/é", "x:p", "tag:q"]),
            bnodes: s(&["b0", "b1", "x.y", "0"]),
            vars: s(&["v", "w"]),
            lexicals: s(&["", "a", "A", "chat", "1", "01", "é", "a\"b\\c\nd", "\u{10000}z"]),
            datatypes: s(&[
                "http://www.w3.org/2001/XMLSchema#string",
                "http://www.w3.org/2001/XMLSchema#integer",
                "http://ex.org/dt",
                "http://www.w3.org/2001/XMLSchema#substring",
                "http://www.w3.org/2001/XMLSchema#",
            ]),
            tags: s(&["en", "EN", "en-GB", "en-gb", "fr"]),
            max_depth: 2,
            generalized: true,
            star: true,
        }
    }
}

impl TermGen {
    pub fn iri(&self, r: &mut Rng) -> T {
        T::Iri(r.pick(&self.iris).clone())
    }
    pub fn bnode(&self, r: &mut Rng) -> T {
        T::Bnode(r.pick(&self.bnodes).clone())
    }
    pub fn literal(&self, r: &mut Rng) -> T {
        if r.chance(1, 2) {
            T::Lang(r.pick(&self.lexicals).clone(), r.pick(&self.tags).clone())
        } else {
            T::Lit(r.pick(&self.lexicals).clone(), r.pick(&self.datatypes).clone())
        }
    }
    pub fn var(&self, r: &mut Rng) -> T {
        T::Var(r.pick(&self.vars).clone())
    }
    /// any term, nesting at most `depth`
    pub fn term(&self, r: &mut Rng, depth: usize) -> T {
        let k = r.below(if self.star && depth > 0 { 12 } else { 10 });
        match k {
            0..=2 => self.iri(r),
            3..=4 => self.bnode(r),
            5..=7 => self.literal(r),
            8 if self.generalized => self.var(r),
            8 => self.iri(r),
            9 => self.literal(r),
            _ => T::Triple(Box::new([self.term(r, depth - 1), self.term(r, depth - 1), self.term(r, depth - 1)])),
        }
    }
    /// a subject-position term of strict RDF(-star)
    pub fn subject(&self, r: &mut Rng, depth: usize) -> T {
        match r.below(if self.star && depth > 0 { 6 } else { 5 }) {
            0..=2 => self.iri(r),
            3..=4 => self.bnode(r),
            _ => self.strict_triple(r, depth - 1),
        }
    }
    pub fn object(&self, r: &mut Rng, depth: usize) -> T {
        match r.below(if self.star && depth > 0 { 8 } else { 7 }) {
            0..=1 => self.iri(r),
            2..=3 => self.bnode(r),
            4..=6 => self.literal(r),
            _ => self.strict_triple(r, depth - 1),
        }
    }
    pub fn strict_triple(&self, r: &mut Rng, depth: usize) -> T {
        T::Triple(Box::new([self.subject(r, depth), self.iri(r), self.object(r, depth)]))
    }
    /// strict RDF(-star) quad
    pub fn strict_quad(&self, r: &mut Rng) -> Q {
        let g = match r.below(4) {
            0 | 1 => None,
            2 => Some(self.iri(r)),
            _ => Some(self.bnode(r)),
        };
        Q { s: self.subject(r, self.max_depth), p: self.iri(r), o: self.object(r, self.max_depth), g }
    }
    /// generalized quad (any term anywhere)
    pub fn any_quad(&self, r: &mut Rng) -> Q {
        let g = if r.chance(1, 2) { None } else { Some(self.term(r, self.max_depth)) };
        Q { s: self.term(r, self.max_depth), p: self.term(r, self.max_depth), o: self.term(r, self.max_depth), g }
    }
}
