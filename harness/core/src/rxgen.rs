//! random members of a regular language, sampled from the `regex` crate's own HIR of a
//! pattern found in /repo (so the generator follows the source regex, whatever it says now)
use crate::util::Rng;
use regex_syntax::hir::{Class, Hir, HirKind};

pub fn parse(src: &str) -> Hir {
    regex_syntax::Parser::new().parse(src).expect("regex parses")
}

/// every class boundary (lo, hi, lo-1, hi+1) occurring in the pattern
pub fn boundaries(h: &Hir, out: &mut Vec<char>) {
    match h.kind() {
        HirKind::Class(Class::Unicode(c)) => {
            for r in c.ranges() {
                let (a, b) = (r.start() as u32, r.end() as u32);
                for x in [a, b, a.wrapping_sub(1), b + 1] {
                    if let Some(ch) = char::from_u32(x) {
                        out.push(ch);
                    }
                }
            }
        }
        HirKind::Class(Class::Bytes(c)) => {
            for r in c.ranges() {
                for x in [r.start(), r.end()] {
                    out.push(x as char);
                }
            }
        }
        HirKind::Repetition(r) => boundaries(&r.sub, out),
        HirKind::Capture(c) => boundaries(&c.sub, out),
        HirKind::Concat(v) | HirKind::Alternation(v) => v.iter().for_each(|x| boundaries(x, out)),
        _ => {}
    }
}

pub fn sample(h: &Hir, rng: &mut Rng, out: &mut String, star_max: usize) {
    match h.kind() {
        HirKind::Empty | HirKind::Look(_) => {}
        HirKind::Literal(l) => out.push_str(std::str::from_utf8(&l.0).unwrap_or("")),
        HirKind::Class(Class::Unicode(c)) => {
            let rs = c.ranges();
            if rs.is_empty() {
                return;
            }
            // favour small ranges (ASCII punctuation) as much as the big Unicode blocks
            let r = rs[rng.below(rs.len())];
            let (a, b) = (r.start() as u32, r.end() as u32);
            let cp = match rng.below(4) {
                0 => a,
                1 => b,
                _ => a + (rng.next() % ((b - a + 1) as u64)) as u32,
            };
            out.push(char::from_u32(cp).unwrap_or(r.start()));
        }
        HirKind::Class(Class::Bytes(c)) => {
            let rs = c.ranges();
            if rs.is_empty() {
                return;
            }
            let r = rs[rng.below(rs.len())];
            out.push((r.start() + (rng.next() % ((r.end() - r.start()) as u64 + 1)) as u8) as char);
        }
        HirKind::Repetition(r) => {
            let min = r.min as usize;
            let max = r.max.map(|m| m as usize).unwrap_or(min + star_max);
            let n = rng.range(min, max.max(min));
            for _ in 0..n {
                sample(&r.sub, rng, out, star_max);
            }
        }
        HirKind::Capture(c) => sample(&c.sub, rng, out, star_max),
        HirKind::Concat(v) => v.iter().for_each(|x| sample(x, rng, out, star_max)),
        HirKind::Alternation(v) => sample(&v[rng.below(v.len())], rng, out, star_max),
    }
}

/// one random single-character edit
pub fn mutate(s: &str, rng: &mut Rng, alphabet: &[char]) -> String {
    let cs: Vec<char> = s.chars().collect();
    let mut o = cs.clone();
    let c = *rng.pick(alphabet);
    match rng.below(4) {
        0 if !cs.is_empty() => {
            o.remove(rng.below(cs.len()));
        }
        1 if !cs.is_empty() => {
            let i = rng.below(cs.len());
            o[i] = c;
        }
        2 if cs.len() > 1 => {
            // duplicate a character
            let i = rng.below(cs.len());
            o.insert(i, cs[i]);
        }
        _ => {
            o.insert(rng.below(cs.len() + 1), c);
        }
    }
    o.into_iter().collect()
}
