//! C07 — isomorphism test: no false negatives, no blindness to ground differences, symmetry.
//!
//! request:
//!   iso <kind> <c1> <c2> <beta> <quad>* | <quad>*
//!     kind   how the pair was made (informative only; every oracle is recomputed from the data)
//!     c1,c2  container types: vec hset bset fast light (datasets) / gvec ghset gbset gfast glight (graphs)
//!     beta   `-` or `hex:hex,…`: a claimed blank node renaming D1 -> D2 (a certificate, verified here)
//!
//! reply: n1= n2= iso=0/1 sym=0/1 cert=0/1 ground_differs=0/1 [FAIL.*]
//!   cert=1            beta is injective on the labels of D1 and D2 is a permutation of beta(D1)
//!                     => the answer must be true (FAIL.false_negative)
//!   ground_differs=1  sizes, blank node counts or blanked-out statement multisets differ
//!                     => the answer must be false (FAIL.false_positive_ground)
//!   a `true` on non-isomorphic inputs agreeing on all three is tolerated by the property (hash/XOR collisions,
//!   locally indistinguishable blank nodes) and never flagged.
use sophia_api::dataset::{Dataset, MutableDataset};
use sophia_api::graph::{Graph, MutableGraph};
use sophia_api::quad::Spog;
use sophia_api::term::SimpleTerm;
use sophia_inmem::dataset::{FastDataset, LightDataset};
use sophia_inmem::graph::{FastGraph, LightGraph};
use sophia_isomorphism::{isomorphic_datasets, isomorphic_graphs};
use std::collections::{BTreeMap, BTreeSet, HashSet};
use vhcore::tgen::{q_to_simple, view_quad, view_triple};
use vhcore::util::*;
use vhcore::GenCtx;

type ST = SimpleTerm<'static>;

// ------------------------------------------------------------------ abstract helpers

fn map_t(t: &T, f: &dyn Fn(&T) -> Option<T>) -> T {
    if let Some(x) = f(t) {
        return x;
    }
    match t {
        T::Triple(b) => T::Triple(Box::new([map_t(&b[0], f), map_t(&b[1], f), map_t(&b[2], f)])),
        _ => t.clone(),
    }
}

fn map_q(q: &Q, f: &dyn Fn(&T) -> Option<T>) -> Q {
    Q { s: map_t(&q.s, f), p: map_t(&q.p, f), o: map_t(&q.o, f), g: q.g.as_ref().map(|g| map_t(g, f)) }
}

/// language tags lowercased (`Term::eq` ignores their case)
fn norm(q: &Q) -> Q {
    map_q(q, &|t| match t {
        T::Lang(l, tag) => Some(T::Lang(l.clone(), tag.to_ascii_lowercase())),
        _ => None,
    })
}

/// every blank node label erased
fn blanked(q: &Q) -> Q {
    map_q(&norm(q), &|t| match t {
        T::Bnode(_) => Some(T::Bnode(String::new())),
        _ => None,
    })
}

fn relabel(q: &Q, beta: &BTreeMap<String, String>) -> Q {
    map_q(q, &|t| match t {
        T::Bnode(b) => Some(T::Bnode(beta.get(b).cloned().unwrap_or_else(|| b.clone()))),
        _ => None,
    })
}

fn labels_t(t: &T, nested: bool, out: &mut Vec<(String, bool)>) {
    match t {
        T::Bnode(b) => out.push((b.clone(), nested)),
        T::Triple(b) => b.iter().for_each(|x| labels_t(x, true, out)),
        _ => {}
    }
}

/// (label, occurs inside a quoted triple) for every occurrence
fn occurrences(d: &[Q]) -> Vec<(String, bool)> {
    let mut out = vec![];
    for q in d {
        labels_t(&q.s, false, &mut out);
        labels_t(&q.p, false, &mut out);
        labels_t(&q.o, false, &mut out);
        if let Some(g) = &q.g {
            labels_t(g, false, &mut out);
        }
    }
    out
}

fn labels(d: &[Q]) -> BTreeSet<String> {
    occurrences(d).into_iter().map(|x| x.0).collect()
}

fn sorted(mut v: Vec<Q>) -> Vec<Q> {
    v.sort();
    v
}

fn same_multiset(a: &[Q], b: &[Q], f: fn(&Q) -> Q) -> bool {
    sorted(a.iter().map(f).collect()) == sorted(b.iter().map(f).collect())
}

fn cert_ok(beta: &BTreeMap<String, String>, d1: &[Q], d2: &[Q]) -> bool {
    let ls = labels(d1);
    let img: BTreeSet<String> = ls.iter().map(|b| beta.get(b).cloned().unwrap_or_else(|| b.clone())).collect();
    img.len() == ls.len() && same_multiset(&d1.iter().map(|q| relabel(q, beta)).collect::<Vec<_>>(), d2, norm)
}

fn ground_differs(d1: &[Q], d2: &[Q]) -> Option<&'static str> {
    if d1.len() != d2.len() {
        Some("size")
    } else if labels(d1).len() != labels(d2).len() {
        Some("bcount")
    } else if !same_multiset(d1, d2, blanked) {
        Some("ground")
    } else {
        None
    }
}

// ------------------------------------------------------------------ containers

struct Out {
    r12: Result<bool, String>,
    r21: Result<bool, String>,
    a1: Vec<Q>,
    a2: Vec<Q>,
}

fn run_d<A: Dataset, B: Dataset>(a: &A, b: &B) -> Out {
    Out {
        r12: isomorphic_datasets(a, b).map_err(|e| e.to_string()),
        r21: isomorphic_datasets(b, a).map_err(|e| e.to_string()),
        a1: a.quads().map(|q| view_quad(q.unwrap())).collect(),
        a2: b.quads().map(|q| view_quad(q.unwrap())).collect(),
    }
}

fn run_g<A: Graph, B: Graph>(a: &A, b: &B) -> Out {
    Out {
        r12: isomorphic_graphs(a, b).map_err(|e| e.to_string()),
        r21: isomorphic_graphs(b, a).map_err(|e| e.to_string()),
        a1: a.triples().map(|t| view_triple(t.unwrap())).collect(),
        a2: b.triples().map(|t| view_triple(t.unwrap())).collect(),
    }
}

fn spogs(d: &[Q]) -> Vec<Spog<ST>> {
    d.iter().map(q_to_simple).collect()
}

fn spos(d: &[Q]) -> Vec<[ST; 3]> {
    d.iter().map(|q| q_to_simple(q).0).collect()
}

fn fill_d<D: MutableDataset + Default>(d: &[Q]) -> D {
    let mut x = D::default();
    for (spo, g) in spogs(d) {
        let [s, p, o] = spo;
        MutableDataset::insert(&mut x, &s, &p, &o, g.as_ref()).map_err(|_| "insert").unwrap();
    }
    x
}

fn fill_g<G: MutableGraph + Default>(d: &[Q]) -> G {
    let mut x = G::default();
    for [s, p, o] in spos(d) {
        MutableGraph::insert(&mut x, &s, &p, &o).map_err(|_| "insert").unwrap();
    }
    x
}

fn with_d<A: Dataset>(a: &A, c2: &str, d2: &[Q]) -> Option<Out> {
    Some(match c2 {
        "vec" => run_d(a, &spogs(d2)),
        "hset" => run_d(a, &spogs(d2).into_iter().collect::<HashSet<_>>()),
        "bset" => run_d(a, &spogs(d2).into_iter().collect::<BTreeSet<_>>()),
        "fast" => run_d(a, &fill_d::<FastDataset>(d2)),
        "light" => run_d(a, &fill_d::<LightDataset>(d2)),
        _ => return None,
    })
}

fn with_g<A: Graph>(a: &A, c2: &str, d2: &[Q]) -> Option<Out> {
    Some(match c2 {
        "gvec" => run_g(a, &spos(d2)),
        "ghset" => run_g(a, &spos(d2).into_iter().collect::<HashSet<_>>()),
        "gbset" => run_g(a, &spos(d2).into_iter().collect::<BTreeSet<_>>()),
        "gfast" => run_g(a, &fill_g::<FastGraph>(d2)),
        "glight" => run_g(a, &fill_g::<LightGraph>(d2)),
        _ => return None,
    })
}

fn dispatch(c1: &str, d1: &[Q], c2: &str, d2: &[Q]) -> Option<Out> {
    match c1 {
        "vec" => with_d(&spogs(d1), c2, d2),
        "hset" => with_d(&spogs(d1).into_iter().collect::<HashSet<_>>(), c2, d2),
        "bset" => with_d(&spogs(d1).into_iter().collect::<BTreeSet<_>>(), c2, d2),
        "fast" => with_d(&fill_d::<FastDataset>(d1), c2, d2),
        "light" => with_d(&fill_d::<LightDataset>(d1), c2, d2),
        "gvec" => with_g(&spos(d1), c2, d2),
        "ghset" => with_g(&spos(d1).into_iter().collect::<HashSet<_>>(), c2, d2),
        "gbset" => with_g(&spos(d1).into_iter().collect::<BTreeSet<_>>(), c2, d2),
        "gfast" => with_g(&fill_g::<FastGraph>(d1), c2, d2),
        "glight" => with_g(&fill_g::<LightGraph>(d1), c2, d2),
        _ => None,
    }
}

// ------------------------------------------------------------------ exec

fn b(x: bool) -> &'static str {
    if x { "1" } else { "0" }
}

fn parse_beta(s: &str) -> Option<BTreeMap<String, String>> {
    let mut m = BTreeMap::new();
    if s == "-" {
        return Some(m);
    }
    for pr in s.split(',') {
        let (x, y) = pr.split_once(':')?;
        m.insert(unhex(x)?, unhex(y)?);
    }
    Some(m)
}

fn parse_quads<'a>(toks: &mut std::iter::Peekable<impl Iterator<Item = &'a str>>) -> Option<Vec<Q>> {
    let mut v = vec![];
    loop {
        match toks.peek() {
            None => return Some(v),
            Some(&"|") => {
                toks.next();
                return Some(v);
            }
            _ => v.push(Q::parse(toks)?),
        }
    }
}

pub fn exec(line: &str) -> String {
    let mut toks = line.split_whitespace().peekable();
    if toks.next() != Some("iso") {
        return "bad-op".into();
    }
    let (Some(_kind), Some(c1), Some(c2), Some(beta)) = (toks.next(), toks.next(), toks.next(), toks.next()) else {
        return "bad-op".into();
    };
    let Some(beta) = parse_beta(beta) else { return "bad-op".into() };
    let (Some(d1), Some(d2)) = (parse_quads(&mut toks), parse_quads(&mut toks)) else { return "bad-op".into() };
    if toks.next().is_some() {
        return "bad-op".into();
    }
    let Some(out) = dispatch(c1, &d1, c2, &d2) else { return "bad-op".into() };
    // the containers must hold exactly what was requested (the generator never emits duplicates); otherwise
    // the case is outside this property (set semantics of containers = C01)
    if !same_multiset(&out.a1, &d1, norm) || !same_multiset(&out.a2, &d2, norm) {
        return "skip=1 why=container_content_differs".into();
    }
    let (d1, d2) = (out.a1, out.a2);
    let cert = cert_ok(&beta, &d1, &d2);
    let gd = ground_differs(&d1, &d2);
    let mut s = format!("n1={} n2={}", d1.len(), d2.len());
    let mut fails = vec![];
    match (&out.r12, &out.r21) {
        (Ok(x), Ok(y)) => {
            s += &format!(" iso={} sym={} cert={} ground_differs={}", b(*x), b(x == y), b(cert), b(gd.is_some()));
            if x != y {
                fails.push(format!("FAIL.asymmetric={}{}", b(*x), b(*y)));
            }
            if cert && !(*x && *y) {
                fails.push(format!("FAIL.false_negative={}{}", b(*x), b(*y)));
            }
            if let Some(why) = gd {
                if *x || *y {
                    fails.push(format!("FAIL.false_positive_ground={}", why));
                }
            }
        }
        (r1, r2) => {
            s += &format!(" iso=err cert={} ground_differs={}", b(cert), b(gd.is_some()));
            fails.push(format!(
                "FAIL.error={}",
                hex(&format!("{:?}/{:?}", r1.as_ref().err(), r2.as_ref().err()))
            ));
        }
    }
    for f in fails {
        s.push(' ');
        s += &f;
    }
    s
}

// ------------------------------------------------------------------ generator

const IRIS: &[&str] = &["x:p", "x:q", "http://ex.org/a", "http://ex.org/é"];
const LABELS: &[&str] = &["b0", "b1", "b2", "x.y", "0"];
const FRESH: &[&str] = &["n0", "n1", "n2", "n3", "n4", "z"];

struct G7 {
    /// probability (in 1/8) that a term is a blank node
    bn: usize,
    /// quoted triples allowed
    star: bool,
    /// any term in any position (else strict RDF-star positions)
    generalized: bool,
    nlabels: usize,
}

impl G7 {
    fn iri(&self, r: &mut Rng) -> T {
        T::Iri(r.pick(IRIS).to_string())
    }
    fn bnode(&self, r: &mut Rng) -> T {
        T::Bnode(LABELS[r.below(self.nlabels)].to_string())
    }
    fn lit(&self, r: &mut Rng) -> T {
        match r.below(4) {
            0 => T::Lang("chat".into(), r.pick(&["en", "EN", "fr"]).to_string()),
            1 => T::Lit("1".into(), "http://www.w3.org/2001/XMLSchema#integer".into()),
            2 => T::Lit("a".into(), "http://www.w3.org/2001/XMLSchema#string".into()),
            _ => T::Lit("".into(), "http://www.w3.org/2001/XMLSchema#string".into()),
        }
    }
    fn node(&self, r: &mut Rng, depth: usize, object: bool) -> T {
        let k = r.below(8);
        if k < self.bn {
            self.bnode(r)
        } else if self.star && depth > 0 && r.chance(1, 3) {
            T::Triple(Box::new([self.node(r, depth - 1, false), self.pred(r, depth - 1), self.node(r, depth - 1, true)]))
        } else if (object || self.generalized) && r.chance(1, 3) {
            self.lit(r)
        } else if self.generalized && r.chance(1, 8) {
            T::Var(r.pick(&["v", "w"]).to_string())
        } else {
            self.iri(r)
        }
    }
    fn pred(&self, r: &mut Rng, depth: usize) -> T {
        if self.generalized && r.chance(1, 4) { self.node(r, depth, true) } else { self.iri(r) }
    }
    fn quad(&self, r: &mut Rng, graph_only: bool) -> Q {
        let g = if graph_only {
            None
        } else {
            match r.below(6) {
                0 | 1 => None,
                2 => Some(self.iri(r)),
                3 | 4 => Some(self.bnode(r)),
                _ if self.generalized => Some(self.node(r, 1, true)),
                _ => Some(self.iri(r)),
            }
        };
        Q { s: self.node(r, 2, false), p: self.pred(r, 2), o: self.node(r, 2, true), g }
    }
}

fn dedup(d: Vec<Q>) -> Vec<Q> {
    let mut seen = BTreeSet::new();
    d.into_iter().filter(|q| seen.insert(norm(q))).collect()
}

fn shuffle<X>(r: &mut Rng, v: &mut [X]) {
    for i in (1..v.len()).rev() {
        v.swap(i, r.below(i + 1));
    }
}

/// hand-made shapes: symmetric structures, indistinguishable blank nodes, one label in several positions
fn shapes() -> Vec<Vec<Q>> {
    let bn = |s: &str| T::Bnode(s.to_string());
    let i = |s: &str| T::Iri(s.to_string());
    let tr = |a: T, b: T, c: T| T::Triple(Box::new([a, b, c]));
    let q = |s: T, p: T, o: T, g: Option<T>| Q { s, p, o, g };
    vec![
        vec![],
        vec![q(tr(bn("b0"), i("x:p"), i("x:q")), i("x:p"), i("x:q"), None)],
        vec![q(bn("b0"), i("x:p"), tr(i("x:q"), i("x:p"), tr(bn("b1"), i("x:p"), bn("b0"))), None)],
        vec![q(bn("b0"), i("x:p"), bn("b1"), None), q(bn("b1"), i("x:p"), bn("b0"), None), q(bn("b2"), i("x:p"), bn("b2"), None)],
        vec![q(bn("b0"), i("x:p"), bn("b1"), None), q(bn("b1"), i("x:p"), bn("b2"), None), q(bn("b2"), i("x:p"), bn("b0"), None)],
        vec![q(bn("b0"), i("x:p"), bn("b0"), Some(bn("b0"))), q(i("x:q"), i("x:p"), i("x:q"), Some(bn("b1")))],
        vec![q(i("x:q"), i("x:p"), i("x:q"), Some(bn("b0"))), q(i("x:q"), i("x:p"), i("x:q"), Some(bn("b1")))],
        vec![q(bn("b0"), bn("b1"), bn("b2"), Some(bn("x.y"))), q(bn("b2"), bn("b1"), bn("b0"), Some(bn("x.y")))],
        vec![
            q(tr(bn("b0"), i("x:p"), bn("b1")), i("x:q"), tr(bn("b1"), i("x:p"), bn("b0")), None),
            q(bn("b0"), i("x:p"), T::Lang("chat".into(), "en".into()), None),
        ],
        vec![q(bn("b0"), i("x:p"), bn("b1"), None), q(bn("b0"), i("x:p"), bn("b2"), None), q(bn("b1"), i("x:q"), bn("b2"), None)],
    ]
}

fn pick_containers(r: &mut Rng, graph_ok: bool) -> (&'static str, &'static str) {
    const D: &[&str] = &["vec", "hset", "bset", "fast", "light"];
    const G: &[&str] = &["gvec", "ghset", "gbset", "gfast", "glight"];
    if graph_ok && r.chance(1, 2) { (*r.pick(G), *r.pick(G)) } else { (*r.pick(D), *r.pick(D)) }
}

fn render_beta(beta: &BTreeMap<String, String>) -> String {
    if beta.is_empty() {
        return "-".into();
    }
    beta.iter().map(|(k, v)| format!("{}:{}", hex(k), hex(v))).collect::<Vec<_>>().join(",")
}

fn emit(ctx: &mut GenCtx, kind: &str, beta: &BTreeMap<String, String>, d1: &[Q], d2: &[Q]) {
    let graph_ok = d1.iter().chain(d2.iter()).all(|q| q.g.is_none());
    let (c1, c2) = pick_containers(&mut ctx.rng, graph_ok);
    let qs = |d: &[Q]| d.iter().map(|q| q.render()).collect::<Vec<_>>().join(" ");
    ctx.stats.bump(&format!("kind.{}", kind));
    ctx.stats.bump(&format!("containers.{}-{}", c1, c2));
    let line = format!("iso {} {} {} {} {} | {}", kind, c1, c2, render_beta(beta), qs(d1), qs(d2));
    if ctx.stats.samples.len() < 4 {
        ctx.stats.sample(line.clone());
    }
    ctx.emit(&line);
}

/// a renaming of the labels of `d`: permutation of the labels among themselves and/or fresh labels;
/// `keep_nested`: identity on the labels occurring inside quoted triples
fn random_beta(r: &mut Rng, d: &[Q], keep_nested: bool) -> BTreeMap<String, String> {
    let occ = occurrences(d);
    let nested: BTreeSet<String> = occ.iter().filter(|x| x.1).map(|x| x.0.clone()).collect();
    let ls: Vec<String> = labels(d).into_iter().filter(|l| !(keep_nested && nested.contains(l))).collect();
    let mut img: Vec<String> = ls.clone();
    match r.below(3) {
        0 => shuffle(r, &mut img),
        1 => img = ls.iter().enumerate().map(|(i, _)| FRESH[i % FRESH.len()].to_string()).collect(),
        _ => {
            shuffle(r, &mut img);
            if !img.is_empty() {
                let k = r.below(img.len());
                img[k] = "fresh".to_string();
            }
        }
    }
    ls.into_iter().zip(img).collect()
}

fn ground_terms_mut<'a>(t: &'a mut T, out: &mut Vec<&'a mut T>) {
    match t {
        T::Triple(b) => {
            for x in b.iter_mut() {
                ground_terms_mut(x, out);
            }
        }
        T::Bnode(_) => {}
        _ => out.push(t),
    }
}

fn edit_ground(r: &mut Rng, d: &mut [Q]) -> bool {
    if d.is_empty() {
        return false;
    }
    let k = r.below(d.len());
    let q = &mut d[k];
    if r.chance(1, 6) {
        // the graph name itself: default graph <-> named graph
        q.g = match q.g {
            None => Some(T::Iri("x:g".into())),
            Some(_) => None,
        };
        return true;
    }
    let mut v = vec![];
    ground_terms_mut(&mut q.s, &mut v);
    ground_terms_mut(&mut q.p, &mut v);
    ground_terms_mut(&mut q.o, &mut v);
    if let Some(g) = q.g.as_mut() {
        ground_terms_mut(g, &mut v);
    }
    if v.is_empty() {
        return false;
    }
    let k = r.below(v.len());
    let t = &mut *v[k];
    *t = match t {
        T::Iri(s) => T::Iri(format!("{}x", s)),
        T::Lit(l, d) => {
            if r.chance(1, 2) { T::Lit(format!("{}x", l), d.clone()) } else { T::Lit(l.clone(), format!("{}x", d)) }
        }
        T::Lang(l, tag) => {
            if r.chance(1, 2) { T::Lang(format!("{}x", l), tag.clone()) } else { T::Lang(l.clone(), "de".into()) }
        }
        T::Var(s) => T::Var(format!("{}x", s)),
        _ => unreachable!(),
    };
    true
}

fn bnodes_mut<'a>(t: &'a mut T, out: &mut Vec<&'a mut T>) {
    match t {
        T::Triple(b) => {
            for x in b.iter_mut() {
                bnodes_mut(x, out);
            }
        }
        T::Bnode(_) => out.push(t),
        _ => {}
    }
}

fn all_bnodes_mut(d: &mut [Q]) -> Vec<&mut T> {
    let mut v = vec![];
    for q in d.iter_mut() {
        bnodes_mut(&mut q.s, &mut v);
        bnodes_mut(&mut q.p, &mut v);
        bnodes_mut(&mut q.o, &mut v);
        if let Some(g) = q.g.as_mut() {
            bnodes_mut(g, &mut v);
        }
    }
    v
}

fn variants(ctx: &mut GenCtx, gen_: &G7, d: &[Q], graph_only: bool) {
    let none = BTreeMap::new();
    // 1. relabelled + shuffled copies
    for keep_nested in [true, false] {
        let beta = random_beta(&mut ctx.rng, d, keep_nested);
        let mut d2: Vec<Q> = d.iter().map(|q| relabel(q, &beta)).collect();
        shuffle(&mut ctx.rng, &mut d2);
        let moved_nested = occurrences(d).iter().any(|(l, n)| *n && beta.get(l).map(|x| x != l).unwrap_or(false));
        if moved_nested {
            ctx.stats.bump("relabel.renames_nested_bnode");
        }
        if occurrences(d).iter().any(|x| x.1) {
            ctx.stats.bump("relabel.has_nested_bnode");
        }
        if d.iter().any(|q| matches!(q.g, Some(T::Bnode(_)))) {
            ctx.stats.bump("relabel.has_bnode_graph_name");
        }
        emit(ctx, if keep_nested { "relabel_top" } else { "relabel_any" }, &beta, d, &d2);
        // the relabelled copy is the base of the one-edit variants
        if keep_nested {
            continue;
        }
        // 2. one ground term changed
        let mut e = d2.clone();
        if edit_ground(&mut ctx.rng, &mut e) {
            let e = dedup(e);
            emit(ctx, "ground", &beta, d, &e);
        }
        // 3. one quad added / removed
        let mut e = d2.clone();
        e.push(gen_.quad(&mut ctx.rng, graph_only));
        let e = dedup(e);
        emit(ctx, "add", &beta, d, &e);
        if !d2.is_empty() {
            let mut e = d2.clone();
            e.remove(ctx.rng.below(e.len()));
            emit(ctx, "remove", &beta, d, &e);
        }
        // 4. two blank nodes merged
        let ls: Vec<String> = labels(&d2).into_iter().collect();
        if ls.len() >= 2 {
            let a = ctx.rng.below(ls.len());
            let mut b_ = ctx.rng.below(ls.len() - 1);
            if b_ >= a {
                b_ += 1;
            }
            let m: BTreeMap<String, String> = [(ls[a].clone(), ls[b_].clone())].into_iter().collect();
            let e = dedup(d2.iter().map(|q| relabel(q, &m)).collect());
            emit(ctx, "merge", &none, d, &e);
        }
        // 5. one occurrence of a blank node split off / moved to another existing label
        let mut e = d2.clone();
        let n_occ = all_bnodes_mut(&mut e).len();
        if n_occ > 0 {
            let k = ctx.rng.below(n_occ);
            let to_existing = ls.len() >= 2 && ctx.rng.chance(1, 2);
            let new = if to_existing { ctx.rng.pick(&ls).clone() } else { "split".to_string() };
            {
                let mut v = all_bnodes_mut(&mut e);
                *v[k] = T::Bnode(new);
            }
            let e = dedup(e);
            emit(ctx, if to_existing { "rewire" } else { "split" }, &none, d, &e);
        }
    }
}

pub fn generate(ctx: &mut GenCtx) {
    // fixed shapes first, every container pairing on the first two
    for (k, d) in shapes().into_iter().enumerate() {
        let gen_ = G7 { bn: 3, star: true, generalized: false, nlabels: 3 };
        let graph_only = d.iter().all(|q| q.g.is_none());
        ctx.stats.bump("shape");
        for _ in 0..(if k < 3 { 12 } else { 3 }) {
            variants(ctx, &gen_, &d, graph_only);
        }
    }
    // pairs of shapes agreeing on all three gates but differently wired (no oracle: symmetry only)
    let sh = shapes();
    emit(ctx, "struct", &BTreeMap::new(), &sh[3], &sh[4]);
    emit(ctx, "struct", &BTreeMap::new(), &sh[4], &sh[3]);
    let n = if ctx.thorough { 30000 } else { 2000 };
    for i in 0..n {
        let gen_ = G7 {
            bn: 2 + ctx.rng.below(5),
            star: i % 5 != 0,
            generalized: i % 3 == 0,
            nlabels: 1 + ctx.rng.below(LABELS.len()),
        };
        let graph_only = ctx.rng.chance(2, 5);
        let nq = match ctx.rng.below(20) {
            0 => 0,
            1..=3 => 1,
            4..=10 => 2 + ctx.rng.below(3),
            _ => 3 + ctx.rng.below(if ctx.thorough { 9 } else { 6 }),
        };
        let d = dedup((0..nq).map(|_| gen_.quad(&mut ctx.rng, graph_only)).collect());
        ctx.stats.bump(&format!("size.{}", d.len().min(8)));
        ctx.stats.bump(&format!("labels.{}", labels(&d).len()));
        if gen_.generalized {
            ctx.stats.bump("generalized");
        }
        variants(ctx, &gen_, &d, graph_only);
        // two unrelated datasets
        if i % 4 == 0 {
            let d2 = dedup((0..nq).map(|_| gen_.quad(&mut ctx.rng, graph_only)).collect());
            emit(ctx, "rand", &BTreeMap::new(), &d, &d2);
        }
    }
}

fn main() {
    vhcore::main_loop(generate, exec);
}
