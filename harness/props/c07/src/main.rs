//! C07 — isomorphism test: no false negatives, no blindness to ground differences, symmetry.
//!
//! request:
//!   iso <kind> <c1> <c2> <beta> <quad>* | <quad>*
//!     kind   how the pair was made (informative only; every oracle is recomputed from the data)
//!     c1,c2  container types: vec hset bset fast light arc gspo slice frem (datasets) /
//!            gvec ghset gbset gfast glight garc grc gunion gdgraph (graphs); see `dispatch`
//!     beta   `-` or `hex:hex,…`: a claimed blank node renaming D1 -> D2 (a certificate, verified here)
//!
//! reply: n1= n2= iso=0/1 sym=0/1 cert=0/1 ground_differs=0/1 [FAIL.*]
//!   the two calls run on a worker thread with a wall cap of CAP_SECS (normal cost: micro- to milliseconds);
//!   a call that does not come back is reported as `iso=hang FAIL.no_termination=…` for *that* request
//!   cert=1            beta is injective on the labels of D1 and D2 is (exactly) a permutation of beta(D1)
//!                     => the answer must be true (FAIL.false_negative)
//!   ground_differs=1  sizes, blank node counts or blanked-out statement multisets differ
//!                     => the answer must be false (FAIL.false_positive_ground)
//!   a `true` on non-isomorphic inputs agreeing on all three is tolerated by the property (hash/XOR collisions,
//!   locally indistinguishable blank nodes) and never flagged.
use sophia_api::dataset::{Dataset, MutableDataset};
use sophia_api::graph::{Graph, MutableGraph};
use sophia_api::quad::{Gspo, Spog};
use sophia_api::term::{FromTerm, SimpleTerm, Term};
use sophia_term::{ArcTerm, RcTerm};
use sophia_inmem::dataset::{FastDataset, LightDataset};
use sophia_inmem::graph::{FastGraph, LightGraph};
use sophia_isomorphism::{isomorphic_datasets, isomorphic_graphs};
use std::collections::{BTreeMap, BTreeSet, HashSet};
use vhcore::tgen::{q_to_simple, to_simple, view_quad, view_triple};
use vhcore::util::*;
use vhcore::GenCtx;

type ST = SimpleTerm<'static>;

// ------------------------------------------------------------------ abstract helpers

fn map_t(t: &T, f: &dyn Fn(&T) -> Option<T>) -> T {
    if let Some(x) = f(t) {
        return x;
    }
    match t {
        T::Triple(b) => T::Triple(Box::new([map_t(&b[0], f), map_t(&b[1], f), map_t(&b[2], f)])),
        _ => t.clone(),
    }
}

fn map_q(q: &Q, f: &dyn Fn(&T) -> Option<T>) -> Q {
    Q { s: map_t(&q.s, f), p: map_t(&q.p, f), o: map_t(&q.o, f), g: q.g.as_ref().map(|g| map_t(g, f)) }
}

/// language tags lowercased (`Term::eq` ignores their case)
fn norm(q: &Q) -> Q {
    map_q(q, &|t| match t {
        T::Lang(l, tag) => Some(T::Lang(l.clone(), tag.to_ascii_lowercase())),
        _ => None,
    })
}

/// every blank node label erased
fn blanked(q: &Q) -> Q {
    map_q(&norm(q), &|t| match t {
        T::Bnode(_) => Some(T::Bnode(String::new())),
        _ => None,
    })
}

fn relabel(q: &Q, beta: &BTreeMap<String, String>) -> Q {
    map_q(q, &|t| match t {
        T::Bnode(b) => Some(T::Bnode(beta.get(b).cloned().unwrap_or_else(|| b.clone()))),
        _ => None,
    })
}

fn labels_t(t: &T, nested: bool, out: &mut Vec<(String, bool)>) {
    match t {
        T::Bnode(b) => out.push((b.clone(), nested)),
        T::Triple(b) => b.iter().for_each(|x| labels_t(x, true, out)),
        _ => {}
    }
}

/// (label, occurs inside a quoted triple) for every occurrence
fn occurrences(d: &[Q]) -> Vec<(String, bool)> {
    let mut out = vec![];
    for q in d {
        labels_t(&q.s, false, &mut out);
        labels_t(&q.p, false, &mut out);
        labels_t(&q.o, false, &mut out);
        if let Some(g) = &q.g {
            labels_t(g, false, &mut out);
        }
    }
    out
}

fn labels(d: &[Q]) -> BTreeSet<String> {
    occurrences(d).into_iter().map(|x| x.0).collect()
}

fn sorted(mut v: Vec<Q>) -> Vec<Q> {
    v.sort();
    v
}

fn same_multiset(a: &[Q], b: &[Q], f: fn(&Q) -> Q) -> bool {
    sorted(a.iter().map(f).collect()) == sorted(b.iter().map(f).collect())
}

fn cert_ok(beta: &BTreeMap<String, String>, d1: &[Q], d2: &[Q]) -> bool {
    let ls = labels(d1);
    let img: BTreeSet<String> = ls.iter().map(|b| beta.get(b).cloned().unwrap_or_else(|| b.clone())).collect();
    img.len() == ls.len() && same_multiset(&d1.iter().map(|q| relabel(q, beta)).collect::<Vec<_>>(), d2, Q::clone)
}

fn ground_differs(d1: &[Q], d2: &[Q]) -> Option<&'static str> {
    if d1.len() != d2.len() {
        Some("size")
    } else if labels(d1).len() != labels(d2).len() {
        Some("bcount")
    } else if !same_multiset(d1, d2, blanked) {
        Some("ground")
    } else {
        None
    }
}

// ------------------------------------------------------------------ containers

struct Out {
    r12: Result<bool, String>,
    r21: Result<bool, String>,
    a1: Vec<Q>,
    a2: Vec<Q>,
}

fn run_d<A: Dataset, B: Dataset>(a: &A, b: &B) -> Out {
    Out {
        r12: isomorphic_datasets(a, b).map_err(|e| e.to_string()),
        r21: isomorphic_datasets(b, a).map_err(|e| e.to_string()),
        a1: a.quads().map(|q| view_quad(q.unwrap())).collect(),
        a2: b.quads().map(|q| view_quad(q.unwrap())).collect(),
    }
}

fn run_g<A: Graph, B: Graph>(a: &A, b: &B) -> Out {
    Out {
        r12: isomorphic_graphs(a, b).map_err(|e| e.to_string()),
        r21: isomorphic_graphs(b, a).map_err(|e| e.to_string()),
        a1: a.triples().map(|t| view_triple(t.unwrap())).collect(),
        a2: b.triples().map(|t| view_triple(t.unwrap())).collect(),
    }
}

fn spogs(d: &[Q]) -> Vec<Spog<ST>> {
    d.iter().map(q_to_simple).collect()
}

fn spos(d: &[Q]) -> Vec<[ST; 3]> {
    d.iter().map(|q| q_to_simple(q).0).collect()
}

fn fill_d<D: MutableDataset + Default>(d: &[Q]) -> D {
    let mut x = D::default();
    for (spo, g) in spogs(d) {
        let [s, p, o] = spo;
        MutableDataset::insert(&mut x, &s, &p, &o, g.as_ref()).map_err(|_| "insert").unwrap();
    }
    x
}

fn fill_g<G: MutableGraph + Default>(d: &[Q]) -> G {
    let mut x = G::default();
    for [s, p, o] in spos(d) {
        MutableGraph::insert(&mut x, &s, &p, &o).map_err(|_| "insert").unwrap();
    }
    x
}

fn arc(t: &ST) -> ArcTerm {
    ArcTerm::from_term(t.borrow_term())
}

fn rc(t: &ST) -> RcTerm {
    RcTerm::from_term(t.borrow_term())
}

/// the same statements with another term type (`IsoTerm<T>` is generic; `iso_eq` compares across the two types)
fn arcs(d: &[Q]) -> Vec<Spog<ArcTerm>> {
    spogs(d).iter().map(|(spo, g)| ([arc(&spo[0]), arc(&spo[1]), arc(&spo[2])], g.as_ref().map(arc))).collect()
}

/// the other tuple layout of a quad
fn gspos(d: &[Q]) -> Vec<Gspo<ST>> {
    spogs(d).into_iter().map(|(spo, g)| (g, spo)).collect()
}

fn noise(d: &[Q]) -> Vec<Q> {
    d.iter()
        .take(3)
        .map(|q| Q { s: q.o.clone(), p: T::Iri("x:noise".into()), o: q.s.clone(), g: Some(T::Iri("x:noise".into())) })
        .collect()
}

/// a `FastDataset` that held other statements before (inserted first, removed again)
fn fill_rem(d: &[Q]) -> FastDataset {
    let mut x = FastDataset::default();
    let extra = spogs(&noise(d));
    for (spo, g) in extra.iter().chain(spogs(d).iter()) {
        MutableDataset::insert(&mut x, &spo[0], &spo[1], &spo[2], g.as_ref()).map_err(|_| "insert").unwrap();
    }
    for (spo, g) in extra.iter() {
        MutableDataset::remove(&mut x, &spo[0], &spo[1], &spo[2], g.as_ref()).map_err(|_| "remove").unwrap();
    }
    x
}

/// the triples spread over the default graph and two named graphs (for the union-graph view)
fn spread(d: &[Q]) -> Vec<Spog<ST>> {
    let names = [None, Some(to_simple(&T::Iri("x:g1".into()))), Some(to_simple(&T::Iri("x:g2".into())))];
    spos(d).into_iter().enumerate().map(|(i, spo)| (spo, names[i % 3].clone())).collect()
}

/// the triples in graph <x:g>, other triples in the default graph and in <x:h> (for the single-graph view)
fn in_graph(d: &[Q]) -> Vec<Spog<ST>> {
    let g = Some(to_simple(&T::Iri("x:g".into())));
    let h = Some(to_simple(&T::Iri("x:h".into())));
    let mut v: Vec<Spog<ST>> = spos(d).into_iter().map(|spo| (spo, g.clone())).collect();
    for (i, (spo, _)) in spogs(&noise(d)).into_iter().enumerate() {
        v.insert(i.min(v.len()), (spo, if i % 2 == 0 { None } else { h.clone() }));
    }
    v
}

pub const DATASETS: &[&str] = &["vec", "hset", "bset", "fast", "light", "arc", "dgspo", "slice", "frem"];
pub const GRAPHS: &[&str] = &["gvec", "ghset", "gbset", "gfast", "glight", "garc", "grc", "gunion", "gdgraph"];

macro_rules! with_dataset {
    ($c:expr, $d:expr, |$x:ident| $body:expr) => {
        match $c {
            "vec" => { let $x = &spogs($d); Some($body) }
            "hset" => { let $x = &spogs($d).into_iter().collect::<HashSet<_>>(); Some($body) }
            "bset" => { let $x = &spogs($d).into_iter().collect::<BTreeSet<_>>(); Some($body) }
            "fast" => { let $x = &fill_d::<FastDataset>($d); Some($body) }
            "light" => { let $x = &fill_d::<LightDataset>($d); Some($body) }
            "arc" => { let $x = &arcs($d); Some($body) }
            "dgspo" => { let $x = &gspos($d); Some($body) }
            "slice" => { let v = spogs($d); let $x = &&v[..]; Some($body) }
            "frem" => { let $x = &fill_rem($d); Some($body) }
            _ => None,
        }
    };
}

macro_rules! with_graph {
    ($c:expr, $d:expr, |$x:ident| $body:expr) => {
        match $c {
            "gvec" => { let $x = &spos($d); Some($body) }
            "ghset" => { let $x = &spos($d).into_iter().collect::<HashSet<_>>(); Some($body) }
            "gbset" => { let $x = &spos($d).into_iter().collect::<BTreeSet<_>>(); Some($body) }
            "gfast" => { let $x = &fill_g::<FastGraph>($d); Some($body) }
            "glight" => { let $x = &fill_g::<LightGraph>($d); Some($body) }
            "garc" => { let $x = &spos($d).iter().map(|t| [arc(&t[0]), arc(&t[1]), arc(&t[2])]).collect::<Vec<_>>(); Some($body) }
            "grc" => { let $x = &spos($d).iter().map(|t| [rc(&t[0]), rc(&t[1]), rc(&t[2])]).collect::<Vec<_>>(); Some($body) }
            "gunion" => { let ds = spread($d); let $x = &ds.union_graph(); Some($body) }
            "gdgraph" => { let ds = in_graph($d); let $x = &ds.graph(Some(to_simple(&T::Iri("x:g".into())))); Some($body) }
            _ => None,
        }
    };
}

fn dispatch(c1: &str, d1: &[Q], c2: &str, d2: &[Q]) -> Option<Out> {
    if DATASETS.contains(&c1) {
        with_dataset!(c1, d1, |a| with_dataset!(c2, d2, |b| run_d(a, b))).flatten()
    } else {
        with_graph!(c1, d1, |a| with_graph!(c2, d2, |b| run_g(a, b))).flatten()
    }
}

// ------------------------------------------------------------------ fallible containers (error paths)

#[derive(Debug)]
struct Boom(usize);
impl std::fmt::Display for Boom {
    fn fmt(&self, f: &mut std::fmt::Formatter<'_>) -> std::fmt::Result {
        write!(f, "boom at {}", self.0)
    }
}
impl std::error::Error for Boom {}

/// a dataset / graph whose iterator yields an error instead of its `fail_at`-th statement
struct Failing {
    quads: Vec<Spog<ST>>,
    fail_at: Option<usize>,
}

impl Dataset for Failing {
    type Error = Boom;
    type Quad<'x> = Spog<&'x ST>;
    fn quads(&self) -> impl Iterator<Item = Result<Self::Quad<'_>, Boom>> + '_ {
        self.quads.iter().enumerate().map(move |(i, (spo, g))| {
            if Some(i) == self.fail_at { Err(Boom(i)) } else { Ok(([&spo[0], &spo[1], &spo[2]], g.as_ref())) }
        })
    }
}

impl Graph for Failing {
    type Error = Boom;
    type Triple<'x> = [&'x ST; 3];
    fn triples(&self) -> impl Iterator<Item = Result<Self::Triple<'_>, Boom>> + '_ {
        self.quads.iter().enumerate().map(move |(i, (spo, _))| {
            if Some(i) == self.fail_at { Err(Boom(i)) } else { Ok([&spo[0], &spo[1], &spo[2]]) }
        })
    }
}

fn outcome<E1, E2>(r: Result<bool, sophia_api::source::StreamError<E1, E2>>) -> &'static str
where
    E1: std::error::Error,
    E2: std::error::Error,
{
    match r {
        Ok(true) => "1",
        Ok(false) => "0",
        Err(sophia_api::source::StreamError::SourceError(_)) => "source",
        Err(sophia_api::source::StreamError::SinkError(_)) => "sink",
    }
}

/// `isoerr <d|g> <f1> <f2> <quad>* | <quad>*`: both arguments in a fallible container failing at index f (`-` = never);
/// reply `r12= r21=` with `0`/`1`/`source`/`sink`
fn exec_err(line: &str) -> String {
    let mut toks = line.split_whitespace().peekable();
    toks.next();
    let (Some(kind), Some(f1), Some(f2)) = (toks.next(), toks.next(), toks.next()) else { return "bad-op".into() };
    let pf = |s: &str| if s == "-" { Some(None) } else { s.parse::<usize>().ok().map(Some) };
    let (Some(f1), Some(f2)) = (pf(f1), pf(f2)) else { return "bad-op".into() };
    let (Some(d1), Some(d2)) = (parse_quads(&mut toks), parse_quads(&mut toks)) else { return "bad-op".into() };
    let a = Failing { quads: spogs(&d1), fail_at: f1 };
    let b_ = Failing { quads: spogs(&d2), fail_at: f2 };
    match kind {
        "d" => format!("r12={} r21={}", outcome(isomorphic_datasets(&a, &b_)), outcome(isomorphic_datasets(&b_, &a))),
        "g" => format!("r12={} r21={}", outcome(isomorphic_graphs(&a, &b_)), outcome(isomorphic_graphs(&b_, &a))),
        _ => "bad-op".into(),
    }
}

// ------------------------------------------------------------------ wall cap per request

/// generous: the largest generated request costs a few milliseconds; CPU contention cannot stretch that to a minute
const CAP_SECS: u64 = 60;
/// after this many hung requests the rest of the run is skipped (each hung worker keeps a core busy)
const MAX_HUNG: usize = 2;
static HUNG: std::sync::atomic::AtomicUsize = std::sync::atomic::AtomicUsize::new(0);

enum Capped {
    Done(Out),
    Panicked(String),
    Hung,
    Skipped,
}

type Job = (String, Vec<Q>, String, Vec<Q>);

/// one long-lived worker runs the real code; a worker that does not answer in time is abandoned (it keeps
/// spinning until the process exits) and replaced
struct Worker {
    tx: std::sync::mpsc::Sender<Job>,
    rx: std::sync::mpsc::Receiver<Result<Out, String>>,
}

fn spawn_worker() -> Option<Worker> {
    let (tx, jobs) = std::sync::mpsc::channel::<Job>();
    let (results, rx) = std::sync::mpsc::channel();
    std::thread::Builder::new()
        .stack_size(16 << 20)
        .spawn(move || {
            for (c1, d1, c2, d2) in jobs {
                let r = catch(std::panic::AssertUnwindSafe(|| dispatch(&c1, &d1, &c2, &d2).expect("container")));
                if results.send(r).is_err() {
                    break;
                }
            }
        })
        .ok()?;
    Some(Worker { tx, rx })
}

static WORKER: std::sync::Mutex<Option<Worker>> = std::sync::Mutex::new(None);

fn run_capped(c1: &str, d1: &[Q], c2: &str, d2: &[Q]) -> Capped {
    use std::sync::atomic::Ordering::SeqCst;
    use std::sync::mpsc::RecvTimeoutError;
    if HUNG.load(SeqCst) >= MAX_HUNG {
        return Capped::Skipped;
    }
    let mut slot = WORKER.lock().unwrap_or_else(|e| e.into_inner());
    if slot.is_none() {
        *slot = spawn_worker();
    }
    let Some(w) = slot.as_ref() else { return Capped::Panicked("cannot spawn worker thread".into()) };
    if w.tx.send((c1.to_string(), d1.to_vec(), c2.to_string(), d2.to_vec())).is_err() {
        *slot = None;
        return Capped::Panicked("worker died".into());
    }
    match w.rx.recv_timeout(std::time::Duration::from_secs(CAP_SECS)) {
        Ok(Ok(out)) => Capped::Done(out),
        Ok(Err(m)) => Capped::Panicked(m),
        Err(RecvTimeoutError::Timeout) => {
            HUNG.fetch_add(1, SeqCst);
            *slot = None;
            Capped::Hung
        }
        Err(RecvTimeoutError::Disconnected) => {
            *slot = None;
            Capped::Panicked("worker died".into())
        }
    }
}

// ------------------------------------------------------------------ exec

fn b(x: bool) -> &'static str {
    if x { "1" } else { "0" }
}

fn parse_beta(s: &str) -> Option<BTreeMap<String, String>> {
    let mut m = BTreeMap::new();
    if s == "-" {
        return Some(m);
    }
    for pr in s.split(',') {
        let (x, y) = pr.split_once(':')?;
        m.insert(unhex(x)?, unhex(y)?);
    }
    Some(m)
}

fn parse_quads<'a>(toks: &mut std::iter::Peekable<impl Iterator<Item = &'a str>>) -> Option<Vec<Q>> {
    let mut v = vec![];
    loop {
        match toks.peek() {
            None => return Some(v),
            Some(&"|") => {
                toks.next();
                return Some(v);
            }
            _ => v.push(Q::parse(toks)?),
        }
    }
}

pub fn exec(line: &str) -> String {
    if line.starts_with("isoerr ") {
        return exec_err(line);
    }
    let mut toks = line.split_whitespace().peekable();
    if toks.next() != Some("iso") {
        return "bad-op".into();
    }
    let (Some(_kind), Some(c1), Some(c2), Some(beta)) = (toks.next(), toks.next(), toks.next(), toks.next()) else {
        return "bad-op".into();
    };
    let Some(beta) = parse_beta(beta) else { return "bad-op".into() };
    let (Some(d1), Some(d2)) = (parse_quads(&mut toks), parse_quads(&mut toks)) else { return "bad-op".into() };
    if toks.next().is_some() {
        return "bad-op".into();
    }
    if !(DATASETS.contains(&c1) && DATASETS.contains(&c2) || GRAPHS.contains(&c1) && GRAPHS.contains(&c2)) {
        return "bad-op".into();
    }
    let out = match run_capped(c1, &d1, c2, &d2) {
        Capped::Done(out) => out,
        Capped::Panicked(m) => panic!("{}", m),
        Capped::Skipped => return "skip=1 why=earlier_hang".into(),
        Capped::Hung => {
            // the real code did not come back: a failing input of its own (the property says "answers")
            return format!(
                "n1={} n2={} iso=hang cert={} ground_differs={} FAIL.no_termination={}s",
                d1.len(),
                d2.len(),
                b(cert_ok(&beta, &d1, &d2)),
                b(ground_differs(&d1, &d2).is_some()),
                CAP_SECS
            );
        }
    };
    // the containers must hold exactly what was requested (the generator never emits duplicates); otherwise
    // the case is outside this property (set semantics of containers = C01)
    if !same_multiset(&out.a1, &d1, norm) || !same_multiset(&out.a2, &d2, norm) {
        return "skip=1 why=container_content_differs".into();
    }
    // the certificate is about the request as written (exact copy, language tags included); the containers hold
    // the same statements up to the case of language tags (checked above), which `Term::eq/cmp/hash` ignore
    let cert = cert_ok(&beta, &d1, &d2);
    let (d1, d2) = (out.a1, out.a2);
    let gd = ground_differs(&d1, &d2);
    let mut s = format!("n1={} n2={}", d1.len(), d2.len());
    let mut fails = vec![];
    match (&out.r12, &out.r21) {
        (Ok(x), Ok(y)) => {
            s += &format!(" iso={} sym={} cert={} ground_differs={}", b(*x), b(x == y), b(cert), b(gd.is_some()));
            if x != y {
                fails.push(format!("FAIL.asymmetric={}{}", b(*x), b(*y)));
            }
            if cert && !(*x && *y) {
                fails.push(format!("FAIL.false_negative={}{}", b(*x), b(*y)));
            }
            if let Some(why) = gd {
                if *x || *y {
                    fails.push(format!("FAIL.false_positive_ground={}", why));
                }
            }
        }
        (r1, r2) => {
            s += &format!(" iso=err cert={} ground_differs={}", b(cert), b(gd.is_some()));
            fails.push(format!(
                "FAIL.error={}",
                hex(&format!("{:?}/{:?}", r1.as_ref().err(), r2.as_ref().err()))
            ));
        }
    }
    for f in fails {
        s.push(' ');
        s += &f;
    }
    s
}

// ------------------------------------------------------------------ generator

const IRIS: &[&str] = &["x:p", "x:q", "http://ex.org/a", "http://ex.org/é"];
const LABELS: &[&str] = &["b0", "b1", "b2", "x.y", "0"];
const FRESH: &[&str] = &["n0", "n1", "n2", "n3", "n4", "z"];

struct G7 {
    /// probability (in 1/8) that a term is a blank node
    bn: usize,
    /// quoted triples allowed
    star: bool,
    /// any term in any position (else strict RDF-star positions)
    generalized: bool,
    nlabels: usize,
}

impl G7 {
    fn iri(&self, r: &mut Rng) -> T {
        T::Iri(r.pick(IRIS).to_string())
    }
    fn bnode(&self, r: &mut Rng) -> T {
        T::Bnode(LABELS[r.below(self.nlabels)].to_string())
    }
    fn lit(&self, r: &mut Rng) -> T {
        match r.below(4) {
            0 => T::Lang("chat".into(), r.pick(&["en", "EN", "fr"]).to_string()),
            1 => T::Lit("1".into(), "http://www.w3.org/2001/XMLSchema#integer".into()),
            2 => T::Lit("a".into(), "http://www.w3.org/2001/XMLSchema#string".into()),
            _ => T::Lit("".into(), "http://www.w3.org/2001/XMLSchema#string".into()),
        }
    }
    fn node(&self, r: &mut Rng, depth: usize, object: bool) -> T {
        let k = r.below(8);
        if k < self.bn {
            self.bnode(r)
        } else if self.star && depth > 0 && r.chance(1, 3) {
            T::Triple(Box::new([self.node(r, depth - 1, false), self.pred(r, depth - 1), self.node(r, depth - 1, true)]))
        } else if (object || self.generalized) && r.chance(1, 3) {
            self.lit(r)
        } else if self.generalized && r.chance(1, 8) {
            T::Var(r.pick(&["v", "w"]).to_string())
        } else {
            self.iri(r)
        }
    }
    fn pred(&self, r: &mut Rng, depth: usize) -> T {
        if self.generalized && r.chance(1, 4) { self.node(r, depth, true) } else { self.iri(r) }
    }
    fn quad(&self, r: &mut Rng, graph_only: bool) -> Q {
        let g = if graph_only {
            None
        } else {
            match r.below(6) {
                0 | 1 => None,
                2 => Some(self.iri(r)),
                3 | 4 => Some(self.bnode(r)),
                _ if self.generalized => Some(self.node(r, 1, true)),
                _ => Some(self.iri(r)),
            }
        };
        Q { s: self.node(r, 2, false), p: self.pred(r, 2), o: self.node(r, 2, true), g }
    }
}

fn dedup(d: Vec<Q>) -> Vec<Q> {
    let mut seen = BTreeSet::new();
    d.into_iter().filter(|q| seen.insert(norm(q))).collect()
}

fn shuffle<X>(r: &mut Rng, v: &mut [X]) {
    for i in (1..v.len()).rev() {
        v.swap(i, r.below(i + 1));
    }
}

/// hand-made shapes: symmetric structures, indistinguishable blank nodes, one label in several positions
fn shapes() -> Vec<Vec<Q>> {
    let bn = |s: &str| T::Bnode(s.to_string());
    let i = |s: &str| T::Iri(s.to_string());
    let tr = |a: T, b: T, c: T| T::Triple(Box::new([a, b, c]));
    let q = |s: T, p: T, o: T, g: Option<T>| Q { s, p, o, g };
    vec![
        vec![],
        vec![q(tr(bn("b0"), i("x:p"), i("x:q")), i("x:p"), i("x:q"), None)],
        vec![q(bn("b0"), i("x:p"), tr(i("x:q"), i("x:p"), tr(bn("b1"), i("x:p"), bn("b0"))), None)],
        vec![q(bn("b0"), i("x:p"), bn("b1"), None), q(bn("b1"), i("x:p"), bn("b0"), None), q(bn("b2"), i("x:p"), bn("b2"), None)],
        vec![q(bn("b0"), i("x:p"), bn("b1"), None), q(bn("b1"), i("x:p"), bn("b2"), None), q(bn("b2"), i("x:p"), bn("b0"), None)],
        vec![q(bn("b0"), i("x:p"), bn("b0"), Some(bn("b0"))), q(i("x:q"), i("x:p"), i("x:q"), Some(bn("b1")))],
        vec![q(i("x:q"), i("x:p"), i("x:q"), Some(bn("b0"))), q(i("x:q"), i("x:p"), i("x:q"), Some(bn("b1")))],
        vec![q(bn("b0"), bn("b1"), bn("b2"), Some(bn("x.y"))), q(bn("b2"), bn("b1"), bn("b0"), Some(bn("x.y")))],
        vec![
            q(tr(bn("b0"), i("x:p"), bn("b1")), i("x:q"), tr(bn("b1"), i("x:p"), bn("b0")), None),
            q(bn("b0"), i("x:p"), T::Lang("chat".into(), "en".into()), None),
        ],
        vec![q(bn("b0"), i("x:p"), bn("b1"), None), q(bn("b0"), i("x:p"), bn("b2"), None), q(bn("b1"), i("x:q"), bn("b2"), None)],
        // XOR cancellation: the number of colour classes *decreases* from round 1 to round 2 (3, 2, 2 and 5, 4, 4):
        // nodes all of whose statements pair up with equal hashes fall back to digest 0 (the model reports mono=0)
        [(0, 3), (0, 5), (3, 0), (3, 5), (4, 1), (4, 2), (5, 1), (5, 2)].iter().map(|&(a, b)| q(bn(&format!("b{}", a)), i("x:p"), bn(&format!("b{}", b)), None)).collect(),
        [(0, 4), (0, 7), (1, 6), (2, 4), (2, 7), (3, 7), (5, 7)].iter().map(|&(a, b)| q(bn(&format!("b{}", a)), i("x:p"), bn(&format!("b{}", b)), None)).collect(),
    ]
}

fn pick_containers(r: &mut Rng, graph_ok: bool) -> (&'static str, &'static str) {
    // the five original containers carry most of the weight; the others (another term type, the other tuple
    // layout, slices, a store after removals, dataset views) are mixed in on either side
    let pick = |r: &mut Rng, all: &'static [&'static str]| if r.chance(2, 3) { all[r.below(5)] } else { all[5 + r.below(all.len() - 5)] };
    if graph_ok && r.chance(1, 2) { (pick(r, GRAPHS), pick(r, GRAPHS)) } else { (pick(r, DATASETS), pick(r, DATASETS)) }
}

fn bucket(n: usize) -> &'static str {
    match n {
        0 => "0",
        1..=2 => "1-2",
        3..=5 => "3-5",
        6..=11 => "6-11",
        12..=23 => "12-23",
        24..=47 => "24-47",
        48..=99 => "48-99",
        100..=299 => "100-299",
        _ => "300+",
    }
}

fn render_beta(beta: &BTreeMap<String, String>) -> String {
    if beta.is_empty() {
        return "-".into();
    }
    beta.iter().map(|(k, v)| format!("{}:{}", hex(k), hex(v))).collect::<Vec<_>>().join(",")
}

fn emit(ctx: &mut GenCtx, kind: &str, beta: &BTreeMap<String, String>, d1: &[Q], d2: &[Q]) {
    emit_in(ctx, kind, beta, d1, d2, false)
}

/// list-like containers (they can hold one statement several times)
const LIST_D: &[&str] = &["vec", "arc", "dgspo", "slice"];
const LIST_G: &[&str] = &["gvec", "garc", "grc"];

fn emit_in(ctx: &mut GenCtx, kind: &str, beta: &BTreeMap<String, String>, d1: &[Q], d2: &[Q], list_only: bool) {
    let graph_ok = d1.iter().chain(d2.iter()).all(|q| q.g.is_none());
    let (c1, c2) = if !list_only {
        pick_containers(&mut ctx.rng, graph_ok)
    } else if graph_ok && ctx.rng.chance(1, 2) {
        (*ctx.rng.pick(LIST_G), *ctx.rng.pick(LIST_G))
    } else {
        (*ctx.rng.pick(LIST_D), *ctx.rng.pick(LIST_D))
    };
    let qs = |d: &[Q]| d.iter().map(|q| q.render()).collect::<Vec<_>>().join(" ");
    ctx.stats.bump(&format!("kind.{}", kind));
    ctx.stats.bump(&format!("container.{}", c1));
    ctx.stats.bump(&format!("container.{}", c2));
    ctx.stats.bump(if c1 == c2 { "containers.same" } else { "containers.different" });
    let other_terms = |c: &str| matches!(c, "arc" | "garc" | "grc");
    if other_terms(c1) != other_terms(c2) {
        ctx.stats.bump("containers.two_term_types");
    }
    // which clause of the property (if any) fixes the answer of this pair
    ctx.stats.bump(if cert_ok(beta, d1, d2) {
        "pair.answer.must_be_true(certified_relabelling)"
    } else if ground_differs(d1, d2).is_some() {
        "pair.answer.must_be_false(size|bcount|ground)"
    } else {
        "pair.answer.refinement_decides(model_vs_impl_only)"
    });
    let n = d1.len().max(d2.len());
    ctx.stats.bump(&format!("pair.statements.{}", bucket(n)));
    ctx.stats.bump(&format!("pair.labels.{}", bucket(labels(d1).len().max(labels(d2).len()))));
    let line = format!("iso {} {} {} {} {} | {}", kind, c1, c2, render_beta(beta), qs(d1), qs(d2));
    if ctx.stats.samples.len() < 4 {
        ctx.stats.sample(line.clone());
    }
    ctx.emit(&line);
}

/// a renaming of the labels of `d`: permutation of the labels among themselves and/or fresh labels;
/// `keep_nested`: identity on the labels occurring inside quoted triples
fn random_beta(r: &mut Rng, d: &[Q], keep_nested: bool) -> BTreeMap<String, String> {
    let occ = occurrences(d);
    let nested: BTreeSet<String> = occ.iter().filter(|x| x.1).map(|x| x.0.clone()).collect();
    let ls: Vec<String> = labels(d).into_iter().filter(|l| !(keep_nested && nested.contains(l))).collect();
    let mut img: Vec<String> = ls.clone();
    let fresh = |i: usize| if i < FRESH.len() { FRESH[i].to_string() } else { format!("f{}", i) };
    match r.below(4) {
        0 => shuffle(r, &mut img),
        1 => img = ls.iter().enumerate().map(|(i, _)| fresh(i)).collect(),
        // the lexical order of the labels inverted (`ls` is sorted)
        2 => img.reverse(),
        _ => {
            shuffle(r, &mut img);
            if !img.is_empty() {
                let k = r.below(img.len());
                img[k] = "fresh".to_string();
            }
        }
    }
    ls.into_iter().zip(img).collect()
}

fn ground_terms_mut<'a>(t: &'a mut T, out: &mut Vec<&'a mut T>) {
    match t {
        T::Triple(b) => {
            for x in b.iter_mut() {
                ground_terms_mut(x, out);
            }
        }
        T::Bnode(_) => {}
        _ => out.push(t),
    }
}

fn edit_ground(r: &mut Rng, d: &mut [Q]) -> bool {
    if d.is_empty() {
        return false;
    }
    let k = r.below(d.len());
    let q = &mut d[k];
    if r.chance(1, 6) {
        // the graph name itself: default graph <-> named graph
        q.g = match q.g {
            None => Some(T::Iri("x:g".into())),
            Some(_) => None,
        };
        return true;
    }
    let mut v = vec![];
    ground_terms_mut(&mut q.s, &mut v);
    ground_terms_mut(&mut q.p, &mut v);
    ground_terms_mut(&mut q.o, &mut v);
    if let Some(g) = q.g.as_mut() {
        ground_terms_mut(g, &mut v);
    }
    if v.is_empty() {
        return false;
    }
    let k = r.below(v.len());
    let t = &mut *v[k];
    *t = match t {
        T::Iri(s) => T::Iri(format!("{}x", s)),
        T::Lit(l, d) => {
            if r.chance(1, 2) { T::Lit(format!("{}x", l), d.clone()) } else { T::Lit(l.clone(), format!("{}x", d)) }
        }
        T::Lang(l, tag) => {
            if r.chance(1, 2) { T::Lang(format!("{}x", l), tag.clone()) } else { T::Lang(l.clone(), "de".into()) }
        }
        T::Var(s) => T::Var(format!("{}x", s)),
        _ => unreachable!(),
    };
    true
}

fn bnodes_mut<'a>(t: &'a mut T, out: &mut Vec<&'a mut T>) {
    match t {
        T::Triple(b) => {
            for x in b.iter_mut() {
                bnodes_mut(x, out);
            }
        }
        T::Bnode(_) => out.push(t),
        _ => {}
    }
}

fn all_bnodes_mut(d: &mut [Q]) -> Vec<&mut T> {
    let mut v = vec![];
    for q in d.iter_mut() {
        bnodes_mut(&mut q.s, &mut v);
        bnodes_mut(&mut q.p, &mut v);
        bnodes_mut(&mut q.o, &mut v);
        if let Some(g) = q.g.as_mut() {
            bnodes_mut(g, &mut v);
        }
    }
    v
}

fn variants(ctx: &mut GenCtx, gen_: &G7, d: &[Q], graph_only: bool) {
    let none = BTreeMap::new();
    // 1. relabelled + shuffled copies
    for keep_nested in [true, false] {
        let beta = random_beta(&mut ctx.rng, d, keep_nested);
        let mut d2: Vec<Q> = d.iter().map(|q| relabel(q, &beta)).collect();
        shuffle(&mut ctx.rng, &mut d2);
        let moved_nested = occurrences(d).iter().any(|(l, n)| *n && beta.get(l).map(|x| x != l).unwrap_or(false));
        if moved_nested {
            ctx.stats.bump("relabel.renames_nested_bnode");
        }
        if occurrences(d).iter().any(|x| x.1) {
            ctx.stats.bump("relabel.has_nested_bnode");
        }
        if d.iter().any(|q| matches!(q.g, Some(T::Bnode(_)))) {
            ctx.stats.bump("relabel.has_bnode_graph_name");
        }
        emit(ctx, if keep_nested { "relabel_top" } else { "relabel_any" }, &beta, d, &d2);
        // the relabelled copy is the base of the one-edit variants
        if keep_nested {
            continue;
        }
        // 1b. list-like containers holding a statement several times (a `Vec` is a `Dataset`; nothing in
        // isomorphic_datasets turns it into a set): copies with the same repetitions must answer true, a
        // different number of repetitions is a different size, repetitions of another statement a different
        // multiset of blanked-out statements
        if !d.is_empty() {
            let with_dups = |r: &mut Rng, base: &[Q], which: usize| {
                let mut v = base.to_vec();
                for _ in 0..1 + r.below(2) {
                    let at = r.below(v.len() + 1);
                    v.insert(at, base[which].clone());
                }
                v
            };
            let i = ctx.rng.below(d.len());
            let d1 = with_dups(&mut ctx.rng, d, i);
            let mut c: Vec<Q> = d1.iter().map(|q| relabel(q, &beta)).collect();
            shuffle(&mut ctx.rng, &mut c);
            emit_in(ctx, "dup_copy", &beta, &d1, &c, true);
            emit_in(ctx, "dup_vs_once", &beta, &d1, &d2, true);
            // one more repetition on the other side
            let mut c3 = c.clone();
            let at = ctx.rng.below(c3.len() + 1);
            c3.insert(at, relabel(&d[i], &beta));
            emit_in(ctx, "dup_mult", &beta, &d1, &c3, true);
            if d.len() >= 2 {
                let mut j = ctx.rng.below(d.len() - 1);
                if j >= i {
                    j += 1;
                }
                // the same number of statements, but another one repeated
                let mut e = d.to_vec();
                for _ in 0..d1.len() - d.len() {
                    let at = ctx.rng.below(e.len() + 1);
                    e.insert(at, d[j].clone());
                }
                let mut e: Vec<Q> = e.iter().map(|q| relabel(q, &beta)).collect();
                shuffle(&mut ctx.rng, &mut e);
                emit_in(ctx, "dup_other", &beta, &d1, &e, true);
            }
        }
        // 2. one ground term changed
        let mut e = d2.clone();
        if edit_ground(&mut ctx.rng, &mut e) {
            let e = dedup(e);
            emit(ctx, "ground", &beta, d, &e);
        }
        // 3. one quad added / removed
        let mut e = d2.clone();
        e.push(gen_.quad(&mut ctx.rng, graph_only));
        let e = dedup(e);
        emit(ctx, "add", &beta, d, &e);
        if !d2.is_empty() {
            let mut e = d2.clone();
            e.remove(ctx.rng.below(e.len()));
            emit(ctx, "remove", &beta, d, &e);
        }
        // 4. two blank nodes merged
        let ls: Vec<String> = labels(&d2).into_iter().collect();
        if ls.len() >= 2 {
            let a = ctx.rng.below(ls.len());
            let mut b_ = ctx.rng.below(ls.len() - 1);
            if b_ >= a {
                b_ += 1;
            }
            let m: BTreeMap<String, String> = [(ls[a].clone(), ls[b_].clone())].into_iter().collect();
            let e = dedup(d2.iter().map(|q| relabel(q, &m)).collect());
            emit(ctx, "merge", &none, d, &e);
        }
        // 5. one occurrence of a blank node split off / moved to another existing label
        let mut e = d2.clone();
        let n_occ = all_bnodes_mut(&mut e).len();
        if n_occ > 0 {
            let k = ctx.rng.below(n_occ);
            let to_existing = ls.len() >= 2 && ctx.rng.chance(1, 2);
            let new = if to_existing { ctx.rng.pick(&ls).clone() } else { "split".to_string() };
            {
                let mut v = all_bnodes_mut(&mut e);
                *v[k] = T::Bnode(new);
            }
            let e = dedup(e);
            emit(ctx, if to_existing { "rewire" } else { "split" }, &none, d, &e);
        }
        // 6. the blank objects of two statements exchanged (degrees kept: only deeper refinement can tell)
        let idx: Vec<usize> = (0..d2.len()).filter(|&k| matches!(d2[k].o, T::Bnode(_))).collect();
        if idx.len() >= 2 {
            let a = idx[ctx.rng.below(idx.len())];
            let b_ = idx[ctx.rng.below(idx.len())];
            if d2[a].o != d2[b_].o {
                let mut e = d2.clone();
                let (oa, ob) = (e[a].o.clone(), e[b_].o.clone());
                e[a].o = ob;
                e[b_].o = oa;
                let e = dedup(e);
                emit(ctx, "swap", &none, d, &e);
            }
        }
    }
}

/// label pool of the larger shapes: four spellings, so that lexical order is unrelated to the index
fn lbl(i: usize) -> T {
    T::Bnode(match i % 4 {
        0 => format!("b{}", i),
        1 => format!("{}", i),
        2 => format!("x.{}", i),
        _ => format!("L{}", i),
    })
}

const BIG_KINDS: &[&str] = &[
    "chain", "cycle", "two_cycles", "star", "star_marked", "star_quoted", "chain_quoted", "fan_graph_name", "two_copies",
    "sparse", "tree",
];

fn sparse(r: &mut Rng, lo: usize, n: usize) -> Vec<Q> {
    let i = |s: &str| T::Iri(s.to_string());
    let m = n + r.below(2 * n);
    (0..m)
        .map(|k| {
            let o = if r.chance(1, 6) { T::Lit(format!("{}", k % 3), "http://www.w3.org/2001/XMLSchema#integer".into()) } else { lbl(lo + r.below(n)) };
            let g = if r.chance(1, 6) { Some(lbl(lo + r.below(n))) } else { None };
            Q { s: lbl(lo + r.below(n)), p: i(if r.chance(1, 2) { "x:p" } else { "x:q" }), o, g }
        })
        .collect()
}

/// shapes with 6-40 (thorough: up to 64) blank nodes: long refinement (chains), many blank-equal statements around
/// one node (stars), regular structures, components in two copies, one blank graph name shared by many statements
fn big_shape(r: &mut Rng, kind: &str, n: usize, fill: bool) -> Vec<Q> {
    let i = |s: &str| T::Iri(s.to_string());
    let tr = |a: T, b: T, c: T| T::Triple(Box::new([a, b, c]));
    let q = |s: T, p: T, o: T, g: Option<T>| Q { s, p, o, g };
    let lit = |k: usize| T::Lit(format!("{}", k), "http://www.w3.org/2001/XMLSchema#integer".into());
    let mut d: Vec<Q> = match kind {
        "chain" => (0..n - 1).map(|k| q(lbl(k), i("x:p"), lbl(k + 1), None)).collect(),
        "cycle" => (0..n).map(|k| q(lbl(k), i("x:p"), lbl((k + 1) % n), None)).collect(),
        "two_cycles" => {
            let h = n / 2;
            (0..h).map(|k| q(lbl(k), i("x:p"), lbl((k + 1) % h), None)).chain((0..h).map(|k| q(lbl(h + k), i("x:p"), lbl(h + (k + 1) % h), None))).collect()
        }
        "star" => (1..n).map(|k| q(lbl(0), i("x:p"), lbl(k), None)).collect(),
        "star_marked" => (1..n).flat_map(|k| [q(lbl(0), i("x:p"), lbl(k), None), q(lbl(k), i("x:q"), lit(k), None)]).collect(),
        "star_quoted" => (1..n)
            .map(|k| {
                let inner = tr(lbl(0), i("x:p"), lbl(k));
                if k % 2 == 0 { q(tr(i("x:q"), i("x:p"), inner), i("x:q"), lit(k % 5), None) } else { q(inner, i("x:q"), lit(k % 5), None) }
            })
            .collect(),
        "chain_quoted" => (0..n - 1)
            .map(|k| {
                if k % 3 == 0 {
                    q(tr(tr(lbl(k), i("x:p"), i("x:q")), i("x:q"), lbl(k + 1)), i("x:p"), i("x:q"), None)
                } else {
                    q(tr(lbl(k), i("x:p"), lbl(k + 1)), i("x:q"), T::Lang("chat".into(), "en".into()), None)
                }
            })
            .collect(),
        "fan_graph_name" => {
            let m = 40 + r.below(80);
            (0..m)
                .map(|k| q(i(&format!("x:s{}", k)), i("x:p"), i(&format!("x:o{}", k % 7)), Some(lbl(0))))
                .chain((1..n - 1).map(|k| q(lbl(k), i("x:p"), lbl(k + 1), Some(lbl(0)))))
                .collect()
        }
        "two_copies" => {
            let h = n / 2;
            let c = sparse(r, 0, h);
            let shift: BTreeMap<String, String> = (0..h).map(|k| (bn_label(&lbl(k)), bn_label(&lbl(h + k)))).collect();
            let c2: Vec<Q> = c.iter().map(|x| relabel(x, &shift)).collect();
            c.into_iter().chain(c2).collect()
        }
        "sparse" => sparse(r, 0, n),
        _ => (0..n).flat_map(|k| [2 * k + 1, 2 * k + 2].into_iter().filter(|&c| c < n).map(move |c| (k, c))).map(|(k, c)| q(lbl(k), i("x:p"), lbl(c), None)).collect(),
    };
    if r.chance(1, 2) {
        // one node made special: symmetric shapes then need about n rounds
        d.push(q(lbl(0), i("x:q"), T::Lit("anchor".into(), "http://www.w3.org/2001/XMLSchema#string".into()), None));
    }
    if fill {
        // every node mentioned by many more statements (>= 300 in all)
        let mut k = 0;
        while d.len() < 300 {
            d.push(q(lbl(k % n), i("x:f"), lit(k), None));
            k += 1;
        }
    }
    dedup(d)
}

fn bn_label(t: &T) -> String {
    match t {
        T::Bnode(b) => b.clone(),
        _ => unreachable!(),
    }
}

/// pairs that pass all three gates but are wired differently (no oracle; the model's refinement answer is compared):
/// the first two are regular (refinement cannot tell them apart), on the others it must
fn struct_pairs() -> Vec<(Vec<Q>, Vec<Q>)> {
    let bn = |k: usize| T::Bnode(format!("b{}", k));
    let i = |s: &str| T::Iri(s.to_string());
    let e = |a: usize, b: usize| Q { s: bn(a), p: i("x:p"), o: bn(b), g: None };
    let cyc = |lo: usize, n: usize| (0..n).map(move |k| e(lo + k, lo + (k + 1) % n)).collect::<Vec<_>>();
    let cat = |a: Vec<Q>, b: Vec<Q>| a.into_iter().chain(b).collect::<Vec<_>>();
    let gq = |s: usize, g: usize| Q { s: bn(s), p: i("x:p"), o: i("x:q"), g: Some(bn(g)) };
    vec![
        (cat(cyc(0, 3), cyc(3, 3)), cyc(0, 6)),
        (cat(cyc(0, 4), cyc(4, 4)), cyc(0, 8)),
        (vec![e(0, 1), e(1, 2), e(2, 3)], vec![e(0, 1), e(0, 2), e(0, 3)]),
        (vec![e(0, 1), e(0, 2), e(0, 3), e(4, 5)], vec![e(0, 1), e(0, 2), e(4, 5), e(4, 3)]),
        (cyc(0, 3), vec![e(0, 1), e(1, 2), e(0, 2)]),
        ((1..5).map(|k| e(0, k)).collect(), (1..5).map(|k| e(k, 0)).collect()),
        (vec![gq(0, 0), gq(1, 1)], vec![gq(0, 1), gq(1, 0)]),
        (cat(cyc(0, 5), vec![e(0, 5), e(5, 6)]), cat(cyc(0, 5), vec![e(0, 5), e(1, 6)])),
    ]
}

pub fn generate(ctx: &mut GenCtx) {
    // fixed shapes first, every container pairing on the first two
    for (k, d) in shapes().into_iter().enumerate() {
        let gen_ = G7 { bn: 3, star: true, generalized: false, nlabels: 3 };
        let graph_only = d.iter().all(|q| q.g.is_none());
        ctx.stats.bump("shape");
        for _ in 0..(if k < 3 { 12 } else { 3 }) {
            variants(ctx, &gen_, &d, graph_only);
        }
    }
    // pairs of shapes agreeing on all three gates but differently wired (no oracle: symmetry only)
    let sh = shapes();
    emit(ctx, "struct", &BTreeMap::new(), &sh[3], &sh[4]);
    emit(ctx, "struct", &BTreeMap::new(), &sh[4], &sh[3]);
    for (a, b_) in struct_pairs() {
        emit(ctx, "struct", &BTreeMap::new(), &a, &b_);
        emit(ctx, "struct", &BTreeMap::new(), &b_, &a);
    }
    // larger shapes
    // thorough counts chosen so that the tier stays under ~10 min on a loaded machine (measured: 1500/30000 -> 610 s)
    let nbig = if ctx.thorough { 1100 } else { 160 };
    for k in 0..nbig {
        let kind = BIG_KINDS[k % BIG_KINDS.len()];
        let n = 6 + ctx.rng.below(if ctx.thorough { 59 } else { 35 });
        // the model's insertion sort makes these cost ~0.1 s each: few in the quick tier
        let fill = k % (if ctx.thorough { 16 } else { 32 }) == 3;
        let d = big_shape(&mut ctx.rng, kind, n, fill);
        let graph_only = d.iter().all(|q| q.g.is_none());
        ctx.stats.bump(&format!("big.kind.{}", kind));
        ctx.stats.bump(&format!("big.labels.{}", bucket(labels(&d).len())));
        ctx.stats.bump(&format!("big.statements.{}", bucket(d.len())));
        let mut deg: BTreeMap<String, usize> = BTreeMap::new();
        for q in &d {
            for l in labels(std::slice::from_ref(q)) {
                *deg.entry(l).or_default() += 1;
            }
        }
        ctx.stats.bump(&format!("big.max_mentions.{}", bucket(deg.values().copied().max().unwrap_or(0))));
        let gen_ = G7 { bn: 3, star: true, generalized: false, nlabels: 3 };
        variants(ctx, &gen_, &d, graph_only);
    }
    let n = if ctx.thorough { 21000 } else { 2000 };
    for i in 0..n {
        let gen_ = G7 {
            bn: 2 + ctx.rng.below(5),
            star: i % 5 != 0,
            generalized: i % 3 == 0,
            nlabels: 1 + ctx.rng.below(LABELS.len()),
        };
        let graph_only = ctx.rng.chance(2, 5);
        let nq = match ctx.rng.below(20) {
            0 => 0,
            1..=3 => 1,
            4..=10 => 2 + ctx.rng.below(3),
            _ => 3 + ctx.rng.below(if ctx.thorough { 9 } else { 6 }),
        };
        let d = dedup((0..nq).map(|_| gen_.quad(&mut ctx.rng, graph_only)).collect());
        ctx.stats.bump(&format!("size.{}", d.len().min(8)));
        ctx.stats.bump(&format!("labels.{}", labels(&d).len()));
        if gen_.generalized {
            ctx.stats.bump("generalized");
        }
        variants(ctx, &gen_, &d, graph_only);
        // error paths: fallible containers failing at some index (or beyond the end = never)
        if i % 6 == 1 {
            let qs = |d: &[Q]| d.iter().map(|q| q.render()).collect::<Vec<_>>().join(" ");
            let pf = |r: &mut Rng, n: usize| match r.below(3) {
                0 => "-".to_string(),
                1 => format!("{}", r.below(n + 1)),
                _ => format!("{}", n + r.below(2)),
            };
            let beta = random_beta(&mut ctx.rng, &d, false);
            let mut d2: Vec<Q> = d.iter().map(|q| relabel(q, &beta)).collect();
            shuffle(&mut ctx.rng, &mut d2);
            if ctx.rng.chance(1, 3) && !d2.is_empty() {
                d2.pop();
            }
            let k = if graph_only && ctx.rng.chance(1, 2) { "g" } else { "d" };
            let (f1, f2) = (pf(&mut ctx.rng, d.len()), pf(&mut ctx.rng, d2.len()));
            ctx.stats.bump(&format!("errpath.{}.{}{}", k, if f1 == "-" { "ok" } else { "f" }, if f2 == "-" { "ok" } else { "f" }));
            ctx.emit(&format!("isoerr {} {} {} {} | {}", k, f1, f2, qs(&d), qs(&d2)));
        }
        // two unrelated datasets
        if i % 4 == 0 {
            let d2 = dedup((0..nq).map(|_| gen_.quad(&mut ctx.rng, graph_only)).collect());
            emit(ctx, "rand", &BTreeMap::new(), &d, &d2);
        }
    }
}

fn main() {
    vhcore::main_loop(generate, exec);
}
