//! C20 — native Rust values as typed literals and back (api/src/term/_native_literal.rs).
//!
//! requests (one per line):
//!   i32|isize|usize <decimal>     the native value used as a term: lexical form, datatype, and
//!                                 `T::try_from_term` on the value itself, on a `SimpleTerm` copy, on an
//!                                 `ArcTerm` copy and on the term read back from an N-Triples document
//!   bool 0|1
//!   str <hex>
//!   f64 <bits:16 hex> <hex L>     L = `lexical_form()` as produced by the real impl at generation time
//!                                 (the Lean side decides validity / denotation of L)
//!   parse <type> <term>           `T::try_from_term(term)` for an arbitrary term (prefix notation of `T::render`)
//!   lex <datatype> <hex>          membership in an XSD lexical space: hand-written Rust recogniser vs Lean regex
//!   h3                            what the implementation prints for ±inf / NaN, how the special spellings parse,
//!                                 integer widths
//!   wl                            observed whitelists: every xsd:* name of ns.rs probed on every native type
//!   h12 <seed> <n>                H1/H2 of DESIGN 4.20 on n pseudo-random doubles, in-process
//!
//! floats are compared through `to_bits` only; decimal text of a float appears only as the lexical
//! form under test.
use sophia_api::source::TripleSource;
use sophia_api::term::{FromTerm, SimpleTerm, Term, TermKind, TryFromTerm};
use sophia_term::ArcTerm;
use vhcore::tgen::to_simple;
use vhcore::util::*;
use vhcore::GenCtx;

const XSD: &str = "http://www.w3.org/2001/XMLSchema#";

/// every term of `pub mod xsd` in api/src/ns.rs (the Lean side has the regenerated list; `wl` compares)
const XSD_NAMES: &[&str] = &[
    "anyType", "anySimpleType", "duration", "dateTime", "time", "date", "gYearMonth", "gYear", "gMonthDay", "gDay",
    "gMonth", "boolean", "base64Binary", "hexBinary", "float", "double", "anyURI", "QName", "NOTATION", "string",
    "normalizedString", "token", "language", "Name", "NCName", "ID", "IDREF", "IDREFS", "ENTITY", "ENTITIES",
    "NMTOKEN", "NMTOKENS", "decimal", "integer", "nonPositiveInteger", "negativeInteger", "long", "int", "short",
    "byte", "nonNegativeInteger", "unsignedLong", "unsignedInt", "unsignedShort", "unsignedByte", "positiveInteger",
];

// ------------------------------------------------------------------------------------------ helpers

fn nt_roundtrip<T: Term>(t: T) -> Result<SimpleTerm<'static>, String> {
    let mut buf: Vec<u8> = Vec::new();
    buf.extend_from_slice(b"<x:s> <x:p> ");
    sophia_turtle::serializer::nt::write_term(&mut buf, t).map_err(|e| format!("ser:{}", e))?;
    buf.extend_from_slice(b" .\n");
    let txt = String::from_utf8(buf).map_err(|_| "ser:utf8".to_string())?;
    let g: Vec<[SimpleTerm<'static>; 3]> =
        sophia_turtle::parser::nt::parse_str(&txt).collect_triples().map_err(|e| format!("parse:{}", e))?;
    if g.len() != 1 {
        return Err(format!("parse:{}-triples", g.len()));
    }
    Ok(g.into_iter().next().unwrap()[2].clone())
}

fn int_err(e: &std::num::ParseIntError) -> String {
    format!("err:{:?}", e.kind())
}

fn float_err(e: &std::num::ParseFloatError) -> &'static str {
    if e.to_string().contains("empty") { "empty" } else { "invalid" }
}

fn show_bits(x: f64) -> String {
    if x.is_nan() { "nan".to_string() } else { format!("{:016x}", x.to_bits()) }
}

/// (lex, dt) of a term that must be a plain typed literal
fn lit_parts<T: Term>(t: T, fails: &mut Vec<String>) -> (String, String) {
    if t.kind() != TermKind::Literal {
        fails.push("kind".into());
    }
    if t.language_tag().is_some() {
        fails.push("lang".into());
    }
    let lex = t.lexical_form().map(|s| s.to_string()).unwrap_or_else(|| "<none>".into());
    let dt = t.datatype().map(|d| d.as_str().to_string()).unwrap_or_else(|| "<none>".into());
    (lex, dt)
}

/// the four representations of one native value: the value itself, a `SimpleTerm` copy, an `ArcTerm`
/// copy, the term read back from N-Triples; each must convert back to `want`
macro_rules! native_reply {
    ($v:expr, $ty:ty, $show:expr, $want:expr) => {{
        let v = $v;
        let want: String = $want;
        let mut fails: Vec<String> = vec![];
        let (lex, dt) = lit_parts(v, &mut fails);
        let show = $show;
        let b0: String = show(<$ty>::try_from_term(v));
        let st: SimpleTerm = SimpleTerm::from_term(v);
        let (l1, d1) = lit_parts(&st, &mut fails);
        let b1: String = show(<$ty>::try_from_term(&st));
        let at: ArcTerm = ArcTerm::from_term(v);
        let (l2, d2) = lit_parts(&at, &mut fails);
        let b2: String = show(<$ty>::try_from_term(&at));
        let (l3, d3, b3) = match nt_roundtrip(v) {
            Ok(t) => {
                let (l, d) = lit_parts(&t, &mut fails);
                (l, d, show(<$ty>::try_from_term(&t)))
            }
            Err(e) => (format!("<{}>", e), String::new(), format!("err:{}", e)),
        };
        if l1 != lex || l2 != lex || d1 != dt || d2 != dt {
            fails.push("copy-changed".into());
        }
        if l3 != lex || d3 != dt {
            fails.push("nt-changed".into());
        }
        for (nm, b) in [("self", &b0), ("simple", &b1), ("arc", &b2), ("nt", &b3)] {
            if *b != want {
                fails.push(format!("{}:{}", nm, b));
            }
        }
        let mut out = format!(
            "lex={} dt={} back={} back.simple={} back.arc={} back.nt={}",
            hex(&lex), hex(&dt), b0, b1, b2, b3
        );
        if !fails.is_empty() {
            out += &format!(" FAIL.roundtrip={}", fails.join(","));
        }
        out
    }};
}

// hand-written recognisers of the XSD lexical spaces (second, independent transcription; compared with
// the Lean regexes by `lex` requests)
fn all_digits(s: &str) -> bool {
    !s.is_empty() && s.bytes().all(|b| b.is_ascii_digit())
}
fn strip_sign(s: &str) -> &str {
    s.strip_prefix('+').or_else(|| s.strip_prefix('-')).unwrap_or(s)
}
fn is_xsd_integer(s: &str) -> bool {
    all_digits(strip_sign(s))
}
fn is_decimal_nosign(s: &str) -> bool {
    match s.find('.') {
        None => all_digits(s),
        Some(i) => {
            let (a, b) = (&s[..i], &s[i + 1..]);
            let digs = |x: &str| x.bytes().all(|c| c.is_ascii_digit());
            digs(a) && digs(b) && !(a.is_empty() && b.is_empty()) && !b.contains('.')
        }
    }
}
fn is_xsd_decimal(s: &str) -> bool {
    is_decimal_nosign(strip_sign(s))
}
fn is_xsd_double(s: &str) -> bool {
    if matches!(s, "INF" | "+INF" | "-INF" | "NaN") {
        return true;
    }
    let body = strip_sign(s);
    match body.find(['e', 'E']) {
        None => is_decimal_nosign(body),
        Some(i) => is_decimal_nosign(&body[..i]) && is_xsd_integer(&body[i + 1..]),
    }
}
/// `Char` of XML 1.1 (a superset of XML 1.0's): only U+0000, U+FFFE, U+FFFF are excluded
fn is_xml_char(c: char) -> bool {
    matches!(c as u32, 0x1..=0xD7FF | 0xE000..=0xFFFD | 0x10000..=0x10FFFF)
}
/// H1: `-?[0-9]+(\.[0-9]+)?`
fn is_rust_finite_display(s: &str) -> bool {
    let b = s.strip_prefix('-').unwrap_or(s);
    match b.find('.') {
        None => all_digits(b),
        Some(i) => all_digits(&b[..i]) && all_digits(&b[i + 1..]),
    }
}

// ------------------------------------------------------------------------------------------ exec

fn b(x: bool) -> &'static str {
    if x { "1" } else { "0" }
}

pub fn exec(line: &str) -> String {
    let f: Vec<&str> = line.split_whitespace().collect();
    match f.as_slice() {
        ["i32", a] => {
            let Ok(v) = a.parse::<i32>() else { return "bad-range".into() };
            native_reply!(v, i32, |r: Result<i32, _>| match r {
                Ok(x) => x.to_string(),
                Err(e) => int_err(&e),
            }, a.trim_start_matches('+').to_string())
        }
        ["isize", a] => {
            let Ok(v) = a.parse::<isize>() else { return "bad-range".into() };
            native_reply!(v, isize, |r: Result<isize, _>| match r {
                Ok(x) => x.to_string(),
                Err(e) => int_err(&e),
            }, a.trim_start_matches('+').to_string())
        }
        ["usize", a] => {
            let Ok(v) = a.parse::<usize>() else { return "bad-range".into() };
            native_reply!(v, usize, |r: Result<usize, _>| match r {
                Ok(x) => x.to_string(),
                Err(e) => int_err(&e),
            }, a.trim_start_matches('+').to_string())
        }
        ["bool", a] => {
            let v = match *a {
                "0" => false,
                "1" => true,
                _ => return "bad-op".into(),
            };
            native_reply!(v, bool, |r: Result<bool, _>| match r {
                Ok(x) => x.to_string(),
                Err(_) => "err:invalid".to_string(),
            }, v.to_string())
        }
        ["str", h] => {
            let Some(s) = unhex(h) else { return "bad-hex".into() };
            let v: &str = s.as_str();
            let mut fails: Vec<String> = vec![];
            let (lex, dt) = lit_parts(v, &mut fails);
            let st: SimpleTerm = SimpleTerm::from_term(v);
            let (l1, d1) = lit_parts(&st, &mut fails);
            let at: ArcTerm = ArcTerm::from_term(v);
            let (l2, d2) = lit_parts(&at, &mut fails);
            let (l3, d3) = match nt_roundtrip(v) {
                Ok(t) => lit_parts(&t, &mut fails),
                Err(e) => (format!("<{}>", e), String::new()),
            };
            for (nm, l, d) in [("simple", &l1, &d1), ("arc", &l2, &d2), ("nt", &l3, &d3)] {
                if *l != s || *d != dt {
                    fails.push(nm.to_string());
                }
            }
            let mut out = format!("lex={} dt={} back={}", hex(&lex), hex(&dt), hex(&l3));
            if !fails.is_empty() {
                out += &format!(" FAIL.roundtrip={}", fails.join(","));
            }
            out
        }
        ["f64", hb, hl] => {
            let (Ok(bits), Some(l)) = (u64::from_str_radix(hb, 16), unhex(hl)) else { return "bad-hex".into() };
            if hb.len() != 16 {
                return "bad-op".into();
            }
            let v = f64::from_bits(bits);
            let cls = if v.is_nan() {
                "nan"
            } else if v == f64::INFINITY {
                "inf"
            } else if v == f64::NEG_INFINITY {
                "ninf"
            } else {
                "finite"
            };
            let mut out = native_reply!(v, f64, |r: Result<f64, _>| match r {
                Ok(x) => show_bits(x),
                Err(e) => format!("err:{}", float_err(&e)),
            }, show_bits(v));
            out += &format!(" cls={}", cls);
            let lex = v.lexical_form().unwrap().to_string();
            if lex != l {
                out += " FAIL.lex-unstable=1";
            }
            if v.is_finite() {
                let h1 = is_rust_finite_display(&lex);
                out += &format!(" h1={}", b(h1));
                if !h1 {
                    out += " FAIL.h1=1";
                }
                match lex.parse::<f64>() {
                    Ok(y) if y.to_bits() == bits => {}
                    _ => out += " FAIL.h2=1",
                }
            }
            out
        }
        ["parse", ty, rest @ ..] => {
            let mut it = rest.iter().copied();
            let Some(t) = T::parse(&mut it) else { return "bad-op".into() };
            if it.next().is_some() {
                return "bad-op".into();
            }
            let st = to_simple(&t);
            let at: ArcTerm = ArcTerm::from_term(&st);
            macro_rules! run {
                ($t:ty, $show:expr) => {{
                    let show = $show;
                    let r1: String = show(<$t>::try_from_term(&st));
                    let r2: String = show(<$t>::try_from_term(&at));
                    let r3: String = show(<$t>::try_from_term(st.clone()));
                    if r1 != r2 || r1 != r3 {
                        format!("{} FAIL.repr={}/{}", r1, r2.replace(' ', ","), r3.replace(' ', ","))
                    } else {
                        r1
                    }
                }};
            }
            match *ty {
                "i32" => run!(i32, |r: Result<i32, std::num::ParseIntError>| match r {
                    Ok(x) => format!("ok=1 val={}", x),
                    Err(e) => format!("ok=0 err={:?}", e.kind()),
                }),
                "isize" => run!(isize, |r: Result<isize, std::num::ParseIntError>| match r {
                    Ok(x) => format!("ok=1 val={}", x),
                    Err(e) => format!("ok=0 err={:?}", e.kind()),
                }),
                "usize" => run!(usize, |r: Result<usize, std::num::ParseIntError>| match r {
                    Ok(x) => format!("ok=1 val={}", x),
                    Err(e) => format!("ok=0 err={:?}", e.kind()),
                }),
                "bool" => run!(bool, |r: Result<bool, std::str::ParseBoolError>| match r {
                    Ok(x) => format!("ok=1 val={}", x),
                    Err(_) => "ok=0 err=invalid".to_string(),
                }),
                "f64" => run!(f64, |r: Result<f64, std::num::ParseFloatError>| match r {
                    Ok(x) => format!("ok=1 val={}", show_bits(x)),
                    Err(e) => format!("ok=0 err={}", float_err(&e)),
                }),
                _ => "bad-op".into(),
            }
        }
        ["lex", name, h] => {
            let Some(s) = unhex(h) else { return "bad-hex".into() };
            let m = match *name {
                "integer" => is_xsd_integer(&s),
                "boolean" => matches!(s.as_str(), "true" | "false" | "1" | "0"),
                "double" => is_xsd_double(&s),
                "decimal" => is_xsd_decimal(&s),
                "string" => s.chars().all(is_xml_char),
                "rustFinite" => is_rust_finite_display(&s),
                _ => return "bad-op".into(),
            };
            format!("member={}", b(m))
        }
        ["h3"] => {
            let lx = |x: f64| hex(&x.lexical_form().unwrap());
            let p = |s: &str| match s.parse::<f64>() {
                Ok(x) => show_bits(x),
                Err(_) => "err".to_string(),
            };
            format!(
                "inf={} ninf={} nan={} nnan={} p.inf={} p.-inf={} p.NaN={} p.INF={} p.-INF={} p.+INF={} p.infinity={} p.nan={} \
                 i32.min={} i32.max={} isize.min={} isize.max={} usize.min={} usize.max={}",
                lx(f64::INFINITY), lx(f64::NEG_INFINITY), lx(f64::NAN), lx(-f64::NAN),
                p("inf"), p("-inf"), p("NaN"), p("INF"), p("-INF"), p("+INF"), p("infinity"), p("nan"),
                i32::MIN, i32::MAX, isize::MIN, isize::MAX, usize::MIN, usize::MAX
            )
        }
        ["wl"] => {
            // behavioural whitelist: datatype name is accepted iff a literal with an always-parsable lexical
            // form converts
            let mut out = vec![];
            macro_rules! probe {
                ($name:expr, $t:ty, $lex:expr) => {{
                    let mut acc: Vec<&str> = XSD_NAMES
                        .iter()
                        .copied()
                        .filter(|n| <$t>::try_from_term(&to_simple(&T::Lit($lex.to_string(), format!("{}{}", XSD, n)))).is_ok())
                        .collect();
                    acc.sort();
                    out.push(format!("{}={}", $name, acc.join(",")));
                }};
            }
            probe!("f64", f64, "1");
            probe!("i32", i32, "1");
            probe!("isize", isize, "1");
            probe!("usize", usize, "1");
            probe!("bool", bool, "true");
            out.join(" ")
        }
        ["h12", seed, n] => {
            let (Ok(seed), Ok(n)) = (seed.parse::<u64>(), n.parse::<usize>()) else { return "bad-op".into() };
            let mut r = Rng::new(seed);
            let (mut h1f, mut h2f) = (0usize, 0usize);
            let mut first: Option<u64> = None;
            let mut cnt = 0usize;
            for i in 0..n {
                let bits = random_bits(&mut r, i);
                let v = f64::from_bits(bits);
                if !v.is_finite() {
                    continue;
                }
                cnt += 1;
                let lex = v.lexical_form().unwrap();
                let ok1 = is_rust_finite_display(&lex);
                let ok2 = matches!(f64::try_from_term(v), Ok(y) if y.to_bits() == bits);
                if !ok1 {
                    h1f += 1;
                }
                if !ok2 {
                    h2f += 1;
                }
                if (!ok1 || !ok2) && first.is_none() {
                    first = Some(bits);
                }
            }
            let mut out = format!("h1fail={} h2fail={} finite={}", h1f, h2f, cnt);
            if let Some(x) = first {
                out += &format!(" FAIL.h12={:016x}", x);
            }
            out
        }
        _ => "bad-op".into(),
    }
}

// ------------------------------------------------------------------------------------------ gen

/// structured random doubles: uniform bits, uniform exponent, subnormals, integral values, short decimals
fn random_bits(r: &mut Rng, i: usize) -> u64 {
    match i % 6 {
        0 => r.next(),
        1 => {
            let e = r.below(2047) as u64;
            ((r.next() & 1) << 63) | (e << 52) | (r.next() & ((1u64 << 52) - 1))
        }
        2 => ((r.next() & 1) << 63) | (r.next() & ((1u64 << 52) - 1)) >> r.below(52), // subnormal
        3 => {
            let k = r.below(64);
            let v = ((r.next() >> k) as f64) * if r.chance(1, 2) { -1.0 } else { 1.0 };
            v.to_bits()
        }
        4 => {
            // short decimal m / 10^j (both exactly representable operands, one correctly rounded division)
            let m = (r.next() % 10_000_000) as f64;
            let j = r.below(20) as i32;
            (m / 10f64.powi(j)).to_bits()
        }
        _ => {
            // near a power of ten: 10^k and a few ulps around
            let k = r.below(617) as i32 - 308;
            let base = format!("1e{}", k).parse::<f64>().unwrap().to_bits();
            base.wrapping_add(r.below(5) as u64).wrapping_sub(2)
        }
    }
}

fn emit_f64(ctx: &mut GenCtx, bits: u64, what: &str) {
    let v = f64::from_bits(bits);
    let l = v.lexical_form().unwrap().to_string();
    ctx.stats.bump(&format!("f64.{}", what));
    if v.is_nan() {
        ctx.stats.bump("f64.class.nan");
    } else if v.is_infinite() {
        ctx.stats.bump("f64.class.inf");
    } else if v.is_subnormal() {
        ctx.stats.bump("f64.class.subnormal");
    } else if l.len() > 20 {
        ctx.stats.bump("f64.class.long-form");
    } else {
        ctx.stats.bump("f64.class.normal");
    }
    ctx.emit(&format!("f64 {:016x} {}", bits, hex(&l)));
}

fn lit(lex: &str, dt: &str) -> T {
    T::Lit(lex.to_string(), dt.to_string())
}

pub fn generate(ctx: &mut GenCtx) {
    let th = ctx.thorough;
    ctx.emit("h3");
    ctx.emit("wl");

    // ---- integers: extremes, powers of ten +-1, random
    let mut ints: Vec<i128> = vec![0, 1, -1, 7, 9, 10, 11, 42, -42, 99, 100, 101];
    for t in [i32::MIN as i128, i32::MAX as i128, i64::MIN as i128, i64::MAX as i128, u64::MAX as i128, u32::MAX as i128,
              i16::MIN as i128, i16::MAX as i128, 255, 256, 65535, 65536] {
        ints.extend([t - 1, t, t + 1]);
    }
    let mut p: i128 = 1;
    for _ in 0..20 {
        p *= 10;
        ints.extend([p - 1, p, p + 1, -p + 1, -p, -p - 1]);
    }
    let nrand = if th { 20000 } else { 600 };
    for _ in 0..nrand {
        let k = ctx.rng.below(64);
        let m = (ctx.rng.next() >> k) as i128;
        ints.push(if ctx.rng.chance(1, 2) { -m } else { m });
    }
    for n in &ints {
        if *n >= i32::MIN as i128 && *n <= i32::MAX as i128 {
            ctx.emit(&format!("i32 {}", n));
            ctx.stats.bump("native.i32");
        }
        if *n >= i64::MIN as i128 && *n <= i64::MAX as i128 {
            ctx.emit(&format!("isize {}", n));
            ctx.stats.bump("native.isize");
        }
        if *n >= 0 && *n <= u64::MAX as i128 {
            ctx.emit(&format!("usize {}", n));
            ctx.stats.bump("native.usize");
        }
    }
    ctx.emit("bool 0");
    ctx.emit("bool 1");
    ctx.stats.add("native.bool", 2);

    // ---- strings
    let long = "x".repeat(5000);
    let strs: Vec<String> = [
        "", "hello world", " leading and trailing ", "a\"b\\c\nd\re\tf", "42", "-0", "true", "INF", "é", "\u{10000}z",
        "\u{0}", "a\u{0}b", "\u{1}", "\u{8}", "\u{b}", "\u{c}", "\u{e}", "\u{1f}", "\u{7f}", "\u{85}", "\u{d7ff}",
        "\u{e000}", "\u{fffd}", "\u{fffe}", "\u{ffff}", "\u{10ffff}", "\u{feff}bom", "<a>&amp;</a>", "\\u0041", "'", "\"\"\"",
        long.as_str(),
    ]
    .iter()
    .map(|s| s.to_string())
    .collect();
    for s in &strs {
        ctx.emit(&format!("str {}", hex(s)));
        ctx.stats.bump("native.str.corpus");
    }
    let alphabet: Vec<char> = "ab 0-+.eE\"\\\n\r\t\u{0}\u{1}\u{1f}\u{7f}é\u{d7ff}\u{e000}\u{fffd}\u{fffe}\u{ffff}\u{10000}\u{10ffff}<>&'^@_:"
        .chars()
        .collect();
    for _ in 0..(if th { 5000 } else { 300 }) {
        let n = ctx.rng.below(8);
        let s: String = (0..n).map(|_| *ctx.rng.pick(&alphabet)).collect();
        ctx.stats.bump(if s.chars().all(is_xml_char) { "native.str.random.xmlchars" } else { "native.str.random.non-xml-char" });
        ctx.emit(&format!("str {}", hex(&s)));
    }

    // ---- f64: exhaustive edge table
    let edge: &[(&str, f64)] = &[
        ("zero", 0.0), ("negzero", -0.0), ("one", 1.0), ("minus-one", -1.0), ("max", f64::MAX), ("min", f64::MIN),
        ("min-positive", f64::MIN_POSITIVE), ("epsilon", f64::EPSILON), ("5e-324", 5e-324), ("-5e-324", -5e-324),
        ("max-subnormal", 2.225073858507201e-308), ("1e21", 1e21), ("1e22", 1e22), ("1e23", 1e23), ("1e-7", 1e-7),
        ("1e-6", 1e-6), ("1e15", 1e15), ("1e16", 1e16), ("1e17", 1e17), ("1e300", 1e300), ("1e-300", 1e-300),
        ("1.5e300", 1.5e300), ("0.1", 0.1), ("0.2", 0.2), ("0.1+0.2", 0.1 + 0.2), ("0.3", 0.3), ("1/3", 1.0 / 3.0),
        ("2/3", 2.0 / 3.0), ("pi", std::f64::consts::PI), ("e", std::f64::consts::E), ("3.14", 3.14), ("3.15", 3.15),
        ("2^53", 9007199254740992.0), ("2^53+2", 9007199254740994.0), ("2^53-1", 9007199254740991.0),
        ("17-digits-a", 5.0e-324 * 3.0), ("17-digits-b", 1.7976931348623155e308), ("17-digits-c", 0.30000000000000004),
        ("17-digits-d", 9.007199254740993e15), ("17-digits-e", 1.0000000000000002), ("17-digits-f", 0.9999999999999999),
        ("17-digits-g", 123456789012345680.0), ("2.2250738585072011e-308", 2.2250738585072011e-308),
        ("4.35", 4.35), ("2.675", 2.675), ("1e-5", 1e-5), ("123456.789", 123456.789), ("-123456.789e-20", -123456.789e-20),
        ("inf", f64::INFINITY), ("-inf", f64::NEG_INFINITY), ("nan", f64::NAN), ("-nan", -f64::NAN),
    ];
    for (w, v) in edge {
        let _ = w;
        emit_f64(ctx, v.to_bits(), "edge");
    }
    for bits in [0x7ff0000000000001u64, 0x7fffffffffffffff, 0xfff0000000000001, 0xffffffffffffffff, 0x7ff4000000000000,
                 0x000fffffffffffff, 0x0010000000000000, 0x0010000000000001, 0x7fefffffffffffff, 0xffefffffffffffff,
                 0x0000000000000002, 0x8000000000000001, 0x3ff0000000000001, 0x3fefffffffffffff, 0x4340000000000001] {
        emit_f64(ctx, bits, "edge-bits");
    }
    // every power of two and of ten, and their neighbours
    for e in (-1074..=1023).step_by(if th { 1 } else { 7 }) {
        let v = 2f64.powi(e);
        for d in [-1i64, 0, 1] {
            emit_f64(ctx, (v.to_bits() as i64 + d) as u64, "pow2");
        }
    }
    for k in (-323..=308).step_by(if th { 1 } else { 5 }) {
        let v: f64 = format!("1e{}", k).parse().unwrap();
        for d in [-1i64, 0, 1] {
            emit_f64(ctx, (v.to_bits() as i64 + d) as u64, "pow10");
        }
    }
    let nf = if th { 60000 } else { 2400 };
    for i in 0..nf {
        let bits = random_bits(&mut ctx.rng, i);
        emit_f64(ctx, bits, "random");
    }
    let seed = ctx.rng.next() % 1_000_000_007;
    ctx.emit(&format!("h12 {} {}", seed, if th { 1_000_000 } else { 60_000 }));

    // ---- arbitrary terms -> native
    let mut dts: Vec<String> = XSD_NAMES.iter().map(|n| format!("{}{}", XSD, n)).collect();
    dts.extend(
        [
            "http://www.w3.org/2001/XMLSchema#Integer", "http://www.w3.org/2001/XMLSchema#integerx",
            "http://www.w3.org/2001/XMLSchema#intege", "http://www.w3.org/2001/XMLSchemainteger",
            "http://www.w3.org/2001/XMLSchema#", "http://www.w3.org/2001/XMLSchema", "https://www.w3.org/2001/XMLSchema#integer",
            "http://www.w3.org/2001/XMLSchema#Double", "http://www.w3.org/2001/XMLSchema#Boolean",
            "http://www.w3.org/1999/02/22-rdf-syntax-ns#langString", "http://www.w3.org/1999/02/22-rdf-syntax-ns#integer",
            "http://ex.org/integer", "x:", "",
        ]
        .iter()
        .map(|s| s.to_string()),
    );
    let whitelisted_int = ["integer", "long", "int", "short", "unsignedLong", "unsignedInt", "unsignedShort", "unsignedByte",
                           "nonNegativeInteger", "nonPositiveInteger", "negativeInteger", "positiveInteger", "byte", "decimal"];
    let mut int_lex: Vec<String> = [
        "0", "1", "-1", "+1", "+0", "-0", "007", "-007", "+007", "0000000000000000000000000000000000000042",
        "-0000000000000000000000000000000000000042", "", "+", "-", " 1", "1 ", "1\n", "\t1", "1_0", "0x1", "1.0", "1.",
        ".1", "1e3", "1E3", "٣", "１", "--1", "+-1", "-+1", "1-", "1+1", "१२३", "NaN", "INF", "true", "one",
        "99999999999999999999999999999999999999", "-99999999999999999999999999999999999999",
        "99999999999999999999x", "x99999999999999999999", "9999999999999999999999999999999999999999999999999999999999999999x",
        "2147483647", "2147483648", "-2147483648", "-2147483649", "+2147483647", "+2147483648", "02147483648",
        "9223372036854775807", "9223372036854775808", "-9223372036854775808", "-9223372036854775809",
        "18446744073709551615", "18446744073709551616", "+18446744073709551615", "-18446744073709551615",
        "4294967295", "4294967296", "127", "128", "-128", "-129", "255", "256", "32767", "32768", "65535", "65536",
        "wrong datatype", "not a literal",
    ]
    .iter()
    .map(|s| s.to_string())
    .collect();
    for _ in 0..(if th { 3000 } else { 150 }) {
        // random sign / padding / magnitude around the type limits
        let base: i128 = *ctx.rng.pick(&[0i128, i32::MAX as i128, i32::MIN as i128, i64::MAX as i128, i64::MIN as i128, u64::MAX as i128]);
        let delta = ctx.rng.below(5) as i128 - 2;
        let v = base + delta * if ctx.rng.chance(1, 3) { 1000 } else { 1 };
        let mut s = String::new();
        if v < 0 {
            s.push('-');
        } else if ctx.rng.chance(1, 3) {
            s.push('+');
        }
        for _ in 0..ctx.rng.below(4) {
            s.push('0');
        }
        s += &v.unsigned_abs().to_string();
        if ctx.rng.chance(1, 12) {
            let junk = *ctx.rng.pick(&[' ', 'x', '.', '_', '-', '+', 'e', '٣']);
            let mut cs: Vec<char> = s.chars().collect();
            let at = ctx.rng.below(cs.len() + 1);
            cs.insert(at, junk);
            s = cs.into_iter().collect();
        }
        int_lex.push(s);
    }
    let non_literals = [
        T::Iri(format!("{}integer", XSD)), T::Iri("42".into()), T::Bnode("b42".into()), T::Var("v".into()),
        T::Triple(Box::new([T::Iri("x:s".into()), T::Iri("x:p".into()), lit("42", &format!("{}integer", XSD))])),
        T::Lang("42".into(), "en".into()), T::Lang("true".into(), "en".into()), T::Lang("1.5".into(), "en-GB".into()),
    ];
    for ty in ["i32", "isize", "usize", "bool", "f64"] {
        for t in &non_literals {
            ctx.emit(&format!("parse {} {}", ty, t.render()));
            ctx.stats.bump("parse.non-literal");
        }
    }
    // every datatype x a few lexical forms x every native type (whitelist boundary, exhaustive over ns.rs)
    for dt in &dts {
        for (ty, lexs) in [("i32", &["5", "-5", "x"][..]), ("isize", &["5", "-5"][..]), ("usize", &["5", "-5"][..]),
                           ("bool", &["true", "1"][..]), ("f64", &["5", "1.5e3", "INF"][..])] {
            for l in lexs {
                ctx.emit(&format!("parse {} {}", ty, lit(l, dt).render()));
                ctx.stats.bump("parse.datatype-sweep");
            }
        }
    }
    // integer lexical forms on accepted (and two refused numeric) datatypes
    for (i, l) in int_lex.iter().enumerate() {
        for ty in ["i32", "isize", "usize"] {
            let name = if i % 3 == 0 { "integer" } else { *ctx.rng.pick(&whitelisted_int[..]) };
            ctx.emit(&format!("parse {} {}", ty, lit(l, &format!("{}{}", XSD, name)).render()));
            ctx.stats.bump("parse.int-lexical");
        }
    }
    // boolean
    for l in ["true", "false", "1", "0", "True", "TRUE", "FALSE", " true", "true ", "", "yes", "no", "t", "01", "wrong datatype"] {
        for dt in ["boolean", "string", "integer"] {
            ctx.emit(&format!("parse bool {}", lit(l, &format!("{}{}", XSD, dt)).render()));
            ctx.stats.bump("parse.bool-lexical");
        }
    }
    // double / float / decimal lexical forms
    let mut f_lex: Vec<String> = [
        "0", "-0", "+0", "1", "1.", ".5", "-.5", "+.5", "1.5", "01.50", "1e5", "1E5", "1e+5", "1e-5", "1.5e3", "-1.5E-3",
        ".5e1", "5.e1", "INF", "-INF", "+INF", "NaN", "inf", "-inf", "+inf", "Inf", "infinity", "Infinity", "-INFINITY", "nan",
        "NAN", "-NaN", "+NaN", "", ".", "e5", "1e", "1e+", "1.5e", "-", "+", " 1", "1 ", "1_0", "0x10", "1f", "1d", "1,5",
        "1e5.5", "1..5", "1.5.5", "--1", "١", "1e400", "-1e400", "1e-400", "1e99999999999999999999", "0e99999999999999999999",
        "1e-99999999999999999999", "4.9e-324", "5e-324", "2.4703282292062327e-324", "2.4703282292062328e-324",
        "2.47032822920623272088284396434110686182529901307162382212792841250337753635104375932649918180817996189898282347722858865463328355177969898199387398005390939063150356595155702263922908583924491051844359318028499365361525003193704576782492193656236698636584807570015857692699037063119282795585513329278343384093519780155312465972635795746227664652728272200563740064854999770965994704540208281662262378573934507363390079677619305775067401763246736009689513405355374585166611342237666786041621596804619144672918403005300575308490487653917113865916462395249126236538818796362393732804238910186723484976682350898633885879256283027559956575244555072551893136908362547791869486679949683240497058210285131854513962138377228261454376934125320985913276672363281251e-324",
        "9007199254740993", "9007199254740992.5", "9007199254740993.0000000000000000000000001", "9007199254740995",
        "1.7976931348623157e308", "1.7976931348623158e308", "1.7976931348623159e308", "179769313486231580793728971405303415079934132710037826936173778980444968292764750946649017977587207096330286416692887910946555547851940402630657488671505820681908902000708383676273854845817711531764475730270069855571366959622842914819860834936475292719074168444365510704342711559699508093042880177904174497791.999",
        "2.2250738585072011e-308", "2.2250738585072014e-308", "0.1", "0.1000000000000000055511151231257827021181583404541015625",
        "0.10000000000000000555111512312578270211815834045410156250000000000000000000001", "0.3", "0.30000000000000004",
        "123456789012345678901234567890", "0.000000000000000000000000000001", "00000000000000000000000000000000000000001e-5",
        "1000000000000000000000", "1e21", "3.14", "3.15", "wrong datatype", "not a literal",
    ]
    .iter()
    .map(|s| s.to_string())
    .collect();
    for i in 0..(if th { 20000 } else { 700 }) {
        // the shortest form of a random double, rewritten with an exponent / padded / truncated
        let v = f64::from_bits(random_bits(&mut ctx.rng, i));
        if !v.is_finite() {
            continue;
        }
        let s = match ctx.rng.below(5) {
            0 => format!("{:e}", v),
            1 => format!("{:E}", v),
            2 => format!("{}", v),
            3 => format!("{:.*e}", ctx.rng.below(25), v),
            _ => format!("+{:e}0", v).replace("e", "0e").replace("0e", "00e"),
        };
        f_lex.push(s);
    }
    for (i, l) in f_lex.iter().enumerate() {
        let name = match i % 4 {
            0 | 1 => "double",
            2 => "float",
            _ => *ctx.rng.pick(&["decimal", "integer", "string", "double"][..]),
        };
        ctx.emit(&format!("parse f64 {}", lit(l, &format!("{}{}", XSD, name)).render()));
        ctx.stats.bump("parse.f64-lexical");
    }

    // ---- lexical spaces: hand-written recognisers vs the Lean regexes
    let mut pool: Vec<String> = int_lex.clone();
    pool.extend(f_lex.iter().take(140).cloned());
    pool.extend(strs.iter().take(30).cloned());
    pool.extend(["true", "false", "1", "0", "True"].iter().map(|s| s.to_string()));
    for (i, s) in pool.iter().enumerate() {
        if s.len() > 400 {
            continue;
        }
        let names = ["integer", "boolean", "double", "decimal", "string", "rustFinite"];
        let name = names[i % names.len()];
        ctx.emit(&format!("lex {} {}", name, hex(s)));
        ctx.emit(&format!("lex double {}", hex(s)));
        ctx.stats.add("lex", 2);
    }
}

fn main() {
    vhcore::main_loop(generate, exec);
}
