//! SHAPE generator for C04: datasets assembled from graph-shape fragments (the cases the pretty printer's
//! heuristics decide on), literal forms per datatype, IRIs per prefix map.
use crate::render_pm;
use vhcore::GenCtx;
use vhcore::util::*;

pub const RDF: &str = "http://www.w3.org/1999/02/22-rdf-syntax-ns#";
pub const XSD: &str = "http://www.w3.org/2001/XMLSchema#";

pub fn iri(s: &str) -> T {
    T::Iri(s.to_string())
}
pub fn rdf(s: &str) -> T {
    T::Iri(format!("{}{}", RDF, s))
}
pub fn bn(s: &str) -> T {
    T::Bnode(s.to_string())
}
pub fn lit(l: &str, d: &str) -> T {
    T::Lit(l.to_string(), d.to_string())
}
pub fn tr(s: T, p: T, o: T) -> T {
    T::Triple(Box::new([s, p, o]))
}

pub const LEXICALS: &[&str] = &[
    "12", "+12", "-0", "007", "1.", ".5", "1.5", "-1.50", "+.5", "1e", "1e5", "1E+5", "1.e+3", ".1E0", "+1.0e-3", "1x5e3", "1x5",
    "x5", "-5", " 5", "#5", "\"5", "<5", "1 5", "1.5.5", "1.5e", "e5", ".e5", "1.e", "", "true", "false", "True", "tru", "true ",
    "0", "1", "a", "1\n", "\r5", "١٢", "1_0", "INF", "NaN", "-INF", "1e+", "+", ".", "1..5", "1,5", "5.0E0", "1e5.5", "1:5",
];

pub const DATATYPES: &[&str] = &[
    "http://www.w3.org/2001/XMLSchema#integer",
    "http://www.w3.org/2001/XMLSchema#decimal",
    "http://www.w3.org/2001/XMLSchema#double",
    "http://www.w3.org/2001/XMLSchema#boolean",
    "http://www.w3.org/2001/XMLSchema#float",
    "http://www.w3.org/2001/XMLSchema#int",
    "http://www.w3.org/2001/XMLSchema#string",
    "http://www.w3.org/2001/XMLSchema#nonNegativeInteger",
    "http://www.w3.org/2001/XMLSchema#long",
    "http://ex.org/dt",
    "http://www.w3.org/1999/02/22-rdf-syntax-ns#nil",
    "http://www.w3.org/2001/XMLSchema#Integer",
];

pub const STRINGS: &[&str] =
    &["", "a", "chat", "a\"b", "a\\b", "l1\nl2", "c\rd", "tab\there", "é\u{10000}z", "\"", "\\", "\\\"", "'", "a\u{0}b", "\u{8}\u{c}", "\"\"\"", "x\\", "\n"];

pub const TAGS: &[&str] = &[
    "en", "EN", "en-GB", "fr", "x-a-b9", "de-CH-1996", "zh-Hant", "sr-Latn-RS", "i-klingon", "es-419", "EN-us", "abcdefgh-12345678", "de-DE-u-co-phonebk",
];

/// pieces long strings are assembled from (runs of quotes, escapes, line ends, delimiters of the surrounding syntax)
pub const STRING_ATOMS: &[&str] = &[
    " ", "\"\"\"", "'''", "\\n", "\t", "é", "\u{10ffff}", "\u{7f}", "\u{85}", "\u{2028}", "#", "<", ">", "@en", "^^", "{|", "|}", "\"@", "\\u0041", "\r\n", ".", ";", "word",
];

pub const NAMESPACES: &[&str] = &[
    "http://ex.org/",
    "http://ex.org/a/",
    "http://ex.org/a/b#",
    "http://ex.org/a",
    "http://www.w3.org/1999/02/22-rdf-syntax-ns#",
    "http://www.w3.org/2001/XMLSchema#",
    "tag:",
    "x:",
];

pub const LOCAL_ATOMS: &[&str] = &[
    "a", "b", "c", "é", "_", ":", "0", "9", "-", ".", "%41", "%e9", "~", "\u{b7}", "\u{300}", "\u{203f}", "/", "#", "?", "@", "!", "$", "&", "'", "(",
    ")", "*", "+", ",", ";", "=", "nil", "type", "first", "\u{37e}", "\u{d7}", "\u{10000}", "\u{f0000}", "\u{fffd}", "\u{2070}",
];

pub const PREFIXES: &[&str] = &["", "a", "ab", "ex", "rdf", "xsd", "é", "a.b", "a-b", "a_", "p0", "a\u{b7}"];

pub const INDENTS: &[&str] = &["  ", "", " ", "\t", "    ", "\n", " \t", "\r\n"];

/// indentations `with_indentation` may or may not accept: Unicode white space that is not Turtle white space
/// (`WS ::= #x20 | #x9 | #xD | #xA`), ASCII form feed / vertical tab, and strings that are not white space at all
pub const ODD_INDENTS: &[&str] = &[
    "\u{a0}", "\u{3000}", "\u{2003}", " \u{a0}", "\u{c}", "\u{b}", "\u{85}", "\u{1680}", "\u{2028}", "\u{205f}\t", "\u{200b}", "x", "#", " .", "\u{feff}", "\u{1c}",
];

pub const IRIS: &[&str] = &[
    "http://ex.org/a",
    "http://ex.org/b",
    "http://ex.org/a/b#c",
    "http://ex.org/a/b#",
    "http://ex.org/",
    "http://ex.org/a/b#c.d",
    "http://ex.org/a/b#c.",
    "http://ex.org/a/~t",
    "http://ex.org/a/%41",
    "http://ex.org/a/1st",
    "http://ex.org/a/-x",
    "http://ex.org/a/x:y",
    "http://ex.org/é",
    "http://ex.org/a/b#c/d",
    "http://ex.org/a/b?q=1",
    "tag:q",
    "x:p",
    "http://www.w3.org/1999/02/22-rdf-syntax-ns#nil",
    "http://www.w3.org/1999/02/22-rdf-syntax-ns#type",
    "http://www.w3.org/1999/02/22-rdf-syntax-ns#nil.",
    "http://www.w3.org/1999/02/22-rdf-syntax-ns#ni",
    "http://www.w3.org/2001/XMLSchema#integer",
];

pub const LABELS: &[&str] = &["a", "b", "c", "d", "e", "f", "g", "h", "b0", "b1", "x.y", "0", "z9", "k-1", "m_", "n\u{b7}"];

pub fn ps(r: &mut Rng, xs: &[&'static str]) -> &'static str {
    xs[r.below(xs.len())]
}

pub type Pm = Option<Vec<(String, String)>>;

pub fn prefix_maps() -> Vec<Pm> {
    let mk = |v: &[(&str, &str)]| Some(v.iter().map(|(a, b)| (a.to_string(), b.to_string())).collect::<Vec<_>>());
    vec![
        None,
        Some(vec![]),
        mk(&[("a", "http://ex.org/"), ("ab", "http://ex.org/a/"), ("", "http://ex.org/a/b#")]),
        mk(&[("", "http://ex.org/a/b#"), ("ab", "http://ex.org/a/"), ("a", "http://ex.org/")]),
        mk(&[("ex", "http://ex.org/a"), ("rdf", RDF), ("xsd", XSD)]),
        mk(&[("", "http://ex.org/a/b#c"), ("é", "http://ex.org/"), ("a.b", "tag:"), ("x", "x:")]),
        mk(&[("p0", "http://ex.org/a/"), ("p1", "http://ex.org/a/"), ("r", "http://www.w3.org/1999/02/22-rdf-syntax-ns#n")]),
        mk(&[("", RDF), ("x", XSD)]),
        // overlapping namespaces, the shorter one listed first
        mk(&[("e", "http://ex.org/"), ("ea", "http://ex.org/a"), ("eab", "http://ex.org/a/b#"), ("t", "tag:")]),
    ]
}

/// dataset builder with fresh blank node labels taken in random order from a small pool
pub struct B<'a> {
    pub rng: &'a mut Rng,
    pub quads: Vec<Q>,
    free: Vec<String>,
    pub trig: bool,
    pub tags: Vec<&'static str>,
    /// labels handed out beyond the small pool
    next: usize,
    /// longest well-formed collection generated
    pub max_list: usize,
    /// deepest nesting of blank-node subtrees generated
    pub max_depth: usize,
    pub long_strings: usize,
}

impl<'a> B<'a> {
    pub fn new(rng: &'a mut Rng, trig: bool) -> Self {
        let mut free: Vec<String> = LABELS.iter().map(|s| s.to_string()).collect();
        // Fisher-Yates
        for i in (1..free.len()).rev() {
            let j = rng.below(i + 1);
            free.swap(i, j);
        }
        B { rng, quads: vec![], free, trig, tags: vec![], next: 0, max_list: 0, max_depth: 0, long_strings: 0 }
    }
    pub fn fresh(&mut self) -> T {
        match self.free.pop() {
            Some(l) => T::Bnode(l),
            None => {
                // large datasets: labels stay pairwise distinct (sorted between the pool's labels: digits, letters)
                self.next += 1;
                let k = self.next;
                T::Bnode(match k % 3 {
                    0 => format!("n{}", k),
                    1 => format!("{}", 100 + k),
                    _ => format!("B{}x", k),
                })
            }
        }
    }
    pub fn add(&mut self, s: T, p: T, o: T, g: &Option<T>) {
        self.quads.push(Q { s, p, o, g: g.clone() });
    }
    pub fn an_iri(&mut self) -> T {
        iri(ps(&mut self.rng, IRIS))
    }
    /// an IRI other than rdf:nil (9 times out of 10)
    pub fn an_iri_not_nil(&mut self) -> T {
        let t = self.an_iri();
        if t == rdf("nil") && !self.rng.chance(1, 10) { iri("http://ex.org/a/b#c") } else { t }
    }
    pub fn a_pred(&mut self) -> T {
        match self.rng.below(10) {
            0 => rdf("type"),
            1 => iri("http://ex.org/a/b#c"),
            2 => iri("http://ex.org/b"),
            _ => iri("x:p"),
        }
    }
    /// a lexical form: a corpus string, or (1 in 4) a long one assembled from corpus strings and syntax atoms
    pub fn a_string(&mut self) -> String {
        if !self.rng.chance(1, 4) {
            return ps(&mut self.rng, STRINGS).to_string();
        }
        self.long_strings += 1;
        let mut s = String::new();
        for _ in 0..self.rng.range(2, 9) {
            if self.rng.chance(1, 2) {
                s.push_str(ps(&mut self.rng, STRINGS));
            } else {
                s.push_str(ps(&mut self.rng, STRING_ATOMS));
            }
        }
        s
    }
    pub fn a_literal(&mut self) -> T {
        match self.rng.below(4) {
            0 => {
                // language-tagged strings, among them texts that look like numeric / boolean shorthands
                let l = if self.rng.chance(1, 5) { ps(&mut self.rng, LEXICALS).to_string() } else { self.a_string() };
                T::Lang(l, ps(&mut self.rng, TAGS).to_string())
            }
            1 => {
                let l = self.a_string();
                let d = if self.rng.chance(1, 6) { "http://ex.org/dt" } else { "http://www.w3.org/2001/XMLSchema#string" };
                lit(&l, d)
            }
            _ => {
                // mostly combinations on which the shorthand decision is the grammar's; the known-bad classes
                // (finding C04-numeric-dot, rdf:nil as datatype) are covered by `numeric`, `nil` and the `lit` requests
                let l = ps(&mut self.rng, LEXICALS);
                let d = ps(&mut self.rng, DATATYPES);
                let risky = d.ends_with("#nil") || ((d.ends_with("#decimal") || d.ends_with("#double")) && !l.contains('.') && !l.is_empty());
                if risky && !self.rng.chance(1, 10) { lit(l, "http://www.w3.org/2001/XMLSchema#integer") } else { lit(l, d) }
            }
        }
    }
    pub fn a_ground_object(&mut self) -> T {
        if self.rng.chance(1, 2) { self.an_iri() } else { self.a_literal() }
    }
    pub fn a_graph(&mut self) -> Option<T> {
        if !self.trig {
            return None;
        }
        match self.rng.below(6) {
            0 | 1 => None,
            2 => Some(iri("http://ex.org/a")),
            3 => Some(iri("http://ex.org/a/b#c")),
            4 => Some(iri("tag:q")),
            _ => Some(bn("g")),
        }
    }

    // ------------------------------------------------------------ fragments

    fn plain(&mut self, g: &Option<T>) {
        self.tags.push("plain");
        let n = self.rng.range(1, 3);
        let s = self.an_iri();
        for _ in 0..n {
            let s2 = if self.rng.chance(2, 3) { s.clone() } else { self.an_iri() };
            let (p, o) = (self.a_pred(), self.a_ground_object());
            self.add(s2, p, o, g);
        }
    }

    /// a tree of fresh blank nodes under `parent`; returns the blank nodes created
    fn tree(&mut self, parent: T, depth: usize, g: &Option<T>) -> Vec<T> {
        let mut made = vec![];
        let k = self.rng.range(1, 2);
        for _ in 0..k {
            let b = self.fresh();
            let p = self.a_pred();
            self.add(parent.clone(), p, b.clone(), g);
            made.push(b.clone());
            let props = self.rng.range(0, 2);
            for _ in 0..props {
                let (p, o) = (self.a_pred(), self.a_ground_object());
                self.add(b.clone(), p, o, g);
            }
            if depth > 0 && self.rng.chance(1, 2) {
                made.extend(self.tree(b, depth - 1, g));
            }
        }
        made
    }

    fn trees(&mut self, g: &Option<T>) {
        self.tags.push("tree");
        let root = match self.rng.below(3) {
            0 => self.fresh(), // unreferenced blank node as root
            _ => self.an_iri(),
        };
        let made = self.tree(root.clone(), 2, g);
        if self.rng.chance(1, 4) && !made.is_empty() {
            // a second incoming arc (shared node)
            self.tags.push("shared");
            let t = self.rng.pick(&made).clone();
            let p = self.a_pred();
            let s = if self.rng.chance(1, 2) { root } else { self.an_iri() };
            self.add(s, p, t, g);
        }
    }

    fn cycle(&mut self, g: &Option<T>) {
        self.tags.push("cycle");
        let k = self.rng.range(1, 3);
        let nodes: Vec<T> = (0..k).map(|_| self.fresh()).collect();
        for i in 0..k {
            let p = self.a_pred();
            self.add(nodes[i].clone(), p, nodes[(i + 1) % k].clone(), g);
            if self.rng.chance(1, 3) {
                let (p, o) = (self.a_pred(), self.a_ground_object());
                self.add(nodes[i].clone(), p, o, g);
            }
        }
        // tails hanging off the cycle (chains of otherwise inlinable nodes)
        let tails = self.rng.below(3);
        for _ in 0..tails {
            self.tags.push("cycle_tail");
            let from = self.rng.pick(&nodes).clone();
            self.tree(from, 1, g);
        }
        if self.rng.chance(1, 4) {
            self.tags.push("cycle_entry");
            let s = self.an_iri();
            let p = self.a_pred();
            let t = self.rng.pick(&nodes).clone();
            self.add(s, p, t, g);
        }
    }

    fn list_item(&mut self, depth: usize, g: &Option<T>) -> T {
        match self.rng.below(if depth > 0 { 9 } else { 6 }) {
            0 | 1 => self.an_iri(),
            2 | 3 => self.a_literal(),
            4 => rdf("nil"),
            5 => self.fresh(),
            6 => {
                let b = self.fresh();
                let (p, o) = (self.a_pred(), self.a_ground_object());
                self.add(b.clone(), p, o, g);
                b
            }
            7 => tr(iri("x:s"), iri("x:p"), iri("x:o")),
            _ => {
                let n = self.rng.range(0, 2);
                self.list(n, depth - 1, g).0
            }
        }
    }

    /// well-formed collection; returns (head term, cells)
    fn list(&mut self, n: usize, depth: usize, g: &Option<T>) -> (T, Vec<T>) {
        if n == 0 {
            return (rdf("nil"), vec![]);
        }
        self.max_list = self.max_list.max(n);
        let cells: Vec<T> = (0..n).map(|_| self.fresh()).collect();
        for i in 0..n {
            let item = self.list_item(depth, g);
            self.add(cells[i].clone(), rdf("first"), item, g);
            let rest = if i + 1 < n { cells[i + 1].clone() } else { rdf("nil") };
            self.add(cells[i].clone(), rdf("rest"), rest, g);
        }
        (cells[0].clone(), cells)
    }

    fn lists(&mut self, g: &Option<T>) {
        self.tags.push("list");
        let n = self.rng.range(0, 3);
        let (head, cells) = self.list(n, 1, g);
        let attach = self.rng.below(8);
        match attach {
            0 => {
                // head is a subject with a further property (Turtle: `( … ) p o`)
                self.tags.push("list_subject");
                let (p, o) = (self.a_pred(), self.a_ground_object());
                self.add(head.clone(), p, o, g);
            }
            1 => {
                self.tags.push("list_unreferenced");
            }
            _ => {
                let (s, p) = (self.an_iri(), self.a_pred());
                self.add(s, p, head.clone(), g);
            }
        }
        if cells.is_empty() || self.rng.chance(1, 2) {
            return;
        }
        // malformations
        self.tags.push("list_malformed");
        let c = self.rng.pick(&cells).clone();
        match self.rng.below(16) {
            0 => self.add(c, rdf("first"), iri("x:second"), g),
            1 => {
                // drop the rdf:first of the cell
                self.quads.retain(|q| !(q.s == c && q.p == rdf("first")));
            }
            2 => self.add(c, rdf("rest"), rdf("nil"), g),
            3 => {
                let b = self.fresh();
                self.add(c, rdf("rest"), b.clone(), g);
                if self.rng.chance(1, 2) {
                    self.add(b, iri("x:p"), iri("x:o"), g);
                }
            }
            4 => self.add(c, rdf("rest"), iri("x:other"), g),
            5 => self.add(c, iri("x:extra"), lit("1", "http://www.w3.org/2001/XMLSchema#integer"), g),
            6 => {
                // rest is an IRI / a literal instead of rdf:nil
                let last = cells.last().unwrap().clone();
                let o = if self.rng.chance(1, 2) { iri("x:end") } else { lit("end", "http://www.w3.org/2001/XMLSchema#string") };
                for q in self.quads.iter_mut() {
                    if q.s == last && q.p == rdf("rest") {
                        q.o = o.clone();
                    }
                }
            }
            7 => {
                // branching: a second cell whose rest is `c`
                let b = self.fresh();
                self.add(b.clone(), rdf("first"), iri("x:branch"), g);
                self.add(b.clone(), rdf("rest"), c, g);
                if self.rng.chance(1, 2) {
                    self.add(iri("x:s2"), iri("x:p"), b, g);
                }
            }
            8 => {
                // cyclic rest: the last cell points back
                let last = cells.last().unwrap().clone();
                let keep_nil = self.rng.chance(1, 2);
                if !keep_nil {
                    self.quads.retain(|q| !(q.s == last && q.p == rdf("rest")));
                }
                self.add(last, rdf("rest"), c, g);
            }
            9 => {
                // one more incoming arc to a cell
                let s = self.an_iri();
                self.add(s, iri("x:p"), c, g);
            }
            10 => {
                // the cell also occurs in another graph
                let g2 = if g.is_none() && self.trig { Some(iri("http://ex.org/b")) } else { None };
                if g2 != *g {
                    self.add(c, iri("x:p"), iri("x:o"), &g2);
                } else {
                    self.add(c, iri("x:extra"), iri("x:o"), g);
                }
            }
            11 => {
                // the cell inside a quoted triple
                self.add(tr(c, iri("x:p"), iri("x:o")), iri("x:q"), iri("x:r"), g);
            }
            12 => {
                // the first-triple of the cell is quoted (and asserted)
                let item = self.quads.iter().find(|q| q.s == c && q.p == rdf("first")).map(|q| q.o.clone());
                if let Some(item) = item {
                    self.add(tr(c, rdf("first"), item), iri("x:q"), iri("x:r"), g);
                }
            }
            13 => {
                // the cell is a graph name
                if self.trig {
                    self.add(iri("x:s"), iri("x:p"), iri("x:o"), &Some(c));
                }
            }
            14 => {
                // item chain into the cycle: rdf:first points to a node that points back
                let b = self.fresh();
                self.add(c.clone(), rdf("rest"), b.clone(), g);
                self.add(b.clone(), rdf("first"), iri("x:i"), g);
                self.add(b, rdf("rest"), c, g);
            }
            _ => {
                // two lists sharing a tail
                let (h2, cells2) = self.list(1, 0, g);
                let last2 = cells2.last().unwrap().clone();
                for q in self.quads.iter_mut() {
                    if q.s == last2 && q.p == rdf("rest") {
                        q.o = c.clone();
                    }
                }
                self.add(iri("x:s3"), iri("x:p"), h2, g);
            }
        }
    }

    fn quoted(&mut self, g: &Option<T>) {
        self.tags.push("quoted");
        let s = match self.rng.below(4) {
            0 => self.fresh(),
            1 => bn("a"),
            _ => self.an_iri_not_nil(),
        };
        let p = match self.rng.below(6) {
            0 => rdf("first"),
            1 => rdf("type"),
            _ => self.a_pred(),
        };
        let o = match self.rng.below(12) {
            0 | 1 => self.fresh(),
            2 => rdf("nil"),
            _ => {
                let o = self.a_ground_object();
                if o == rdf("nil") { iri("x:o") } else { o }
            }
        };
        let t = tr(s.clone(), p.clone(), o.clone());
        let asserted = self.rng.below(4);
        match asserted {
            0 => {}
            1 => {
                self.tags.push("asserted_elsewhere");
                let g2 = if g.is_none() && self.trig { Some(iri("http://ex.org/b")) } else { None };
                self.add(s.clone(), p.clone(), o.clone(), &g2);
            }
            _ => {
                self.tags.push("annotation");
                self.add(s.clone(), p.clone(), o.clone(), g);
            }
        }
        let n = self.rng.range(1, 2);
        for _ in 0..n {
            let (q, r) = (self.a_pred(), self.a_ground_object());
            self.add(t.clone(), q, r, g);
        }
        match self.rng.below(6) {
            5 => {
                // quoted triples nested two / three deep, in subject and in object position
                self.tags.push("quoted_deep");
                let t2 = tr(t.clone(), iri("x:q2"), self.a_ground_object());
                let t3 = if self.rng.chance(1, 2) { tr(iri("x:s3"), iri("x:q3"), t2.clone()) } else { tr(t2.clone(), iri("x:q3"), t.clone()) };
                let (p, o) = (self.a_pred(), self.a_ground_object());
                self.add(t3.clone(), p, o, g);
                if self.rng.chance(1, 2) {
                    let s = self.an_iri();
                    self.add(s, iri("x:says"), t3, g);
                }
                if self.rng.chance(1, 2) {
                    // the middle one asserted: an annotation whose subject is itself a quoted triple
                    if let T::Triple(b) = &t2 {
                        let [a, b2, c] = (**b).clone();
                        self.add(a, b2, c, g);
                    }
                }
            }
            0 => {
                // quoted triple in object position
                self.tags.push("quoted_object");
                let (s2, p2) = (self.an_iri(), self.a_pred());
                self.add(s2, p2, t.clone(), g);
            }
            1 => {
                // nested: annotation of the annotation
                self.tags.push("quoted_nested");
                let q = self.quads.last().unwrap().clone();
                let t2 = tr(q.s.clone(), q.p.clone(), q.o.clone());
                self.add(t2, iri("x:q2"), iri("x:r2"), g);
            }
            2 => {
                // blank node object hanging under the annotation
                let b = self.fresh();
                self.add(t.clone(), iri("x:by"), b.clone(), g);
                self.add(b, iri("x:p"), iri("x:o"), g);
            }
            _ => {}
        }
    }

    fn nil_positions(&mut self, g: &Option<T>) {
        self.tags.push("nil");
        let nil = rdf("nil");
        match self.rng.below(9) {
            0 => self.add(nil, iri("x:p"), iri("x:o"), g),
            1 => self.add(iri("x:s"), nil, iri("x:o"), g),
            2 => self.add(iri("x:s"), iri("x:p"), nil, g),
            3 => {
                if self.trig {
                    self.add(iri("x:s"), iri("x:p"), iri("x:o"), &Some(nil));
                } else {
                    self.add(nil.clone(), iri("x:p"), nil, g);
                }
            }
            4 => self.add(iri("x:s"), iri("x:p"), lit("v", &format!("{}nil", RDF)), g),
            5 => self.add(tr(nil, iri("x:p"), iri("x:o")), iri("x:q"), iri("x:r"), g),
            6 => self.add(tr(iri("x:s"), nil, iri("x:o")), iri("x:q"), iri("x:r"), g),
            7 => self.add(iri("x:s"), iri("x:q"), tr(iri("x:s"), iri("x:p"), nil), g),
            _ => self.add(iri("x:s"), rdf("type"), nil, g),
        }
    }

    fn spanning(&mut self) {
        // the same blank node in several graphs / as graph name
        self.tags.push("spanning");
        let b = self.fresh();
        let g1 = self.a_graph();
        let g2 = Some(iri("http://ex.org/b"));
        self.add(iri("x:s"), iri("x:p"), b.clone(), &g1);
        self.add(b.clone(), iri("x:q"), iri("x:o"), &g1);
        match self.rng.below(4) {
            0 => self.add(b.clone(), iri("x:q"), iri("x:o"), &g2),
            1 => self.add(iri("x:s"), iri("x:p"), b.clone(), &g2),
            2 => self.add(iri("x:s"), iri("x:p"), iri("x:o"), &Some(b.clone())),
            _ => self.add(b.clone(), iri("x:p"), iri("x:o"), &Some(b.clone())),
        }
    }

    fn numeric(&mut self, g: &Option<T>) {
        self.tags.push("numeric");
        let n = self.rng.range(1, 3);
        for _ in 0..n {
            let s = self.an_iri();
            let o = lit(ps(&mut self.rng, LEXICALS), ps(&mut self.rng, &DATATYPES[..4]));
            self.add(s, iri("x:p"), o, g);
        }
    }

    // ------------------------------------------------------------ large datasets (size-dependent code:
    // `find_subject`'s binary search over many subjects of one graph, `next_graph` over many graphs, long
    // collections, long predecessor walks in `build_labelled`, deep writer recursion)

    /// a chain of nested blank-node subtrees `depth` deep under `parent`
    fn deep_chain(&mut self, parent: T, depth: usize, g: &Option<T>) {
        self.max_depth = self.max_depth.max(depth);
        let mut cur = parent;
        for _ in 0..depth {
            let b = self.fresh();
            let p = self.a_pred();
            self.add(cur.clone(), p, b.clone(), g);
            if self.rng.chance(1, 3) {
                let (p, o) = (self.a_pred(), self.a_ground_object());
                self.add(b.clone(), p, o, g);
            }
            cur = b;
        }
        let (p, o) = (self.a_pred(), self.a_ground_object());
        self.add(cur, p, o, g);
    }

    fn big_subjects(&mut self, g: &Option<T>) {
        self.tags.push("big_subjects");
        let n = self.rng.range(18, 70);
        for k in 0..n {
            let s = match self.rng.below(8) {
                0 => self.fresh(), // unreferenced blank node: a Root among the subjects
                _ => iri(&format!("http://ex.org/s{}", k * 7 % 101)),
            };
            for _ in 0..self.rng.range(1, 2) {
                let p = self.a_pred();
                match self.rng.below(10) {
                    0..=2 => {
                        // an inlinable blank node with properties: looked up with find_subject when written
                        let b = self.fresh();
                        self.add(s.clone(), p, b.clone(), g);
                        for _ in 0..self.rng.range(0, 2) {
                            let (p2, o2) = (self.a_pred(), self.a_ground_object());
                            self.add(b.clone(), p2, o2, g);
                        }
                    }
                    3 | 4 => {
                        // an annotated statement: the quoted triple is a subject of this graph, looked up from write_object
                        let o = self.an_iri_not_nil();
                        self.add(s.clone(), p.clone(), o.clone(), g);
                        let (q, r) = (self.a_pred(), self.a_ground_object());
                        self.add(tr(s.clone(), p, o), q, r, g);
                    }
                    5 => {
                        let n = self.rng.range(1, 3);
                        let (head, _) = self.list(n, 0, g);
                        self.add(s.clone(), p, head, g);
                    }
                    _ => {
                        let o = self.a_ground_object();
                        self.add(s.clone(), p, o, g);
                    }
                }
            }
        }
    }

    fn big_list(&mut self, g: &Option<T>) {
        self.tags.push("big_list");
        let n = self.rng.range(12, 60);
        let (head, cells) = self.list(n, 1, g);
        match self.rng.below(6) {
            0 => {
                let (p, o) = (self.a_pred(), self.a_ground_object());
                self.add(head, p, o, g);
            }
            1 => {}
            _ => {
                let (s, p) = (self.an_iri(), self.a_pred());
                self.add(s, p, head, g);
            }
        }
        if self.rng.chance(1, 4) {
            // a defect deep inside the chain: only the tail after it is a collection
            self.tags.push("big_list_broken");
            let c = cells[self.rng.below(cells.len())].clone();
            match self.rng.below(3) {
                0 => self.add(c, iri("x:extra"), iri("x:o"), g),
                1 => self.add(iri("x:s2"), iri("x:p"), c, g),
                _ => self.add(c, rdf("first"), iri("x:second"), g),
            }
        }
    }

    fn big_bnodes(&mut self, g: &Option<T>) {
        self.tags.push("big_bnodes");
        match self.rng.below(4) {
            0 => {
                // deep nesting
                let root = self.an_iri();
                let d = self.rng.range(15, 60);
                self.deep_chain(root, d, g);
            }
            1 => {
                // a long cycle, tails hanging off it, possibly entered from outside
                let k = self.rng.range(5, 30);
                let nodes: Vec<T> = (0..k).map(|_| self.fresh()).collect();
                for i in 0..k {
                    let p = self.a_pred();
                    self.add(nodes[i].clone(), p, nodes[(i + 1) % k].clone(), g);
                }
                for _ in 0..self.rng.range(1, 6) {
                    let from = self.rng.pick(&nodes).clone();
                    let d = self.rng.range(1, 12);
                    self.deep_chain(from, d, g);
                }
                if self.rng.chance(1, 3) {
                    let t = self.rng.pick(&nodes).clone();
                    self.add(iri("x:s"), iri("x:p"), t, g);
                }
            }
            2 => {
                // a broad forest: many roots, many inlinable children, some shared
                let mut all = vec![];
                for k in 0..self.rng.range(10, 30) {
                    let root = iri(&format!("http://ex.org/r{}", k));
                    all.extend(self.tree(root, 3, g));
                }
                for _ in 0..self.rng.range(0, 4) {
                    let t = self.rng.pick(&all).clone();
                    self.add(iri("x:s"), iri("x:also"), t, g);
                }
            }
            _ => {
                // many blank nodes that must all be labelled (two incoming arcs each), interleaved with inlinable ones
                let hub = self.fresh();
                for _ in 0..self.rng.range(20, 80) {
                    let b = self.fresh();
                    self.add(hub.clone(), iri("x:p"), b.clone(), g);
                    if self.rng.chance(1, 2) {
                        self.add(iri("x:s"), iri("x:q"), b.clone(), g);
                    }
                    if self.rng.chance(1, 2) {
                        let o = self.a_ground_object();
                        self.add(b, iri("x:r"), o, g);
                    }
                }
            }
        }
    }

    /// generalized RDF (outside the property's quantifier; `TrigSerializer` accepts it in pretty mode and the
    /// generalized TriG parser reads it back): blank nodes and literals as predicates, variables anywhere, literal
    /// subjects, literal / variable graph names.  These reach the branches of `build_labelled` / `write_term` that
    /// strict data never reaches (`i == 1`, `Variable`); they are compared with the model, the round trip through
    /// the generalized parser is reported as an observation only.
    pub fn generalized(&mut self, g: &Option<T>) {
        self.tags.push("generalized");
        let var = |n: &str| T::Var(n.to_string());
        let b = self.fresh();
        let (s, p, o) = (self.an_iri(), self.a_pred(), self.a_ground_object());
        match self.rng.below(10) {
            0 => {
                // blank node as predicate, the same node also an inlinable object elsewhere
                self.add(s.clone(), b.clone(), o, g);
                if self.rng.chance(1, 2) {
                    self.add(s, p, b.clone(), g);
                    self.add(b, iri("x:q"), iri("x:o"), g);
                }
            }
            1 => self.add(var("x"), p, o, g),
            2 => self.add(s, var("p"), o, g),
            3 => {
                self.add(s.clone(), p.clone(), var("o"), g);
                self.add(tr(s, p, var("o")), iri("x:q"), iri("x:r"), g);
            }
            4 => {
                let l = self.a_literal();
                self.add(l, p, o, g);
            }
            5 => {
                let l = self.a_literal();
                self.add(s, l, o, g);
            }
            6 => {
                if self.trig {
                    let l = self.a_literal();
                    let gn = if self.rng.chance(1, 2) { l } else { var("g") };
                    self.add(s, p, o, &Some(gn));
                } else {
                    self.add(var("x"), var("x"), var("x"), g);
                }
            }
            7 => {
                // a quoted triple with a blank node predicate, asserted too
                self.add(s.clone(), b.clone(), o.clone(), g);
                self.add(tr(s, b, o), iri("x:q"), iri("x:r"), g);
            }
            8 => {
                // list whose items are variables / whose cell is a predicate elsewhere
                let (head, cells) = self.list(2, 0, g);
                self.add(s.clone(), p, head, g);
                let c = cells[self.rng.below(cells.len())].clone();
                self.add(s, c, var("v"), g);
            }
            _ => {
                // quoted triple as predicate
                self.add(s.clone(), tr(s.clone(), p, o.clone()), o, g);
            }
        }
    }

    /// a plain chain of `depth` fresh blank nodes under `parent`; returns the nodes, the last one has no property yet
    fn bare_chain(&mut self, parent: T, depth: usize, g: &Option<T>, side_branches: bool) -> Vec<T> {
        self.max_depth = self.max_depth.max(depth);
        let mut nodes = vec![];
        let mut cur = parent;
        for _ in 0..depth {
            let b = self.fresh();
            let p = self.a_pred();
            self.add(cur.clone(), p, b.clone(), g);
            if side_branches && self.rng.chance(1, 4) {
                match self.rng.below(3) {
                    0 => {
                        let (p, o) = (self.a_pred(), self.a_ground_object());
                        self.add(b.clone(), p, o, g);
                    }
                    1 => {
                        // a small inlinable subtree beside the chain
                        let c = self.fresh();
                        self.add(b.clone(), iri("x:side"), c.clone(), g);
                        self.add(c, iri("x:p"), iri("x:o"), g);
                    }
                    _ => {
                        let (head, _) = self.list(2, 0, g);
                        self.add(b.clone(), iri("x:items"), head, g);
                    }
                }
            }
            nodes.push(b.clone());
            cur = b;
        }
        nodes
    }

    /// chains of blank nodes around the nesting cap of the pretty printer (MAX_BNODE_NESTING = 64: nodes met at the
    /// cap are labelled and described in a tree of their own): 60..70 links (boundary) or 128..140 (two caps)
    pub fn cap_chain(&mut self, g: &Option<T>) -> usize {
        let depth = if self.rng.chance(2, 3) { self.rng.range(60, 70) } else { self.rng.range(126, 140) };
        let root = match self.rng.below(4) {
            0 => self.fresh(),
            _ => self.an_iri(),
        };
        match self.rng.below(6) {
            0 => {
                self.tags.push("cap_plain");
                let nodes = self.bare_chain(root, depth, g, false);
                let (p, o) = (self.a_pred(), self.a_ground_object());
                self.add(nodes.last().unwrap().clone(), p, o, g);
            }
            1 => {
                self.tags.push("cap_side_branches");
                let nodes = self.bare_chain(root, depth, g, true);
                let (p, o) = (self.a_pred(), self.a_ground_object());
                self.add(nodes.last().unwrap().clone(), p, o, g);
            }
            2 => {
                // the chain ends in a collection whose items are blank nodes with properties (met beyond the cap)
                self.tags.push("cap_ends_in_list");
                let nodes = self.bare_chain(root, depth, g, false);
                let n = self.rng.range(1, 4);
                let (head, _) = self.list(n, 1, g);
                self.add(nodes.last().unwrap().clone(), iri("x:items"), head, g);
            }
            3 => {
                // the chain hangs below an item of a collection
                self.tags.push("cap_below_list_item");
                let cells: Vec<T> = (0..3).map(|_| self.fresh()).collect();
                let item = self.fresh();
                for i in 0..3 {
                    let it = if i == 1 { item.clone() } else { self.a_ground_object() };
                    self.add(cells[i].clone(), rdf("first"), it, g);
                    let rest = if i + 1 < 3 { cells[i + 1].clone() } else { rdf("nil") };
                    self.add(cells[i].clone(), rdf("rest"), rest, g);
                }
                self.add(root, iri("x:list"), cells[0].clone(), g);
                let side = self.rng.chance(1, 2);
                let nodes = self.bare_chain(item, depth, g, side);
                self.add(nodes.last().unwrap().clone(), iri("x:p"), iri("x:end"), g);
            }
            4 => {
                // two chains sharing their deep end (that node has two incoming arcs: labelled from the start)
                self.tags.push("cap_shared_end");
                let n1 = self.bare_chain(root.clone(), depth, g, false);
                let d2 = if self.rng.chance(1, 2) { depth } else { self.rng.range(60, 70) };
                let root2 = self.an_iri();
                let n2 = self.bare_chain(root2, d2, g, false);
                let end = self.fresh();
                self.add(n1.last().unwrap().clone(), iri("x:p"), end.clone(), g);
                self.add(n2.last().unwrap().clone(), iri("x:p"), end.clone(), g);
                self.add(end.clone(), iri("x:p"), iri("x:end"), g);
                // and something inlinable below the shared end
                self.deep_chain(end, 3, g);
            }
            _ => {
                // a chain under an annotation, and a second chain beside it in the same tree (the counter is per tree)
                self.tags.push("cap_two_in_one_tree");
                let n1 = self.bare_chain(root.clone(), depth, g, false);
                self.add(n1.last().unwrap().clone(), iri("x:p"), iri("x:end1"), g);
                let n2 = self.bare_chain(root.clone(), 66, g, false);
                self.add(n2.last().unwrap().clone(), iri("x:q"), iri("x:end2"), g);
                let s = self.an_iri_not_nil();
                self.add(s.clone(), iri("x:p"), iri("x:o"), g);
                let b = self.fresh();
                self.add(tr(s, iri("x:p"), iri("x:o")), iri("x:by"), b.clone(), g);
                let n3 = self.bare_chain(b, 64, g, false);
                self.add(n3.last().unwrap().clone(), iri("x:p"), iri("x:end3"), g);
            }
        }
        depth
    }

    /// one large dataset; returns nothing, fills `self.quads`
    pub fn big(&mut self) {
        let ngraphs = if self.trig { [1, 2, 5, 8, 14][self.rng.below(5)] } else { 1 };
        let mut graphs: Vec<Option<T>> = vec![None];
        for k in 1..ngraphs {
            graphs.push(Some(match self.rng.below(6) {
                0 => self.fresh(),
                _ => iri(&format!("http://ex.org/g{}", k * 5 % 17)),
            }));
        }
        if ngraphs > 1 && self.rng.chance(1, 3) {
            graphs.remove(0); // no default graph at all
        }
        if ngraphs >= 5 {
            self.tags.push("big_graphs");
        }
        for g in graphs.clone() {
            let heavy = ngraphs <= 2 || self.rng.chance(1, 4);
            if heavy {
                match self.rng.below(4) {
                    0 | 1 => self.big_subjects(&g),
                    2 => self.big_list(&g),
                    _ => self.big_bnodes(&g),
                }
            }
            for _ in 0..self.rng.range(1, 3) {
                self.fragment(&g);
            }
        }
    }

    pub fn fragment(&mut self, g: &Option<T>) {
        match self.rng.below(20) {
            0 | 1 => self.plain(g),
            2..=4 => self.trees(g),
            5..=7 => self.cycle(g),
            8..=12 => self.lists(g),
            13..=15 => self.quoted(g),
            16 => self.nil_positions(g),
            17 => self.numeric(g),
            18 if self.trig => self.spanning(),
            _ => self.plain(g),
        }
    }
}

fn emit_ser(ctx: &mut GenCtx, trig: bool, pretty: bool, indent: &str, pm: &Pm, quads: &[Q]) {
    emit_ser_api(ctx, trig, false, pretty, indent, pm, quads)
}

/// `alt`: the other entry points — `serialize_triples/quads` fed from a streaming (fallible) source instead of
/// `serialize_graph/dataset`, and the prefix map handed over through `with_prefix_map(&[(Prefix<&str>, Iri<&str>)])`
/// (`PrefixMap::iter` / `to_vec`) instead of `with_own_prefix_map`
fn emit_ser_api(ctx: &mut GenCtx, trig: bool, alt: bool, pretty: bool, indent: &str, pm: &Pm, quads: &[Q]) {
    let mut line = format!(
        "ser {}{} {} {} {}",
        if trig { "trig" } else { "ttl" },
        if alt { "~" } else { "" },
        if pretty { 1 } else { 0 },
        hex(indent),
        render_pm(pm)
    );
    for q in quads {
        line.push(' ');
        line.push_str(&q.render());
    }
    ctx.emit(&line);
}

/// all datasets of 1..=2 triples (and sampled larger ones) over two blank nodes, one IRI, rdf:nil, one literal and
/// the predicates x:p / rdf:first / rdf:rest: the neighbourhood in which the list / cycle heuristics decide
fn small_universe() -> Vec<Q> {
    let subjects = [bn("a"), bn("b"), iri("x:i"), rdf("nil")];
    let preds = [iri("x:p"), rdf("first"), rdf("rest")];
    let objects = [bn("a"), bn("b"), iri("x:i"), rdf("nil"), lit("1", "http://www.w3.org/2001/XMLSchema#integer")];
    let mut v = vec![];
    for s in &subjects {
        for p in &preds {
            for o in &objects {
                v.push(Q { s: s.clone(), p: p.clone(), o: o.clone(), g: None });
            }
        }
    }
    v
}

pub fn generate(ctx: &mut GenCtx) {
    let pms = prefix_maps();
    // ---- 1. literals: every datatype x lexical form
    for d in DATATYPES {
        for l in LEXICALS {
            ctx.emit(&format!("lit {}", lit(l, d).render()));
            ctx.stats.bump("lit.typed");
        }
    }
    for s in STRINGS {
        ctx.emit(&format!("lit {}", lit(s, "http://www.w3.org/2001/XMLSchema#string").render()));
        let tag = ps(&mut ctx.rng, TAGS).to_string();
        ctx.emit(&format!("lit {}", T::Lang(s.to_string(), tag).render()));
        ctx.emit(&format!("lit {}", lit(s, "http://ex.org/dt").render()));
        ctx.stats.bump("lit.string");
    }
    // ---- 2. IRIs x prefix maps
    for i in IRIS {
        for pm in &pms {
            ctx.emit(&format!("iri {} {}", hex(i), render_pm(pm)));
            ctx.stats.bump("iri.corpus");
        }
    }
    let n_iri = if ctx.thorough { 20000 } else { 1500 };
    for _ in 0..n_iri {
        let ns = ps(&mut ctx.rng, NAMESPACES);
        let mut s = ns.to_string();
        for _ in 0..ctx.rng.range(0, 4) {
            s.push_str(ps(&mut ctx.rng, LOCAL_ATOMS));
        }
        if !sophia_iri::is_absolute_iri_ref(&s) {
            ctx.stats.bump("iri.invalid_skipped");
            continue;
        }
        // random map: 1..4 pairs with distinct prefixes
        let pm: Pm = if ctx.rng.chance(1, 3) {
            ctx.rng.pick(&pms).clone()
        } else {
            let mut v: Vec<(String, String)> = vec![];
            for _ in 0..ctx.rng.range(1, 4) {
                let p = ps(&mut ctx.rng, PREFIXES).to_string();
                if v.iter().any(|(q, _)| *q == p) {
                    continue;
                }
                let mut n = ps(&mut ctx.rng, NAMESPACES).to_string();
                if ctx.rng.chance(1, 4) {
                    n.push_str(ps(&mut ctx.rng, LOCAL_ATOMS));
                    if !sophia_iri::is_absolute_iri_ref(&n) {
                        continue;
                    }
                }
                v.push((p, n));
            }
            Some(v)
        };
        ctx.emit(&format!("iri {} {}", hex(&s), render_pm(&pm)));
        ctx.stats.bump("iri.random");
    }
    // ---- 2b. overlapping namespaces: the IRI starts with the longer namespace but only its remainder after the
    // shorter one is a PN_LOCAL (the longest-match loop must fall back to the shorter namespace *with its own suffix*)
    let shorts = ["http://ex.org/", "http://ex.org/a/b#", "tag:", "x:", "http://ex.org/a/"];
    let steps = ["a", "b:c", "x-", "_1", "%41"];
    let rems = ["", "-", ".a", "-x", ".b:c", "a", ":", "/", "#"];
    for (k, sh) in shorts.iter().enumerate() {
        for st in steps {
            for rem in rems {
                if !ctx.thorough && ctx.rng.chance(1, 2) {
                    continue;
                }
                let long = format!("{}{}", sh, st);
                let i = format!("{}{}", long, rem);
                if !sophia_iri::is_absolute_iri_ref(&i) || !sophia_iri::is_absolute_iri_ref(&long) {
                    continue;
                }
                let mut pm = vec![("s".to_string(), sh.to_string()), ("l".to_string(), long.clone())];
                match ctx.rng.below(4) {
                    0 => pm.reverse(),
                    1 => pm.insert(1, ("m".to_string(), shorts[(k + 1) % shorts.len()].to_string())),
                    2 => pm.push(("".to_string(), format!("{}{}{}", sh, st, st))),
                    _ => {}
                }
                ctx.emit(&format!("iri {} {}", hex(&i), render_pm(&Some(pm))));
                ctx.stats.bump("iri.overlap");
            }
        }
    }
    // ---- 3. exhaustive small shapes (pretty Turtle, default config)
    let uni = small_universe();
    for (i, a) in uni.iter().enumerate() {
        emit_ser(ctx, false, true, "  ", &None, std::slice::from_ref(a));
        ctx.stats.bump("small.1");
        for b in &uni[i + 1..] {
            emit_ser(ctx, false, true, "  ", &None, &[a.clone(), b.clone()]);
            ctx.stats.bump("small.2");
        }
    }
    let n_small = if ctx.thorough { 30000 } else { 1500 };
    for _ in 0..n_small {
        let k = ctx.rng.range(3, 5);
        let mut qs: Vec<Q> = vec![];
        for _ in 0..k {
            let q = ctx.rng.pick(&uni).clone();
            if !qs.contains(&q) {
                qs.push(q);
            }
        }
        emit_ser(ctx, false, true, "  ", &None, &qs);
        ctx.stats.bump("small.3+");
    }
    // ---- 4. shape fragments x configurations
    let n = if ctx.thorough { 40000 } else { 2500 };
    for i in 0..n {
        let trig = ctx.rng.chance(1, 2);
        let pretty = !ctx.rng.chance(1, 5);
        let indent = match ctx.rng.below(24) {
            0..=11 => "  ",
            12 | 13 => ps(&mut ctx.rng, ODD_INDENTS),
            _ => ps(&mut ctx.rng, INDENTS),
        };
        let pm = if ctx.rng.chance(1, 2) { None } else { ctx.rng.pick(&pms).clone() };
        let (mut quads, tags) = {
            let mut b = B::new(&mut ctx.rng, trig);
            let frags = b.rng.range(1, 3);
            let g0 = b.a_graph();
            for _ in 0..frags {
                let g = if b.rng.chance(2, 3) { g0.clone() } else { b.a_graph() };
                b.fragment(&g);
            }
            if trig && b.rng.chance(1, 8) {
                // the same statements again in a second graph (same labels: blank nodes span graphs)
                let g2 = Some(iri("http://ex.org/b"));
                let k = b.rng.range(1, b.quads.len().max(1));
                let copy: Vec<Q> = b.quads.iter().take(k).cloned().collect();
                for mut q in copy {
                    q.g = g2.clone();
                    b.quads.push(q);
                }
                b.tags.push("copied_graph");
            }
            (b.quads, b.tags)
        };
        // input order is part of the input (streaming mode factorises on the previous triple)
        for k in (1..quads.len()).rev() {
            let j = ctx.rng.below(k + 1);
            quads.swap(k, j);
        }
        quads.dedup();
        for t in &tags {
            ctx.stats.bump(&format!("shape.{}", t));
        }
        ctx.stats.bump(if pretty { "mode.pretty" } else { "mode.stream" });
        ctx.stats.bump(if trig { "fmt.trig" } else { "fmt.ttl" });
        if !pretty && tags.iter().any(|t| *t == "quoted_nested" || *t == "quoted_deep") {
            ctx.stats.bump("stream.quoted_nested");
        }
        if !pretty && quads.iter().any(|q| matches!(q.g, Some(T::Bnode(_)))) {
            ctx.stats.bump("stream.bnode_graph");
        }
        if i < 4 {
            ctx.stats.sample(format!("{:?} {} quads", tags, quads.len()));
        }
        let alt = ctx.rng.chance(1, 6);
        size_stats(ctx, &quads, indent, alt);
        emit_ser_api(ctx, trig, alt, pretty, indent, &pm, &quads);
    }
    // ---- 5. large datasets
    let n_big = if ctx.thorough { 600 } else { 60 };
    for i in 0..n_big {
        let trig = ctx.rng.chance(2, 3);
        let pretty = !ctx.rng.chance(1, 6);
        let indent = if ctx.rng.chance(3, 4) { "  " } else { ps(&mut ctx.rng, INDENTS) };
        let pm = if ctx.rng.chance(1, 2) { None } else { ctx.rng.pick(&pms).clone() };
        let (mut quads, tags, max_list, max_depth) = {
            let mut b = B::new(&mut ctx.rng, trig);
            b.big();
            (b.quads, b.tags, b.max_list, b.max_depth)
        };
        for k in (1..quads.len()).rev() {
            let j = ctx.rng.below(k + 1);
            quads.swap(k, j);
        }
        quads.dedup();
        for t in &tags {
            if t.starts_with("big") {
                ctx.stats.bump(&format!("shape.{}", t));
            }
        }
        ctx.stats.bump("big.requests");
        ctx.stats.bump(if pretty { "big.pretty" } else { "big.stream" });
        if max_list >= 16 {
            ctx.stats.bump("big.list>=16");
        }
        if max_depth >= 16 {
            ctx.stats.bump("big.depth>=16");
        }
        if i < 2 {
            ctx.stats.sample(format!("big {:?} {} quads", tags, quads.len()));
        }
        let alt = ctx.rng.chance(1, 6);
        size_stats(ctx, &quads, indent, alt);
        emit_ser_api(ctx, trig, alt, pretty, indent, &pm, &quads);
    }
    // ---- 6. generalized RDF through the pretty TriG writer (differential with the model only)
    generate_generalized(ctx, &pms);
    // ---- 7. blank-node chains around the nesting cap of the pretty printer
    let n_cap = if ctx.thorough { 400 } else { 48 };
    for i in 0..n_cap {
        let trig = ctx.rng.chance(1, 2);
        let pretty = !ctx.rng.chance(1, 10);
        let indent = if ctx.rng.chance(3, 4) { "" } else { ps(&mut ctx.rng, INDENTS) };
        let pm = if ctx.rng.chance(1, 2) { None } else { ctx.rng.pick(&pms).clone() };
        let (mut quads, tags, depth, named) = {
            let mut b = B::new(&mut ctx.rng, trig);
            let g = if trig && b.rng.chance(2, 3) { Some(iri("http://ex.org/g1")) } else { None };
            let depth = b.cap_chain(&g);
            if b.rng.chance(1, 3) {
                // something else in the dataset: another graph, or a second deep chain in another graph
                let g2 = b.a_graph();
                if b.rng.chance(1, 2) {
                    b.cap_chain(&g2);
                } else {
                    b.fragment(&g2);
                }
            }
            (b.quads, b.tags, depth, g.is_some())
        };
        for k in (1..quads.len()).rev() {
            let j = ctx.rng.below(k + 1);
            quads.swap(k, j);
        }
        quads.dedup();
        for t in &tags {
            if t.starts_with("cap_") {
                ctx.stats.bump(&format!("shape.{}", t));
            }
        }
        ctx.stats.bump("cap.requests");
        ctx.stats.bump(if named { "cap.named_graph" } else { "cap.default_graph" });
        ctx.stats.bump(match depth {
            0..=63 => "cap.depth<64",
            64 => "cap.depth=64",
            65 => "cap.depth=65",
            66..=127 => "cap.depth66..127",
            _ => "cap.depth>=128",
        });
        if i < 1 {
            ctx.stats.sample(format!("cap {:?} depth {} {} quads", tags, depth, quads.len()));
        }
        let alt = ctx.rng.chance(1, 6);
        size_stats(ctx, &quads, indent, alt);
        emit_ser_api(ctx, trig, alt, pretty, indent, &pm, &quads);
    }
}

/// section 6 of `generate`
fn generate_generalized(ctx: &mut GenCtx, pms: &[Pm]) {
    let n_gen = if ctx.thorough { 3000 } else { 200 };
    for _ in 0..n_gen {
        let trig = ctx.rng.chance(2, 3);
        let pm = if ctx.rng.chance(1, 2) { None } else { ctx.rng.pick(pms).clone() };
        let mut quads = {
            let mut b = B::new(&mut ctx.rng, trig);
            let g0 = b.a_graph();
            b.generalized(&g0);
            for _ in 0..b.rng.range(0, 2) {
                let g = if b.rng.chance(2, 3) { g0.clone() } else { b.a_graph() };
                if b.rng.chance(1, 3) {
                    b.generalized(&g);
                } else {
                    b.fragment(&g);
                }
            }
            b.quads
        };
        for k in (1..quads.len()).rev() {
            let j = ctx.rng.below(k + 1);
            quads.swap(k, j);
        }
        quads.dedup();
        ctx.stats.bump("shape.generalized");
        // one in four in streaming mode: the generalized statements must be skipped, the strict ones written
        let stream = ctx.rng.chance(1, 4);
        if stream {
            ctx.stats.bump("stream.generalized");
        }
        let mut line = format!("ser gtrig {} {} {}", if stream { 0 } else { 1 }, hex("  "), render_pm(&pm));
        for q in &quads {
            line.push(' ');
            line.push_str(&q.render());
        }
        ctx.emit(&line);
    }
}

fn bnodes_of(t: &T, out: &mut std::collections::BTreeSet<String>) {
    match t {
        T::Bnode(b) => {
            out.insert(b.clone());
        }
        T::Triple(b) => b.iter().for_each(|x| bnodes_of(x, out)),
        _ => {}
    }
}

/// distribution counters of the dataset sizes / configurations actually generated
fn size_stats(ctx: &mut GenCtx, quads: &[Q], indent: &str, alt: bool) {
    use std::collections::{BTreeMap, BTreeSet};
    let bucket = |n: usize, edges: &[usize]| -> String {
        for e in edges {
            if n <= *e {
                return format!("<={}", e);
            }
        }
        format!(">{}", edges[edges.len() - 1])
    };
    let mut bn = BTreeSet::new();
    let mut per_graph: BTreeMap<Option<T>, BTreeSet<T>> = BTreeMap::new();
    let mut longest = 0;
    for q in quads {
        for t in [&q.s, &q.p, &q.o] {
            bnodes_of(t, &mut bn);
        }
        if let Some(g) = &q.g {
            bnodes_of(g, &mut bn);
        }
        per_graph.entry(q.g.clone()).or_default().insert(q.s.clone());
        for t in [&q.s, &q.o] {
            if let T::Lit(l, _) | T::Lang(l, _) = t {
                longest = longest.max(l.chars().count());
            }
        }
    }
    ctx.stats.bump(&format!("size.quads{}", bucket(quads.len(), &[8, 32, 128])));
    ctx.stats.bump(&format!("size.bnodes{}", bucket(bn.len(), &[0, 4, 16, 64])));
    ctx.stats.bump(&format!("size.graphs{}", bucket(per_graph.len(), &[1, 4, 8])));
    let subj = per_graph.values().map(|s| s.len()).max().unwrap_or(0);
    ctx.stats.bump(&format!("size.subjects_in_a_graph{}", bucket(subj, &[3, 15, 63])));
    ctx.stats.bump(&format!("size.longest_literal{}", bucket(longest, &[8, 24, 64])));
    let turtle_ws = |c: char| matches!(c, ' ' | '\t' | '\r' | '\n');
    ctx.stats.bump(if indent.chars().all(turtle_ws) {
        "indent.turtle_ws"
    } else if indent.chars().all(char::is_whitespace) {
        "indent.other_unicode_ws"
    } else {
        "indent.not_ws"
    });
    if alt {
        ctx.stats.bump("api.streaming_source+borrowed_prefix_map");
    }
}
