//! C04 — Turtle / TriG output (plain or pretty) parses back to an isomorphic dataset.
//!
//! requests (one per line, self-contained):
//!   ser <ttl|trig> <pretty 0|1> <indent hex> <pm> <quad>*      serialise with the REAL serializer, parse back with the
//!                                                             REAL parsers, compare up to blank-node isomorphism
//!   lit <term>                                                how the pretty printer writes one literal (default config)
//!   iri <hex> <pm>                                            how the pretty printer writes one IRI under a prefix map
//! <pm> = `d` (TurtleConfig default map) | `-` (empty map) | comma separated `<hexprefix>:<hexns>` pairs
//!
//! replies: n=<#quads> bn=<#blank nodes> out=<hex of the serialisation> [FAIL.<what>=<detail>]
//!
//! The real code runs in a child process (`vh-c04 worker`) so that non-termination, memory exhaustion and
//! stack overflow of the serializer are observations (`FAIL.no_termination`, `FAIL.crash`), not harness failures.
mod iso;
mod shapes;

use sophia_api::prefix::{Prefix, PrefixMapPair};
use sophia_api::prelude::*;
use sophia_api::term::SimpleTerm;
use sophia_turtle::serializer::trig::TrigSerializer;
use sophia_turtle::serializer::turtle::{TurtleConfig, TurtleSerializer};
use std::collections::BTreeSet;
use std::io::{BufRead, Write};
use std::sync::Mutex;
use std::sync::mpsc::{Receiver, channel};
use std::time::Duration;
use vhcore::tgen;
use vhcore::util::*;

pub fn parse_pm(s: &str) -> Option<Option<Vec<(String, String)>>> {
    match s {
        "d" => Some(None),
        "-" => Some(Some(vec![])),
        _ => {
            let mut v = vec![];
            for pair in s.split(',') {
                let (p, n) = pair.split_once(':')?;
                v.push((unhex(p)?, unhex(n)?));
            }
            Some(Some(v))
        }
    }
}

pub fn render_pm(pm: &Option<Vec<(String, String)>>) -> String {
    match pm {
        None => "d".into(),
        Some(v) if v.is_empty() => "-".into(),
        Some(v) => v.iter().map(|(p, n)| format!("{}:{}", hex(p), hex(n))).collect::<Vec<_>>().join(","),
    }
}

fn config(pretty: bool, indent: &str, pm: &Option<Vec<(String, String)>>) -> TurtleConfig {
    let mut c = TurtleConfig::new().with_pretty(pretty).with_indentation(indent);
    if let Some(v) = pm {
        let pairs: Vec<PrefixMapPair> = v
            .iter()
            .map(|(p, n)| (Prefix::new_unchecked(p.clone().into_boxed_str()), Iri::new_unchecked(n.clone().into_boxed_str())))
            .collect();
        c = c.with_own_prefix_map(pairs);
    }
    c
}

fn serialize(trig: bool, cfg: TurtleConfig, quads: &[Q]) -> Result<String, String> {
    if trig {
        let ds: Vec<([SimpleTerm<'static>; 3], Option<SimpleTerm<'static>>)> = quads.iter().map(tgen::q_to_simple).collect();
        let mut ser = TrigSerializer::new_stringifier_with_config(cfg);
        ser.serialize_dataset(&ds).map_err(|e| e.to_string())?;
        Ok(ser.to_string())
    } else {
        let g: Vec<[SimpleTerm<'static>; 3]> = quads.iter().map(|q| tgen::q_to_simple(q).0).collect();
        let mut ser = TurtleSerializer::new_stringifier_with_config(cfg);
        ser.serialize_graph(&g).map_err(|e| e.to_string())?;
        Ok(ser.to_string())
    }
}

fn parse_with(parser: &str, txt: &str) -> Result<BTreeSet<Q>, String> {
    let mut out = BTreeSet::new();
    match parser {
        "turtle" => sophia_turtle::parser::turtle::parse_str(txt)
            .for_each_triple(|t| {
                out.insert(iso::norm_q(&tgen::view_triple(t)));
            })
            .map_err(|e| e.to_string())?,
        "trig" => sophia_turtle::parser::trig::parse_str(txt)
            .for_each_quad(|q| {
                out.insert(iso::norm_q(&tgen::view_quad(q)));
            })
            .map_err(|e| e.to_string())?,
        "gtrig" => sophia_turtle::parser::gtrig::parse_str(txt)
            .for_each_quad(|q| {
                out.insert(iso::norm_q(&tgen::view_quad(q)));
            })
            .map_err(|e| e.to_string())?,
        _ => unreachable!(),
    }
    Ok(out)
}

fn qs(v: &[Q]) -> String {
    v.iter().take(6).map(|q| q.render().replace(' ', ",")).collect::<Vec<_>>().join("/")
}

/// the round-trip oracle on one serialisation
fn roundtrip(trig: bool, input: &[Q], txt: &str) -> String {
    let expected: BTreeSet<Q> = input.iter().map(iso::norm_q).collect();
    let primary = if trig { "trig" } else { "turtle" };
    let mut out = String::new();
    let got = match parse_with(primary, txt) {
        Err(e) => {
            return format!(" FAIL.parse_error={}", hex(&e));
        }
        Ok(g) => g,
    };
    if !iso::isomorphic(&expected, &got) {
        let (m, x) = iso::erased_diff(&expected, &got);
        out += &format!(" FAIL.not_isomorphic=m{},x{};M:{};X:{}", m.len(), x.len(), qs(&m), qs(&x));
    }
    // the other parsers of the crate must read the same document the same way
    let others: &[&str] = if trig { &["gtrig"] } else { &["trig", "gtrig"] };
    for p in others {
        match parse_with(p, txt) {
            Err(e) => out += &format!(" FAIL.parse_error_{}={}", p, hex(&e)),
            Ok(g2) => {
                if !iso::isomorphic(&got, &g2) {
                    out += &format!(" FAIL.parsers_disagree={}", p);
                }
            }
        }
    }
    out
}

fn parse_quads(toks: &[&str]) -> Option<Vec<Q>> {
    let mut it = toks.iter().copied().peekable();
    let mut v = vec![];
    while it.peek().is_some() {
        v.push(Q::parse(&mut it)?);
    }
    Some(v)
}

/// runs in the worker process
pub fn exec_real(line: &str) -> String {
    let f: Vec<&str> = line.split_whitespace().collect();
    match f.as_slice() {
        ["ser", fmt, pretty, ind, pm, rest @ ..] => {
            let trig = match *fmt {
                "ttl" => false,
                "trig" => true,
                _ => return "bad-op".into(),
            };
            let pretty = *pretty == "1";
            let (Some(ind), Some(pm), Some(quads)) = (unhex(ind), parse_pm(pm), parse_quads(rest)) else {
                return "bad-hex".into();
            };
            if !trig && quads.iter().any(|q| q.g.is_some()) {
                return "bad-op".into();
            }
            let mut bn = BTreeSet::new();
            for q in &quads {
                iso::bnodes_q(q, &mut bn);
            }
            let head = format!("n={} bn={}", quads.len(), bn.len());
            let cfg = config(pretty, &ind, &pm);
            match catch(std::panic::AssertUnwindSafe(|| serialize(trig, cfg, &quads))) {
                Err(p) => format!("{} FAIL.ser_panic={}", head, hex(&p)),
                Ok(Err(e)) => format!("{} FAIL.ser_error={}", head, hex(&e)),
                Ok(Ok(txt)) => {
                    let rt = roundtrip(trig, &quads, &txt);
                    if pretty {
                        format!("{} out={}{}", head, hex(&txt), rt)
                    } else {
                        // streaming mode is Rio's formatter: the text is not modelled, only observed
                        format!("{} stream={}{}", head, hex(&txt), rt)
                    }
                }
            }
        }
        ["lit", rest @ ..] => {
            let mut it = rest.iter().copied();
            let Some(t) = T::parse(&mut it) else { return "bad-hex".into() };
            one_object(t, &None)
        }
        ["iri", h, pm] => {
            let (Some(i), Some(pm)) = (unhex(h), parse_pm(pm)) else { return "bad-hex".into() };
            one_object(T::Iri(i), &pm)
        }
        _ => "bad-op".into(),
    }
}

/// serialise `<x:s> <x:p> OBJ` in pretty Turtle and cut the object's text out
fn one_object(o: T, pm: &Option<Vec<(String, String)>>) -> String {
    let q = Q { s: T::Iri("urn:c04:s".into()), p: T::Iri("urn:c04:p".into()), o, g: None };
    let cfg = config(true, " ", pm);
    match catch(std::panic::AssertUnwindSafe(|| serialize(false, cfg, std::slice::from_ref(&q)))) {
        Err(p) => format!("FAIL.ser_panic={}", hex(&p)),
        Ok(Err(e)) => format!("FAIL.ser_error={}", hex(&e)),
        Ok(Ok(txt)) => {
            let rt = roundtrip(false, std::slice::from_ref(&q), &txt);
            let tok = txt.rsplit_once("<urn:c04:p> ").and_then(|(_, r)| r.strip_suffix(".\n")).unwrap_or("?");
            format!("out={}{}", hex(tok), rt)
        }
    }
}

// ------------------------------------------------------------------ worker process plumbing

struct Worker {
    child: std::process::Child,
    stdin: std::process::ChildStdin,
    rx: Receiver<String>,
}

static WORKER: Mutex<Option<Worker>> = Mutex::new(None);
const REQUEST_CPU_S: u64 = 5;
const REQUEST_WALL_S: u64 = 300;
const WORKER_MEM_KB: u64 = 1_500_000;

fn spawn_worker() -> Worker {
    let exe = std::env::current_exe().unwrap();
    let mut child = std::process::Command::new("sh")
        .arg("-c")
        .arg(format!("ulimit -v {}; exec \"$0\" worker", WORKER_MEM_KB))
        .arg(exe)
        .stdin(std::process::Stdio::piped())
        .stdout(std::process::Stdio::piped())
        .stderr(std::process::Stdio::null())
        .spawn()
        .unwrap();
    let stdin = child.stdin.take().unwrap();
    let stdout = child.stdout.take().unwrap();
    let (tx, rx) = channel();
    std::thread::spawn(move || {
        let r = std::io::BufReader::new(stdout);
        for l in r.lines() {
            match l {
                Ok(l) => {
                    if tx.send(l).is_err() {
                        break;
                    }
                }
                Err(_) => break,
            }
        }
    });
    Worker { child, stdin, rx }
}

/// CPU time (user + system, in clock ticks) consumed so far by process `pid`
fn cpu_ticks(pid: u32) -> Option<u64> {
    let st = std::fs::read_to_string(format!("/proc/{}/stat", pid)).ok()?;
    // fields after the parenthesised command name; utime and stime are fields 14 and 15 of the line
    let rest = st.rsplit_once(") ")?.1;
    let f: Vec<&str> = rest.split(' ').collect();
    Some(f.get(11)?.parse::<u64>().ok()? + f.get(12)?.parse::<u64>().ok()?)
}

pub fn exec(line: &str) -> String {
    let mut guard = WORKER.lock().unwrap();
    if guard.is_none() {
        *guard = Some(spawn_worker());
    }
    let w = guard.as_mut().unwrap();
    let pid = w.child.id();
    let cpu0 = cpu_ticks(pid).unwrap_or(0);
    let t0 = std::time::Instant::now();
    let sent = writeln!(w.stdin, "{}", line).and_then(|_| w.stdin.flush());
    // non-termination is judged on the CPU time the worker spent on this request (100 ticks/s), so that a loaded
    // machine cannot turn a slow answer into a finding; the wall-clock cap only guards against a blocked worker
    let r = loop {
        if sent.is_err() {
            break Err(std::sync::mpsc::RecvTimeoutError::Disconnected);
        }
        match w.rx.recv_timeout(Duration::from_millis(250)) {
            Ok(l) => break Ok(l),
            Err(std::sync::mpsc::RecvTimeoutError::Disconnected) => break Err(std::sync::mpsc::RecvTimeoutError::Disconnected),
            Err(std::sync::mpsc::RecvTimeoutError::Timeout) => {
                let used = cpu_ticks(pid).unwrap_or(0).saturating_sub(cpu0);
                if used >= REQUEST_CPU_S * 100 || t0.elapsed().as_secs() >= REQUEST_WALL_S {
                    break Err(std::sync::mpsc::RecvTimeoutError::Timeout);
                }
            }
        }
    };
    match r {
        Ok(l) => l,
        Err(e) => {
            let mut w = guard.take().unwrap();
            match e {
                std::sync::mpsc::RecvTimeoutError::Timeout => {
                    let _ = w.child.kill();
                    let _ = w.child.wait();
                    "FAIL.no_termination=timeout".to_string()
                }
                std::sync::mpsc::RecvTimeoutError::Disconnected => {
                    let st = w.child.wait().map(|s| format!("{:?}", s)).unwrap_or_default();
                    // allocation failure under the memory cap aborts the worker: unbounded growth
                    format!("FAIL.no_termination=crash:{}", hex(&st))
                }
            }
        }
    }
}

fn worker_main() {
    std::panic::set_hook(Box::new(|_| {}));
    let stdin = std::io::stdin();
    let stdout = std::io::stdout();
    for line in stdin.lock().lines() {
        let Ok(line) = line else { break };
        let r = match catch(std::panic::AssertUnwindSafe(|| exec_real(&line))) {
            Ok(r) => r,
            Err(m) => format!("panic={}", hex(&m)),
        };
        let mut o = stdout.lock();
        writeln!(o, "{}", r).unwrap();
        o.flush().unwrap();
    }
}

fn main() {
    if std::env::args().nth(1).as_deref() == Some("worker") {
        worker_main();
        return;
    }
    vhcore::main_loop(shapes::generate, exec);
}
