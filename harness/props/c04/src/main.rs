//! C04 — Turtle / TriG output (plain or pretty) parses back to an isomorphic dataset.
//!
//! requests (one per line, self-contained):
//!   ser <ttl|trig> <pretty 0|1> <indent hex> <pm> <quad>*      serialise with the REAL serializer, parse back with the
//!                                                             REAL parsers, compare up to blank-node isomorphism
//!   lit <term>                                                how the pretty printer writes one literal (default config)
//!   iri <hex> <pm>                                            how the pretty printer writes one IRI under a prefix map
//! <pm> = `d` (TurtleConfig default map) | `-` (empty map) | comma separated `<hexprefix>:<hexns>` pairs
//! `ttl~` / `trig~`: the same through the other entry points (`serialize_triples/quads` from a streaming fallible
//! source; prefix map through `with_prefix_map(&[(Prefix<&str>, Iri<&str>)])`, i.e. `PrefixMap::iter/to_vec`)
//!
//! replies: n=<#quads> bn=<#blank nodes> cfg=<ok|rejected> out=<hex of the serialisation> [FAIL.<what>=<detail>]
//! `cfg=rejected`: `TurtleConfig::with_indentation` refused the indentation (its documented precondition).
//!
//! Oracle (what the property demands, nothing more): the document parses with the format's own parser
//! (`FAIL.parse_error`), the parse is isomorphic to the input (`FAIL.not_isomorphic`), and no statement is stated
//! twice (`FAIL.duplicate_statement`: "every triple/quad is present exactly once").  What the crate's *other*
//! parsers (TriG on Turtle, generalized TriG) make of the document is reported as observation `x.<parser>=…`
//! only: it is not part of C04 (C08 owns the generalized parser).
//!
//! The real code runs in a child process (`vh-c04 worker`) so that non-termination, memory exhaustion and
//! stack overflow of the serializer are observations (`FAIL.no_termination`, `FAIL.crash`), not harness failures.
mod iso;
mod shapes;

use sophia_api::prefix::{Prefix, PrefixMapPair};
use sophia_api::prelude::*;
use sophia_api::term::SimpleTerm;
use sophia_turtle::serializer::trig::TrigSerializer;
use sophia_turtle::serializer::turtle::{TurtleConfig, TurtleSerializer};
use std::collections::BTreeSet;
use std::io::{BufRead, Write};
use std::sync::Mutex;
use std::sync::mpsc::{Receiver, channel};
use std::time::Duration;
use vhcore::tgen;
use vhcore::util::*;

pub fn parse_pm(s: &str) -> Option<Option<Vec<(String, String)>>> {
    match s {
        "d" => Some(None),
        "-" => Some(Some(vec![])),
        _ => {
            let mut v = vec![];
            for pair in s.split(',') {
                let (p, n) = pair.split_once(':')?;
                v.push((unhex(p)?, unhex(n)?));
            }
            Some(Some(v))
        }
    }
}

pub fn render_pm(pm: &Option<Vec<(String, String)>>) -> String {
    match pm {
        None => "d".into(),
        Some(v) if v.is_empty() => "-".into(),
        Some(v) => v.iter().map(|(p, n)| format!("{}:{}", hex(p), hex(n))).collect::<Vec<_>>().join(","),
    }
}

/// `None`: `with_indentation` refused the indentation (it panics: its documented way of rejecting)
fn config(pretty: bool, indent: &str, pm: &Option<Vec<(String, String)>>, alt: bool) -> Option<TurtleConfig> {
    let ind = indent.to_string();
    let mut c = catch(move || TurtleConfig::new().with_pretty(pretty).with_indentation(ind)).ok()?;
    if let Some(v) = pm {
        if alt {
            let pairs: Vec<(Prefix<&str>, Iri<&str>)> = v.iter().map(|(p, n)| (Prefix::new_unchecked(p.as_str()), Iri::new_unchecked(n.as_str()))).collect();
            c = c.with_prefix_map(&pairs[..]);
        } else {
            let pairs: Vec<PrefixMapPair> = v
                .iter()
                .map(|(p, n)| (Prefix::new_unchecked(p.clone().into_boxed_str()), Iri::new_unchecked(n.clone().into_boxed_str())))
                .collect();
            c = c.with_own_prefix_map(pairs);
        }
    }
    Some(c)
}

fn serialize(trig: bool, alt: bool, cfg: TurtleConfig, quads: &[Q]) -> Result<String, String> {
    use std::convert::Infallible;
    if trig {
        let ds: Vec<([SimpleTerm<'static>; 3], Option<SimpleTerm<'static>>)> = quads.iter().map(tgen::q_to_simple).collect();
        let mut ser = TrigSerializer::new_stringifier_with_config(cfg);
        if alt {
            ser.serialize_quads(ds.into_iter().map(Ok::<_, Infallible>)).map_err(|e| e.to_string())?;
        } else {
            ser.serialize_dataset(&ds).map_err(|e| e.to_string())?;
        }
        Ok(ser.to_string())
    } else {
        let g: Vec<[SimpleTerm<'static>; 3]> = quads.iter().map(|q| tgen::q_to_simple(q).0).collect();
        let mut ser = TurtleSerializer::new_stringifier_with_config(cfg);
        if alt {
            ser.serialize_triples(g.into_iter().map(Ok::<_, Infallible>)).map_err(|e| e.to_string())?;
        } else {
            ser.serialize_graph(&g).map_err(|e| e.to_string())?;
        }
        Ok(ser.to_string())
    }
}

/// the statements in document order, duplicates included
fn parse_with(parser: &str, txt: &str) -> Result<Vec<Q>, String> {
    let mut out = vec![];
    match parser {
        "turtle" => sophia_turtle::parser::turtle::parse_str(txt)
            .for_each_triple(|t| {
                out.push(iso::norm_q(&tgen::view_triple(t)));
            })
            .map_err(|e| e.to_string())?,
        "trig" => sophia_turtle::parser::trig::parse_str(txt)
            .for_each_quad(|q| {
                out.push(iso::norm_q(&tgen::view_quad(q)));
            })
            .map_err(|e| e.to_string())?,
        "gtrig" => sophia_turtle::parser::gtrig::parse_str(txt)
            .for_each_quad(|q| {
                out.push(iso::norm_q(&tgen::view_quad(q)));
            })
            .map_err(|e| e.to_string())?,
        _ => unreachable!(),
    }
    Ok(out)
}

fn qs(v: &[Q]) -> String {
    v.iter().take(6).map(|q| q.render().replace(' ', ",")).collect::<Vec<_>>().join("/")
}

/// the round-trip oracle on one serialisation.  `pretty`: the input was collected into a set first, so every
/// statement must be stated once; streaming mode writes one statement per input statement.
fn roundtrip(trig: bool, pretty: bool, input: &[Q], txt: &str) -> String {
    roundtrip_n(trig, pretty, input, txt).0
}

/// strict RDF-star (what Rio can represent), written independently of `convert_triple`
fn strict_subject(t: &T) -> bool {
    match t {
        T::Iri(_) | T::Bnode(_) => true,
        T::Triple(b) => strict_subject(&b[0]) && matches!(b[1], T::Iri(_)) && strict_object(&b[2]),
        _ => false,
    }
}
fn strict_object(t: &T) -> bool {
    match t {
        T::Iri(_) | T::Bnode(_) | T::Lit(..) | T::Lang(..) => true,
        T::Triple(b) => strict_subject(&b[0]) && matches!(b[1], T::Iri(_)) && strict_object(&b[2]),
        T::Var(_) => false,
    }
}
fn strict_quad(q: &Q, with_graph: bool) -> bool {
    strict_subject(&q.s)
        && matches!(q.p, T::Iri(_))
        && strict_object(&q.o)
        && (!with_graph || matches!(q.g, None | Some(T::Iri(_)) | Some(T::Bnode(_))))
}

/// also returns the number of statements in the document (None: it did not parse)
fn roundtrip_n(trig: bool, pretty: bool, input: &[Q], txt: &str) -> (String, Option<usize>) {
    let expected: BTreeSet<Q> = input.iter().map(iso::norm_q).collect();
    let primary = if trig { "trig" } else { "turtle" };
    let mut out = String::new();
    let stated = match parse_with(primary, txt) {
        Err(e) => {
            return (format!(" FAIL.parse_error={}", hex(&e)), None);
        }
        Ok(g) => g,
    };
    let got: BTreeSet<Q> = stated.iter().cloned().collect();
    if !iso::isomorphic(&expected, &got) {
        let (m, x) = iso::erased_diff(&expected, &got);
        out += &format!(" FAIL.not_isomorphic=m{},x{};M:{};X:{}", m.len(), x.len(), qs(&m), qs(&x));
    } else {
        // "every triple/quad is present exactly once": more statements in the document than the serializer was given
        let allowed = if pretty { expected.len() } else { input.len() };
        if stated.len() > allowed {
            let mut seen = BTreeSet::new();
            let dup: Vec<Q> = stated.iter().filter(|q| !seen.insert((*q).clone())).cloned().collect();
            out += &format!(" FAIL.duplicate_statement={}of{};{}", stated.len() - allowed, stated.len(), qs(&dup));
        }
    }
    // observation only (not part of C04): how the other parsers of the crate read the same document
    let others: &[&str] = if trig { &["gtrig"] } else { &["trig", "gtrig"] };
    for p in others {
        match parse_with(p, txt) {
            Err(e) => out += &format!(" x.{}=error:{}", p, hex(&e)),
            Ok(g2) => {
                let g2: BTreeSet<Q> = g2.into_iter().collect();
                if !iso::isomorphic(&got, &g2) {
                    out += &format!(" x.{}=differs", p);
                }
            }
        }
    }
    (out, Some(stated.len()))
}

fn parse_quads(toks: &[&str]) -> Option<Vec<Q>> {
    let mut it = toks.iter().copied().peekable();
    let mut v = vec![];
    while it.peek().is_some() {
        v.push(Q::parse(&mut it)?);
    }
    Some(v)
}

/// runs in the worker process
pub fn exec_real(line: &str) -> String {
    let f: Vec<&str> = line.split_whitespace().collect();
    match f.as_slice() {
        ["ping"] => "pong".into(),
        ["ser", fmt, pretty, ind, pm, rest @ ..] => {
            let (fmt, alt) = match fmt.strip_suffix('~') {
                Some(f) => (f, true),
                None => (*fmt, false),
            };
            // `gtrig`: generalized RDF through the pretty TriG writer; outside the property's quantifier, so nothing
            // here is an oracle failure: the text is compared with the model, the rest is observation (`x.`)
            let generalized = fmt == "gtrig";
            let trig = match fmt {
                "ttl" => false,
                "trig" | "gtrig" => true,
                _ => return "bad-op".into(),
            };
            let pretty = *pretty == "1";
            let (Some(ind), Some(pm), Some(quads)) = (unhex(ind), parse_pm(pm), parse_quads(rest)) else {
                return "bad-hex".into();
            };
            if !trig && quads.iter().any(|q| q.g.is_some()) {
                return "bad-op".into();
            }
            let mut bn = BTreeSet::new();
            for q in &quads {
                iso::bnodes_q(q, &mut bn);
            }
            let head = format!("n={} bn={}", quads.len(), bn.len());
            let Some(cfg) = config(pretty, &ind, &pm, alt) else {
                return format!("{} cfg=rejected", head);
            };
            let head = format!("{} cfg=ok", head);
            if generalized && !pretty {
                // streaming mode on generalized data: "non-standard (generalized) RDF quads will be silently ignored";
                // the document must hold exactly the strict RDF-star statements of the input
                let strict: Vec<Q> = quads.iter().filter(|q| strict_quad(q, true)).cloned().collect();
                return match catch(std::panic::AssertUnwindSafe(|| serialize(true, alt, cfg, &quads))) {
                    Err(p) => format!("{} FAIL.ser_panic={}", head, hex(&p)),
                    Ok(Err(e)) => format!("{} FAIL.ser_error={}", head, hex(&e)),
                    Ok(Ok(txt)) => {
                        let (rt, n) = roundtrip_n(true, false, &strict, &txt);
                        let kept = n.map(|n| format!(" kept={}", n)).unwrap_or_default();
                        format!("{} stream={}{}{}", head, hex(&txt), kept, rt)
                    }
                };
            }
            if generalized {
                return match catch(std::panic::AssertUnwindSafe(|| serialize(true, alt, cfg, &quads))) {
                    Err(p) => format!("{} x.ser_panic={}", head, hex(&p)),
                    Ok(Err(e)) => format!("{} x.ser_error={}", head, hex(&e)),
                    Ok(Ok(txt)) => {
                        let expected: BTreeSet<Q> = quads.iter().map(iso::norm_q).collect();
                        let rt = match parse_with("gtrig", &txt) {
                            Err(_) => "parse_error",
                            Ok(g) => {
                                if iso::isomorphic(&expected, &g.into_iter().collect()) {
                                    "ok"
                                } else {
                                    "not_isomorphic"
                                }
                            }
                        };
                        format!("{} out={} x.rt={}", head, hex(&txt), rt)
                    }
                };
            }
            match catch(std::panic::AssertUnwindSafe(|| serialize(trig, alt, cfg, &quads))) {
                Err(p) => format!("{} FAIL.ser_panic={}", head, hex(&p)),
                Ok(Err(e)) => format!("{} FAIL.ser_error={}", head, hex(&e)),
                Ok(Ok(txt)) => {
                    let (mut rt, stated) = roundtrip_n(trig, pretty, &quads, &txt);
                    let turtle_ws = |c: char| matches!(c, ' ' | '\t' | '\r' | '\n');
                    if rt.contains(" FAIL.") && !ind.chars().all(turtle_ws) {
                        // observation: does the same request round-trip once every character of the indentation that is
                        // not Turtle white space is replaced by a space?  (then the indentation alone explains the failure)
                        let ind2: String = ind.chars().map(|c| if turtle_ws(c) { c } else { ' ' }).collect();
                        let again = config(pretty, &ind2, &pm, alt)
                            .and_then(|cfg2| catch(std::panic::AssertUnwindSafe(|| serialize(trig, alt, cfg2, &quads))).ok())
                            .and_then(|r| r.ok())
                            .map(|txt2| roundtrip(trig, pretty, &quads, &txt2));
                        rt += match again {
                            Some(r) if !r.contains(" FAIL.") => " x.reindent=ok",
                            _ => " x.reindent=fails",
                        };
                    }
                    if pretty {
                        format!("{} out={}{}", head, hex(&txt), rt)
                    } else {
                        // streaming mode is Rio's formatter: the text is not modelled, only observed
                        let kept = stated.map(|n| format!(" kept={}", n)).unwrap_or_default();
                        format!("{} stream={}{}{}", head, hex(&txt), kept, rt)
                    }
                }
            }
        }
        ["lit", rest @ ..] => {
            let mut it = rest.iter().copied();
            let Some(t) = T::parse(&mut it) else { return "bad-hex".into() };
            one_object(t, &None)
        }
        ["iri", h, pm] => {
            let (Some(i), Some(pm)) = (unhex(h), parse_pm(pm)) else { return "bad-hex".into() };
            one_object(T::Iri(i), &pm)
        }
        _ => "bad-op".into(),
    }
}

/// serialise `<x:s> <x:p> OBJ` in pretty Turtle and cut the object's text out
fn one_object(o: T, pm: &Option<Vec<(String, String)>>) -> String {
    let q = Q { s: T::Iri("urn:c04:s".into()), p: T::Iri("urn:c04:p".into()), o, g: None };
    let cfg = config(true, " ", pm, false).expect("a space is an indentation");
    match catch(std::panic::AssertUnwindSafe(|| serialize(false, false, cfg, std::slice::from_ref(&q)))) {
        Err(p) => format!("FAIL.ser_panic={}", hex(&p)),
        Ok(Err(e)) => format!("FAIL.ser_error={}", hex(&e)),
        Ok(Ok(txt)) => {
            let rt = roundtrip(false, true, std::slice::from_ref(&q), &txt);
            let tok = txt.rsplit_once("<urn:c04:p> ").and_then(|(_, r)| r.strip_suffix(".\n")).unwrap_or("?");
            format!("out={}{}", hex(tok), rt)
        }
    }
}

// ------------------------------------------------------------------ worker process plumbing

struct Worker {
    child: std::process::Child,
    stdin: std::process::ChildStdin,
    rx: Receiver<String>,
}

static WORKER: Mutex<Option<Worker>> = Mutex::new(None);
/// the memory cap cannot be used in this environment (a capped worker does not even answer `ping`)
static NO_MEM_CAP: std::sync::atomic::AtomicBool = std::sync::atomic::AtomicBool::new(false);
/// CPU seconds of the worker per request (the largest generated request needs well under one)
const REQUEST_CPU_S: u64 = 30;
const REQUEST_WALL_S: u64 = 900;
const WORKER_MEM_KB: u64 = 2_000_000;

/// a worker that answered `ping`; falls back to a worker without address-space cap where `ulimit -v` is refused
/// or the runtime needs more address space than the cap (then only the CPU cap detects unbounded growth)
fn spawn_worker() -> Worker {
    use std::sync::atomic::Ordering::Relaxed;
    if !NO_MEM_CAP.load(Relaxed) {
        let mut w = spawn_worker_with(true);
        let ok = writeln!(w.stdin, "ping").and_then(|_| w.stdin.flush()).is_ok()
            && matches!(w.rx.recv_timeout(Duration::from_secs(120)).as_deref(), Ok("pong"));
        if ok {
            return w;
        }
        let _ = w.child.kill();
        let _ = w.child.wait();
        NO_MEM_CAP.store(true, Relaxed);
    }
    spawn_worker_with(false)
}

fn spawn_worker_with(mem_cap: bool) -> Worker {
    let exe = std::env::current_exe().unwrap();
    let script = if mem_cap { format!("ulimit -v {} 2>/dev/null; exec \"$0\" worker", WORKER_MEM_KB) } else { "exec \"$0\" worker".to_string() };
    let mut child = std::process::Command::new("sh")
        .arg("-c")
        .arg(script)
        .arg(exe)
        .stdin(std::process::Stdio::piped())
        .stdout(std::process::Stdio::piped())
        .stderr(std::process::Stdio::null())
        .spawn()
        .unwrap();
    let stdin = child.stdin.take().unwrap();
    let stdout = child.stdout.take().unwrap();
    let (tx, rx) = channel();
    std::thread::spawn(move || {
        let r = std::io::BufReader::new(stdout);
        for l in r.lines() {
            match l {
                Ok(l) => {
                    if tx.send(l).is_err() {
                        break;
                    }
                }
                Err(_) => break,
            }
        }
    });
    Worker { child, stdin, rx }
}

/// CPU time (user + system, in clock ticks) consumed so far by process `pid`
fn cpu_ticks(pid: u32) -> Option<u64> {
    let st = std::fs::read_to_string(format!("/proc/{}/stat", pid)).ok()?;
    // fields after the parenthesised command name; utime and stime are fields 14 and 15 of the line
    let rest = st.rsplit_once(") ")?.1;
    let f: Vec<&str> = rest.split(' ').collect();
    Some(f.get(11)?.parse::<u64>().ok()? + f.get(12)?.parse::<u64>().ok()?)
}

pub fn exec(line: &str) -> String {
    let mut guard = WORKER.lock().unwrap();
    if guard.is_none() {
        *guard = Some(spawn_worker());
    }
    let w = guard.as_mut().unwrap();
    let pid = w.child.id();
    let cpu0 = cpu_ticks(pid).unwrap_or(0);
    let t0 = std::time::Instant::now();
    let sent = writeln!(w.stdin, "{}", line).and_then(|_| w.stdin.flush());
    // non-termination is judged on the CPU time the worker spent on this request (100 ticks/s), so that a loaded
    // machine cannot turn a slow answer into a finding; the wall-clock cap only guards against a blocked worker
    let r = loop {
        if sent.is_err() {
            break Err(std::sync::mpsc::RecvTimeoutError::Disconnected);
        }
        match w.rx.recv_timeout(Duration::from_millis(250)) {
            Ok(l) => break Ok(l),
            Err(std::sync::mpsc::RecvTimeoutError::Disconnected) => break Err(std::sync::mpsc::RecvTimeoutError::Disconnected),
            Err(std::sync::mpsc::RecvTimeoutError::Timeout) => {
                let used = cpu_ticks(pid).unwrap_or(0).saturating_sub(cpu0);
                if used >= REQUEST_CPU_S * 100 || t0.elapsed().as_secs() >= REQUEST_WALL_S {
                    break Err(std::sync::mpsc::RecvTimeoutError::Timeout);
                }
            }
        }
    };
    match r {
        Ok(l) => l,
        Err(e) => {
            let mut w = guard.take().unwrap();
            match e {
                std::sync::mpsc::RecvTimeoutError::Timeout => {
                    let _ = w.child.kill();
                    let _ = w.child.wait();
                    "FAIL.no_termination=timeout".to_string()
                }
                std::sync::mpsc::RecvTimeoutError::Disconnected => {
                    let st = w.child.wait().map(|s| format!("{:?}", s)).unwrap_or_default();
                    // allocation failure under the memory cap aborts the worker: unbounded growth
                    format!("FAIL.no_termination=crash:{}", hex(&st))
                }
            }
        }
    }
}

fn worker_main() {
    std::panic::set_hook(Box::new(|_| {}));
    let stdin = std::io::stdin();
    let stdout = std::io::stdout();
    for line in stdin.lock().lines() {
        let Ok(line) = line else { break };
        let r = match catch(std::panic::AssertUnwindSafe(|| exec_real(&line))) {
            Ok(r) => r,
            Err(m) => format!("panic={}", hex(&m)),
        };
        let mut o = stdout.lock();
        writeln!(o, "{}", r).unwrap();
        o.flush().unwrap();
    }
}

fn main() {
    if std::env::args().nth(1).as_deref() == Some("worker") {
        worker_main();
        return;
    }
    vhcore::main_loop(shapes::generate, exec);
}
