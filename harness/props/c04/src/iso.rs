//! Exact blank-node isomorphism of two sets of abstract quads (own implementation: the check must not
//! depend on `sophia_isomorphism`, which has a known defect with blank nodes inside quoted triples).
use std::collections::{BTreeMap, BTreeSet};
use vhcore::util::{Q, T};

/// RDF 1.1: language tags are compared case-insensitively
pub fn norm(t: &T) -> T {
    match t {
        T::Lang(l, tag) => T::Lang(l.clone(), tag.to_ascii_lowercase()),
        T::Triple(b) => T::Triple(Box::new([norm(&b[0]), norm(&b[1]), norm(&b[2])])),
        x => x.clone(),
    }
}

pub fn norm_q(q: &Q) -> Q {
    Q { s: norm(&q.s), p: norm(&q.p), o: norm(&q.o), g: q.g.as_ref().map(norm) }
}

fn bnodes_t(t: &T, out: &mut BTreeSet<String>) {
    match t {
        T::Bnode(b) => {
            out.insert(b.clone());
        }
        T::Triple(b) => {
            for x in b.iter() {
                bnodes_t(x, out);
            }
        }
        _ => {}
    }
}

pub fn bnodes_q(q: &Q, out: &mut BTreeSet<String>) {
    bnodes_t(&q.s, out);
    bnodes_t(&q.p, out);
    bnodes_t(&q.o, out);
    if let Some(g) = &q.g {
        bnodes_t(g, out);
    }
}

pub fn bnodes(ds: &BTreeSet<Q>) -> BTreeSet<String> {
    let mut s = BTreeSet::new();
    for q in ds {
        bnodes_q(q, &mut s);
    }
    s
}

/// rename blank nodes through `f` (None = leave the quad unmapped)
fn map_t(t: &T, f: &dyn Fn(&str) -> Option<String>) -> Option<T> {
    Some(match t {
        T::Bnode(b) => T::Bnode(f(b)?),
        T::Triple(b) => T::Triple(Box::new([map_t(&b[0], f)?, map_t(&b[1], f)?, map_t(&b[2], f)?])),
        x => x.clone(),
    })
}

fn map_q(q: &Q, f: &dyn Fn(&str) -> Option<String>) -> Option<Q> {
    Some(Q {
        s: map_t(&q.s, f)?,
        p: map_t(&q.p, f)?,
        o: map_t(&q.o, f)?,
        g: match &q.g {
            None => None,
            Some(g) => Some(map_t(g, f)?),
        },
    })
}

/// quad with every blank node label erased
pub fn erase(q: &Q) -> Q {
    map_q(q, &|_| Some(String::new())).unwrap()
}

pub fn erased_multiset(ds: &BTreeSet<Q>) -> BTreeMap<Q, usize> {
    let mut m = BTreeMap::new();
    for q in ds {
        *m.entry(erase(q)).or_insert(0) += 1;
    }
    m
}

/// one side of the comparison: quads, blank node labels, and for each label the quads it occurs in
struct Side {
    quads: Vec<Q>,
    labels: Vec<String>,
    occ: Vec<Vec<usize>>,
}

impl Side {
    fn new(ds: &BTreeSet<Q>) -> Side {
        let quads: Vec<Q> = ds.iter().cloned().collect();
        let labels: Vec<String> = bnodes(ds).into_iter().collect();
        let index: BTreeMap<&str, usize> = labels.iter().enumerate().map(|(i, l)| (l.as_str(), i)).collect();
        let mut occ = vec![vec![]; labels.len()];
        for (k, q) in quads.iter().enumerate() {
            let mut bs = BTreeSet::new();
            bnodes_q(q, &mut bs);
            for b in bs {
                occ[index[b.as_str()]].push(k);
            }
        }
        Side { quads, labels, occ }
    }
}

type Interner = BTreeMap<(usize, Vec<Q>), usize>;

/// one refinement round: the new colour of a node is its old colour together with the quads it occurs in, the node
/// itself marked `*` and every other blank node replaced by its old colour
fn round(side: &Side, col: &[usize], interner: &mut Interner) -> Vec<usize> {
    let index: BTreeMap<&str, usize> = side.labels.iter().enumerate().map(|(i, l)| (l.as_str(), i)).collect();
    (0..side.labels.len())
        .map(|i| {
            let me = side.labels[i].as_str();
            let mut sig: Vec<Q> =
                side.occ[i].iter().map(|k| map_q(&side.quads[*k], &|x| Some(if x == me { "*".to_string() } else { format!("#{}", col[index[x]]) })).unwrap()).collect();
            sig.sort();
            let n = interner.len();
            *interner.entry((col[i], sig)).or_insert(n)
        })
        .collect()
}

fn histogram(col: &[usize]) -> BTreeMap<usize, usize> {
    let mut h = BTreeMap::new();
    for c in col {
        *h.entry(*c).or_insert(0) += 1;
    }
    h
}

/// refine both colourings in lock step until stable; false = the colour histograms differ (not isomorphic)
fn refine(a: &Side, ca: &mut Vec<usize>, b: &Side, cb: &mut Vec<usize>) -> bool {
    loop {
        let before = histogram(ca).len();
        let mut interner = Interner::new();
        let na = round(a, ca, &mut interner);
        let nb = round(b, cb, &mut interner);
        if histogram(&na) != histogram(&nb) {
            return false;
        }
        let after = histogram(&na).len();
        *ca = na;
        *cb = nb;
        if after == before {
            return true;
        }
    }
}

/// individualisation-refinement search
fn search(a: &Side, ca: &mut Vec<usize>, b: &Side, cb: &mut Vec<usize>, bset: &BTreeSet<Q>) -> bool {
    if !refine(a, ca, b, cb) {
        return false;
    }
    let mut classes: BTreeMap<usize, Vec<usize>> = BTreeMap::new();
    for (i, c) in ca.iter().enumerate() {
        classes.entry(*c).or_default().push(i);
    }
    let pick = classes.iter().filter(|(_, v)| v.len() > 1).min_by_key(|(c, v)| (v.len(), **c));
    match pick {
        None => {
            // discrete: the colouring *is* the bijection; check it maps every quad of `a` into `b`
            let of_colour: BTreeMap<usize, &str> = cb.iter().enumerate().map(|(j, c)| (*c, b.labels[j].as_str())).collect();
            let index: BTreeMap<&str, usize> = a.labels.iter().enumerate().map(|(i, l)| (l.as_str(), i)).collect();
            a.quads.iter().all(|q| match map_q(q, &|l| of_colour.get(&ca[index[l]]).map(|s| s.to_string())) {
                Some(m) => bset.contains(&m),
                None => false,
            })
        }
        Some((colour, members)) => {
            let x = members[0];
            let fresh = ca.iter().chain(cb.iter()).max().copied().unwrap_or(0) + 1;
            let cands: Vec<usize> = (0..cb.len()).filter(|j| cb[*j] == *colour).collect();
            for y in cands {
                let mut ca2 = ca.clone();
                let mut cb2 = cb.clone();
                ca2[x] = fresh;
                cb2[y] = fresh;
                if search(a, &mut ca2, b, &mut cb2, bset) {
                    return true;
                }
            }
            false
        }
    }
}

/// exact test: is there a bijection of blank node labels mapping `a` onto `b`?
/// (colour refinement + individualisation: polynomial on the tree-, chain- and cycle-like shapes generated here)
pub fn isomorphic(a: &BTreeSet<Q>, b: &BTreeSet<Q>) -> bool {
    if a.len() != b.len() {
        return false;
    }
    if erased_multiset(a) != erased_multiset(b) {
        return false;
    }
    let (sa, sb) = (Side::new(a), Side::new(b));
    if sa.labels.len() != sb.labels.len() {
        return false;
    }
    if sa.labels.is_empty() {
        return a == b;
    }
    let mut ca = vec![0; sa.labels.len()];
    let mut cb = vec![0; sb.labels.len()];
    // |a| = |b|, the renaming is injective on quads, every image is in b  =>  image = b
    search(&sa, &mut ca, &sb, &mut cb, b)
}

/// difference of the label-erased multisets: (missing from `b`, extra in `b`)
pub fn erased_diff(a: &BTreeSet<Q>, b: &BTreeSet<Q>) -> (Vec<Q>, Vec<Q>) {
    let ma = erased_multiset(a);
    let mb = erased_multiset(b);
    let mut miss = vec![];
    let mut extra = vec![];
    for (q, n) in &ma {
        let m = mb.get(q).copied().unwrap_or(0);
        for _ in m..*n {
            miss.push(q.clone());
        }
    }
    for (q, n) in &mb {
        let m = ma.get(q).copied().unwrap_or(0);
        for _ in m..*n {
            extra.push(q.clone());
        }
    }
    (miss, extra)
}

#[cfg(test)]
mod test {
    use super::*;
    fn b(s: &str) -> T {
        T::Bnode(s.into())
    }
    fn i(s: &str) -> T {
        T::Iri(s.into())
    }
    fn q(s: T, p: T, o: T) -> Q {
        Q { s, p, o, g: None }
    }
    #[test]
    fn cycle_vs_chain() {
        let a: BTreeSet<Q> = [q(b("x"), i("p"), b("y")), q(b("y"), i("p"), b("x"))].into_iter().collect();
        let c: BTreeSet<Q> = [q(b("1"), i("p"), b("2")), q(b("2"), i("p"), b("1"))].into_iter().collect();
        let d: BTreeSet<Q> = [q(b("1"), i("p"), b("1")), q(b("2"), i("p"), b("2"))].into_iter().collect();
        assert!(isomorphic(&a, &c));
        assert!(!isomorphic(&a, &d));
        let t1: BTreeSet<Q> = [q(T::Triple(Box::new([b("x"), i("p"), b("y")])), i("q"), b("x"))].into_iter().collect();
        let t2: BTreeSet<Q> = [q(T::Triple(Box::new([b("u"), i("p"), b("v")])), i("q"), b("u"))].into_iter().collect();
        let t3: BTreeSet<Q> = [q(T::Triple(Box::new([b("u"), i("p"), b("v")])), i("q"), b("v"))].into_iter().collect();
        assert!(isomorphic(&t1, &t2));
        assert!(!isomorphic(&t1, &t3));
    }
    #[test]
    fn symmetric_and_large() {
        // a 40-cycle against two 20-cycles, against a relabelled 40-cycle
        let cyc = |n: usize, off: usize| -> Vec<Q> { (0..n).map(|k| q(b(&format!("c{}", off + k)), i("p"), b(&format!("c{}", off + (k + 1) % n)))).collect() };
        let one: BTreeSet<Q> = cyc(40, 0).into_iter().collect();
        let two: BTreeSet<Q> = cyc(20, 0).into_iter().chain(cyc(20, 100)).collect();
        let ren: BTreeSet<Q> = (0..40).map(|k| q(b(&format!("z{}", (k * 7) % 40)), i("p"), b(&format!("z{}", ((k + 1) * 7) % 40)))).collect();
        assert!(!isomorphic(&one, &two));
        assert!(isomorphic(&one, &ren));
        // 60 indistinguishable leaves under a chain
        let chain = |pre: &str| -> BTreeSet<Q> {
            let mut v = vec![];
            for k in 0..60 {
                v.push(q(b(&format!("{}{}", pre, k)), i("first"), b(&format!("{}leaf{}", pre, k))));
                v.push(q(b(&format!("{}{}", pre, k)), i("rest"), b(&format!("{}{}", pre, k + 1))));
            }
            v.into_iter().collect()
        };
        assert!(isomorphic(&chain("x"), &chain("y")));
        // a statement stated about the wrong node of two otherwise equal ones
        let mut c1 = chain("x");
        let mut c2 = chain("y");
        c1.insert(q(b("xleaf3"), i("p"), i("o")));
        c2.insert(q(b("yleaf4"), i("p"), i("o")));
        assert!(!isomorphic(&c1, &c2));
    }
}
