//! Exact blank-node isomorphism of two sets of abstract quads (own implementation: the check must not
//! depend on `sophia_isomorphism`, which has a known defect with blank nodes inside quoted triples).
use std::collections::{BTreeMap, BTreeSet};
use vhcore::util::{Q, T};

/// RDF 1.1: language tags are compared case-insensitively
pub fn norm(t: &T) -> T {
    match t {
        T::Lang(l, tag) => T::Lang(l.clone(), tag.to_ascii_lowercase()),
        T::Triple(b) => T::Triple(Box::new([norm(&b[0]), norm(&b[1]), norm(&b[2])])),
        x => x.clone(),
    }
}

pub fn norm_q(q: &Q) -> Q {
    Q { s: norm(&q.s), p: norm(&q.p), o: norm(&q.o), g: q.g.as_ref().map(norm) }
}

fn bnodes_t(t: &T, out: &mut BTreeSet<String>) {
    match t {
        T::Bnode(b) => {
            out.insert(b.clone());
        }
        T::Triple(b) => {
            for x in b.iter() {
                bnodes_t(x, out);
            }
        }
        _ => {}
    }
}

pub fn bnodes_q(q: &Q, out: &mut BTreeSet<String>) {
    bnodes_t(&q.s, out);
    bnodes_t(&q.p, out);
    bnodes_t(&q.o, out);
    if let Some(g) = &q.g {
        bnodes_t(g, out);
    }
}

pub fn bnodes(ds: &BTreeSet<Q>) -> BTreeSet<String> {
    let mut s = BTreeSet::new();
    for q in ds {
        bnodes_q(q, &mut s);
    }
    s
}

/// rename blank nodes through `f` (None = leave the quad unmapped)
fn map_t(t: &T, f: &dyn Fn(&str) -> Option<String>) -> Option<T> {
    Some(match t {
        T::Bnode(b) => T::Bnode(f(b)?),
        T::Triple(b) => T::Triple(Box::new([map_t(&b[0], f)?, map_t(&b[1], f)?, map_t(&b[2], f)?])),
        x => x.clone(),
    })
}

fn map_q(q: &Q, f: &dyn Fn(&str) -> Option<String>) -> Option<Q> {
    Some(Q {
        s: map_t(&q.s, f)?,
        p: map_t(&q.p, f)?,
        o: map_t(&q.o, f)?,
        g: match &q.g {
            None => None,
            Some(g) => Some(map_t(g, f)?),
        },
    })
}

/// quad with every blank node label erased
pub fn erase(q: &Q) -> Q {
    map_q(q, &|_| Some(String::new())).unwrap()
}

pub fn erased_multiset(ds: &BTreeSet<Q>) -> BTreeMap<Q, usize> {
    let mut m = BTreeMap::new();
    for q in ds {
        *m.entry(erase(q)).or_insert(0) += 1;
    }
    m
}

/// cheap invariant: the quads in which `b` occurs, with `b` marked and the other labels erased
fn signature(ds: &BTreeSet<Q>, b: &str) -> Vec<Q> {
    let mut v: Vec<Q> = vec![];
    for q in ds {
        let mut bs = BTreeSet::new();
        bnodes_q(q, &mut bs);
        if bs.contains(b) {
            v.push(map_q(q, &|x| Some(if x == b { "*".to_string() } else { String::new() })).unwrap());
        }
    }
    v.sort();
    v
}

struct Search<'a> {
    a: &'a BTreeSet<Q>,
    b: &'a BTreeSet<Q>,
    order: Vec<String>,
    cands: BTreeMap<String, Vec<String>>,
    /// for each position in `order`: the quads of `a` whose blank nodes are all assigned once that
    /// position is assigned (and not before)
    ready: Vec<Vec<&'a Q>>,
    steps: usize,
}

impl<'a> Search<'a> {
    fn go(&mut self, i: usize, asg: &mut BTreeMap<String, String>, used: &mut BTreeSet<String>) -> bool {
        if i == self.order.len() {
            return true;
        }
        self.steps += 1;
        let x = self.order[i].clone();
        let cs = self.cands[&x].clone();
        for c in cs {
            if used.contains(&c) {
                continue;
            }
            asg.insert(x.clone(), c.clone());
            used.insert(c.clone());
            let ok = self.ready[i].iter().all(|q| {
                let m = map_q(q, &|l| asg.get(l).cloned());
                match m {
                    Some(m) => self.b.contains(&m),
                    None => false,
                }
            });
            if ok && self.go(i + 1, asg, used) {
                return true;
            }
            used.remove(&c);
            asg.remove(&x);
        }
        let _ = self.a;
        false
    }
}

/// exact test: is there a bijection of blank node labels mapping `a` onto `b`?
pub fn isomorphic(a: &BTreeSet<Q>, b: &BTreeSet<Q>) -> bool {
    if a.len() != b.len() {
        return false;
    }
    let ba = bnodes(a);
    let bb = bnodes(b);
    if ba.len() != bb.len() {
        return false;
    }
    if erased_multiset(a) != erased_multiset(b) {
        return false;
    }
    if ba.is_empty() {
        return a == b;
    }
    let sig_b: Vec<(String, Vec<Q>)> = bb.iter().map(|x| (x.clone(), signature(b, x))).collect();
    let mut cands = BTreeMap::new();
    for x in &ba {
        let s = signature(a, x);
        let c: Vec<String> = sig_b.iter().filter(|(_, t)| *t == s).map(|(y, _)| y.clone()).collect();
        if c.is_empty() {
            return false;
        }
        cands.insert(x.clone(), c);
    }
    let mut order: Vec<String> = ba.iter().cloned().collect();
    order.sort_by_key(|x| cands[x].len());
    let mut ready: Vec<Vec<&Q>> = vec![vec![]; order.len()];
    for q in a {
        let mut bs = BTreeSet::new();
        bnodes_q(q, &mut bs);
        if bs.is_empty() {
            if !b.contains(q) {
                return false;
            }
            continue;
        }
        let last = bs.iter().map(|l| order.iter().position(|o| o == l).unwrap()).max().unwrap();
        ready[last].push(q);
    }
    let mut s = Search { a, b, order, cands, ready, steps: 0 };
    let mut asg = BTreeMap::new();
    let mut used = BTreeSet::new();
    // |a| = |b|, the renaming is injective on quads, every image is in b  =>  image = b
    s.go(0, &mut asg, &mut used)
}

/// difference of the label-erased multisets: (missing from `b`, extra in `b`)
pub fn erased_diff(a: &BTreeSet<Q>, b: &BTreeSet<Q>) -> (Vec<Q>, Vec<Q>) {
    let ma = erased_multiset(a);
    let mb = erased_multiset(b);
    let mut miss = vec![];
    let mut extra = vec![];
    for (q, n) in &ma {
        let m = mb.get(q).copied().unwrap_or(0);
        for _ in m..*n {
            miss.push(q.clone());
        }
    }
    for (q, n) in &mb {
        let m = ma.get(q).copied().unwrap_or(0);
        for _ in m..*n {
            extra.push(q.clone());
        }
    }
    (miss, extra)
}

#[cfg(test)]
mod test {
    use super::*;
    fn b(s: &str) -> T {
        T::Bnode(s.into())
    }
    fn i(s: &str) -> T {
        T::Iri(s.into())
    }
    fn q(s: T, p: T, o: T) -> Q {
        Q { s, p, o, g: None }
    }
    #[test]
    fn cycle_vs_chain() {
        let a: BTreeSet<Q> = [q(b("x"), i("p"), b("y")), q(b("y"), i("p"), b("x"))].into_iter().collect();
        let c: BTreeSet<Q> = [q(b("1"), i("p"), b("2")), q(b("2"), i("p"), b("1"))].into_iter().collect();
        let d: BTreeSet<Q> = [q(b("1"), i("p"), b("1")), q(b("2"), i("p"), b("2"))].into_iter().collect();
        assert!(isomorphic(&a, &c));
        assert!(!isomorphic(&a, &d));
        let t1: BTreeSet<Q> = [q(T::Triple(Box::new([b("x"), i("p"), b("y")])), i("q"), b("x"))].into_iter().collect();
        let t2: BTreeSet<Q> = [q(T::Triple(Box::new([b("u"), i("p"), b("v")])), i("q"), b("u"))].into_iter().collect();
        let t3: BTreeSet<Q> = [q(T::Triple(Box::new([b("u"), i("p"), b("v")])), i("q"), b("v"))].into_iter().collect();
        assert!(isomorphic(&t1, &t2));
        assert!(!isomorphic(&t1, &t3));
    }
}
