//! request generation for C08
use crate::run;
use vhcore::rxgen;
use vhcore::util::*;
use vhcore::GenCtx;

const RDFNS: &str = "http://www.w3.org/1999/02/22-rdf-syntax-ns#";

// ------------------------------------------------------------------ deep nesting

pub const DEEP_SHAPES: &[(&str, &str)] = &[
    ("nt", "quoted_s"), ("nt", "quoted_o"), ("nt", "open_quoted"),
    ("nq", "quoted_s"), ("nq", "quoted_o"),
    ("gnq", "quoted_s"), ("gnq", "quoted_o"), ("gnq", "open_quoted"),
    ("ttl", "quoted_s"), ("ttl", "quoted_o"), ("ttl", "collection"), ("ttl", "collection_s"), ("ttl", "bnode_list"),
    ("ttl", "open_paren"), ("ttl", "open_bracket"), ("ttl", "open_quoted"),
    ("trig", "quoted_s"), ("trig", "collection"), ("trig", "bnode_list"), ("trig", "open_paren"), ("trig", "open_bracket"),
    ("gtrig", "quoted_s"), ("gtrig", "quoted_o"), ("gtrig", "collection"), ("gtrig", "collection_s"), ("gtrig", "bnode_list"),
    ("gtrig", "open_paren"), ("gtrig", "open_bracket"), ("gtrig", "open_quoted"),
    ("xml", "elements"), ("xml", "open_elements"), ("xml", "xml_literal"),
    ("jsonld", "arrays"), ("jsonld", "open_arrays"), ("jsonld", "objects"), ("jsonld", "lists"), ("jsonld", "graphs"),
];

/// deeply nested documents; `None` if the shape does not exist in the syntax
pub fn deep_doc(syn: &str, shape: &str, d: usize) -> Option<String> {
    let nt_like = matches!(syn, "nt" | "nq" | "gnq");
    let ttl_like = matches!(syn, "ttl" | "trig" | "gtrig");
    Some(match shape {
        // << << ... >> <x:p> <x:o> >> <x:p> <x:o> .
        "quoted_s" if nt_like || ttl_like => {
            let mut s = String::new();
            for _ in 0..d {
                s.push_str("<< ");
            }
            s.push_str("<x:s> <x:p> <x:o>");
            for _ in 0..d {
                s.push_str(" >> <x:p> <x:o>");
            }
            s.push_str(" .\n");
            s
        }
        "quoted_o" if nt_like || ttl_like => {
            let mut s = String::from("<x:s> <x:p> ");
            for _ in 0..d {
                s.push_str("<< <x:s> <x:p> ");
            }
            s.push_str("<x:o>");
            for _ in 0..d {
                s.push_str(" >>");
            }
            s.push_str(" .\n");
            s
        }
        "collection" if ttl_like => format!("<x:s> <x:p> {}{} .\n", "(".repeat(d), ")".repeat(d)),
        "collection_s" if ttl_like => format!("{} <x:a> {} <x:p> <x:o> .\n", "(".repeat(d), ")".repeat(d)),
        "bnode_list" if ttl_like => {
            let mut s = String::from("<x:s> <x:p> ");
            for _ in 0..d {
                s.push_str("[ <x:p> ");
            }
            s.push_str("<x:o>");
            for _ in 0..d {
                s.push_str(" ]");
            }
            s.push_str(" .\n");
            s
        }
        // unclosed openers only (truncated nesting)
        "open_paren" if ttl_like => format!("<x:s> <x:p> {}", "(".repeat(d)),
        "open_bracket" if ttl_like => format!("<x:s> <x:p> {}", "[ <x:p> ".repeat(d)),
        "open_quoted" if nt_like || ttl_like => "<< ".repeat(d),
        "elements" if syn == "xml" => {
            // striped syntax: node element / property element alternating
            let mut s = format!("<rdf:RDF xmlns:rdf=\"{}\" xmlns:e=\"x:\">", RDFNS);
            for _ in 0..d {
                s.push_str("<rdf:Description><e:p>");
            }
            s.push_str("<rdf:Description/>");
            for _ in 0..d {
                s.push_str("</e:p></rdf:Description>");
            }
            s.push_str("</rdf:RDF>");
            s
        }
        "open_elements" if syn == "xml" => {
            let mut s = format!("<rdf:RDF xmlns:rdf=\"{}\" xmlns:e=\"x:\">", RDFNS);
            for _ in 0..d {
                s.push_str("<rdf:Description><e:p>");
            }
            s
        }
        "xml_literal" if syn == "xml" => {
            let mut s = format!(
                "<rdf:RDF xmlns:rdf=\"{}\" xmlns:e=\"x:\"><rdf:Description rdf:about=\"x:s\"><e:p rdf:parseType=\"Literal\">",
                RDFNS
            );
            for _ in 0..d {
                s.push_str("<a>");
            }
            for _ in 0..d {
                s.push_str("</a>");
            }
            s.push_str("</e:p></rdf:Description></rdf:RDF>");
            s
        }
        "arrays" if syn == "jsonld" => format!("{}{}", "[".repeat(d), "]".repeat(d)),
        "open_arrays" if syn == "jsonld" => "[".repeat(d),
        "objects" if syn == "jsonld" => {
            let mut s = String::new();
            for _ in 0..d {
                s.push_str("{\"http://x/p\":");
            }
            s.push_str("\"o\"");
            for _ in 0..d {
                s.push('}');
            }
            s
        }
        "lists" if syn == "jsonld" => {
            let mut s = String::from("{\"http://x/p\":");
            for _ in 0..d {
                s.push_str("{\"@list\":[");
            }
            s.push_str("\"o\"");
            for _ in 0..d {
                s.push_str("]}");
            }
            s.push('}');
            s
        }
        "graphs" if syn == "jsonld" => {
            let mut s = String::new();
            for _ in 0..d {
                s.push_str("{\"@graph\":[");
            }
            s.push_str("{\"@id\":\"x:s\",\"http://x/p\":\"o\"}");
            for _ in 0..d {
                s.push_str("]}");
            }
            s
        }
        _ => return None,
    })
}

// ------------------------------------------------------------------ very long tokens

pub const LONG_KINDS: &[&str] = &["iri", "bnode", "literal", "lang", "comment", "pname", "space", "number", "statements"];

pub fn long_doc(syn: &str, kind: &str, n: usize) -> Option<String> {
    let fam = matches!(syn, "nt" | "nq" | "ttl" | "trig" | "gnq" | "gtrig");
    let ttl_like = matches!(syn, "ttl" | "trig" | "gtrig");
    let a = "a".repeat(n);
    Some(match (syn, kind) {
        (_, "iri") if fam => format!("<http://example.org/{}> <x:p> <x:o> .\n", a),
        (_, "bnode") if fam => format!("_:b{} <x:p> <x:o> .\n", "a.".repeat(n / 2)),
        (_, "literal") if fam => format!("<x:s> <x:p> \"{}\" .\n", "é\\n".repeat(n / 3)),
        (_, "lang") if fam => format!("<x:s> <x:p> \"a\"@en{} .\n", "-abcdefgh".repeat(n / 9)),
        (_, "comment") if fam => format!("# {}\n<x:s> <x:p> <x:o> .\n", a),
        (_, "space") if fam => format!("<x:s>{}<x:p> <x:o> .\n", " ".repeat(n)),
        (_, "pname") if ttl_like => format!("@prefix p: <x:> .\np:{} <x:p> <x:o> .\n", "a.b\\-%41".repeat(n / 8)),
        (_, "number") if ttl_like => format!("<x:s> <x:p> {}.{}e{} .\n", "1".repeat(n), "2".repeat(n), "3".repeat(n.min(400))),
        (_, "statements") if fam => "<x:s> <x:p> <x:o> .\n".repeat(n / 20),
        ("xml", "iri") => format!(
            "<rdf:RDF xmlns:rdf=\"{}\"><rdf:Description rdf:about=\"http://example.org/{}\"><p xmlns=\"x:\">o</p></rdf:Description></rdf:RDF>",
            RDFNS, a
        ),
        ("xml", "bnode") => format!(
            "<rdf:RDF xmlns:rdf=\"{}\"><rdf:Description rdf:nodeID=\"b{}\"><p xmlns=\"x:\">o</p></rdf:Description></rdf:RDF>",
            RDFNS, a
        ),
        ("xml", "literal") => format!(
            "<rdf:RDF xmlns:rdf=\"{}\"><rdf:Description rdf:about=\"x:s\"><p xmlns=\"x:\">{}</p></rdf:Description></rdf:RDF>",
            RDFNS, "é&amp;".repeat(n / 6)
        ),
        ("xml", "comment") => format!("<!-- {} --><rdf:RDF xmlns:rdf=\"{}\"></rdf:RDF>", a, RDFNS),
        ("xml", "pname") => format!(
            "<rdf:RDF xmlns:rdf=\"{}\"><rdf:Description rdf:about=\"x:s\"><e:p{} xmlns:e=\"x:\">o</e:p{}></rdf:Description></rdf:RDF>",
            RDFNS, a, a
        ),
        ("xml", "statements") => format!(
            "<rdf:RDF xmlns:rdf=\"{}\" xmlns:e=\"x:\"><rdf:Description rdf:about=\"x:s\">{}</rdf:Description></rdf:RDF>",
            RDFNS, "<e:p>o</e:p>".repeat(n / 12)
        ),
        ("jsonld", "iri") => format!("{{\"@id\":\"http://example.org/{}\",\"http://x/p\":\"o\"}}", a),
        ("jsonld", "literal") => format!("{{\"@id\":\"x:s\",\"http://x/p\":\"{}\"}}", "é\\n".repeat(n / 3)),
        ("jsonld", "lang") => format!(
            "{{\"@id\":\"x:s\",\"http://x/p\":{{\"@value\":\"a\",\"@language\":\"en{}\"}}}}",
            "-abcdefgh".repeat(n / 9)
        ),
        ("jsonld", "number") => format!("{{\"@id\":\"x:s\",\"http://x/p\":{}.{}e{}}}", "1".repeat(n), "2".repeat(n), "3".repeat(n.min(400))),
        ("jsonld", "space") => format!("{}{{\"@id\":\"x:s\",\"http://x/p\":\"o\"}}", " ".repeat(n)),
        ("jsonld", "statements") => format!("{{\"@id\":\"x:s\",\"http://x/p\":[{}0]}}", "0,".repeat(n / 2)),
        _ => return None,
    })
}

// ------------------------------------------------------------------ valid documents (mutation seeds)

pub fn corpus(syn: &str) -> Vec<String> {
    let nt = vec![
        "<http://example.org/s> <http://example.org/p> <http://example.org/o> .\n_:b1 <http://example.org/p> \"lit\" .\n_:b.1-x <http://example.org/p> \"chat\"@fr-FR .\n".to_string(),
        "<http://example.org/s> <http://example.org/p> \"1\"^^<http://www.w3.org/2001/XMLSchema#integer> . # comment\n\n# only a comment\n<< <http://example.org/s> <http://example.org/p> _:b1 >> <http://example.org/q> \"esc\\t\\\"\\\\\\u00e9\\U0001F600\" .\n".to_string(),
        "<http://[2001:db8::1]:80/a//b/%41?q=1#f> <http://example.org/p> \"é😀\" .\n<http://u:p@example.org:8080/;x=1/./../> <mailto:a@b.c> <urn:x-y:z#> .\n".to_string(),
    ];
    let nq = vec![
        "<http://example.org/s> <http://example.org/p> <http://example.org/o> <http://example.org/g> .\n_:b1 <http://example.org/p> \"lit\"@en _:g .\n<http://example.org/s> <http://example.org/p> \"x\"^^<http://example.org/dt> .\n".to_string(),
        "<< _:a <http://example.org/p> \"v\" >> <http://example.org/q> << <x:s> <x:p> <x:o> >> <http://[::1]/g> . # c\n".to_string(),
    ];
    let ttl = vec![
        "@prefix ex: <http://example.org/> .\n@base <http://example.org/base/> .\nPREFIX : <http://example.org/ns#>\n<s> a ex:T ; ex:p \"x\"@en , 'y' , \"\"\"long\n\"text\"\"\" , 1 , -2.5 , 3e4 , true ; ex:q ( 1 ( 2 ) [] ) , [ ex:r :a\\.b ; ex:s ex:%41 ] .\n".to_string(),
        "@prefix ex: <http://example.org/> .\n_:b.1 ex:p << <http://example.org/s> ex:p \"o\" >> .\n<< _:b ex:p ex:o >> ex:q \"z\"^^ex:dt {| ex:a ex:b |} .\n[] ex:p [ ex:q () ] . # end\n".to_string(),
        "BASE <http://example.org/>\nPREFIX ex: <http://example.org/ns/>\n<#f> ex:a.b:c <../x/./y?q#z> , <//[v1.a]/p> ; ex:é \"\\u00e9\\n\"@en-us ; ex:n 0.0 , .5 , +1E-3 , false .\n".to_string(),
    ];
    let trig = vec![
        "@prefix ex: <http://example.org/> .\nex:s ex:p ex:o .\nex:g { ex:s ex:p \"a\"@en ; ex:q ( 1 2 ) . [] ex:p [ ex:q ex:o ] }\nGRAPH _:g { _:s ex:p << ex:a ex:b ex:c >> . }\n{ ex:d ex:p 1.5 }\n".to_string(),
        "BASE <http://example.org/>\nPREFIX : <http://example.org/ns#>\n<g> { <s> :p 'x' , \"\"\"y\"\"\" . }\n[] { :a :b :c }\n:s :p :o .\n".to_string(),
    ];
    let gnq = vec![
        "<< \"a\" _:b <tag:c> >> ?v <rel/../p#f> <//g> .\n\"lit\"@en-GB $x \"o\"^^<http://example.org/dt> .\n_:b.c <#p> ?_1 _:g . # c\n".to_string(),
        "<http://example.org/s> <http://example.org/p> << ?a ?b << ?c ?d ?e >> >> << \"j\" _:k </l> >> .\n".to_string(),
    ];
    let gtrig = vec![
        "@prefix : <http://example.org/ns/> .\n<#me> :knows _:alice {| :since 2002 ; |} .\n<tag:g1> { _:alice a :Person ; :name ?name . \"lit\" ?p ( 1 ?x [ :q $y ] ) }\n".to_string(),
        "@prefix r: <rel/> .\nPREFIX e: <http://example.org/>\n?g { << ?s e:p \"o\"@en >> r:a.b e:%41 , true , -1.0e0 . }\n[ e:p e:o ] e:q << e:a e:b << e:c e:d e:e >> >> .\n".to_string(),
    ];
    let xml = vec![
        format!("<?xml version=\"1.0\" encoding=\"utf-8\"?>\n<rdf:RDF xmlns:rdf=\"{}\" xmlns:ex=\"http://example.org/ns/\" xml:base=\"http://example.org/base/\">\n  <rdf:Description rdf:about=\"s\" ex:attr=\"v\" xml:lang=\"en-GB\">\n    <ex:p rdf:resource=\"#o\"/>\n    <ex:q xml:lang=\"fr\">chat &amp; é</ex:q>\n    <ex:r rdf:datatype=\"http://www.w3.org/2001/XMLSchema#integer\">1</ex:r>\n    <ex:s rdf:nodeID=\"b.1\"/>\n    <ex:t rdf:parseType=\"Resource\"><ex:u>x</ex:u></ex:t>\n  </rdf:Description>\n</rdf:RDF>\n", RDFNS),
        format!("<rdf:RDF xmlns:rdf=\"{}\" xmlns=\"http://example.org/ns/\">\n<T rdf:ID=\"i\" xml:base=\"http://example.org/b\"><p rdf:parseType=\"Collection\"><rdf:Description rdf:about=\"http://[::1]/a\"/><T rdf:nodeID=\"n\"/></p>\n<q rdf:parseType=\"Literal\"><b xmlns=\"x:\">bold</b> text</q><rdf:li>one</rdf:li><rdf:li rdf:ID=\"r\">two</rdf:li><knows><Person><name>Alice</name></Person></knows></T>\n<rdf:Seq><rdf:_1 rdf:resource=\"http://example.org/1\"/></rdf:Seq>\n<!-- c --><![CDATA[ ]]></rdf:RDF>", RDFNS),
    ];
    let jsonld = vec![
        "{\"@context\":{\"ex\":\"http://example.org/\",\"name\":{\"@id\":\"ex:name\",\"@language\":\"en\"},\"age\":{\"@id\":\"ex:age\",\"@type\":\"http://www.w3.org/2001/XMLSchema#integer\"},\"knows\":{\"@id\":\"ex:knows\",\"@type\":\"@id\"},\"l\":{\"@id\":\"ex:l\",\"@container\":\"@list\"}},\"@id\":\"ex:s\",\"@type\":\"ex:T\",\"name\":\"Alice\",\"age\":\"42\",\"knows\":[\"ex:b\",{\"@id\":\"_:c\",\"name\":\"C\"}],\"l\":[1,2.5,true,null,\"x\"]}".to_string(),
        "[{\"@id\":\"http://example.org/g\",\"@graph\":[{\"@id\":\"_:b0\",\"http://example.org/p\":[{\"@value\":\"chat\",\"@language\":\"fr-FR\"},{\"@value\":\"1\",\"@type\":\"http://example.org/dt\"},{\"@list\":[{\"@id\":\"http://[::1]/a\"},{\"@list\":[]}]},{\"@id\":\"../rel\"}],\"@reverse\":{\"http://example.org/r\":{\"@id\":\"http://example.org/x\"}}}]},{\"@id\":\"http://example.org/s\",\"http://example.org/q\":{\"@value\":1.5e300},\"@index\":\"i\"}]".to_string(),
        "{\"@context\":{\"@vocab\":\"http://example.org/v#\",\"@base\":\"http://example.org/base/\",\"@language\":\"de\"},\"@id\":\"rel/./../s\",\"p\":\"Wert\",\"q\":{\"@value\":\"x\",\"@language\":\"EN\"},\"r\":{\"@id\":\"#f\"},\"é\":[0,-0.0,1e21,9007199254740993]}".to_string(),
    ];
    let mut jsonld = jsonld;
    // base direction (only visible under rdf_direction options), generalized RDF (blank node predicate / graph),
    // protected and scoped contexts, @nest, @json, @included, @index/@id/@type maps
    jsonld.push("{\"@context\":{\"@version\":1.1,\"@direction\":\"rtl\",\"ex\":\"http://example.org/\",\"t\":{\"@id\":\"ex:t\",\"@language\":\"ar-EG\",\"@direction\":\"rtl\"},\"n\":{\"@id\":\"ex:n\",\"@direction\":null}},\"@id\":\"ex:s\",\"t\":\"abc\",\"n\":\"plain\",\"ex:d\":[{\"@value\":\"x\",\"@direction\":\"ltr\"},{\"@value\":\"y\",\"@language\":\"he\",\"@direction\":\"rtl\"},{\"@value\":\"z\",\"@language\":\"en-US\"}]}".to_string());
    jsonld.push("{\"@context\":{\"@version\":1.1,\"ex\":\"http://example.org/\",\"bp\":\"_:pred\",\"j\":{\"@id\":\"ex:j\",\"@type\":\"@json\"},\"byLang\":{\"@id\":\"ex:l\",\"@container\":\"@language\"},\"byId\":{\"@id\":\"ex:i\",\"@container\":\"@id\"},\"nest\":\"@nest\",\"T\":{\"@id\":\"ex:T\",\"@context\":{\"in\":\"ex:in\"}}},\"@id\":\"_:g\",\"@graph\":[{\"@id\":\"ex:s\",\"@type\":\"T\",\"in\":\"scoped\",\"bp\":\"o\",\"_:q\":{\"@id\":\"_:o\"},\"j\":{\"a\":[1,{\"b\":null}]},\"byLang\":{\"en\":\"x\",\"fr-CA\":[\"y\"],\"@none\":\"z\"},\"byId\":{\"ex:k\":{\"ex:p\":1}},\"nest\":{\"ex:m\":\"nested\"},\"@included\":[{\"@id\":\"ex:inc\",\"ex:p\":{\"@set\":[true]}}]}]}".to_string());
    match syn {
        "nt" => nt,
        "nq" => nq,
        "ttl" => ttl,
        "trig" => trig,
        "gnq" => gnq,
        "gtrig" => gtrig,
        "xml" => xml,
        "jsonld" => jsonld,
        _ => vec![],
    }
}

/// bytes worth inserting anywhere: syntax characters of every format, UTF-8 fragments
const INS: &[&[u8]] = &[
    b"<", b">", b"<<", b">>", b"\"", b"'", b"\\", b"\\u", b"\\U0000", b"_:", b"@", b"^^", b".", b",", b";", b"(", b")", b"[", b"]",
    b"{", b"}", b"{|", b"|}", b"#", b":", b"?", b"$", b"%", b"%4", b"&", b"&amp;", b"&#0;", b"&x;", b"/", b"//", b"\n", b"\r", b"\t",
    b" ", b"\0", b"a", b"0", b"-", b"=", b"+", b"e", b"]]>", b"<!--", b"<?", b"xmlns=\"\"", b"@prefix", b"@base", b"a ",
    b"\"\"\"", b"true", b"null", b"\"@id\"", b"\"@context\":", b"\"@list\"", b"\"@graph\"", b"\"@reverse\"", b"\"@value\"", b"\"@type\"",
    // UTF-8: valid non-ASCII, and every way of being invalid
    "é".as_bytes(), "\u{B7}".as_bytes(), "\u{300}".as_bytes(), "\u{FFFD}".as_bytes(), "\u{10000}".as_bytes(), "\u{FEFF}".as_bytes(),
    b"\xC3", b"\xA9", b"\xFF", b"\xC0\x80", b"\xED\xA0\x80", b"\xF4\x90\x80\x80", b"\xE2\x82", b"\xF0\x9F\x98", b"\xB7",
];

fn emit_doc(ctx: &mut GenCtx, syn: &str, d: &[u8], base: Option<&str>, what: &str) {
    ctx.stats.bump(&format!("doc.{}.{}", syn, what));
    if std::str::from_utf8(d).is_err() {
        ctx.stats.bump("doc.invalid_utf8");
    }
    match base {
        Some(b) => ctx.emit(&format!("doc {} {} {}", syn, hex_bytes(d), hex(b))),
        None => ctx.emit(&format!("doc {} {}", syn, hex_bytes(d))),
    }
}

/// the JSON-LD seed corpus (and structural variants of it) under every non-default parser option
fn jsonld_options(ctx: &mut GenCtx) {
    let docs = corpus("jsonld");
    for syn in run::JSONLD_VARIANTS {
        for (di, doc) in docs.iter().enumerate() {
            let d = doc.as_bytes();
            match catch(std::panic::AssertUnwindSafe(|| run::run(syn, d, None, false))) {
                Ok(o) if o.errors == 0 && o.items > 0 => ctx.stats.bump("opt.seed.valid"),
                Ok(o) if o.errors > 0 => ctx.stats.bump(&format!("opt.seed.rejected.{}.{}", syn, di)),
                _ => ctx.stats.bump(&format!("opt.seed.other.{}.{}", syn, di)),
            }
            emit_doc(ctx, syn, d, None, "seed");
            let n = d.len();
            let k = if ctx.thorough { n } else { 120 };
            for _ in 0..k {
                let i = ctx.rng.below(n);
                let mut m = d.to_vec();
                match ctx.rng.below(4) {
                    0 => {
                        m.remove(i);
                        emit_doc(ctx, syn, &m, None, "delete");
                    }
                    1 => {
                        let ins: &[u8] = *ctx.rng.pick(INS);
                        let mut m = d[..i].to_vec();
                        m.extend_from_slice(ins);
                        m.extend_from_slice(&d[i..]);
                        emit_doc(ctx, syn, &m, None, "insert");
                    }
                    2 => {
                        m[i] ^= 1 << ctx.rng.below(8);
                        emit_doc(ctx, syn, &m, None, "flip");
                    }
                    _ => emit_doc(ctx, syn, &d[..i], None, "truncate"),
                }
            }
        }
    }
}

/// bases and references of every RFC 3986 5.4 shape, plus the unusual ones the property names
const REL_BASES: &[&str] = &[
    "http://example.org/a/b/c?q#f", "http://example.org", "http://example.org/", "http://[::1]:80/x/", "http://u:p@h:/", "http://h?q",
    "http://h#f", "x:", "x:a", "x:a/b", "x:/", "x://", "x:///a", "urn:a:b", "mailto:a@b", "file:///a/b", "http://h/a//b/", "http://h/a/./b/../c",
    "http://h/%2E%2E/a", "http://é.org/é/", "http://[v1.a]/", "http://h/a;p/b", "x:a?b/c", "x:?q", "x:#f", "tag:a,2000:b/c",
    // not IRIs: a configured base cannot be one of these (skip), a directive must reject them
    "", "rel/", "//h/p", "http://a b/", "http://h/%zz", "http://[::1/", "x:\u{FFFE}", "1x:a",
];
const REL_REFS: &[&str] = &[
    "", "a", "./a", "../a", "../../a", "../../../a/./b/..", "/a", "//h2/p", "?q2", "#f2", "a/b?c#d", "g:h", "g:", ".", "..", "./", "../", "a/./b/../c",
    "a//b", "/./a", "/../a", "a/..", "a/.", "..a", "a..", ".a", "a:b", "./a:b", "%41", "%4", "%zz", "a b", "a<b", "\u{E000}", "?\u{E000}", "#\u{E000}",
    "é", "\u{FFFE}", "//[::1]", "//[::1", "//[v1.a]:8", "//h:8x", "//u@h", "//@", "//", "///", "////a", ":a", "1:a", "http:a", "http:/a", "http://",
    "http://h/../..", "x:../a", "a#b#c", "a?b?c", "a#?", "[", "]", "//h/[", "a/[", "?[", "#[", "\\", "^", "`", "{", "|", "}", "\"", "a\nb", "a\tb",
];

fn emit_rel(ctx: &mut GenCtx, syn: &str, how: &str, kind: &str, base: &str, r: &str) {
    if (syn == "xml" || run::family(syn) == "jsonld") && (base.contains('\u{0}') || r.contains('\u{0}')) {
        return;
    }
    ctx.stats.bump(&format!("rel.{}.{}.{}", syn, how, kind));
    ctx.emit(&format!("rel {} {} {} {} {}", syn, how, kind, hex(base), hex(r)));
}

const REL_TARGETS: &[(&str, &str, &str)] = &[
    ("ttl", "cfg", "iri"), ("ttl", "doc", "iri"), ("ttl", "sparql", "iri_o"), ("ttl", "doc", "dt"), ("ttl", "cfg", "prefix"), ("ttl", "twice", "iri"),
    ("trig", "cfg", "iri_g"), ("trig", "doc", "iri"), ("trig", "sparql", "dt"), ("trig", "doc", "prefix"), ("trig", "twice", "iri_g"),
    ("gtrig", "cfg", "iri"), ("gtrig", "doc", "iri_g"), ("gtrig", "sparql", "prefix"), ("gtrig", "cfg", "dt"), ("gtrig", "twice", "iri"),
    ("xml", "cfg", "about"), ("xml", "doc", "about"), ("xml", "cfg", "resource"), ("xml", "doc", "resource"), ("xml", "doc", "datatype"),
    ("xml", "cfg", "datatype"), ("xml", "doc", "id"), ("xml", "cfg", "id"), ("xml", "doc", "id_p"), ("xml", "doc", "inner"), ("xml", "cfg", "inner"),
    ("jsonld", "doc", "iri"), ("jsonld", "doc", "iri_o"), ("jsonld", "doc", "type"), ("jsonld", "doc", "graph"), ("jsonld", "doc", "inner"),
    ("jsonld@base", "doc", "iri"), ("jsonld@base", "doc", "inner"),
];

fn rel_cases(ctx: &mut GenCtx) {
    // every base x every reference, the targets rotating; then sampled bases / references from the validator grammars
    let mut k = 0usize;
    for b in REL_BASES {
        for r in REL_REFS {
            k += 1;
            let (syn, how, kind) = REL_TARGETS[k % REL_TARGETS.len()];
            emit_rel(ctx, syn, how, kind, b, r);
            if ctx.thorough || ctx.rng.chance(1, 3) {
                let (syn, how, kind) = *ctx.rng.pick(REL_TARGETS);
                emit_rel(ctx, syn, how, kind, b, r);
            }
        }
    }
    let abs = rxgen::parse(sophia_iri::IRI_REGEX_SRC);
    let rel = rxgen::parse(sophia_iri::IRELATIVE_REF_REGEX_SRC);
    let alpha: Vec<char> = IRI_PUNCT.to_vec();
    for i in 0..(if ctx.thorough { 6000 } else { 900 }) {
        let mut b = String::new();
        rxgen::sample(&abs, &mut ctx.rng, &mut b, 3);
        let mut r = String::new();
        rxgen::sample(if i % 5 == 0 { &abs } else { &rel }, &mut ctx.rng, &mut r, 3);
        if i % 3 == 0 {
            r = rxgen::mutate(&r, &mut ctx.rng, &alpha);
        }
        if i % 7 == 0 {
            b = rxgen::mutate(&b, &mut ctx.rng, &alpha);
        }
        if i % 4 == 0 {
            // dot segments climbing above the base path
            r = format!("{}{}", "../".repeat(ctx.rng.range(1, 5)), r);
        }
        let (syn, how, kind) = REL_TARGETS[ctx.rng.below(REL_TARGETS.len())];
        emit_rel(ctx, syn, how, kind, &b, &r);
    }
}

/// INVALID documents whose error messages embed long non-ASCII user data: the error path must build,
/// convert and render its message without panicking (a returned error is fine, a panic is not).
/// Payloads: an ASCII run of 0..3 characters, then 2-, 3-, 4-byte characters (or a mix) up to a byte length
/// around the sizes at which messages are commonly cut (64, 128, 256, 512, 1024), so that a multi-byte character
/// straddles every byte offset in turn.
fn error_messages(ctx: &mut GenCtx) {
    let fills: &[&str] = &["\u{E9}", "\u{20AC}", "\u{1D11E}", "a\u{E9}\u{20AC}\u{1D11E}", "\u{300}", "\u{FFFD}"];
    let lens: &[usize] = if ctx.thorough { &[40, 70, 130, 200, 250, 260, 300, 520, 1030, 4100] } else { &[70, 130, 250, 300, 520, 1030] };
    let mut payloads: Vec<String> = vec![];
    for (fi, f) in fills.iter().enumerate() {
        for (li, l) in lens.iter().enumerate() {
            for a in 0..4usize {
                if !ctx.thorough && (fi + li + a) % 2 == 1 && fi >= 3 {
                    continue;
                }
                let mut p = "x".repeat(a);
                while p.len() < *l {
                    p.push_str(f);
                }
                payloads.push(p);
            }
        }
    }
    // JSON-LD: `{}` is replaced by the payload (a JSON string body: no quote, no backslash, no control character in it)
    let jsonld: &[&str] = &[
        // remote contexts (NoLoader: loading fails, the message names the IRI)
        "{\"@context\":\"http://example.org/{}\",\"@id\":\"x:s\",\"http://x/p\":\"o\"}",
        "{\"@context\":\"{}\",\"@id\":\"x:s\"}",
        "{\"@context\":[{\"ex\":\"http://example.org/\"},\"http://example.org/c/{}#f\"],\"@id\":\"x:s\"}",
        "{\"@context\":{\"@import\":\"http://example.org/{}\"},\"@id\":\"x:s\"}",
        "{\"@context\":{\"t\":{\"@id\":\"x:t\",\"@context\":\"http://example.org/{}\"}},\"t\":\"o\"}",
        // invalid context entries
        "{\"@context\":{\"{}\":{\"@id\":\"@foo\"}},\"@id\":\"x:s\"}",
        "{\"@context\":{\"t\":{\"@id\":\"{} {}\"}},\"t\":\"o\"}",
        "{\"@context\":{\"t\":{\"@id\":\"x:t\",\"@type\":\"{} \"}},\"t\":\"o\"}",
        "{\"@context\":{\"t\":{\"@id\":\"x:t\",\"@container\":\"{}\"}},\"t\":\"o\"}",
        "{\"@context\":{\"t\":{\"@id\":\"x:t\",\"@container\":[\"@list\",\"{}\"]}},\"t\":\"o\"}",
        "{\"@context\":{\"t\":{\"@reverse\":\"{} \",\"@id\":\"x:t\"}},\"t\":\"o\"}",
        "{\"@context\":{\"t\":{\"@id\":\"x:t\",\"{}\":1}},\"t\":\"o\"}",
        "{\"@context\":{\"t\":{\"@id\":\"x:t\",\"@nest\":\"{}\"}},\"t\":\"o\"}",
        "{\"@context\":{\"t\":{\"@id\":\"x:t\",\"@language\":\"{}\"}},\"t\":\"o\"}",
        "{\"@context\":{\"t\":{\"@id\":\"x:t\",\"@direction\":\"{}\"}},\"t\":\"o\"}",
        "{\"@context\":{\"t\":{\"@id\":\"x:t\",\"@prefix\":\"{}\"}},\"t\":\"o\"}",
        "{\"@context\":{\"{}:t\":\"x:u\"},\"@id\":\"x:s\"}",
        "{\"@context\":{\"{}\":\"{}:\",\"t\":\"{}:t\"},\"t\":\"o\"}",
        "{\"@context\":{\"a\":\"b\",\"b\":\"a\",\"{}\":\"a:{}\"},\"@id\":\"x:s\"}",
        "{\"@context\":{\"@vocab\":\"{} {}\"},\"@id\":\"x:s\",\"p\":\"o\"}",
        "{\"@context\":{\"@base\":\"{} {}\"},\"@id\":\"s\",\"http://x/p\":\"o\"}",
        "{\"@context\":{\"@language\":\"{}\"},\"@id\":\"x:s\",\"http://x/p\":\"o\"}",
        "{\"@context\":{\"@direction\":\"{}\"},\"@id\":\"x:s\",\"http://x/p\":\"o\"}",
        "{\"@context\":{\"@version\":\"{}\"},\"@id\":\"x:s\"}",
        "{\"@context\":{\"@propagate\":\"{}\"},\"@id\":\"x:s\"}",
        "{\"@context\":{\"@protected\":\"{}\"},\"@id\":\"x:s\"}",
        "{\"@context\":{\"@{}\":\"x:k\"},\"@id\":\"x:s\"}",
        "{\"@context\":{\"k\":\"@{}\"},\"@id\":\"x:s\",\"k\":\"o\"}",
        "{\"@context\":{\"@version\":1.1,\"p\":{\"@id\":\"x:p\",\"@protected\":true}},\"@id\":\"x:s\",\"x:q\":{\"@context\":{\"p\":\"x:{}\"},\"p\":1}}",
        "{\"@context\":[null,\"{}\",7],\"@id\":\"x:s\"}",
        "{\"@context\":{\"id\":\"@id\",\"{}\":\"@id\"},\"id\":\"x:a\",\"{}\":\"x:b\"}",
        // invalid node / value objects
        "{\"@id\":{\"{}\":1},\"http://x/p\":\"o\"}",
        "{\"@id\":\"x:s\",\"@type\":{\"{}\":1}}",
        "{\"@id\":\"x:s\",\"@type\":[\"x:T\",7,\"{}\"]}",
        "{\"@id\":\"x:s\",\"http://x/p\":{\"@value\":\"a\",\"@type\":\"{} {}\"}}",
        "{\"@id\":\"x:s\",\"http://x/p\":{\"@value\":\"a\",\"@type\":\"_:{}\"}}",
        "{\"@id\":\"x:s\",\"http://x/p\":{\"@value\":\"a\",\"@language\":[\"{}\"]}}",
        "{\"@id\":\"x:s\",\"http://x/p\":{\"@value\":\"a\",\"@direction\":\"{}\"}}",
        "{\"@id\":\"x:s\",\"http://x/p\":{\"@value\":{\"{}\":1}}}",
        "{\"@id\":\"x:s\",\"http://x/p\":{\"@value\":\"a\",\"{}\":1,\"http://x/{}\":2}}",
        "{\"@id\":\"x:s\",\"http://x/p\":{\"@list\":[1],\"@id\":\"x:{}\"}}",
        "{\"@id\":\"x:s\",\"http://x/p\":{\"@set\":[1],\"@index\":{\"{}\":1}}}",
        "{\"@id\":\"x:s\",\"@reverse\":{\"http://x/{}\":\"{}\"}}",
        "{\"@id\":\"x:s\",\"@reverse\":\"{}\"}",
        "{\"@id\":\"x:s\",\"@included\":\"{}\"}",
        "{\"@id\":\"x:s\",\"@nest\":\"{}\"}",
        "{\"@id\":\"x:s\",\"@index\":{\"{}\":1}}",
        "{\"@id\":\"x:s\",\"@graph\":\"{}\",\"@{}\":1}",
        "{\"@id\":\"x:s\",\"{}\":1,\"{}\":2}",
        "{\"@id\":\"x:s\",\"@id\":\"x:{}\"}",
        "{\"@context\":{\"@version\":1.1,\"j\":{\"@id\":\"x:j\",\"@type\":\"@json\"}},\"@id\":\"x:s\",\"j\":{\"{}\":[\"{}\"]},\"@type\":\"{} \"}",
        // not JSON at all, the offending text being the payload
        "{\"@id\":\"x:s\",{}}",
        "{\"@id\":\"x:s\",\"{}\" \"{}\"}",
        "{}",
        "[\"{}\",{\"@id\":\"{}\"}",
    ];
    let syns = ["jsonld", "jsonld@strict", "jsonld@v10", "jsonld@ctx", "jsonld@relaxed", "jsonld@base"];
    let mut k = 0usize;
    for t in jsonld {
        for p in &payloads {
            k += 1;
            if !ctx.thorough && !ctx.rng.chance(1, 3) {
                continue;
            }
            let d = t.replace("{}", p);
            emit_doc(ctx, "jsonld", d.as_bytes(), None, "errmsg");
            let syn = syns[1 + k % (syns.len() - 1)];
            emit_doc(ctx, syn, d.as_bytes(), None, "errmsg");
        }
    }
    // the other parsers: a long non-ASCII token right where the syntax error is
    let rio: &[(&str, &str)] = &[
        ("nt", "<http://example.org/{} {}> <x:p> <x:o> .\n"),
        ("nt", "<x:s> <x:p> \"{}\\q{}\" .\n"),
        ("nt", "<x:s> <x:p> \"a\"@{} .\n"),
        ("nq", "<x:s> <x:p> <x:o> <{}|{}> .\n"),
        ("nq", "_:{}\u{D7} <x:p> <x:o> .\n"),
        ("ttl", "@prefix {}\u{D7}: <x:> .\n"),
        ("ttl", "{}:a <x:p> <x:o> .\n"),
        ("ttl", "@base <{} {}> .\n<a> <x:p> <x:o> .\n"),
        ("ttl", "<x:s> <x:p> \"a\"^^{}:{} .\n"),
        ("ttl", "<x:s> <x:p> {} .\n"),
        ("trig", "<x:g> { <x:s> <x:p> \"\"\"{}\\q\"\"\" }\n"),
        ("trig", "GRAPH {} { <x:s> <x:p> <x:o> }\n"),
        ("gnq", "?{}\u{D7} <x:p> <x:o> .\n"),
        ("gnq", "<x:s> <x:p> \"a\"^^<{} {}> .\n"),
        ("gtrig", "<x:s> <x:p> ?{}\u{D7} .\n"),
        ("gtrig", "@prefix p: <x:> .\np:{}\\q <x:p> <x:o> .\n"),
        ("xml", "<rdf:RDF xmlns:rdf=\"http://www.w3.org/1999/02/22-rdf-syntax-ns#\"><rdf:Description rdf:about=\"{} {}\"/></rdf:RDF>"),
        ("xml", "<rdf:RDF xmlns:rdf=\"http://www.w3.org/1999/02/22-rdf-syntax-ns#\"><rdf:Description rdf:nodeID=\"{} {}\"/></rdf:RDF>"),
        ("xml", "<rdf:RDF xmlns:rdf=\"http://www.w3.org/1999/02/22-rdf-syntax-ns#\"><rdf:Description rdf:about=\"x:s\" xml:lang=\"{}\"><p xmlns=\"x:\">o</p></rdf:Description></rdf:RDF>"),
        ("xml", "<rdf:RDF xmlns:rdf=\"http://www.w3.org/1999/02/22-rdf-syntax-ns#\"><{}:p>o</{}:p></rdf:RDF>"),
        ("xml", "<rdf:RDF xmlns:rdf=\"http://www.w3.org/1999/02/22-rdf-syntax-ns#\"><rdf:Description rdf:{}=\"a\"/></rdf:RDF>"),
        ("xml", "<rdf:RDF xmlns:rdf=\"http://www.w3.org/1999/02/22-rdf-syntax-ns#\"><rdf:Description rdf:about=\"x:s\"><p xmlns=\"x:\" rdf:parseType=\"{}\" rdf:resource=\"x:o\">&{};</p></rdf:Description></rdf:RDF>"),
        ("xml", "<rdf:RDF xmlns:rdf=\"http://www.w3.org/1999/02/22-rdf-syntax-ns#\"><rdf:Description rdf:ID=\"{}\"/><rdf:Description rdf:ID=\"{}\"/></rdf:RDF>"),
    ];
    for (syn, t) in rio {
        for (i, p) in payloads.iter().enumerate() {
            let _ = i;
            if !ctx.thorough && !ctx.rng.chance(1, 4) {
                continue;
            }
            let d = t.replace("{}", p);
            emit_doc(ctx, syn, d.as_bytes(), None, "errmsg");
        }
        k += 1;
    }
}

fn mutate_docs(ctx: &mut GenCtx) {
    let per_pos = if ctx.thorough { 6 } else { 2 };
    for syn in run::SYNTAXES {
        for (di, doc) in corpus(syn).iter().enumerate() {
            let d = doc.as_bytes();
            // self-check of the generator: seeds must be valid documents
            let ok = catch(std::panic::AssertUnwindSafe(|| run::run(syn, d, Some("http://example.org/dir/file"), false)));
            match ok {
                Ok(o) if o.errors == 0 && o.items > 0 => ctx.stats.bump("seed.valid"),
                _ => ctx.stats.bump(&format!("seed.NOT_VALID.{}.{}", syn, di)),
            }
            emit_doc(ctx, syn, d, None, "seed");
            emit_doc(ctx, syn, d, Some("http://example.org/dir/file?q#f"), "seed_base");
            let n = d.len();
            // truncation at every position (thorough) / every 2nd (quick)
            let step = 1;
            let off = ctx.rng.below(step);
            for i in (off..n).step_by(step) {
                emit_doc(ctx, syn, &d[..i], None, "truncate");
            }
            for i in 0..n {
                // deletion of one byte at every position
                {
                    let mut m = d.to_vec();
                    m.remove(i);
                    emit_doc(ctx, syn, &m, None, "delete");
                }
                for _ in 0..per_pos {
                    // insertion
                    let ins: &[u8] = *ctx.rng.pick(INS);
                    let mut m = d[..i].to_vec();
                    m.extend_from_slice(ins);
                    m.extend_from_slice(&d[i..]);
                    let with_base = ctx.rng.chance(1, 4);
                    let bs = *ctx.rng.pick(&["http://example.org/dir/file", "x:", "http://[::1]:/a/../b?q#f", "urn:a:b"][..]);
                    emit_doc(ctx, syn, &m, if with_base { Some(bs) } else { None }, if with_base { "insert_base" } else { "insert" });
                    // byte flip (one bit) or replacement by an arbitrary byte
                    let mut m = d.to_vec();
                    if ctx.rng.chance(1, 2) {
                        m[i] ^= 1 << ctx.rng.below(8);
                    } else {
                        m[i] = (ctx.rng.next() & 0xFF) as u8;
                    }
                    emit_doc(ctx, syn, &m, None, "flip");
                }
            }
            // structural near-misses: delete / duplicate / swap a chunk between two syntax characters
            let cuts: Vec<usize> = (0..n).filter(|&i| b" \n<>\"{}[](),;.:".contains(&d[i])).collect();
            let k = if ctx.thorough { 400 } else { 60 };
            for _ in 0..k {
                if cuts.len() < 4 {
                    break;
                }
                let a = *ctx.rng.pick(&cuts);
                let b2 = *ctx.rng.pick(&cuts);
                let (a, b2) = (a.min(b2), a.max(b2));
                let mut m = d[..a].to_vec();
                match ctx.rng.below(3) {
                    0 => {}
                    1 => {
                        m.extend_from_slice(&d[a..b2]);
                        m.extend_from_slice(&d[a..b2]);
                    }
                    _ => {
                        let mut chunk = d[a..b2].to_vec();
                        chunk.reverse();
                        m.extend_from_slice(&chunk);
                    }
                }
                m.extend_from_slice(&d[b2..]);
                emit_doc(ctx, syn, &m, None, "chunk");
            }
            // a document of another syntax fed to this parser
            for other in run::SYNTAXES {
                if other != syn {
                    if let Some(o) = corpus(other).first() {
                        emit_doc(ctx, syn, o.as_bytes(), None, "cross");
                    }
                }
            }
        }
        // random bytes
        for _ in 0..(if ctx.thorough { 300 } else { 40 }) {
            let len = ctx.rng.range(0, 40);
            let v: Vec<u8> = (0..len).map(|_| (ctx.rng.next() & 0xFF) as u8).collect();
            emit_doc(ctx, syn, &v, None, "random");
        }
    }
}

// ------------------------------------------------------------------ tokens

fn regex_src_of(path: &str) -> Option<String> {
    // the validators of sophia_api are private statics: their source text is read from the
    // working tree, so that the generator follows the regex as it is now
    let s = std::fs::read_to_string(path).ok()?;
    let i = s.find("Regex::new(r")?;
    let rest = &s[i + "Regex::new(r".len()..];
    let (open, close) = if rest.starts_with("#\"") { (2, "\"#") } else { (1, "\"") };
    let body = &rest[open..];
    let j = body.find(close)?;
    Some(body[..j].to_string())
}

const IRI_PUNCT: &[char] = &[
    ':', '/', '?', '#', '[', ']', '@', '%', '.', '-', '0', '9', 'a', 'f', 'g', 'z', 'A', 'F', 'G', 'V', 'v', '1', '2', '5', '6', ' ',
    '<', '>', '"', '{', '}', '|', '\\', '^', '`', 'é', '\u{E000}', '\u{FFFD}', '\u{10FFFD}', '!', '$', '&', '\'', '(', ')', '*', '+',
    ',', ';', '=', '~', '_', '\n', '\t',
];

const NAME_ALPHABET: &[char] = &[
    'a', 'Z', '0', '9', '_', '-', '.', ':', '\u{B7}', 'é', '\u{D7}', '\u{F7}', '\u{2FF}', '\u{300}', '\u{36F}', '\u{370}', '\u{37E}',
    '\u{1FFF}', '\u{2000}', '\u{200C}', '\u{203F}', '\u{2040}', '\u{2041}', '\u{2070}', '\u{218F}', '\u{2190}', '\u{2C00}', '\u{3000}',
    '\u{3001}', '\u{D7FF}', '\u{E000}', '\u{F900}', '\u{FDCF}', '\u{FDD0}', '\u{FDF0}', '\u{FFFD}', '\u{FFFE}', '\u{10000}', '\u{EFFFF}',
    '\u{F0000}', ' ', '%', '~', '!', '#', '/', '?', '@', '$', '&', 'd',
];

fn rand_name(ctx: &mut GenCtx, alphabet: &[char], max: usize) -> String {
    let n = ctx.rng.range(1, max);
    let mut s = String::new();
    for i in 0..n {
        // mostly ordinary letters so that long accepted tokens occur, with nasty characters mixed in
        let c = if ctx.rng.chance(1, 2) { *ctx.rng.pick(&['a', 'b', '1', '.', '-', '_'][..]) } else { *ctx.rng.pick(alphabet) };
        if i == 0 && ctx.rng.chance(2, 3) && !c.is_alphanumeric() {
            s.push('a');
        }
        s.push(c);
    }
    s
}

fn rand_langtag(ctx: &mut GenCtx) -> String {
    const GF: &[&str] = &["art-lojban", "en-GB-oed", "i-klingon", "i-ami", "sgn-BE-FR", "zh-min-nan", "no-bok", "x-a", "X-abc-1", "i-default"];
    let al = |ctx: &mut GenCtx, n: usize, digits: bool| -> String {
        (0..n)
            .map(|_| {
                if digits && ctx.rng.chance(1, 3) {
                    *ctx.rng.pick(&['0', '1', '9'][..])
                } else {
                    *ctx.rng.pick(&['a', 'b', 'x', 'z', 'A', 'X', 'Q'][..])
                }
            })
            .collect()
    };
    if ctx.rng.chance(1, 8) {
        return ctx.rng.pick(GF).to_string();
    }
    let n0 = *ctx.rng.pick(&[1usize, 2, 3, 4, 5, 8, 9][..]);
    let mut s = al(ctx, n0, false);
    for _ in 0..ctx.rng.below(4) {
        if ctx.rng.chance(1, 2) {
            s.push('-');
            s += &al(ctx, 3, false);
        }
    }
    if ctx.rng.chance(1, 3) {
        s.push('-');
        s += &al(ctx, 4, false);
    }
    if ctx.rng.chance(1, 2) {
        s.push('-');
        s += &if ctx.rng.chance(1, 2) { al(ctx, 2, false) } else { "419".to_string() };
    }
    for _ in 0..ctx.rng.below(3) {
        s.push('-');
        let n = *ctx.rng.pick(&[4usize, 5, 8, 9][..]);
        s += &if ctx.rng.chance(1, 2) { format!("1{}", al(ctx, n - 1, true)) } else { al(ctx, n, true) };
    }
    for _ in 0..ctx.rng.below(3) {
        s.push('-');
        s.push(*ctx.rng.pick(&['a', 'u', '1', 'x', 'X'][..]));
        for _ in 0..ctx.rng.below(3) {
            s.push('-');
            let n = ctx.rng.range(1, 9);
            s += &al(ctx, n, true);
        }
    }
    s
}

fn emit_tok(ctx: &mut GenCtx, syn: &str, kind: &str, w: &str) {
    if w.contains('\u{0}') && (syn == "xml" || syn == "jsonld") {
        return;
    }
    ctx.stats.bump(&format!("tok.{}.{}", syn, kind));
    if !w.is_ascii() {
        ctx.stats.bump("tok.non_ascii");
    }
    ctx.emit(&format!("tok {} {} {}", syn, kind, hex(w)));
}

const FAM: &[&str] = &["nt", "nq", "ttl", "trig", "gnq", "gtrig"];

/// One PRNG per request family, all seeded up-front from the run's PRNG: the token families sample
/// from the regex SOURCES of the working tree, so an edit of one regex changes how many numbers that
/// family draws; with a private stream per family the other families (in particular the document
/// mutants, whose known-finding predicates are textual) stay exactly the same requests.
pub struct Forks(Vec<u64>);
impl Forks {
    pub fn new(ctx: &mut GenCtx) -> Self {
        Forks((0..16).map(|_| ctx.rng.next()).collect())
    }
    pub fn enter(&self, ctx: &mut GenCtx, family: usize) {
        ctx.rng = Rng::new(self.0[family] | 1);
    }
}

/// positions beyond subject / object that share a recogniser with them
fn bnode_kinds(syn: &str) -> &'static [&'static str] {
    match syn {
        "nt" | "ttl" => &["bnode_q", "bnode_qo"],
        _ => &["bnode_g", "bnode_q", "bnode_qo"],
    }
}
fn iri_kinds(syn: &str) -> &'static [&'static str] {
    match syn {
        "nt" | "ttl" => &["iri_p", "iri_o", "iri_q", "iri_qo", "dt_q"],
        _ => &["iri_p", "iri_o", "iri_g", "iri_q", "iri_qo", "dt_q"],
    }
}

fn tokens(ctx: &mut GenCtx, forks: &Forks) {
    let scale = if ctx.thorough { 10 } else { 1 };
    forks.enter(ctx, 0);
    let mut k = 0usize; // rotates the syntaxes
    let mut next_fam = |k: &mut usize| -> &'static str {
        *k += 1;
        FAM[*k % FAM.len()]
    };

    // ---- blank node labels / rdf:nodeID
    let bsrc = regex_src_of("/repo/api/src/term/bnode_id.rs");
    if bsrc.is_none() {
        ctx.stats.bump("MISSING.bnode_regex_source");
    }
    let bh = bsrc.as_deref().map(rxgen::parse);
    let mut balpha: Vec<char> = NAME_ALPHABET.to_vec();
    if let Some(h) = &bh {
        rxgen::boundaries(h, &mut balpha);
    }
    balpha.sort();
    balpha.dedup();
    for w in ["a", "a.b", "a.", "a..b", ".a", "a.b.", "-a", "a-", "0", "_", "a:b", "é", "a\u{B7}", "\u{B7}a", "a\u{300}", "\u{300}", "a.\u{300}",
        "riog00000001", "riog00000001d", "riog0000000", "riog00000001dd", "riog00000001x", "a b", "", "a.é", "a.\u{D7}", "A.", "x\u{FFFD}", "x\u{FFFE}",
        "\u{10000}", "\u{EFFFF}", "\u{F0000}"] {
        for syn in FAM {
            emit_tok(ctx, syn, "bnode", w);
            emit_tok(ctx, syn, "bnode_o", w);
            for k2 in bnode_kinds(syn) {
                emit_tok(ctx, syn, k2, w);
            }
        }
        emit_tok(ctx, "xml", "nodeid", w);
        emit_tok(ctx, "xml", "nodeid_o", w);
        emit_tok(ctx, "jsonld", "bnode", w);
        emit_tok(ctx, "jsonld@gen", "bnode", w);
        emit_tok(ctx, "jsonld@gen", "bnode_p", w);
        emit_tok(ctx, "jsonld", "bnode_p", w);
    }
    for w in [":", "a:b", "a:", ":a", "::", "a:b:c", "0:", "é:é", "a-:", "a\u{B7}:", "a.b", "a.", "-a", "a:.", "a:-"] {
        emit_tok(ctx, "jsonld@gen", "bnode_p", w);
        emit_tok(ctx, "jsonld@gen", "bnode", w);
    }
    for i in 0..600 * scale {
        let mut s = String::new();
        match (&bh, i % 3) {
            (Some(h), 0) => rxgen::sample(h, &mut ctx.rng, &mut s, 4),
            _ => s = rand_name(ctx, &balpha, 6),
        }
        let cands = [s.clone(), rxgen::mutate(&s, &mut ctx.rng, &balpha), rxgen::mutate(&s, &mut ctx.rng, &['.', '-', ':', 'a', ' '])];
        for c in cands.iter() {
            let syn = next_fam(&mut k);
            emit_tok(ctx, syn, if i % 4 == 0 { "bnode_o" } else { "bnode" }, c);
            if i % 2 == 1 {
                let ks = bnode_kinds(syn);
                emit_tok(ctx, syn, ks[(i / 2) % ks.len()], c);
            }
            emit_tok(ctx, "xml", if i % 5 == 0 { "nodeid_o" } else { "nodeid" }, c);
            if i % 4 == 0 {
                emit_tok(ctx, "jsonld", "bnode", c);
            }
            if i % 4 == 1 {
                emit_tok(ctx, "jsonld@gen", "bnode_p", c);
            }
        }
    }
    // label or variable followed by '.' + a non-ASCII character that is not a name character
    for c in ["\u{D7}", "\u{F7}", "\u{37E}", "\u{2000}", "\u{2190}", "\u{3000}", "\u{E000}", "\u{FDD0}", "\u{FFFE}", "\u{F0000}", "\u{10FFFF}", "\u{A0}"] {
        for w in ["a", "a.b", "0", "é"] {
            for syn in FAM {
                ctx.stats.bump("trail");
                ctx.emit(&format!("trail {} bnode {} {}", syn, hex(w), hex(c)));
                ctx.emit(&format!("trail {} bnode_o {} {}", syn, hex(w), hex(c)));
            }
            for syn in ["gnq", "gtrig"] {
                ctx.emit(&format!("trail {} var {} {}", syn, hex(w), hex(c)));
            }
        }
    }

    // ---- variables
    forks.enter(ctx, 1);
    let vsrc = regex_src_of("/repo/api/src/term/var_name.rs");
    if vsrc.is_none() {
        ctx.stats.bump("MISSING.var_regex_source");
    }
    let vh = vsrc.as_deref().map(rxgen::parse);
    for w in ["a", "0", "_", "a.b", "a-b", "a\u{B7}", "a\u{300}", "a\u{203F}", "é", "\u{B7}", "", "a:b", "a b", "x\u{FFFD}", "\u{EFFFF}"] {
        for syn in ["gnq", "gtrig"] {
            for k2 in ["var", "var_p", "var_o", "var_g", "var_q"] {
                emit_tok(ctx, syn, k2, w);
            }
        }
    }
    for i in 0..300 * scale {
        let mut s = String::new();
        match (&vh, i % 2) {
            (Some(h), 0) => rxgen::sample(h, &mut ctx.rng, &mut s, 4),
            _ => s = rand_name(ctx, &balpha, 5),
        }
        let m = rxgen::mutate(&s, &mut ctx.rng, &balpha);
        for c in [s, m] {
            emit_tok(ctx, if i % 2 == 0 { "gnq" } else { "gtrig" }, "var", &c);
            if i % 3 == 0 {
                emit_tok(ctx, if i % 2 == 0 { "gtrig" } else { "gnq" }, ["var_p", "var_o", "var_g", "var_q"][(i / 3) % 4], &c);
            }
        }
    }

    // ---- language tags
    forks.enter(ctx, 2);
    let lsrc = regex_src_of("/repo/api/src/term/language_tag.rs");
    if lsrc.is_none() {
        ctx.stats.bump("MISSING.lang_regex_source");
    }
    let lh = lsrc.as_deref().map(rxgen::parse);
    let lalpha = ['a', 'z', 'A', 'Z', '0', '9', '-', '_', 'x', 'X', 'é', ' ', '.', 'i'];
    for w in ["en", "EN-us", "e", "x", "x-a", "X-A", "x-", "x-abcdefghi", "i-klingon", "I-KLINGON", "i-klingo", "en-GB-oed", "zh-min-nan", "en-", "-en", "en--us",
        "abcdefghi", "abcd-efgh", "en-a", "en-a-bb", "en-a-b", "en-x", "en-x-1", "en-419", "en-41", "en-1abc", "en-abcde", "en-abcd-abcd", "en-abc-abc-abc-abc",
        "en-latn-us-1996-a-bb-x-y", "a1", "12", "en-us-gb", "", "en_us", "én", "sgn-be-fr", "de-CH-1901", "abcde-abc", "en-abcdefgh-abcdefghi"] {
        for syn in FAM {
            emit_tok(ctx, syn, "lang", w);
        }
        emit_tok(ctx, "xml", "lang", w);
        emit_tok(ctx, "xml", "lang_p", w);
        emit_tok(ctx, "jsonld", "lang", w);
        emit_tok(ctx, "jsonld", "ctx_lang", w);
        for syn in ["jsonld", "jsonld@i18n", "jsonld@compound"] {
            emit_tok(ctx, syn, "dir_lang", w);
        }
        emit_tok(ctx, FAM[w.len() % FAM.len()], "lang_q", w);
    }
    for i in 0..700 * scale {
        let mut s = String::new();
        match (&lh, i % 3) {
            (Some(h), 0) => rxgen::sample(h, &mut ctx.rng, &mut s, 3),
            _ => s = rand_langtag(ctx),
        }
        let m = rxgen::mutate(&s, &mut ctx.rng, &lalpha);
        for c in [s, m] {
            let syn = next_fam(&mut k);
            emit_tok(ctx, syn, "lang", &c);
            emit_tok(ctx, "xml", if i % 4 == 1 { "lang_p" } else { "lang" }, &c);
            if i % 3 == 0 {
                emit_tok(ctx, "jsonld", "lang", &c);
            }
            if i % 3 == 1 {
                emit_tok(ctx, ["jsonld@i18n", "jsonld@compound", "jsonld", "jsonld@v10"][(i / 3) % 4], if i % 2 == 0 { "dir_lang" } else { "ctx_lang" }, &c);
            }
            if i % 5 == 2 {
                emit_tok(ctx, syn, "lang_q", &c);
            }
        }
    }

    // ---- IRIs
    forks.enter(ctx, 3);
    let abs = rxgen::parse(sophia_iri::IRI_REGEX_SRC);
    let rel = rxgen::parse(sophia_iri::IRELATIVE_REF_REGEX_SRC);
    let mut ialpha: Vec<char> = IRI_PUNCT.to_vec();
    rxgen::boundaries(&abs, &mut ialpha);
    ialpha.sort();
    ialpha.dedup();
    let iri_corpus = [
        "http://[1:2::3:4:5:6:7]/", "http://[1::2::3:4:5:6:7]/", "http://a:80junk", "A://:!", "//:!", "http://[::1]", "http://[v7.a:b]/", "http://[V7.a:b]/",
        "A://[V0.!]", "http://[vF.x]", "http://[v.x]", "http://[v1.]", "http://[1:2:3:4:5:6:1.2.3.4]", "http://[::ffff:256.1.1.1]/", "http://[::ffff:01.1.1.1]/",
        "http://[1:2:3:4:5:6:7:8]", "http://[1:2:3:4:5:6:7:8:9]", "http://[::]", "http://[:::1]", "http://[12345::]", "http://[::1.2.3.4]", "http://[1.2.3.4]",
        "http://[::1]x", "http://[::1]:", "http://[::1]:8x", "http://[::1", "http://a@b:1/c?d#e", "http://a@b@c/", "http://a:b@c:1/", "http://a:/", "http://:80", "http://",
        "a:", "a:/", "a://", "a:b", "a:/b//c", "a://b//c", "a:///", "", "#", "?", "/", "//", "///", ".", "..", "a/b:c", "a:b/c", "./a:b", ":a", "1a:b", "a%3a:b",
        "%41", "%4", "%zz", "x:%", "x:%4", "x:%GG", "http://ex.org/%E9", "http://é.org/é?é#é", "http://a/\u{E000}", "http://a/?\u{E000}", "http://a/#\u{E000}",
        "http://a/\u{FFFE}", "x:\u{D7FF}", "x:\u{FFF0}", "x:\u{FFFD}", "x:\u{1FFFE}", "x:\u{E0000}", "x:\u{E1000}", "x:a b", "x:a>b", "x:a<b", "x:\"", "x:{}", "x:a|b",
        "x:a\\b", "x:a^b", "x:a`b", "x:a\nb", "x:a\tb", "x:##", "x:#a#b", "x:?a?b#c?d", "x://@@", "x://a@", "x://@", "x://[", "x://]", "x:[", "x:]", "x:/[", "x:a?[",
        "urn:uuid:6e8bc430-9c3a-11d9-9669-0800200c9a66", "mailto:a@b.c", "file:///etc/passwd", "tag:a,2000:b", "http://a/./b/../c", "http://a//", "http://a/?#",
        "HTTP://A/", "a+b-c.d:e", "a_b:c", "http://a:00000000000000000000000000000080/", "http://1.2.3.4.5/", "http://256.1.1.1/", "http://a.b-c_d~e!$&'()*+,;=/",
    ];
    let iri_targets: &[(&str, &str)] = &[
        ("nt", "iri"), ("nq", "iri"), ("ttl", "iri"), ("trig", "iri"), ("gnq", "iri"), ("gtrig", "iri"), ("xml", "iri"), ("jsonld", "iri"),
        ("nt", "dt"), ("gnq", "dt"), ("ttl", "dt"), ("gtrig", "dt"), ("xml", "xmlns"), ("gtrig", "pname_dt"),
    ];
    // the same recognisers reached through other positions / attributes / keywords, and other parser options
    let mut more_targets: Vec<(&str, &str)> = vec![
        ("xml", "resource"), ("xml", "datatype"), ("xml", "type"), ("nq", "dt"), ("trig", "dt"),
        ("jsonld", "iri_o"), ("jsonld", "type"), ("jsonld", "dtype"), ("jsonld", "graph"), ("jsonld", "vocab"), ("jsonld", "term"),
        ("jsonld@gen", "iri"), ("jsonld@ordered", "type"), ("jsonld@base", "iri"), ("jsonld@ctx", "iri_o"), ("jsonld@v10", "iri"),
        ("jsonld@strict", "iri"), ("jsonld@relaxed", "iri"), ("jsonld@i18n", "dtype"), ("jsonld@compound", "graph"),
    ];
    for syn in FAM {
        for k2 in iri_kinds(syn) {
            more_targets.push((*syn, *k2));
        }
    }
    for w in iri_corpus {
        for (syn, kind) in iri_targets {
            emit_tok(ctx, syn, kind, w);
        }
        for (syn, kind) in more_targets.iter() {
            emit_tok(ctx, syn, kind, w);
        }
        ctx.stats.bump("base");
        ctx.emit(&format!("base {}", hex(w)));
    }
    for i in 0..900 * scale {
        let h = if i % 2 == 0 { &abs } else { &rel };
        let mut s = String::new();
        rxgen::sample(h, &mut ctx.rng, &mut s, 3);
        if s.contains('[') {
            ctx.stats.bump("tok.iri.ip_literal");
        }
        let m1 = rxgen::mutate(&s, &mut ctx.rng, &ialpha);
        let m2 = rxgen::mutate(&s, &mut ctx.rng, &['V', 'v', '[', ']', ':', '.', '%', '/', '@', '0']);
        for c in [s.clone(), m1, m2] {
            let (syn, kind) = iri_targets[ctx.rng.below(iri_targets.len())];
            emit_tok(ctx, syn, kind, &c);
            let (syn, kind) = iri_targets[ctx.rng.below(6)];
            emit_tok(ctx, syn, kind, &c);
            let (syn, kind) = more_targets[ctx.rng.below(more_targets.len())];
            emit_tok(ctx, syn, kind, &c);
        }
        if i % 2 == 0 {
            ctx.stats.bump("base");
            ctx.emit(&format!("base {}", hex(&s)));
        }
    }

    // ---- prefixed names (local part as emitted)
    forks.enter(ctx, 4);
    let palpha: Vec<char> = "_~.-!$&'()*+,;=/?#@%:aZ09".chars().chain(['é', '\u{B7}', '\u{300}', '\u{FFFD}', '\u{FFFE}', '\u{10000}', '\u{1FFFE}', '\u{E0000}', '\u{EFFFF}', ' ', '<', '"']).collect();
    for w in ["", "a", "a.b", "a.", "a..b", ".a", "-a", "%", "%41", "%4", "%4g", "##", "#a", "a#b#c", "//@@", "/", "//", "//a", "?a?b", "a:b", ":", "::", "0", "é",
        "\u{B7}", "a\u{B7}", "\u{FFFD}", "a\u{FFFE}", "\u{1FFFE}", "\u{E0000}", "a b", "a~b", "!$&'()*+,;=", "@", "a@b", "_", "a%", "a%41%42"] {
        for syn in ["ttl", "trig", "gtrig"] {
            emit_tok(ctx, syn, "pname", w);
            emit_tok(ctx, syn, ["pname_p", "pname_o", "pname_d", "pname_q"][w.len() % 4], w);
        }
        emit_tok(ctx, if w.len() % 2 == 0 { "trig" } else { "gtrig" }, "pname_g", w);
    }
    for i in 0..500 * scale {
        let n = ctx.rng.range(1, 6);
        let s: String = (0..n).map(|_| if ctx.rng.chance(1, 2) { 'a' } else { *ctx.rng.pick(&palpha) }).collect();
        emit_tok(ctx, ["ttl", "trig", "gtrig"][i % 3], "pname", &s);
        if i % 2 == 0 {
            let syn = ["trig", "gtrig", "ttl"][i % 3];
            let kinds: &[&str] = if syn == "ttl" { &["pname_p", "pname_o", "pname_d", "pname_q"] } else { &["pname_p", "pname_o", "pname_d", "pname_q", "pname_g"] };
            emit_tok(ctx, syn, kinds[(i / 2) % kinds.len()], &s);
        }
    }
}

fn deep_and_long(ctx: &mut GenCtx) {
    let depths: &[usize] = if ctx.thorough { &[16, 1000, 10000, 100000] } else { &[16, 1000] };
    for (syn, shape) in DEEP_SHAPES {
        for d in depths {
            ctx.stats.bump(&format!("deep.{}", d));
            ctx.emit(&format!("deep {} {} {}", syn, shape, d));
        }
    }
    let lens: &[usize] = if ctx.thorough { &[100_000, 1_000_000] } else { &[100_000] };
    for syn in run::SYNTAXES {
        for kind in LONG_KINDS {
            for n in lens {
                if long_doc(syn, kind, 16).is_some() {
                    ctx.stats.bump("long");
                    ctx.emit(&format!("long {} {} {}", syn, kind, n));
                }
            }
        }
    }
}

fn json_glue_cases(ctx: &mut GenCtx) {
    // JsonLdQuadSource: n quads with the callback failing at each position (or never), and the one-shot error
    for n in 0..6usize {
        ctx.stats.bump("glue.json");
        ctx.emit(&format!("glue j {} -", n));
        for k in 0..n {
            ctx.stats.bump("glue.json");
            ctx.emit(&format!("glue j {} {}", n, k));
        }
    }
    for sink in ["-", "0", "1"] {
        ctx.stats.bump("glue.json");
        ctx.emit(&format!("glue j 0! {}", sink));
    }
}

fn glue_cases(ctx: &mut GenCtx) {
    json_glue_cases(ctx);
    // every script of up to 3 steps over items in {0,1,2} x {ok, parser error}, every callback failure position
    let opts = ["0", "1", "2", "0!", "1!", "2!"];
    let mut scripts: Vec<String> = vec!["_".into()];
    for a in opts {
        scripts.push(a.to_string());
        for b in opts {
            scripts.push(format!("{},{}", a, b));
            for c in opts {
                scripts.push(format!("{},{},{}", a, b, c));
            }
        }
    }
    for (i, sc) in scripts.iter().enumerate() {
        let total: usize = sc.split(',').filter_map(|t| t.trim_end_matches('!').parse::<usize>().ok()).sum();
        let kind = ["t", "q", "g"][i % 3];
        ctx.stats.bump("glue");
        ctx.emit(&format!("glue {} {} -", kind, sc));
        for k in 0..total {
            if ctx.thorough || ctx.rng.chance(1, 2) {
                ctx.stats.bump("glue");
                ctx.emit(&format!("glue {} {} {}", kind, sc, k));
            }
        }
    }
}

pub fn generate(ctx: &mut GenCtx) {
    let forks = Forks::new(ctx);
    tokens(ctx, &forks);
    forks.enter(ctx, 5);
    rel_cases(ctx);
    forks.enter(ctx, 6);
    glue_cases(ctx);
    forks.enter(ctx, 7);
    deep_and_long(ctx);
    forks.enter(ctx, 8);
    jsonld_options(ctx);
    forks.enter(ctx, 10);
    error_messages(ctx);
    forks.enter(ctx, 9);
    mutate_docs(ctx);
}
