//! rio/src/parser.rs driven by scripted back-end parsers: which StreamResult comes out of
//! `try_for_some_item` for every combination of back-end result and callback result
use rio_api::model as rm;
use rio_api::parser::{GeneralizedQuadsParser, QuadsParser, TriplesParser};
use sophia_api::source::{Source, StreamError};
use sophia_rio::parser::{GeneralizedRioSource, StrictRioQuadSource, StrictRioTripleSource};
use std::collections::VecDeque;

#[derive(Debug)]
pub struct FakeErr;
impl std::fmt::Display for FakeErr {
    fn fmt(&self, f: &mut std::fmt::Formatter<'_>) -> std::fmt::Result {
        write!(f, "scripted parser error")
    }
}
impl std::error::Error for FakeErr {}

#[derive(Debug)]
pub struct SinkErr;
impl std::fmt::Display for SinkErr {
    fn fmt(&self, f: &mut std::fmt::Formatter<'_>) -> std::fmt::Result {
        write!(f, "scripted sink error")
    }
}
impl std::error::Error for SinkErr {}

pub struct Fake(pub VecDeque<(usize, bool)>);

const S: rm::NamedNode<'static> = rm::NamedNode { iri: "x:s" };
const P: rm::NamedNode<'static> = rm::NamedNode { iri: "x:p" };
const O: rm::NamedNode<'static> = rm::NamedNode { iri: "x:o" };

impl TriplesParser for Fake {
    type Error = FakeErr;
    fn parse_step<E: From<FakeErr>>(&mut self, on: &mut impl FnMut(rm::Triple<'_>) -> Result<(), E>) -> Result<(), E> {
        let (n, fails) = self.0.pop_front().expect("parse_step called after is_end");
        for _ in 0..n {
            on(rm::Triple { subject: S.into(), predicate: P, object: O.into() })?;
        }
        if fails { Err(FakeErr.into()) } else { Ok(()) }
    }
    fn is_end(&self) -> bool {
        self.0.is_empty()
    }
}
pub struct FakeQ(pub VecDeque<(usize, bool)>);
impl QuadsParser for FakeQ {
    type Error = FakeErr;
    fn parse_step<E: From<FakeErr>>(&mut self, on: &mut impl FnMut(rm::Quad<'_>) -> Result<(), E>) -> Result<(), E> {
        let (n, fails) = self.0.pop_front().expect("parse_step called after is_end");
        for _ in 0..n {
            on(rm::Quad { subject: S.into(), predicate: P, object: O.into(), graph_name: None })?;
        }
        if fails { Err(FakeErr.into()) } else { Ok(()) }
    }
    fn is_end(&self) -> bool {
        self.0.is_empty()
    }
}
pub struct FakeG(pub VecDeque<(usize, bool)>);
impl GeneralizedQuadsParser for FakeG {
    type Error = FakeErr;
    fn parse_step<E: From<FakeErr>>(&mut self, on: &mut impl FnMut(rm::GeneralizedQuad<'_>) -> Result<(), E>) -> Result<(), E> {
        let (n, fails) = self.0.pop_front().expect("parse_step called after is_end");
        for _ in 0..n {
            on(rm::GeneralizedQuad { subject: S.into(), predicate: P.into(), object: O.into(), graph_name: None })?;
        }
        if fails { Err(FakeErr.into()) } else { Ok(()) }
    }
    fn is_end(&self) -> bool {
        self.0.is_empty()
    }
}

fn drive<Src: Source>(mut src: Src, calls: usize, sink_fail: Option<usize>) -> String {
    let mut seen = 0usize;
    let mut out = String::new();
    for _ in 0..calls {
        let r = src.try_for_some_item(|_| -> Result<(), SinkErr> {
            let k = seen;
            seen += 1;
            if Some(k) == sink_fail { Err(SinkErr) } else { Ok(()) }
        });
        out.push(match r {
            Ok(true) => 'T',
            Ok(false) => 'F',
            Err(StreamError::SourceError(_)) => 'S',
            Err(StreamError::SinkError(_)) => 'K',
        });
    }
    out
}

pub fn exec(kind: &str, script: &str, sink: &str) -> String {
    let mut steps = VecDeque::new();
    for t in script.split(',') {
        if t.is_empty() || t == "_" {
            continue;
        }
        let fails = t.ends_with('!');
        let Ok(n) = t.trim_end_matches('!').parse::<usize>() else { return "bad-op".into() };
        steps.push_back((n, fails));
    }
    let sink_fail = if sink == "-" { None } else { sink.parse::<usize>().ok() };
    let calls = steps.len() + 2;
    let outs = match kind {
        "t" => drive(StrictRioTripleSource(Fake(steps)), calls, sink_fail),
        "q" => drive(StrictRioQuadSource(FakeQ(steps)), calls, sink_fail),
        "g" => drive(GeneralizedRioSource(FakeG(steps)), calls, sink_fail),
        // jsonld/src/parser/source.rs: either the collected quads (one per call) or a one-shot error
        "j" => {
            use sophia_jsonld::{JsonLdError, JsonLdQuadSource, RdfTerm};
            let Some((n, fails)) = steps.front().copied() else { return "bad-op".into() };
            if steps.len() != 1 {
                return "bad-op".into();
            }
            let src = if fails {
                JsonLdQuadSource::Err(Some(JsonLdError::ExpandError("scripted expansion error".into())))
            } else {
                let t = || RdfTerm::from(sophia_iri::Iri::new_unchecked(std::sync::Arc::<str>::from("x:t")));
                let quads: Vec<sophia_api::quad::Spog<RdfTerm>> = (0..n).map(|_| ([t(), t(), t()], None)).collect();
                JsonLdQuadSource::Quads(quads.into_iter())
            };
            drive(src, if fails { 3 } else { n + 2 }, sink_fail)
        }
        _ => return "bad-op".into(),
    };
    format!("outs={}", outs)
}
