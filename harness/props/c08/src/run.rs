//! Running the real parsers of /repo on a byte string and observing everything they yield.
//!
//! Two views of every yielded statement:
//!  * raw   — the strings inside the back-end's own term structs (rio_api), read directly, so that
//!            they are available even when a sophia accessor panics;
//!  * sophia — every accessor of `sophia_api::term::Term` called under `catch`, the returned text
//!            re-validated with the toolkit's own validators (`Iri::new`, `BnodeId::new`, ...).
use rio_api::model as rm;
use sophia_api::parser::{QuadParser, TripleParser};
use sophia_api::source::Source;
use sophia_api::term::{BnodeId, LanguageTag, Term, TermKind, VarName};
use sophia_iri::{Iri, IriRef};
use sophia_rio::model::Trusted;
use std::panic::AssertUnwindSafe;
use vhcore::util::catch;

/// raw back-end term
#[derive(Clone, Debug, PartialEq)]
pub enum R {
    I(String),
    B(String),
    L(String, Option<String>, Option<String>), // lexical, datatype, language
    V(String),
    T(Box<[R; 3]>),
}

/// what the sophia accessors returned for a top-level term
#[derive(Clone, Debug, Default)]
pub struct SV {
    pub kind: char, // i b l v t ?
    pub text: Option<String>,
    pub dt: Option<String>,
    pub lang: Option<String>,
    pub panicked: bool,
}

#[derive(Default, Debug)]
pub struct Obs {
    pub items: usize,
    pub errors: usize,
    pub first_err: Option<String>,
    /// `panic.<accessor>` / `invalid.<kind>` / `inconsistent.<what>`
    pub fails: Vec<String>,
    pub raw: Vec<Vec<R>>,
    pub sop: Vec<Vec<SV>>,
    pub strict: bool,
    pub keep: bool,
    /// raw strings (back-end view) the toolkit's validators reject: `i.<hex>` IRI, `d.<hex>` datatype,
    /// `b.<hex>` blank node label, `l.<hex>` language tag, `v.<hex>` variable name (first few)
    pub bad: Vec<String>,
    /// how many terms went through the extended sweep (eq / cmp / hash / into_term / constituents / atoms)
    pub extra_swept: usize,
}

impl Obs {
    fn note_bad(&mut self, tag: char, s: &str) {
        let e = format!("{}.{}", tag, vhcore::util::hex(s));
        if self.bad.len() < 6 && !self.bad.contains(&e) {
            self.bad.push(e);
        }
    }
    /// validate the raw (back-end) strings of a statement with the toolkit's validators
    pub fn check_raw(&mut self, r: &R) {
        match r {
            R::I(s) => {
                let ok = if self.strict { Iri::new(s.as_str()).is_ok() } else { IriRef::new(s.as_str()).is_ok() };
                if !ok {
                    self.note_bad('i', s);
                }
            }
            R::B(s) => {
                if BnodeId::new(s.as_str()).is_err() {
                    self.note_bad('b', s);
                }
            }
            R::V(s) => {
                if VarName::new(s.as_str()).is_err() {
                    self.note_bad('v', s);
                }
            }
            R::L(_, dt, lang) => {
                if let Some(d) = dt {
                    // rio/src/model.rs `datatype` asserts Iri::new, for the generalized parsers too
                    if Iri::new(d.as_str()).is_err() {
                        self.note_bad('d', d);
                    }
                }
                if let Some(l) = lang {
                    if LanguageTag::new(l.as_str()).is_err() {
                        self.note_bad('l', l);
                    }
                }
            }
            R::T(spo) => {
                for x in spo.iter() {
                    self.check_raw(x);
                }
            }
        }
    }
    fn fail(&mut self, s: String) {
        if self.fails.len() < 16 && !self.fails.contains(&s) {
            self.fails.push(s);
        }
    }
}

fn raw_lit(l: rm::Literal) -> R {
    match l {
        rm::Literal::Simple { value } => R::L(value.into(), None, None),
        rm::Literal::LanguageTaggedString { value, language } => R::L(value.into(), None, Some(language.into())),
        rm::Literal::Typed { value, datatype } => R::L(value.into(), Some(datatype.iri.into()), None),
    }
}
fn raw_triple(t: &rm::Triple) -> R {
    R::T(Box::new([raw_subject(t.subject), R::I(t.predicate.iri.into()), raw_term(t.object)]))
}
fn raw_subject(s: rm::Subject) -> R {
    match s {
        rm::Subject::NamedNode(n) => R::I(n.iri.into()),
        rm::Subject::BlankNode(b) => R::B(b.id.into()),
        rm::Subject::Triple(t) => raw_triple(t),
    }
}
fn raw_term(s: rm::Term) -> R {
    match s {
        rm::Term::NamedNode(n) => R::I(n.iri.into()),
        rm::Term::BlankNode(b) => R::B(b.id.into()),
        rm::Term::Literal(l) => raw_lit(l),
        rm::Term::Triple(t) => raw_triple(t),
    }
}
fn raw_graph(s: rm::GraphName) -> R {
    match s {
        rm::GraphName::NamedNode(n) => R::I(n.iri.into()),
        rm::GraphName::BlankNode(b) => R::B(b.id.into()),
    }
}
fn raw_gterm(s: rm::GeneralizedTerm) -> R {
    match s {
        rm::GeneralizedTerm::NamedNode(n) => R::I(n.iri.into()),
        rm::GeneralizedTerm::BlankNode(b) => R::B(b.id.into()),
        rm::GeneralizedTerm::Literal(l) => raw_lit(l),
        rm::GeneralizedTerm::Variable(v) => R::V(v.name.into()),
        rm::GeneralizedTerm::Triple(t) => R::T(Box::new([raw_gterm(t[0]), raw_gterm(t[1]), raw_gterm(t[2])])),
    }
}

fn acc<X>(name: &str, obs: &mut Obs, f: impl FnOnce() -> X) -> Option<X> {
    match catch(AssertUnwindSafe(f)) {
        Ok(x) => Some(x),
        Err(_) => {
            obs.fail(format!("panic.{}", name));
            None
        }
    }
}

/// call every accessor of `t` (and of its constituents), validate what comes out
pub fn sweep<T: Term>(t: &T, obs: &mut Obs, depth: usize) -> SV {
    let mut sv = SV { kind: '?', ..Default::default() };
    let kind = acc("kind", obs, || t.kind());
    let strict = obs.strict;
    let iri = acc("iri", obs, || t.iri().map(|x| x.as_str().to_string()));
    let bn = acc("bnode_id", obs, || t.bnode_id().map(|x| x.as_str().to_string()));
    let lex = acc("lexical_form", obs, || t.lexical_form().map(|x| x.to_string()));
    let dt = acc("datatype", obs, || t.datatype().map(|x| x.as_str().to_string()));
    let lang = acc("language_tag", obs, || t.language_tag().map(|x| x.as_str().to_string()));
    let var = acc("variable", obs, || t.variable().map(|x| x.as_str().to_string()));
    sv.panicked = iri.is_none() || bn.is_none() || lex.is_none() || dt.is_none() || lang.is_none() || var.is_none();
    if let Some(Some(s)) = &iri {
        let ok = if strict { Iri::new(s.as_str()).is_ok() } else { IriRef::new(s.as_str()).is_ok() };
        if !ok {
            obs.fail("invalid.iri".into());
        }
    }
    if let Some(Some(s)) = &bn {
        if BnodeId::new(s.as_str()).is_err() {
            obs.fail("invalid.bnode".into());
        }
    }
    if let Some(Some(s)) = &dt {
        let ok = if strict { Iri::new(s.as_str()).is_ok() } else { IriRef::new(s.as_str()).is_ok() };
        if !ok {
            obs.fail("invalid.datatype".into());
        }
    }
    if let Some(Some(s)) = &lang {
        if LanguageTag::new(s.as_str()).is_err() {
            obs.fail("invalid.lang".into());
        }
    }
    if let Some(Some(s)) = &var {
        if VarName::new(s.as_str()).is_err() {
            obs.fail("invalid.var".into());
        }
    }
    if let Some(k) = kind {
        let (c, present) = match k {
            TermKind::Iri => ('i', matches!(iri, Some(Some(_)) | None)),
            TermKind::BlankNode => ('b', matches!(bn, Some(Some(_)) | None)),
            TermKind::Literal => ('l', matches!(lex, Some(Some(_)) | None) && matches!(dt, Some(Some(_)) | None)),
            TermKind::Variable => ('v', matches!(var, Some(Some(_)) | None)),
            TermKind::Triple => ('t', true),
        };
        sv.kind = c;
        if !present {
            obs.fail(format!("inconsistent.{}", c));
        }
        sv.text = match k {
            TermKind::Iri => iri.clone().flatten(),
            TermKind::BlankNode => bn.clone().flatten(),
            TermKind::Literal => lex.clone().flatten(),
            TermKind::Variable => var.clone().flatten(),
            TermKind::Triple => None,
        };
        sv.dt = dt.clone().flatten();
        sv.lang = lang.clone().flatten();
        if k == TermKind::Triple && depth < 300 {
            // constituents, recursively
            let r = catch(AssertUnwindSafe(|| {
                let mut inner = Obs { strict, ..Default::default() };
                if let Some(spo) = t.triple() {
                    for x in spo.iter() {
                        sweep(x, &mut inner, depth + 1);
                    }
                } else {
                    inner.fails.push("inconsistent.t".into());
                }
                inner.fails
            }));
            match r {
                Ok(fs) => fs.into_iter().for_each(|f| obs.fail(f)),
                Err(_) => obs.fail("panic.triple".into()),
            }
        }
        if obs.fails.is_empty() && depth < 8 {
            // what downstream code does with a yielded term, beyond the accessors: compare it, hash it,
            // copy it, walk it.  Only while nothing has failed yet (for a quoted triple: none of its
            // constituents either) — these methods call the accessors, a failure above would only repeat.
            obs.extra_swept += 1;
            extra_sweep(t, obs);
        }
    }
    sv
}

fn extra_sweep<T: Term>(t: &T, obs: &mut Obs) {
    use sophia_api::term::SimpleTerm;
    use std::hash::Hasher;
    if let Some(e) = acc("eq", obs, || Term::eq(t, t.borrow_term())) {
        if !e {
            obs.fail("inconsistent.eq".into());
        }
    }
    if let Some(c) = acc("cmp", obs, || Term::cmp(t, t.borrow_term())) {
        if c != std::cmp::Ordering::Equal {
            obs.fail("inconsistent.cmp".into());
        }
    }
    acc("hash", obs, || {
        let mut h = std::collections::hash_map::DefaultHasher::new();
        Term::hash(t, &mut h);
        h.finish()
    });
    if let Some(e) = acc("into_term", obs, || {
        let c: SimpleTerm = t.borrow_term().into_term();
        Term::eq(&c, t.borrow_term()) && Term::eq(t, c.borrow_term())
    }) {
        if !e {
            obs.fail("inconsistent.into_term".into());
        }
    }
    if let Some((nc, na, is_t)) = acc("constituents", obs, || (t.constituents().count(), t.atoms().count(), t.is_triple())) {
        if nc < na || na == 0 || (!is_t && (nc != 1 || na != 1)) {
            obs.fail("inconsistent.constituents".into());
        }
    }
    // against terms of every other kind (a comparison must answer, not assume the other side's kind)
    {
        use sophia_api::ns::xsd;
        use sophia_api::term::{BnodeId, LanguageTag, VarName};
        let iri = Iri::new_unchecked("x-c08:other");
        let bn = BnodeId::new_unchecked("x-c08-other");
        let var = VarName::new_unchecked("x_c08_other");
        let lit = "x-c08-other";
        let typed = "x-c08-other" * xsd::integer;
        let tagged = "x-c08-other" * LanguageTag::new_unchecked("x-c08");
        let triple: SimpleTerm = SimpleTerm::Triple(Box::new([iri.into_term(), iri.into_term(), lit.into_term()]));
        let r = acc("eq_other", obs, || {
            let mut n = 0;
            n += Term::eq(t, iri) as usize;
            n += Term::eq(t, bn) as usize;
            n += Term::eq(t, var) as usize;
            n += Term::eq(t, lit) as usize;
            n += Term::eq(t, typed.borrow_term()) as usize;
            n += Term::eq(t, tagged.borrow_term()) as usize;
            n += Term::eq(t, triple.borrow_term()) as usize;
            n += Term::eq(&iri, t.borrow_term()) as usize;
            n += Term::eq(&lit, t.borrow_term()) as usize;
            n += Term::eq(&triple, t.borrow_term()) as usize;
            n
        });
        if let Some(n) = r {
            if n != 0 {
                obs.fail("inconsistent.eq_other".into());
            }
        }
        acc("cmp_other", obs, || {
            let _ = Term::cmp(t, iri);
            let _ = Term::cmp(t, bn);
            let _ = Term::cmp(t, var);
            let _ = Term::cmp(t, lit);
            let _ = Term::cmp(t, typed.borrow_term());
            let _ = Term::cmp(t, tagged.borrow_term());
            let _ = Term::cmp(t, triple.borrow_term());
            let _ = Term::cmp(&triple, t.borrow_term());
        });
    }
    let flags = [t.is_iri(), t.is_blank_node(), t.is_literal(), t.is_variable(), t.is_triple()];
    if flags.iter().filter(|x| **x).count() != 1 {
        obs.fail("inconsistent.is_kind".into());
    }
    if let Some(x) = acc("to_triple", obs, || t.borrow_term().to_triple().is_some()) {
        if x != t.is_triple() {
            obs.fail("inconsistent.to_triple".into());
        }
    }
}

fn drive<S: Source>(mut src: S, obs: &mut Obs, limit: usize, mut f: impl for<'x> FnMut(S::Item<'x>, &mut Obs)) {
    let mut steps = 0usize;
    loop {
        steps += 1;
        if steps > limit {
            obs.fail("nontermination.steps".into());
            break;
        }
        let r = src.try_for_some_item(|it| -> Result<(), std::convert::Infallible> {
            obs.items += 1;
            f(it, obs);
            Ok(())
        });
        match r {
            Ok(true) => {}
            Ok(false) => break,
            Err(e) => {
                obs.errors += 1;
                if obs.first_err.is_none() {
                    obs.first_err = Some(e.to_string());
                }
                // as `Source::try_for_each_item` (the observation point of the property): the first
                // error ends the stream.  (Calling `try_for_some_item` again after an error is not
                // explored: rio_turtle's Turtle-family parsers do not reset their triple allocator
                // and trip their own debug assertions.)
                break;
            }
        }
    }
}

fn keep_raw(obs: &mut Obs, v: Vec<R>, svs: Vec<SV>) {
    for r in &v {
        obs.check_raw(r);
    }
    if obs.keep && obs.raw.len() < 8 {
        obs.raw.push(v);
        obs.sop.push(svs);
    }
}

fn same_kinds<A: Term, B: Term>(a: &[A], b: &[B]) -> bool {
    a.len() == b.len() && a.iter().zip(b.iter()).all(|(x, y)| x.kind() == y.kind())
}

fn on_triple(t: Trusted<rm::Triple>, obs: &mut Obs) {
    use sophia_api::triple::Triple;
    let svs = vec![sweep(&t.s(), obs, 0), sweep(&t.p(), obs, 0), sweep(&t.o(), obs, 0)];
    // the consuming views must be the same terms
    match catch(AssertUnwindSafe(|| same_kinds(&t.clone().to_spo(), &[t.s(), t.p(), t.o()]))) {
        Ok(true) => {}
        Ok(false) => obs.fail("inconsistent.to_spo".into()),
        Err(_) => obs.fail("panic.to_spo".into()),
    }
    keep_raw(obs, vec![raw_subject(t.0.subject), R::I(t.0.predicate.iri.into()), raw_term(t.0.object)], svs);
}
fn on_quad(q: Trusted<rm::Quad>, obs: &mut Obs) {
    use sophia_api::quad::Quad;
    let mut svs = vec![sweep(&q.s(), obs, 0), sweep(&q.p(), obs, 0), sweep(&q.o(), obs, 0)];
    if let Some(g) = q.g() {
        svs.push(sweep(&g, obs, 0));
    }
    match catch(AssertUnwindSafe(|| {
        let (spo, g) = q.clone().to_spog();
        same_kinds(&spo, &[q.s(), q.p(), q.o()]) && g.map(|x| x.kind()) == q.g().map(|x| x.kind())
    })) {
        Ok(true) => {}
        Ok(false) => obs.fail("inconsistent.to_spog".into()),
        Err(_) => obs.fail("panic.to_spog".into()),
    }
    let mut v = vec![raw_subject(q.0.subject), R::I(q.0.predicate.iri.into()), raw_term(q.0.object)];
    if let Some(g) = q.0.graph_name {
        v.push(raw_graph(g));
    }
    keep_raw(obs, v, svs);
}
fn on_gquad(q: Trusted<rm::GeneralizedQuad>, obs: &mut Obs) {
    use sophia_api::quad::Quad;
    let mut svs = vec![sweep(&q.s(), obs, 0), sweep(&q.p(), obs, 0), sweep(&q.o(), obs, 0)];
    if let Some(g) = q.g() {
        svs.push(sweep(&g, obs, 0));
    }
    match catch(AssertUnwindSafe(|| {
        let (spo, g) = q.clone().to_spog();
        same_kinds(&spo, &[q.s(), q.p(), q.o()]) && g.map(|x| x.kind()) == q.g().map(|x| x.kind())
    })) {
        Ok(true) => {}
        Ok(false) => obs.fail("inconsistent.to_spog".into()),
        Err(_) => obs.fail("panic.to_spog".into()),
    }
    let mut v = vec![raw_gterm(q.0.subject), raw_gterm(q.0.predicate), raw_gterm(q.0.object)];
    if let Some(g) = q.0.graph_name {
        v.push(raw_gterm(g));
    }
    keep_raw(obs, v, svs);
}

pub const SYNTAXES: &[&str] = &["nt", "nq", "ttl", "trig", "gnq", "gtrig", "xml", "jsonld"];

pub fn is_strict(syn: &str) -> bool {
    !matches!(syn, "gnq" | "gtrig")
}

/// `… ident: "_:<label>" …` of the `Debug` text of a json-ld blank node (Debug escapes undone)
fn debug_label(dbg: &str) -> Option<String> {
    let i = dbg.find("ident: \"_:")?;
    let rest = &dbg[i + 10..];
    let mut out = String::new();
    let mut it = rest.chars().peekable();
    while let Some(c) = it.next() {
        match c {
            '"' => return Some(out),
            '\\' => match it.next()? {
                'u' => {
                    if it.next()? != '{' {
                        return None;
                    }
                    let mut h = String::new();
                    for d in it.by_ref() {
                        if d == '}' {
                            break;
                        }
                        h.push(d);
                    }
                    out.push(char::from_u32(u32::from_str_radix(&h, 16).ok()?)?);
                }
                'n' => out.push('\n'),
                't' => out.push('\t'),
                'r' => out.push('\r'),
                '0' => out.push('\0'),
                e => out.push(e),
            },
            c => out.push(c),
        }
    }
    None
}

/// JSON-LD parser configurations: `jsonld` is `JsonLdParser::new()`, `jsonld@<opt>` sets one non-default option
pub const JSONLD_VARIANTS: &[&str] = &[
    "jsonld@i18n", "jsonld@compound", "jsonld@gen", "jsonld@ordered", "jsonld@base", "jsonld@ctx", "jsonld@v10", "jsonld@strict",
    "jsonld@relaxed",
];

pub fn known_syntax(syn: &str) -> bool {
    SYNTAXES.contains(&syn) || JSONLD_VARIANTS.contains(&syn)
}

/// the parser family of a (possibly configured) syntax name
pub fn family(syn: &str) -> &str {
    syn.split('@').next().unwrap_or(syn)
}

pub const JSONLD_BASE: &str = "http://example.org/opt/base?q#f";
pub const JSONLD_CTX: &str = "{\"@context\":{\"@vocab\":\"http://example.org/ctx#\",\"@language\":\"en-GB\",\"c\":\"http://example.org/c/\",\"t\":{\"@id\":\"c:t\",\"@type\":\"@id\"}}}";

fn jsonld_options(syn: &str) -> sophia_jsonld::JsonLdOptions<sophia_jsonld::loader_factory::DefaultLoaderFactory<sophia_jsonld::loader::NoLoader>> {
    use sophia_jsonld::{JsonLdOptions, Policy, ProcessingMode, RdfDirection};
    let o = JsonLdOptions::new();
    match syn {
        "jsonld@i18n" => o.with_rdf_direction(RdfDirection::I18nDatatype),
        "jsonld@compound" => o.with_rdf_direction(RdfDirection::CompoundLiteral),
        "jsonld@gen" => o.with_produce_generalized_rdf(true),
        "jsonld@ordered" => o.with_ordered(true),
        "jsonld@base" => o.with_base(Iri::new(std::sync::Arc::<str>::from(JSONLD_BASE)).expect("harness: option base")),
        "jsonld@ctx" => o.try_with_expand_context(JSONLD_CTX).expect("harness: expand context"),
        "jsonld@v10" => o.with_processing_mode(ProcessingMode::JsonLd1_0),
        "jsonld@strict" => o.with_expansion_policy(Policy::Strict),
        "jsonld@relaxed" => o.with_expansion_policy(Policy::Relaxed),
        _ => o,
    }
}

/// Run parser `syn` on `data` (optionally with a configured base IRI, which must satisfy
/// `Iri::new`). Panics inside the parser itself propagate to the caller (who runs under `catch`).
pub fn run(syn: &str, data: &[u8], base: Option<&str>, keep: bool) -> Obs {
    run_chunked(syn, data, base, keep, None)
}

/// as `run`; with `chunk = Some(n)` the parser reads through a `BufReader` of capacity `n`, so that
/// `fill_buf` hands over the input in pieces that split tokens and UTF-8 sequences
pub fn run_chunked(syn: &str, data: &[u8], base: Option<&str>, keep: bool, chunk: Option<usize>) -> Obs {
    match chunk {
        None => run_on(syn, data, data.len(), base, keep),
        Some(n) => run_on(syn, std::io::BufReader::with_capacity(n.max(1), data), data.len(), base, keep),
    }
}

fn run_on<B: std::io::BufRead>(syn: &str, data: B, len: usize, base: Option<&str>, keep: bool) -> Obs {
    let mut obs = Obs { strict: is_strict(syn), keep, ..Default::default() };
    let limit = len * 4 + 1000;
    let base_iri = base.map(|b| Iri::new(b.to_string()).expect("harness: base must be a valid Iri"));
    match syn {
        "nt" => drive(sophia_turtle::parser::nt::NTriplesParser {}.parse(data), &mut obs, limit, on_triple),
        "nq" => drive(sophia_turtle::parser::nq::NQuadsParser {}.parse(data), &mut obs, limit, on_quad),
        "ttl" => drive(sophia_turtle::parser::turtle::TurtleParser { base: base_iri }.parse(data), &mut obs, limit, on_triple),
        "trig" => drive(sophia_turtle::parser::trig::TriGParser { base: base_iri }.parse(data), &mut obs, limit, on_quad),
        "gnq" => drive(sophia_turtle::parser::gnq::GNQuadsParser {}.parse(data), &mut obs, limit, on_gquad),
        "gtrig" => drive(sophia_turtle::parser::gtrig::GTriGParser { base: base_iri }.parse(data), &mut obs, limit, on_gquad),
        "xml" => drive(sophia_xml::parser::RdfXmlParser { base: base_iri }.parse(data), &mut obs, limit, on_triple),
        s if family(s) == "jsonld" => {
            let p = sophia_jsonld::JsonLdParser::new_with_options(jsonld_options(s));
            let src = QuadParser::parse(&p, data);
            drive(src, &mut obs, limit, |q, obs: &mut Obs| {
                let (spo, g) = q;
                let mut svs: Vec<SV> = spo.iter().map(|t| sweep(t, obs, 0)).collect();
                if let Some(g) = &g {
                    svs.push(sweep(g, obs, 0));
                }
                // json-ld terms are opaque; the label of a blank node whose accessor panicked is read off `Debug`
                for (sv, t) in svs.iter_mut().zip(spo.iter().chain(g.iter())) {
                    if sv.kind == 'b' {
                        if let Some(l) = debug_label(&format!("{:?}", t)) {
                            if BnodeId::new(l.as_str()).is_err() {
                                obs.note_bad('b', &l);
                            }
                            if sv.text.is_none() {
                                sv.text = Some(l);
                            }
                        }
                    }
                }
                if obs.keep && obs.sop.len() < 8 {
                    obs.sop.push(svs);
                }
            })
        }
        _ => panic!("harness: unknown syntax"),
    }
    obs
}
