//! C08 — parsers are total and yield well-formed terms.
//!
//! requests (all strings hex):
//!   tok <syn> <kind> <hex>        one token driven through the smallest document isolating its recogniser
//!                                 -> accepted=0/1 [out=<hex>] valid=0/1     (compared with the Lean back-end models)
//!   trail <syn> <kind> <hex> <hexchar>   label/variable followed by '.'+non-ASCII non-name character
//!                                 -> accepted=0/1 (the models say 0: reader left inside a character)
//!   rel <syn> <how> <kind> <hexbase> <hexref>   a reference resolved against a base: how = cfg (configured base) |
//!                                 doc (@base / xml:base / "@base" in the document) | sparql (BASE); kind = iri | dt | about | resource |
//!                                 datatype | id | type; no Lean model (oxiri / iref resolution): the oracle is the toolkit's validators
//!                                 -> outcome=ok|err items=<n> [out=<hex>]
//!   base <hex>                    configured base IRI: Iri::new, then TurtleParser/TriGParser/RdfXmlParser::parse
//!                                 -> new=0/1 parse=ok|panic
//!   glue <t|q|g> <script> <k|->  rio/src/parser.rs with a scripted back-end parser and a callback failing on item k
//!                                 -> outs=<letters: T Ok(true) F Ok(false) S SourceError K SinkError>
//!   doc <syn> <hexbytes> [<hexbase>]   exploration: any bytes -> outcome=ok|err items=<n>
//!   deep <syn> <shape> <depth>    exploration in a child process -> outcome=ok|err|abort
//!   long <syn> <kind> <n>         very long token / very many statements, in a child process
//! Oracle failures are reported as FAIL.* fields.
mod cases;
mod glue;
mod run;

use run::{Obs, R};
use std::panic::AssertUnwindSafe;
use vhcore::util::*;

fn b(x: bool) -> &'static str {
    if x { "1" } else { "0" }
}

/// `<...>` of the Turtle family: only what cannot be written literally is escaped
pub fn iriref_src(w: &str) -> String {
    let mut o = String::new();
    for (i, c) in w.chars().enumerate() {
        match c {
            '>' | '\\' | '\n' | '\r' => o.push_str(&format!("\\u{:04X}", c as u32)),
            // `<<` would open a quoted triple
            '<' if i == 0 => o.push_str("\\u003C"),
            c => o.push(c),
        }
    }
    o
}

const PN_ESC: &str = "_~.-!$&'()*+,;=/?#@%";

/// source text of a prefixed-name local part emitting exactly `w`
pub fn pn_local_src(w: &str) -> String {
    let cs: Vec<char> = w.chars().collect();
    let mut o = String::new();
    for (i, &c) in cs.iter().enumerate() {
        let next_alnum = cs.get(i + 1).map(|d| d.is_ascii_alphanumeric()).unwrap_or(false);
        let hex2 = cs.get(i + 1).map(|d| d.is_ascii_hexdigit()).unwrap_or(false)
            && cs.get(i + 2).map(|d| d.is_ascii_hexdigit()).unwrap_or(false);
        match c {
            '_' if true => o.push(c),
            '-' if i > 0 => o.push(c),
            '.' if i > 0 && next_alnum => o.push(c),
            '%' if hex2 => o.push(c),
            c if PN_ESC.contains(c) => {
                o.push('\\');
                o.push(c)
            }
            c => o.push(c),
        }
    }
    o
}

pub fn xml_attr(w: &str) -> String {
    let mut o = String::new();
    for c in w.chars() {
        match c {
            '"' => o.push_str("&quot;"),
            '<' => o.push_str("&lt;"),
            '&' => o.push_str("&amp;"),
            '\n' | '\r' | '\t' => o.push_str(&format!("&#{};", c as u32)),
            c => o.push(c),
        }
    }
    o
}

pub fn json_string(w: &str) -> String {
    json_str(w)
}

const RDFNS: &str = "http://www.w3.org/1999/02/22-rdf-syntax-ns#";

/// where a token sits in the first statement: top-level position, or constituent of the quoted
/// triple standing at that position
#[derive(Clone, Copy, Debug, PartialEq)]
pub enum Pos {
    Top(usize),
    In(usize, usize),
}

fn xml_doc(attrs: &str, inner: &str) -> String {
    format!("<rdf:RDF xmlns:rdf=\"{}\"><rdf:Description {}>{}</rdf:Description></rdf:RDF>", RDFNS, attrs, inner)
}

/// the kind of recogniser behind a token kind (`iri_p`, `iri_g`, `iri_q` ... all are `iri`)
pub fn base_kind(kind: &str) -> &str {
    match kind {
        "iri_p" | "iri_o" | "iri_g" | "iri_q" | "iri_qo" | "resource" | "type" | "graph" | "vocab" | "about_each" => "iri",
        "bnode_g" | "bnode_q" | "bnode_qo" => "bnode",
        "lang_q" | "dir_lang" => "lang",
        "dt_q" | "datatype" | "dtype" => "dt",
        "var_p" | "var_o" | "var_g" | "var_q" => "var",
        "pname_p" | "pname_o" | "pname_g" | "pname_d" | "pname_q" => "pname",
        k => k,
    }
}

/// (document, position of the term in the first statement)
pub fn tok_doc(syn: &str, kind: &str, w: &str) -> Option<(String, Pos)> {
    use Pos::*;
    let fam = matches!(syn, "nt" | "nq" | "ttl" | "trig" | "gnq" | "gtrig");
    let turtle_like = matches!(syn, "ttl" | "trig" | "gtrig");
    let quads = matches!(syn, "nq" | "gnq");
    let graphs = matches!(syn, "trig" | "gtrig");
    let generalized = matches!(syn, "gnq" | "gtrig");
    let jsonld = run::family(syn) == "jsonld";
    let iw = iriref_src(w);
    Some(match (kind, syn) {
        ("bnode", _) if fam => (format!("_:{} <x:p> <x:o> .\n", w), Top(0)),
        ("bnode_o", _) if fam => (format!("<x:s> <x:p> _:{} .\n", w), Top(2)),
        ("bnode_g", _) if quads => (format!("<x:s> <x:p> <x:o> _:{} .\n", w), Top(3)),
        ("bnode_g", _) if graphs => (format!("_:{} {{ <x:s> <x:p> <x:o> }}\n", w), Top(3)),
        ("bnode_q", _) if fam => (format!("<< _:{} <x:p> <x:o> >> <x:p> <x:o> .\n", w), In(0, 0)),
        ("bnode_qo", _) if fam => (format!("<x:s> <x:p> << <x:a> <x:b> _:{} >> .\n", w), In(2, 2)),
        ("bnode", _) if jsonld => (format!("{{\"@id\":{},\"http://x/p\":\"o\"}}", json_string(&format!("_:{}", w))), Top(0)),
        // a blank node identifier as property: dropped by default, the predicate under produce_generalized_rdf
        ("bnode_p", _) if jsonld => (format!("{{\"@id\":\"x:s\",{}:\"o\"}}", json_string(&format!("_:{}", w))), Top(1)),
        ("nodeid", "xml") => (xml_doc(&format!("rdf:nodeID=\"{}\"", xml_attr(w)), "<p xmlns=\"x:\">o</p>"), Top(0)),
        ("nodeid_o", "xml") => (xml_doc("rdf:about=\"x:s\"", &format!("<p xmlns=\"x:\" rdf:nodeID=\"{}\"/>", xml_attr(w))), Top(2)),
        ("lang", _) if fam => (format!("<x:s> <x:p> \"a\"@{} .\n", w), Top(2)),
        ("lang_q", _) if fam => (format!("<x:s> <x:p> << <x:a> <x:b> \"a\"@{} >> .\n", w), In(2, 2)),
        ("lang", "xml") => (xml_doc(&format!("rdf:about=\"x:s\" xml:lang=\"{}\"", xml_attr(w)), "<p xmlns=\"x:\">o</p>"), Top(2)),
        ("lang_p", "xml") => (xml_doc("rdf:about=\"x:s\"", &format!("<p xmlns=\"x:\" xml:lang=\"{}\">o</p>", xml_attr(w))), Top(2)),
        ("lang", _) if jsonld => (
            format!("{{\"@id\":\"x:s\",\"http://x/p\":{{\"@value\":\"a\",\"@language\":{}}}}}", json_string(w)),
            Top(2),
        ),
        // a base direction beside the tag: dropped by default, `https://www.w3.org/ns/i18n#<tag>_ltr` datatype under
        // rdf_direction=i18n-datatype, a compound literal (blank node) under compound-literal
        ("dir_lang", _) if jsonld => (
            format!(
                "{{\"@id\":\"x:s\",\"http://x/p\":{{\"@value\":\"a\",\"@language\":{},\"@direction\":\"ltr\"}}}}",
                json_string(w)
            ),
            Top(2),
        ),
        ("ctx_lang", _) if jsonld => (
            format!("{{\"@context\":{{\"@language\":{}}},\"@id\":\"x:s\",\"http://x/p\":\"a\"}}", json_string(w)),
            Top(2),
        ),
        ("var", _) if generalized => (format!("?{} <x:p> <x:o> .\n", w), Top(0)),
        ("var_p", _) if generalized => (format!("<x:s> ?{} <x:o> .\n", w), Top(1)),
        ("var_o", _) if generalized => (format!("<x:s> <x:p> ?{} .\n", w), Top(2)),
        ("var_g", "gnq") => (format!("<x:s> <x:p> <x:o> ?{} .\n", w), Top(3)),
        ("var_g", "gtrig") => (format!("?{} {{ <x:s> <x:p> <x:o> }}\n", w), Top(3)),
        ("var_q", _) if generalized => (format!("<< <x:a> ?{} <x:o> >> <x:p> <x:o> .\n", w), In(0, 1)),
        ("iri", _) if fam => (format!("<{}> <x:p> <x:o> .\n", iw), Top(0)),
        ("iri_p", _) if fam => (format!("<x:s> <{}> <x:o> .\n", iw), Top(1)),
        ("iri_o", _) if fam => (format!("<x:s> <x:p> <{}> .\n", iw), Top(2)),
        ("iri_g", _) if quads => (format!("<x:s> <x:p> <x:o> <{}> .\n", iw), Top(3)),
        ("iri_g", _) if graphs => (format!("<{}> {{ <x:s> <x:p> <x:o> }}\n", iw), Top(3)),
        ("iri_q", _) if fam => (format!("<< <{}> <x:p> <x:o> >> <x:p> <x:o> .\n", iw), In(0, 0)),
        ("iri_qo", _) if fam => (format!("<x:s> <x:p> << <x:a> <x:b> <{}> >> .\n", iw), In(2, 2)),
        ("dt", _) if fam => (format!("<x:s> <x:p> \"a\"^^<{}> .\n", iw), Top(2)),
        ("dt_q", _) if fam => (format!("<x:s> <x:p> << <x:a> <x:b> \"a\"^^<{}> >> .\n", iw), In(2, 2)),
        ("iri", "xml") => (xml_doc(&format!("rdf:about=\"{}\"", xml_attr(w)), "<p xmlns=\"x:\">o</p>"), Top(0)),
        ("resource", "xml") => (xml_doc("rdf:about=\"x:s\"", &format!("<p xmlns=\"x:\" rdf:resource=\"{}\"/>", xml_attr(w))), Top(2)),
        ("datatype", "xml") => (xml_doc("rdf:about=\"x:s\"", &format!("<p xmlns=\"x:\" rdf:datatype=\"{}\">a</p>", xml_attr(w))), Top(2)),
        ("type", "xml") => (
            // a typed node element: namespace name ++ local name `T` is the object of rdf:type
            format!("<rdf:RDF xmlns:rdf=\"{}\"><e:T xmlns:e=\"{}\" rdf:about=\"x:s\"/></rdf:RDF>", RDFNS, xml_attr(w)),
            Top(2),
        ),
        ("iri", _) if jsonld => (format!("{{\"@id\":{},\"http://x/p\":\"o\"}}", json_string(w)), Top(0)),
        ("iri_o", _) if jsonld => (format!("{{\"@id\":\"x:s\",\"http://x/p\":{{\"@id\":{}}}}}", json_string(w)), Top(2)),
        ("type", _) if jsonld => (format!("{{\"@id\":\"x:s\",\"@type\":{}}}", json_string(w)), Top(2)),
        ("dtype", _) if jsonld => (
            format!("{{\"@id\":\"x:s\",\"http://x/p\":{{\"@value\":\"a\",\"@type\":{}}}}}", json_string(w)),
            Top(2),
        ),
        ("graph", _) if jsonld => (
            format!("{{\"@id\":{},\"@graph\":[{{\"@id\":\"x:s\",\"http://x/p\":\"o\"}}]}}", json_string(w)),
            Top(3),
        ),
        // `@vocab` ++ term `p` becomes the predicate
        ("vocab", _) if jsonld => (
            format!("{{\"@context\":{{\"@vocab\":{}}},\"@id\":\"x:s\",\"p\":\"o\"}}", json_string(w)),
            Top(1),
        ),
        // a term definition: the predicate is `w` itself
        ("term", _) if jsonld => (
            format!("{{\"@context\":{{\"t\":{{\"@id\":{}}}}},\"@id\":\"x:s\",\"t\":\"o\"}}", json_string(w)),
            Top(1),
        ),
        // prefixed name: emitted IRI = "x:" ++ w
        ("pname", _) if turtle_like => (format!("@prefix p: <x:> .\np:{} <x:p> <x:o> .\n", pn_local_src(w)), Top(0)),
        ("pname_p", _) if turtle_like => (format!("@prefix p: <x:> .\n<x:s> p:{} <x:o> .\n", pn_local_src(w)), Top(1)),
        ("pname_o", _) if turtle_like => (format!("@prefix p: <x:> .\n<x:s> <x:p> p:{} .\n", pn_local_src(w)), Top(2)),
        ("pname_g", _) if graphs => (format!("@prefix p: <x:> .\np:{} {{ <x:s> <x:p> <x:o> }}\n", pn_local_src(w)), Top(3)),
        ("pname_d", _) if turtle_like => (format!("@prefix p: <x:> .\n<x:s> <x:p> \"a\"^^p:{} .\n", pn_local_src(w)), Top(2)),
        ("pname_q", _) if turtle_like => (format!("@prefix p: <x:> .\n<< p:{} <x:p> <x:o> >> <x:p> <x:o> .\n", pn_local_src(w)), In(0, 0)),
        // relative prefix + local name as datatype (generalized TriG only)
        ("pname_dt", "gtrig") => (format!("@prefix p: <{}> .\n<x:s> <x:p> \"a\"^^p:d .\n", iw), Top(2)),
        // XML namespace name ++ local name "p" becomes the predicate IRI
        ("xmlns", "xml") => (xml_doc("rdf:about=\"x:s\"", &format!("<e:p xmlns:e=\"{}\">o</e:p>", xml_attr(w))), Top(1)),
        _ => return None,
    })
}

fn lower(w: &str) -> String {
    w.to_ascii_lowercase()
}

/// what the back-end is expected to hand over for token `w` (used to decide `accepted`)
fn expected_out(syn: &str, kind: &str, w: &str) -> String {
    match (base_kind(kind), kind) {
        ("lang", _) | (_, "lang_p") | (_, "ctx_lang") => lower(w),
        ("pname", _) => format!("x:{}", w),
        (_, "pname_dt") => format!("{}d", w),
        (_, "xmlns") | (_, "vocab") => format!("{}p", w),
        (_, "type") if syn == "xml" => format!("{}T", w),
        ("bnode", _) | (_, "bnode_o") if matches!(syn, "ttl" | "trig" | "gtrig") => {
            // rio_turtle's BlankNodeIdGenerator::disambiguate
            let bs = w.as_bytes();
            if bs.len() >= 12 && &bs[..4] == b"riog" && bs[4..12].iter().all(u8::is_ascii_digit) && bs[12..].iter().all(|x| *x == b'd') {
                format!("{}d", w)
            } else {
                w.to_string()
            }
        }
        _ => w.to_string(),
    }
}

fn raw_text(r: &R, kind: &str) -> Option<String> {
    match (r, base_kind(kind)) {
        (R::I(s), "iri" | "pname" | "xmlns") => Some(s.clone()),
        (R::B(s), "bnode" | "bnode_o" | "nodeid" | "nodeid_o") => Some(s.clone()),
        (R::V(s), "var") => Some(s.clone()),
        (R::L(_, _, Some(l)), "lang" | "lang_p") => Some(l.clone()),
        (R::L(_, Some(d), _), "dt" | "pname_dt") => Some(d.clone()),
        (R::L(_, Some(d), _), "pname") if kind == "pname_d" => Some(d.clone()),
        _ => None,
    }
}

fn raw_at(v: &[R], pos: Pos) -> Option<&R> {
    match pos {
        Pos::Top(i) => v.get(i),
        Pos::In(i, j) => match v.get(i) {
            Some(R::T(spo)) => spo.get(j),
            _ => None,
        },
    }
}

fn validator_ok(syn: &str, kind: &str, s: &str) -> bool {
    use sophia_api::term::{BnodeId, LanguageTag, VarName};
    match (base_kind(kind), kind) {
        ("bnode" | "bnode_o" | "bnode_p" | "nodeid" | "nodeid_o", _) => BnodeId::new(s).is_ok(),
        ("lang" | "lang_p" | "ctx_lang", _) => LanguageTag::new(s).is_ok(),
        ("var", _) => VarName::new(s).is_ok(),
        ("dt" | "pname_dt", _) | (_, "pname_d") => sophia_iri::Iri::new(s).is_ok(),
        _ => {
            if run::is_strict(syn) {
                sophia_iri::Iri::new(s).is_ok()
            } else {
                sophia_iri::IriRef::new(s).is_ok()
            }
        }
    }
}

fn fail_fields(obs: &Obs) -> String {
    let mut o = String::new();
    for f in &obs.fails {
        let (a, bb) = f.split_once('.').unwrap_or((f.as_str(), "x"));
        let key = match a {
            "panic" => "FAIL.accessor_panic",
            "invalid" => "FAIL.invalid_term",
            "inconsistent" => "FAIL.inconsistent_term",
            _ => "FAIL.nontermination",
        };
        o += &format!(" {}={}", key, bb);
    }
    if !obs.bad.is_empty() {
        // information for the known-finding predicates: the back-end strings the validators reject
        o += &format!(" bad={}", obs.bad.join(","));
    }
    o
}

fn exec_tok(syn: &str, kind: &str, w: &str) -> String {
    let Some((doc, pos)) = tok_doc(syn, kind, w) else { return "bad-op".into() };
    let want = expected_out(syn, kind, w);
    let r = catch(AssertUnwindSafe(|| run::run(syn, doc.as_bytes(), None, true)));
    let obs = match r {
        Ok(o) => o,
        Err(_) => return format!("accepted=1 FAIL.parser_panic={}", kind),
    };
    // the token was accepted iff the document parsed without error and the back-end handed over
    // (raw view) exactly the expected string at the expected position
    let mut accepted = obs.errors == 0 && obs.items >= 1;
    let mut out: Option<String> = None;
    if accepted {
        if let Some(first) = obs.raw.first() {
            match raw_at(first, pos).and_then(|r| raw_text(r, kind)) {
                Some(s) => {
                    if s != want {
                        accepted = false;
                    }
                    out = Some(s);
                }
                None => accepted = false,
            }
        } else if let Some(first) = obs.sop.first() {
            // json-ld: no raw view; the sophia view tells the kind, and the text unless the accessor panicked
            let top = match pos {
                Pos::Top(i) => i,
                Pos::In(i, _) => i,
            };
            let is_lang = matches!(kind, "lang" | "dir_lang" | "ctx_lang");
            match first.get(top) {
                Some(sv) => {
                    let k = match kind {
                        "bnode" | "bnode_p" => 'b',
                        "iri" | "iri_o" | "type" | "graph" | "vocab" | "term" => 'i',
                        _ => 'l',
                    };
                    if sv.kind != k {
                        accepted = false;
                    } else {
                        let t = if is_lang {
                            sv.lang.clone()
                        } else if kind == "dtype" {
                            sv.dt.clone()
                        } else {
                            sv.text.clone()
                        };
                        match t {
                            Some(t) if kind == "bnode" => {
                                // json-ld relabels blank nodes: report whether the label has the generator's shape
                                let g = !t.is_empty() && t.bytes().all(|x| x.is_ascii_digit());
                                let ok = sophia_api::term::BnodeId::new(t.as_str()).is_ok() && obs.fails.is_empty();
                                return format!("accepted=1 gen={} label={} valid={}{}", b(g), hex(&t), b(ok), fail_fields(&obs));
                            }
                            Some(t) => {
                                if is_lang && t.to_ascii_lowercase() != w.to_ascii_lowercase() {
                                    accepted = false;
                                } else if !is_lang && t != want {
                                    accepted = false;
                                }
                                out = Some(t);
                            }
                            None => {
                                if is_lang && !sv.panicked {
                                    accepted = false; // plain literal: the tag was dropped
                                }
                            }
                        }
                    }
                }
                None => accepted = false,
            }
        } else {
            accepted = false;
        }
    }
    if !accepted {
        // a rejected token must still not break anything
        return format!("accepted=0{}", fail_fields(&obs));
    }
    let valid = match &out {
        Some(s) => validator_ok(syn, kind, s) && obs.fails.is_empty(),
        None => false,
    };
    // what reading the term gave (dev build): compared with the Lean model of the accessor layer
    let acc = if obs.fails.iter().any(|f| f.starts_with("panic.")) {
        "panic"
    } else if !valid {
        "invalid"
    } else {
        "ok"
    };
    let mut o = format!("accepted=1 out={} valid={} acc={}", out.as_deref().map(hex).unwrap_or("panic".into()), b(valid), acc);
    o += &fail_fields(&obs);
    if !valid && obs.fails.is_empty() {
        o += &format!(" FAIL.invalid_term={}", kind);
    }
    o
}

fn exec_trail(syn: &str, kind: &str, w: &str, c: &str) -> String {
    let doc = match kind {
        "bnode" => format!("_:{}.{} <x:p> <x:o> .\n", w, c),
        "bnode_o" => format!("<x:s> <x:p> _:{}.{} .\n", w, c),
        "var" => format!("?{}{} <x:p> <x:o> .\n", w, c),
        _ => return "bad-op".into(),
    };
    let pos = if kind == "bnode_o" { 2 } else { 0 };
    match catch(AssertUnwindSafe(|| run::run(syn, doc.as_bytes(), None, true))) {
        Ok(obs) => {
            let acc = obs.errors == 0 && obs.items >= 1;
            // what was handed over before the error, if anything
            let emitted = obs
                .raw
                .first()
                .and_then(|t| t.get(pos))
                .and_then(|r| raw_text(r, if kind == "bnode_o" { "bnode" } else { kind }))
                .map(|s| hex(&s))
                .unwrap_or("none".into());
            format!("accepted={} emitted={}{}", b(acc), emitted, fail_fields(&obs))
        }
        Err(_) => "accepted=1 FAIL.parser_panic=trail".into(),
    }
}

fn exec_base(w: &str) -> String {
    let new = sophia_iri::Iri::new(w).is_ok();
    if !new {
        return "new=0".into();
    }
    let mut worst = "ok";
    let mut fails = String::new();
    for syn in ["ttl", "trig", "gtrig", "xml"] {
        // relative references of every shape (RFC 3986 5.4), in every position that is resolved
        let doc: &[u8] = if syn == "xml" {
            b"<rdf:RDF xmlns:rdf=\"http://www.w3.org/1999/02/22-rdf-syntax-ns#\"><rdf:Description rdf:about=\"a\"><p xmlns=\"x:\">o</p><q xmlns=\"x:\" rdf:resource=\"#o\"/><r xmlns=\"x:\" rdf:datatype=\"../dt\">1</r><s xmlns=\"x:\" rdf:resource=\"?q\"/><t xmlns=\"x:\" rdf:resource=\"//h/p\"/><u xmlns=\"x:\" rdf:resource=\"\"/></rdf:Description><rdf:Description rdf:ID=\"i\"><p xmlns=\"x:\" rdf:ID=\"j\">o</p></rdf:Description></rdf:RDF>"
        } else {
            b"@prefix n: <ns/> .\n<a> <x:p> <#o> , <?q> , <../../b> , <//h/p> , </r> , <> , <./c/../d> , \"1\"^^<dt> .\nn:l <x:p> <g:h> .\n"
        };
        match catch(AssertUnwindSafe(|| run::run(syn, doc, Some(w), false))) {
            Ok(obs) => fails += &fail_fields(&obs),
            Err(_) => {
                worst = "panic";
                fails += &format!(" FAIL.base_unwrap={}", syn);
            }
        }
    }
    format!("new=1 parse={}{}", worst, fails)
}

fn panic_short(m: &str) -> String {
    let short: String = m.chars().filter(|c| c.is_ascii_alphanumeric() || *c == '_').take(40).collect();
    if short.is_empty() { "x".into() } else { short }
}

fn exec_doc(syn: &str, data: &[u8], base: Option<&str>) -> String {
    let whole = catch(AssertUnwindSafe(|| run::run(syn, data, base, false)));
    // the same bytes through a small BufReader: `fill_buf` splits tokens and UTF-8 sequences
    // (sizes 1..=7, a function of the input so that a replay is deterministic)
    let chunk = 1 + data.iter().fold(data.len(), |a, x| a.wrapping_mul(31).wrapping_add(*x as usize)) % 7;
    let parts = catch(AssertUnwindSafe(|| run::run_chunked(syn, data, base, false, Some(chunk))));
    match (whole, parts) {
        (Ok(mut obs), Ok(p)) => {
            let same = obs.items == p.items && obs.errors == p.errors;
            for f in p.fails {
                if !obs.fails.contains(&f) {
                    obs.fails.push(f);
                }
            }
            for x in p.bad {
                if !obs.bad.contains(&x) && obs.bad.len() < 6 {
                    obs.bad.push(x);
                }
            }
            format!(
                "outcome={} items={} chunk={} chunk_same={} swept={}{}",
                if obs.errors == 0 { "ok" } else { "err" },
                obs.items,
                chunk,
                b(same),
                obs.extra_swept,
                fail_fields(&obs)
            )
        }
        (Err(m), _) => format!("outcome=panic FAIL.parser_panic={}", panic_short(&m)),
        (Ok(_), Err(m)) => format!("outcome=panic chunk={} FAIL.parser_panic={}", chunk, panic_short(&m)),
    }
}

/// a reference resolved against a base.  No model of the resolvers (oxiri for the Rio family, iref for
/// JSON-LD): whatever comes out must satisfy the toolkit's validators, whatever goes in must not panic.
fn exec_rel(syn: &str, how: &str, kind: &str, base: &str, r: &str) -> String {
    let fam = run::family(syn);
    let ttl_like = matches!(syn, "ttl" | "trig" | "gtrig");
    let term = |r: &str| -> Option<(String, usize)> {
        Some(match (fam, kind) {
            (_, "iri") if ttl_like => (format!("<{}> <x:p> <x:o> .\n", iriref_src(r)), 0),
            (_, "iri_o") if ttl_like => (format!("<x:s> <x:p> <{}> .\n", iriref_src(r)), 2),
            (_, "dt") if ttl_like => (format!("<x:s> <x:p> \"a\"^^<{}> .\n", iriref_src(r)), 2),
            (_, "prefix") if ttl_like => (format!("@prefix p: <{}> .\np:a <x:p> <x:o> .\n", iriref_src(r)), 0),
            (_, "iri_g") if matches!(syn, "trig" | "gtrig") => (format!("<{}> {{ <x:s> <x:p> <x:o> }}\n", iriref_src(r)), 3),
            _ => return None,
        })
    };
    let (doc, cfg_base): (String, Option<&str>) = match (fam, how) {
        (_, "cfg") if ttl_like => match term(r) {
            Some((d, _)) => (d, Some(base)),
            None => return "bad-op".into(),
        },
        (_, "doc") if ttl_like => match term(r) {
            Some((d, _)) => (format!("@base <{}> .\n{}", iriref_src(base), d), None),
            None => return "bad-op".into(),
        },
        (_, "sparql") if ttl_like => match term(r) {
            Some((d, _)) => (format!("BASE <{}>\n{}", iriref_src(base), d), None),
            None => return "bad-op".into(),
        },
        // a second directive is resolved against the first
        (_, "twice") if ttl_like => match term(r) {
            Some((d, _)) => (format!("@base <{}> .\n@base <{}> .\n{}", iriref_src(base), iriref_src(r), d), None),
            None => return "bad-op".into(),
        },
        ("xml", "cfg") | ("xml", "doc") => {
            let rb = if how == "doc" { format!(" xml:base=\"{}\"", xml_attr(base)) } else { String::new() };
            let a = xml_attr(r);
            let body = match kind {
                "about" => format!("<rdf:Description rdf:about=\"{}\"><p xmlns=\"x:\">o</p></rdf:Description>", a),
                "resource" => format!("<rdf:Description rdf:about=\"x:s\"><p xmlns=\"x:\" rdf:resource=\"{}\"/></rdf:Description>", a),
                "datatype" => format!("<rdf:Description rdf:about=\"x:s\"><p xmlns=\"x:\" rdf:datatype=\"{}\">a</p></rdf:Description>", a),
                "id" => format!("<rdf:Description rdf:ID=\"{}\"><p xmlns=\"x:\">o</p></rdf:Description>", a),
                // reification: rdf:ID on a property element
                "id_p" => format!("<rdf:Description rdf:about=\"x:s\"><p xmlns=\"x:\" rdf:ID=\"{}\">o</p></rdf:Description>", a),
                // xml:base on an inner element, itself relative to the outer one
                "inner" => format!("<rdf:Description xml:base=\"{}\" rdf:about=\"\"><p xmlns=\"x:\" rdf:resource=\"#f\"/></rdf:Description>", a),
                _ => return "bad-op".into(),
            };
            (format!("<rdf:RDF xmlns:rdf=\"{}\"{}>{}</rdf:RDF>", RDFNS, rb, body), if how == "cfg" { Some(base) } else { None })
        }
        ("jsonld", "doc") => {
            let j = json_string(r);
            let body = match kind {
                "iri" => format!("\"@id\":{},\"http://x/p\":\"o\"", j),
                "iri_o" => format!("\"@id\":\"x:s\",\"http://x/p\":{{\"@id\":{}}}", j),
                "type" => format!("\"@id\":\"x:s\",\"@type\":{}", j),
                "graph" => format!("\"@id\":{},\"@graph\":[{{\"@id\":\"x:s\",\"http://x/p\":\"o\"}}]", j),
                // a second @base, relative to the first
                "inner" => format!("\"@id\":\"x:s\",\"http://x/p\":{{\"@context\":{{\"@base\":{}}},\"@id\":\"a\"}}", j),
                _ => return "bad-op".into(),
            };
            (format!("{{\"@context\":{{\"@base\":{}}},{}}}", json_string(base), body), None)
        }
        _ => return "bad-op".into(),
    };
    if cfg_base.is_some() && sophia_iri::Iri::new(base).is_err() {
        return "skip=1".into();
    }
    match catch(AssertUnwindSafe(|| run::run(syn, doc.as_bytes(), cfg_base, true))) {
        Ok(obs) => {
            let first = obs
                .raw
                .first()
                .map(|v| v.iter().filter_map(|r| if let R::I(s) = r { Some(hex(s)) } else { None }).collect::<Vec<_>>().join(","))
                .or_else(|| obs.sop.first().map(|v| v.iter().filter_map(|s| if s.kind == 'i' { s.text.as_deref().map(hex) } else { None }).collect::<Vec<_>>().join(",")))
                .unwrap_or_default();
            format!(
                "outcome={} items={} iris={}{}",
                if obs.errors == 0 { "ok" } else { "err" },
                obs.items,
                if first.is_empty() { "none".into() } else { first },
                fail_fields(&obs)
            )
        }
        Err(m) => format!("outcome=panic FAIL.parser_panic={}", panic_short(&m)),
    }
}

static CHILD_NO: std::sync::atomic::AtomicUsize = std::sync::atomic::AtomicUsize::new(0);

/// A nesting / long-token child normally needs seconds.  Two allowances:
///  * CPU time of the child (utime + stime from /proc): exceeding it means the parser itself burnt that
///    much processor time on a document of a few megabytes — reported as non-termination (a failure);
///  * wall-clock time: exceeding it while the CPU allowance is not used up only means the machine is
///    busy — reported as inconclusive, not as a violation.
const CHILD_CPU_LIMIT_S: u64 = 900;
const CHILD_WALL_LIMIT_S: u64 = 5400;

fn child_cpu_s(pid: u32) -> Option<u64> {
    let s = std::fs::read_to_string(format!("/proc/{}/stat", pid)).ok()?;
    let rest = s.get(s.rfind(')')? + 2..)?;
    let f: Vec<&str> = rest.split(' ').collect();
    // `rest` starts at field 3 (state); utime and stime are fields 14 and 15, in clock ticks (100 Hz on Linux)
    let ut: u64 = f.get(11)?.parse().ok()?;
    let st: u64 = f.get(12)?.parse().ok()?;
    Some((ut + st) / 100)
}

/// deep nesting runs in a child process (same binary, `child` sub-command) on a thread with an
/// explicit 8 MiB stack (the main-thread default on Linux), so that a stack overflow of the parser
/// kills the child only.  Verdicts: the child's own reply; `FAIL.abort` when the child died of
/// SIGABRT / SIGSEGV / SIGBUS / SIGILL (a stack overflow, an `abort()`), or exited with an error code;
/// `FAIL.nontermination` when it used up its CPU allowance;
/// `outcome=inconclusive` (no FAIL) when it was killed from outside (SIGKILL / SIGTERM: the OOM killer, an
/// operator), ran out of memory, could not be started, or exceeded the wall-clock allowance only.
fn exec_deep(syn: &str, shape: &str, depth: &str) -> String {
    use std::os::unix::process::ExitStatusExt;
    let exe = match std::env::current_exe() {
        Ok(e) => e,
        Err(_) => return "outcome=inconclusive why=noexe".into(),
    };
    let n = CHILD_NO.fetch_add(1, std::sync::atomic::Ordering::SeqCst);
    let tmp = std::env::temp_dir();
    let po = tmp.join(format!("vh-c08-{}-{}.out", std::process::id(), n));
    let pe = tmp.join(format!("vh-c08-{}-{}.err", std::process::id(), n));
    let (fo, fe) = match (std::fs::File::create(&po), std::fs::File::create(&pe)) {
        (Ok(a), Ok(b)) => (a, b),
        _ => return "outcome=inconclusive why=notmp".into(),
    };
    let child = std::process::Command::new(exe)
        .args(["child", syn, shape, depth])
        .env("C08_CHILD_STDERR", "1")
        .stdin(std::process::Stdio::null())
        .stdout(fo)
        .stderr(fe)
        .spawn();
    let cleanup = |r: String| -> String {
        let _ = std::fs::remove_file(&po);
        let _ = std::fs::remove_file(&pe);
        r
    };
    let mut child = match child {
        Ok(c) => c,
        Err(_) => return cleanup("outcome=inconclusive why=nospawn".into()),
    };
    let t0 = std::time::Instant::now();
    let mut nap = 1u64;
    let status = loop {
        match child.try_wait() {
            Ok(Some(st)) => break st,
            Ok(None) => {
                let cpu = child_cpu_s(child.id()).unwrap_or(0);
                if cpu >= CHILD_CPU_LIMIT_S {
                    let _ = child.kill();
                    let _ = child.wait();
                    return cleanup(format!("outcome=timeout cpu_s={} FAIL.nontermination={}.{}", cpu, syn, shape));
                }
                if t0.elapsed().as_secs() >= CHILD_WALL_LIMIT_S {
                    let _ = child.kill();
                    let _ = child.wait();
                    return cleanup(format!("outcome=inconclusive why=wall_{}s cpu_s={}", CHILD_WALL_LIMIT_S, cpu));
                }
                std::thread::sleep(std::time::Duration::from_millis(nap));
                nap = (nap * 2).min(50);
            }
            Err(_) => return cleanup("outcome=inconclusive why=wait".into()),
        }
    };
    let read_tail = |p: &std::path::Path| -> String {
        let v = std::fs::read(p).unwrap_or_default();
        let from = v.len().saturating_sub(4000);
        String::from_utf8_lossy(&v[from..]).to_string()
    };
    let err_tail = read_tail(&pe);
    let out_tail = read_tail(&po);
    let oom = err_tail.contains("memory allocation of") || err_tail.contains("out of memory");
    let r = if let Some(sig) = status.signal() {
        if oom || !matches!(sig, 4 | 6 | 7 | 11) {
            format!("outcome=inconclusive why={}_sig{}", if oom { "oom" } else { "killed" }, sig)
        } else {
            format!("outcome=abort sig={} FAIL.abort={}.{}", sig, syn, shape)
        }
    } else if status.code() == Some(0) {
        out_tail.trim().lines().last().unwrap_or("outcome=inconclusive why=noreply").to_string()
    } else if oom {
        "outcome=inconclusive why=oom".to_string()
    } else {
        format!("outcome=abort code={} FAIL.abort={}.{}", status.code().unwrap_or(-1), syn, shape)
    };
    cleanup(r)
}

fn child_main(args: &[String]) -> i32 {
    let (syn, shape, depth) = (args[2].clone(), args[3].clone(), args[4].parse::<usize>().unwrap_or(1));
    let doc = match shape.strip_prefix("long:") {
        Some(kind) => cases::long_doc(&syn, kind, depth),
        None => cases::deep_doc(&syn, &shape, depth),
    };
    let Some(doc) = doc else {
        println!("bad-op");
        return 0;
    };
    let h = std::thread::Builder::new()
        .stack_size(8 << 20)
        .spawn(move || exec_doc(&syn, doc.as_bytes(), None))
        .unwrap();
    match h.join() {
        Ok(s) => println!("{}", s),
        Err(_) => println!("outcome=panic FAIL.parser_panic=thread"),
    }
    0
}

pub fn exec(line: &str) -> String {
    let f: Vec<&str> = line.split_whitespace().collect();
    match f.as_slice() {
        ["tok", syn, kind, h] => match unhex(h) {
            Some(w) => exec_tok(syn, kind, &w),
            None => "bad-hex".into(),
        },
        ["trail", syn, kind, h, c] => match (unhex(h), unhex(c)) {
            (Some(w), Some(c)) => exec_trail(syn, kind, &w, &c),
            _ => "bad-hex".into(),
        },
        ["base", h] => match unhex(h) {
            Some(w) => exec_base(&w),
            None => "bad-hex".into(),
        },
        ["rel", syn, how, kind, hb, hr] => match (unhex(hb), unhex(hr)) {
            (Some(bs), Some(r)) => exec_rel(syn, how, kind, &bs, &r),
            _ => "bad-hex".into(),
        },
        ["doc", syn, h] if run::known_syntax(syn) => match unhex_bytes(h) {
            Some(d) => exec_doc(syn, &d, None),
            None => "bad-hex".into(),
        },
        ["doc", syn, h, hb] if run::known_syntax(syn) => match (unhex_bytes(h), unhex(hb)) {
            (Some(d), Some(bs)) if sophia_iri::Iri::new(bs.as_str()).is_ok() => exec_doc(syn, &d, Some(&bs)),
            (Some(_), Some(_)) => "skip=1".into(),
            _ => "bad-hex".into(),
        },
        ["glue", kind, script, sink] => glue::exec(kind, script, sink),
        ["deep", syn, shape, depth] => exec_deep(syn, shape, depth),
        ["long", syn, kind, n] => exec_deep(syn, &format!("long:{}", kind), n),
        _ => "bad-op".into(),
    }
}

unsafe extern "C" {
    fn dup2(oldfd: i32, newfd: i32) -> i32;
}

/// json-ld writes diagnostics ("malformed IRI …") to stderr; check.py merges stderr into the reply
/// stream, so stderr is pointed at /dev/null for the whole run
fn silence_stderr() {
    use std::os::unix::io::AsRawFd;
    if let Ok(f) = std::fs::OpenOptions::new().write(true).open("/dev/null") {
        unsafe {
            dup2(f.as_raw_fd(), 2);
        }
    }
}

fn main() {
    let args: Vec<String> = std::env::args().collect();
    if args.get(1).map(|s| s.as_str()) != Some("child") || std::env::var("C08_CHILD_STDERR").is_err() {
        silence_stderr();
    }
    if args.get(1).map(|s| s.as_str()) == Some("child") && args.len() >= 5 {
        std::panic::set_hook(Box::new(|_| {}));
        std::process::exit(child_main(&args));
    }
    vhcore::main_loop(cases::generate, exec);
}
