//! C08 — parsers are total and yield well-formed terms.
//!
//! requests (all strings hex):
//!   tok <syn> <kind> <hex>        one token driven through the smallest document isolating its recogniser
//!                                 -> accepted=0/1 [out=<hex>] valid=0/1     (compared with the Lean back-end models)
//!   trail <syn> <kind> <hex> <hexchar>   label/variable followed by '.'+non-ASCII non-name character
//!                                 -> accepted=0/1 (the models say 0: reader left inside a character)
//!   base <hex>                    configured base IRI: Iri::new, then TurtleParser/TriGParser/RdfXmlParser::parse
//!                                 -> new=0/1 parse=ok|panic
//!   glue <t|q|g> <script> <k|->  rio/src/parser.rs with a scripted back-end parser and a callback failing on item k
//!                                 -> outs=<letters: T Ok(true) F Ok(false) S SourceError K SinkError>
//!   doc <syn> <hexbytes> [<hexbase>]   exploration: any bytes -> outcome=ok|err items=<n>
//!   deep <syn> <shape> <depth>    exploration in a child process -> outcome=ok|err|abort
//!   long <syn> <kind> <n>         very long token / very many statements, in a child process
//! Oracle failures are reported as FAIL.* fields.
mod cases;
mod glue;
mod run;

use run::{Obs, R};
use std::panic::AssertUnwindSafe;
use vhcore::util::*;

fn b(x: bool) -> &'static str {
    if x { "1" } else { "0" }
}

/// `<...>` of the Turtle family: only what cannot be written literally is escaped
pub fn iriref_src(w: &str) -> String {
    let mut o = String::new();
    for (i, c) in w.chars().enumerate() {
        match c {
            '>' | '\\' | '\n' | '\r' => o.push_str(&format!("\\u{:04X}", c as u32)),
            // `<<` would open a quoted triple
            '<' if i == 0 => o.push_str("\\u003C"),
            c => o.push(c),
        }
    }
    o
}

const PN_ESC: &str = "_~.-!$&'()*+,;=/?#@%";

/// source text of a prefixed-name local part emitting exactly `w`
pub fn pn_local_src(w: &str) -> String {
    let cs: Vec<char> = w.chars().collect();
    let mut o = String::new();
    for (i, &c) in cs.iter().enumerate() {
        let next_alnum = cs.get(i + 1).map(|d| d.is_ascii_alphanumeric()).unwrap_or(false);
        let hex2 = cs.get(i + 1).map(|d| d.is_ascii_hexdigit()).unwrap_or(false)
            && cs.get(i + 2).map(|d| d.is_ascii_hexdigit()).unwrap_or(false);
        match c {
            '_' if true => o.push(c),
            '-' if i > 0 => o.push(c),
            '.' if i > 0 && next_alnum => o.push(c),
            '%' if hex2 => o.push(c),
            c if PN_ESC.contains(c) => {
                o.push('\\');
                o.push(c)
            }
            c => o.push(c),
        }
    }
    o
}

pub fn xml_attr(w: &str) -> String {
    let mut o = String::new();
    for c in w.chars() {
        match c {
            '"' => o.push_str("&quot;"),
            '<' => o.push_str("&lt;"),
            '&' => o.push_str("&amp;"),
            '\n' | '\r' | '\t' => o.push_str(&format!("&#{};", c as u32)),
            c => o.push(c),
        }
    }
    o
}

pub fn json_string(w: &str) -> String {
    json_str(w)
}

const RDFNS: &str = "http://www.w3.org/1999/02/22-rdf-syntax-ns#";

/// (document, position of the term in the first statement, expected raw kind)
pub fn tok_doc(syn: &str, kind: &str, w: &str) -> Option<(String, usize)> {
    let fam = matches!(syn, "nt" | "nq" | "ttl" | "trig" | "gnq" | "gtrig");
    let turtle_like = matches!(syn, "ttl" | "trig" | "gtrig");
    Some(match (kind, syn) {
        ("bnode", _) if fam => (format!("_:{} <x:p> <x:o> .\n", w), 0),
        ("bnode_o", _) if fam => (format!("<x:s> <x:p> _:{} .\n", w), 2),
        ("bnode", "jsonld") => (format!("{{\"@id\":{},\"http://x/p\":\"o\"}}", json_string(&format!("_:{}", w))), 0),
        ("nodeid", "xml") => (
            format!(
                "<rdf:RDF xmlns:rdf=\"{}\"><rdf:Description rdf:nodeID=\"{}\"><p xmlns=\"x:\">o</p></rdf:Description></rdf:RDF>",
                RDFNS,
                xml_attr(w)
            ),
            0,
        ),
        ("lang", _) if fam => (format!("<x:s> <x:p> \"a\"@{} .\n", w), 2),
        ("lang", "xml") => (
            format!(
                "<rdf:RDF xmlns:rdf=\"{}\"><rdf:Description rdf:about=\"x:s\" xml:lang=\"{}\"><p xmlns=\"x:\">o</p></rdf:Description></rdf:RDF>",
                RDFNS,
                xml_attr(w)
            ),
            2,
        ),
        ("lang", "jsonld") => (
            format!("{{\"@id\":\"x:s\",\"http://x/p\":{{\"@value\":\"a\",\"@language\":{}}}}}", json_string(w)),
            2,
        ),
        ("var", "gnq") | ("var", "gtrig") => (format!("?{} <x:p> <x:o> .\n", w), 0),
        ("iri", _) if fam => (format!("<{}> <x:p> <x:o> .\n", iriref_src(w)), 0),
        ("dt", _) if fam => (format!("<x:s> <x:p> \"a\"^^<{}> .\n", iriref_src(w)), 2),
        ("iri", "xml") => (
            format!(
                "<rdf:RDF xmlns:rdf=\"{}\"><rdf:Description rdf:about=\"{}\"><p xmlns=\"x:\">o</p></rdf:Description></rdf:RDF>",
                RDFNS,
                xml_attr(w)
            ),
            0,
        ),
        ("iri", "jsonld") => (format!("{{\"@id\":{},\"http://x/p\":\"o\"}}", json_string(w)), 0),
        // prefixed name: emitted IRI = "x:" ++ w
        ("pname", _) if turtle_like => (format!("@prefix p: <x:> .\np:{} <x:p> <x:o> .\n", pn_local_src(w)), 0),
        // relative prefix + local name as datatype (generalized TriG only)
        ("pname_dt", "gtrig") => (format!("@prefix p: <{}> .\n<x:s> <x:p> \"a\"^^p:d .\n", iriref_src(w)), 2),
        // XML namespace name ++ local name "p" becomes the predicate IRI
        ("xmlns", "xml") => (
            format!(
                "<rdf:RDF xmlns:rdf=\"{}\"><rdf:Description rdf:about=\"x:s\"><e:p xmlns:e=\"{}\">o</e:p></rdf:Description></rdf:RDF>",
                RDFNS,
                xml_attr(w)
            ),
            1,
        ),
        _ => return None,
    })
}

fn lower(w: &str) -> String {
    w.to_ascii_lowercase()
}

/// what the back-end is expected to hand over for token `w` (used to decide `accepted`)
fn expected_out(syn: &str, kind: &str, w: &str) -> String {
    match kind {
        "lang" => lower(w),
        "pname" => format!("x:{}", w),
        "pname_dt" => format!("{}d", w),
        "xmlns" => format!("{}p", w),
        "bnode" | "bnode_o" if matches!(syn, "ttl" | "trig" | "gtrig") => {
            // rio_turtle's BlankNodeIdGenerator::disambiguate
            let bs = w.as_bytes();
            if bs.len() >= 12 && &bs[..4] == b"riog" && bs[4..12].iter().all(u8::is_ascii_digit) && bs[12..].iter().all(|x| *x == b'd') {
                format!("{}d", w)
            } else {
                w.to_string()
            }
        }
        _ => w.to_string(),
    }
}

fn raw_text(r: &R, kind: &str) -> Option<String> {
    match (r, kind) {
        (R::I(s), "iri" | "pname" | "xmlns") => Some(s.clone()),
        (R::B(s), "bnode" | "bnode_o" | "nodeid") => Some(s.clone()),
        (R::V(s), "var") => Some(s.clone()),
        (R::L(_, _, Some(l)), "lang") => Some(l.clone()),
        (R::L(_, Some(d), _), "dt" | "pname_dt") => Some(d.clone()),
        _ => None,
    }
}

fn validator_ok(syn: &str, kind: &str, s: &str) -> bool {
    use sophia_api::term::{BnodeId, LanguageTag, VarName};
    match kind {
        "bnode" | "bnode_o" | "nodeid" => BnodeId::new(s).is_ok(),
        "lang" => LanguageTag::new(s).is_ok(),
        "var" => VarName::new(s).is_ok(),
        "dt" | "pname_dt" => sophia_iri::Iri::new(s).is_ok(),
        _ => {
            if run::is_strict(syn) {
                sophia_iri::Iri::new(s).is_ok()
            } else {
                sophia_iri::IriRef::new(s).is_ok()
            }
        }
    }
}

fn fail_fields(obs: &Obs) -> String {
    let mut o = String::new();
    for f in &obs.fails {
        let (a, bb) = f.split_once('.').unwrap_or((f.as_str(), "x"));
        let key = match a {
            "panic" => "FAIL.accessor_panic",
            "invalid" => "FAIL.invalid_term",
            "inconsistent" => "FAIL.inconsistent_term",
            _ => "FAIL.nontermination",
        };
        o += &format!(" {}={}", key, bb);
    }
    o
}

fn exec_tok(syn: &str, kind: &str, w: &str) -> String {
    let Some((doc, pos)) = tok_doc(syn, kind, w) else { return "bad-op".into() };
    let want = expected_out(syn, kind, w);
    let r = catch(AssertUnwindSafe(|| run::run(syn, doc.as_bytes(), None, true)));
    let obs = match r {
        Ok(o) => o,
        Err(_) => return format!("accepted=1 FAIL.parser_panic={}", kind),
    };
    // the token was accepted iff the document parsed without error and the back-end handed over
    // (raw view) exactly the expected string at the expected position
    let mut accepted = obs.errors == 0 && obs.items >= 1;
    let mut out: Option<String> = None;
    if accepted {
        if let Some(first) = obs.raw.first() {
            match first.get(pos).and_then(|r| raw_text(r, kind)) {
                Some(s) => {
                    if s != want {
                        accepted = false;
                    }
                    out = Some(s);
                }
                None => accepted = false,
            }
        } else if let Some(first) = obs.sop.first() {
            // json-ld: no raw view; the sophia view tells the kind, and the text unless the accessor panicked
            match first.get(pos) {
                Some(sv) => {
                    let k = match kind {
                        "bnode" => 'b',
                        "iri" => 'i',
                        _ => 'l',
                    };
                    if sv.kind != k {
                        accepted = false;
                    } else {
                        let t = if kind == "lang" { sv.lang.clone() } else { sv.text.clone() };
                        match t {
                            Some(t) if kind == "bnode" => {
                                // json-ld relabels blank nodes: report whether the label has the generator's shape
                                let g = !t.is_empty() && t.bytes().all(|x| x.is_ascii_digit());
                                let ok = sophia_api::term::BnodeId::new(t.as_str()).is_ok() && obs.fails.is_empty();
                                return format!("accepted=1 gen={} label={} valid={}{}", b(g), hex(&t), b(ok), fail_fields(&obs));
                            }
                            Some(t) => {
                                if kind == "lang" && t.to_ascii_lowercase() != w.to_ascii_lowercase() {
                                    accepted = false;
                                } else if kind != "lang" && t != want {
                                    accepted = false;
                                }
                                out = Some(t);
                            }
                            None => {
                                if kind == "lang" && !sv.panicked {
                                    accepted = false; // plain literal: the tag was dropped
                                }
                            }
                        }
                    }
                }
                None => accepted = false,
            }
        } else {
            accepted = false;
        }
    }
    if !accepted {
        // a rejected token must still not break anything
        return format!("accepted=0{}", fail_fields(&obs));
    }
    let valid = match &out {
        Some(s) => validator_ok(syn, kind, s) && obs.fails.is_empty(),
        None => false,
    };
    let mut o = format!("accepted=1 out={} valid={}", out.as_deref().map(hex).unwrap_or("panic".into()), b(valid));
    o += &fail_fields(&obs);
    if !valid && obs.fails.is_empty() {
        o += &format!(" FAIL.invalid_term={}", kind);
    }
    o
}

fn exec_trail(syn: &str, kind: &str, w: &str, c: &str) -> String {
    let doc = match kind {
        "bnode" => format!("_:{}.{} <x:p> <x:o> .\n", w, c),
        "bnode_o" => format!("<x:s> <x:p> _:{}.{} .\n", w, c),
        "var" => format!("?{}{} <x:p> <x:o> .\n", w, c),
        _ => return "bad-op".into(),
    };
    let pos = if kind == "bnode_o" { 2 } else { 0 };
    match catch(AssertUnwindSafe(|| run::run(syn, doc.as_bytes(), None, true))) {
        Ok(obs) => {
            let acc = obs.errors == 0 && obs.items >= 1;
            // what was handed over before the error, if anything
            let emitted = obs
                .raw
                .first()
                .and_then(|t| t.get(pos))
                .and_then(|r| raw_text(r, kind))
                .map(|s| hex(&s))
                .unwrap_or("none".into());
            format!("accepted={} emitted={}{}", b(acc), emitted, fail_fields(&obs))
        }
        Err(_) => "accepted=1 FAIL.parser_panic=trail".into(),
    }
}

fn exec_base(w: &str) -> String {
    let new = sophia_iri::Iri::new(w).is_ok();
    if !new {
        return "new=0".into();
    }
    let mut worst = "ok";
    let mut fails = String::new();
    for syn in ["ttl", "trig", "gtrig", "xml"] {
        let doc: &[u8] = if syn == "xml" {
            b"<rdf:RDF xmlns:rdf=\"http://www.w3.org/1999/02/22-rdf-syntax-ns#\"><rdf:Description rdf:about=\"a\"><p xmlns=\"x:\">o</p></rdf:Description></rdf:RDF>"
        } else {
            b"<a> <x:p> <#o> .\n"
        };
        match catch(AssertUnwindSafe(|| run::run(syn, doc, Some(w), false))) {
            Ok(obs) => fails += &fail_fields(&obs),
            Err(_) => {
                worst = "panic";
                fails += &format!(" FAIL.base_unwrap={}", syn);
            }
        }
    }
    format!("new=1 parse={}{}", worst, fails)
}

fn exec_doc(syn: &str, data: &[u8], base: Option<&str>) -> String {
    match catch(AssertUnwindSafe(|| run::run(syn, data, base, false))) {
        Ok(obs) => format!(
            "outcome={} items={}{}",
            if obs.errors == 0 { "ok" } else { "err" },
            obs.items,
            fail_fields(&obs)
        ),
        Err(m) => {
            let short: String = m.chars().filter(|c| c.is_ascii_alphanumeric() || *c == '_').take(40).collect();
            format!("outcome=panic FAIL.parser_panic={}", if short.is_empty() { "x".into() } else { short })
        }
    }
}

/// deep nesting runs in a child process (same binary, `child` sub-command) on a thread with an
/// explicit 8 MiB stack (the main-thread default on Linux), so that a stack overflow of the parser
/// kills the child only
fn exec_deep(syn: &str, shape: &str, depth: &str) -> String {
    let exe = match std::env::current_exe() {
        Ok(e) => e,
        Err(_) => return "outcome=noexe".into(),
    };
    let out = std::process::Command::new(exe)
        .args(["child", syn, shape, depth])
        .stdin(std::process::Stdio::null())
        .stderr(std::process::Stdio::null())
        .output();
    match out {
        Err(_) => "outcome=nospawn".into(),
        Ok(o) => {
            use std::os::unix::process::ExitStatusExt;
            if let Some(sig) = o.status.signal() {
                format!("outcome=abort sig={} FAIL.abort={}.{}", sig, syn, shape)
            } else if o.status.code() == Some(0) {
                String::from_utf8_lossy(&o.stdout).trim().to_string()
            } else {
                format!("outcome=abort code={} FAIL.abort={}.{}", o.status.code().unwrap_or(-1), syn, shape)
            }
        }
    }
}

fn child_main(args: &[String]) -> i32 {
    let (syn, shape, depth) = (args[2].clone(), args[3].clone(), args[4].parse::<usize>().unwrap_or(1));
    let doc = match shape.strip_prefix("long:") {
        Some(kind) => cases::long_doc(&syn, kind, depth),
        None => cases::deep_doc(&syn, &shape, depth),
    };
    let Some(doc) = doc else {
        println!("bad-op");
        return 0;
    };
    let h = std::thread::Builder::new()
        .stack_size(8 << 20)
        .spawn(move || exec_doc(&syn, doc.as_bytes(), None))
        .unwrap();
    match h.join() {
        Ok(s) => println!("{}", s),
        Err(_) => println!("outcome=panic FAIL.parser_panic=thread"),
    }
    0
}

pub fn exec(line: &str) -> String {
    let f: Vec<&str> = line.split_whitespace().collect();
    match f.as_slice() {
        ["tok", syn, kind, h] => match unhex(h) {
            Some(w) => exec_tok(syn, kind, &w),
            None => "bad-hex".into(),
        },
        ["trail", syn, kind, h, c] => match (unhex(h), unhex(c)) {
            (Some(w), Some(c)) => exec_trail(syn, kind, &w, &c),
            _ => "bad-hex".into(),
        },
        ["base", h] => match unhex(h) {
            Some(w) => exec_base(&w),
            None => "bad-hex".into(),
        },
        ["doc", syn, h] if run::SYNTAXES.contains(syn) => match unhex_bytes(h) {
            Some(d) => exec_doc(syn, &d, None),
            None => "bad-hex".into(),
        },
        ["doc", syn, h, hb] if run::SYNTAXES.contains(syn) => match (unhex_bytes(h), unhex(hb)) {
            (Some(d), Some(bs)) if sophia_iri::Iri::new(bs.as_str()).is_ok() => exec_doc(syn, &d, Some(&bs)),
            (Some(_), Some(_)) => "skip=1".into(),
            _ => "bad-hex".into(),
        },
        ["glue", kind, script, sink] => glue::exec(kind, script, sink),
        ["deep", syn, shape, depth] => exec_deep(syn, shape, depth),
        ["long", syn, kind, n] => exec_deep(syn, &format!("long:{}", kind), n),
        _ => "bad-op".into(),
    }
}

unsafe extern "C" {
    fn dup2(oldfd: i32, newfd: i32) -> i32;
}

/// json-ld writes diagnostics ("malformed IRI …") to stderr; check.py merges stderr into the reply
/// stream, so stderr is pointed at /dev/null for the whole run
fn silence_stderr() {
    use std::os::unix::io::AsRawFd;
    if let Ok(f) = std::fs::OpenOptions::new().write(true).open("/dev/null") {
        unsafe {
            dup2(f.as_raw_fd(), 2);
        }
    }
}

fn main() {
    let args: Vec<String> = std::env::args().collect();
    if args.get(1).map(|s| s.as_str()) != Some("child") || std::env::var("C08_CHILD_STDERR").is_err() {
        silence_stderr();
    }
    if args.get(1).map(|s| s.as_str()) == Some("child") && args.len() >= 5 {
        std::panic::set_hook(Box::new(|_| {}));
        std::process::exit(child_main(&args));
    }
    vhcore::main_loop(cases::generate, exec);
}
