//! C15 — streams deliver exactly the prefix before a failure and blame the right side.
//!
//! request (see lean/SophiaModel/Driver/C15.lean for the grammar):
//!   x <source> <chain> <consumer> <mode> [fmt=<nt|ttl|nq|trig|gnq|gtrig> doc=<hex>]
//!
//! `exec` builds the real pipeline — raw source (iterator of `Result` / Rio parser on `doc`), the
//! real adapters (`filter_items`, `filter_triples`, `map_items`, …, `to_quads`, `to_triples`), the
//! real consumer — and reports what the consumer's callback saw (`log`, recorded by a `Tap`
//! stage in front of the consumer), the result, the error side and payload, counts, final
//! store / output.  It also evaluates the property on the Rust side (`FAIL.*`), from an
//! independent re-implementation of what the chain *means* on the abstract items.
//!
//! The first adapter is applied to the raw source with its static type; after each further
//! adapter the pipeline is type-erased (`BoxT`/`BoxQ`: dynamic dispatch, sink errors travel as
//! `Box<dyn Any>` *through* the real adapters and are downcast at the far end), because a chain
//! of depth 5 over 11 adapter kinds cannot be enumerated as static types.
use sophia_api::dataset::{Dataset, MutableDataset};
use sophia_api::graph::{Graph, MutableGraph};
use sophia_api::parser::{QuadParser, TripleParser};
use sophia_api::quad::{Quad, Spog};
use sophia_api::serializer::{QuadSerializer, TripleSerializer};
use sophia_api::source::StreamError::{SinkError, SourceError};
use sophia_api::source::{QuadSource, Source, StreamResult, TripleSource};
use sophia_api::term::{IriRef, SimpleTerm, Term};
use sophia_api::triple::Triple;
use std::any::Any;
use std::cell::{Cell, RefCell};
use std::collections::{BTreeSet, HashSet};
use std::convert::Infallible;
use std::error::Error;
use std::fmt;
use std::io::{self, Cursor, Write};
use std::rc::Rc;
use vhcore::util::*;
use vhcore::GenCtx;

const XSD_INTEGER: &str = "http://www.w3.org/2001/XMLSchema#integer";

// ------------------------------------------------------------------ abstract items, adapters

#[derive(Clone, Copy, PartialEq, Eq, PartialOrd, Ord, Debug, Hash)]
enum It {
    T(u64),
    Q(u64, u64),
}

impl It {
    fn val(self) -> u64 {
        match self {
            It::T(n) | It::Q(n, _) => n,
        }
    }
    fn render(self) -> String {
        match self {
            It::T(n) => format!("t{}", n),
            It::Q(n, g) => format!("q{}.{}", n, g),
        }
    }
    fn parse(s: &str) -> Option<It> {
        if let Some(r) = s.strip_prefix('t') {
            Some(It::T(r.parse().ok()?))
        } else if let Some(r) = s.strip_prefix('q') {
            let (a, b) = r.split_once('.')?;
            Some(It::Q(a.parse().ok()?, b.parse().ok()?))
        } else {
            None
        }
    }
}

fn render_items(v: &[It]) -> String {
    if v.is_empty() {
        "_".into()
    } else {
        v.iter().map(|i| i.render()).collect::<Vec<_>>().join(",")
    }
}

fn parse_items(s: &str) -> Option<Vec<It>> {
    if s == "_" {
        return Some(vec![]);
    }
    s.split(',').map(It::parse).collect()
}

#[derive(Clone, Copy, Debug, PartialEq)]
struct Pred {
    m: u64,
    r: u64,
}

impl Pred {
    fn eval(self, v: u64) -> bool {
        (if self.m == 0 { v } else { v % self.m }) != self.r
    }
}

#[derive(Clone, Copy, Debug, PartialEq)]
enum Fun {
    Add(u64),
    ToQuad(u64, u64),
    ToTriple(u64),
}

impl Fun {
    fn eval(self, i: It) -> It {
        match (self, i) {
            (Fun::Add(k), It::T(n)) => It::T(n + k),
            (Fun::Add(k), It::Q(n, g)) => It::Q(n + k, g),
            (Fun::ToQuad(k, g), i) => It::Q(i.val() + k, g),
            (Fun::ToTriple(k), i) => It::T(i.val() + k),
        }
    }
    fn render(self) -> String {
        match self {
            Fun::Add(k) => format!("a{}", k),
            Fun::ToQuad(k, g) => format!("Q{}g{}", k, g),
            Fun::ToTriple(k) => format!("T{}", k),
        }
    }
    fn parse(s: &str) -> Option<Fun> {
        if let Some(r) = s.strip_prefix('a') {
            Some(Fun::Add(r.parse().ok()?))
        } else if let Some(r) = s.strip_prefix('T') {
            Some(Fun::ToTriple(r.parse().ok()?))
        } else if let Some(r) = s.strip_prefix('Q') {
            let (k, g) = r.split_once('g')?;
            Some(Fun::ToQuad(k.parse().ok()?, g.parse().ok()?))
        } else {
            None
        }
    }
}

/// which flavour of the method: `*_items` (Source), `*_triples` (TripleSource), `*_quads` (QuadSource)
#[derive(Clone, Copy, Debug, PartialEq)]
enum W {
    I,
    T,
    Q,
}

impl W {
    fn ch(self) -> char {
        match self {
            W::I => 'i',
            W::T => 't',
            W::Q => 'q',
        }
    }
    fn parse(c: &str) -> Option<W> {
        Some(match c {
            "i" => W::I,
            "t" => W::T,
            "q" => W::Q,
            _ => return None,
        })
    }
}

#[derive(Clone, Copy, Debug, PartialEq)]
enum Adapter {
    Filter(W, Pred),
    Map(W, Fun),
    FilterMap(W, Pred, Fun),
    ToQuads,
    ToTriples,
}

impl Adapter {
    fn render(self) -> String {
        match self {
            Adapter::Filter(w, p) => format!("f{}.{}.{}", w.ch(), p.m, p.r),
            Adapter::Map(w, f) => format!("m{}.{}", w.ch(), f.render()),
            Adapter::FilterMap(w, p, f) => format!("x{}.{}.{}.{}", w.ch(), p.m, p.r, f.render()),
            Adapter::ToQuads => "tq".into(),
            Adapter::ToTriples => "tt".into(),
        }
    }
    fn parse(s: &str) -> Option<Adapter> {
        let f: Vec<&str> = s.split('.').collect();
        match f.as_slice() {
            ["tq"] => Some(Adapter::ToQuads),
            ["tt"] => Some(Adapter::ToTriples),
            [h, m, r] if h.starts_with('f') && h.len() == 2 => {
                Some(Adapter::Filter(W::parse(&h[1..])?, Pred { m: m.parse().ok()?, r: r.parse().ok()? }))
            }
            [h, g] if h.starts_with('m') && h.len() == 2 => Some(Adapter::Map(W::parse(&h[1..])?, Fun::parse(g)?)),
            [h, m, r, g] if h.starts_with('x') && h.len() == 2 => Some(Adapter::FilterMap(
                W::parse(&h[1..])?,
                Pred { m: m.parse().ok()?, r: r.parse().ok()? },
                Fun::parse(g)?,
            )),
            _ => None,
        }
    }
    /// what the adapter means on abstract items (Rust-side oracle; mirrors nothing of /repo)
    fn meaning(self, i: It) -> Option<It> {
        match self {
            Adapter::Filter(_, p) => p.eval(i.val()).then_some(i),
            Adapter::Map(_, f) => Some(f.eval(i)),
            Adapter::FilterMap(_, p, f) => p.eval(i.val()).then(|| f.eval(i)),
            Adapter::ToQuads => Some(match i {
                It::T(n) => It::Q(n, 0),
                q => q,
            }),
            Adapter::ToTriples => Some(It::T(i.val())),
        }
    }
    /// item kind after the adapter (`true` = quads), `None` if the method does not exist on that kind
    fn kind_after(self, quads: bool) -> Option<bool> {
        let w_ok = |w: W| match w {
            W::I => true,
            W::T => !quads,
            W::Q => quads,
        };
        match self {
            Adapter::Filter(w, _) => w_ok(w).then_some(quads),
            Adapter::Map(w, f) | Adapter::FilterMap(w, _, f) => w_ok(w).then_some(match f {
                Fun::Add(_) => quads,
                Fun::ToQuad(..) => true,
                Fun::ToTriple(_) => false,
            }),
            Adapter::ToQuads => (!quads).then_some(true),
            Adapter::ToTriples => quads.then_some(false),
        }
    }
}

/// `iter_at = Some(i)`: `.into_iter()` is called right after adapter `i` (a map / filter_map)
fn render_chain(c: &[Adapter], iter_at: Option<usize>) -> String {
    if c.is_empty() {
        "-".into()
    } else {
        c.iter()
            .enumerate()
            .map(|(i, a)| if iter_at == Some(i) { format!("{}!", a.render()) } else { a.render() })
            .collect::<Vec<_>>()
            .join("/")
    }
}

fn parse_chain(s: &str) -> Option<(Vec<Adapter>, Option<usize>)> {
    if s == "-" {
        return Some((vec![], None));
    }
    let mut iter_at = None;
    let mut c = vec![];
    for (i, t) in s.split('/').enumerate() {
        let t = match t.strip_suffix('!') {
            Some(t) => {
                if iter_at.is_some() {
                    return None;
                }
                iter_at = Some(i);
                t
            }
            None => t,
        };
        let a = Adapter::parse(t)?;
        if iter_at == Some(i) && !matches!(a, Adapter::Map(..) | Adapter::FilterMap(..)) {
            return None;
        }
        c.push(a);
    }
    Some((c, iter_at))
}

fn chain_meaning(c: &[Adapter], items: &[It]) -> Vec<It> {
    items
        .iter()
        .filter_map(|&i| {
            let mut cur = Some(i);
            for a in c {
                cur = cur.and_then(|x| a.meaning(x));
            }
            cur
        })
        .collect()
}

#[derive(Clone, Debug, PartialEq)]
enum Cons {
    Try(Option<usize>, String),
    For,
    Vec,
    Lg,
    Fg,
    Add(Vec<It>),
    Ins(Vec<It>),
    Rem(Vec<It>),
    Small(usize, Vec<It>),
    Ser(usize, String),
    /// collect into HashSet / BTreeSet
    Hs,
    Bs,
    /// add_to_graph on a HashSet graph/dataset, remove_all on a BTreeSet graph/dataset
    AddH(Vec<It>),
    RemB(Vec<It>),
    /// `graph.as_dataset_mut().insert_all(quads)` / `quads.add_to_dataset(&mut graph.into_dataset())` /
    /// element-wise `insert_quad` on the same adapter: a named-graph quad is the sink fault OnlyDefaultGraph
    Gad(u8, Vec<It>),
    /// `dataset.graph_mut(g).insert_all(triples)` / `.remove_all(triples)`
    Dsg(u64, Vec<It>),
    DsgRem(u64, Vec<It>),
    /// streaming (non-pretty) Turtle / TriG / RDF-XML serializer over a writer failing after `limit`
    /// bytes; `plan` = where the third-party formatter alone hits the limit
    Rio(RioKind, usize, String, Plan),
}

#[derive(Clone, Copy, Debug, PartialEq)]
enum RioKind {
    Ttl,
    Trig,
    Xml,
}

impl RioKind {
    fn name(self) -> &'static str {
        match self {
            RioKind::Ttl => "ttl",
            RioKind::Trig => "trig",
            RioKind::Xml => "xml",
        }
    }
}

/// `-` never, `H` in the constructor, `F` in `finish`, `c<j>` on `format` call j
#[derive(Clone, Copy, Debug, PartialEq)]
enum Plan {
    Never,
    New,
    Finish,
    Call(usize),
}

impl Plan {
    fn render(self) -> String {
        match self {
            Plan::Never => "-".into(),
            Plan::New => "H".into(),
            Plan::Finish => "F".into(),
            Plan::Call(j) => format!("c{}", j),
        }
    }
    fn parse(s: &str) -> Option<Plan> {
        Some(match s {
            "-" => Plan::Never,
            "H" => Plan::New,
            "F" => Plan::Finish,
            _ => Plan::Call(s.strip_prefix('c')?.parse().ok()?),
        })
    }
}

fn render_pre(v: &[It]) -> String {
    if v.is_empty() {
        "_".into()
    } else {
        v.iter()
            .map(|i| match i {
                It::T(n) => n.to_string(),
                It::Q(n, g) => format!("{}@{}", n, g),
            })
            .collect::<Vec<_>>()
            .join("+")
    }
}

fn parse_pre(s: &str) -> Option<Vec<It>> {
    if s == "_" {
        return Some(vec![]);
    }
    s.split('+')
        .map(|x| match x.split_once('@') {
            None => Some(It::T(x.parse().ok()?)),
            Some((n, g)) => Some(It::Q(n.parse().ok()?, g.parse().ok()?)),
        })
        .collect()
}

impl Cons {
    fn render(&self) -> String {
        match self {
            Cons::Try(j, e) => format!("try.{}.{}", j.map(|j| j.to_string()).unwrap_or("-".into()), e),
            Cons::For => "for".into(),
            Cons::Vec => "vec".into(),
            Cons::Lg => "lg".into(),
            Cons::Fg => "fg".into(),
            Cons::Add(p) => format!("add.{}", render_pre(p)),
            Cons::Ins(p) => format!("ins.{}", render_pre(p)),
            Cons::Rem(p) => format!("rem.{}", render_pre(p)),
            Cons::Small(f, p) => format!("small.{}.{}", f, render_pre(p)),
            Cons::Ser(l, e) => format!("ser.{}.{}", l, e),
            Cons::Gad(v, p) => format!("{}.{}", ["gad", "gadd", "gade"][*v as usize], render_pre(p)),
            Cons::Dsg(g, p) => format!("dsg.{}.{}", g, render_pre(p)),
            Cons::DsgRem(g, p) => format!("dsgr.{}.{}", g, render_pre(p)),
            Cons::Hs => "hs".into(),
            Cons::Bs => "bs".into(),
            Cons::AddH(p) => format!("addh.{}", render_pre(p)),
            Cons::RemB(p) => format!("remb.{}", render_pre(p)),
            Cons::Rio(k, l, e, pl) => format!("rio.{}.{}.{}.{}", k.name(), l, e, pl.render()),
        }
    }
    fn parse(s: &str) -> Option<Cons> {
        let f: Vec<&str> = s.split('.').collect();
        Some(match f.as_slice() {
            ["try", j, e] => Cons::Try(if *j == "-" { None } else { Some(j.parse().ok()?) }, e.to_string()),
            ["for"] => Cons::For,
            ["vec"] => Cons::Vec,
            ["lg"] => Cons::Lg,
            ["fg"] => Cons::Fg,
            ["add", p] => Cons::Add(parse_pre(p)?),
            ["ins", p] => Cons::Ins(parse_pre(p)?),
            ["rem", p] => Cons::Rem(parse_pre(p)?),
            ["small", fr, p] => Cons::Small(fr.parse().ok()?, parse_pre(p)?),
            ["ser", l, e] => Cons::Ser(l.parse().ok()?, e.to_string()),
            ["gad", p] => Cons::Gad(0, parse_pre(p)?),
            ["gadd", p] => Cons::Gad(1, parse_pre(p)?),
            ["gade", p] => Cons::Gad(2, parse_pre(p)?),
            ["dsg", g, p] => Cons::Dsg(g.parse().ok()?, parse_pre(p)?),
            ["dsgr", g, p] => Cons::DsgRem(g.parse().ok()?, parse_pre(p)?),
            ["hs"] => Cons::Hs,
            ["bs"] => Cons::Bs,
            ["addh", p] => Cons::AddH(parse_pre(p)?),
            ["remb", p] => Cons::RemB(parse_pre(p)?),
            ["rio", k, l, e, pl] => Cons::Rio(
                match *k {
                    "ttl" => RioKind::Ttl,
                    "trig" => RioKind::Trig,
                    "xml" => RioKind::Xml,
                    _ => return None,
                },
                l.parse().ok()?,
                e.to_string(),
                Plan::parse(pl)?,
            ),
            _ => return None,
        })
    }
    fn name(&self) -> &'static str {
        match self {
            Cons::Try(None, _) => "try",
            Cons::Try(Some(_), _) => "try+sinkfault",
            Cons::For => "for",
            Cons::Vec => "vec",
            Cons::Lg => "lg",
            Cons::Fg => "fg",
            Cons::Add(_) => "add",
            Cons::Ins(_) => "ins",
            Cons::Rem(_) => "rem",
            Cons::Small(..) => "small",
            Cons::Ser(..) => "ser",
            Cons::Gad(0, _) => "graph_as_dataset.insert_all",
            Cons::Gad(1, _) => "graph_as_dataset.add_to_dataset",
            Cons::Gad(..) => "graph_as_dataset.insert_quad",
            Cons::Dsg(..) => "dataset_graph.insert_all",
            Cons::DsgRem(..) => "dataset_graph.remove_all",
            Cons::Hs => "hashset",
            Cons::Bs => "btreeset",
            Cons::AddH(_) => "add_hashset",
            Cons::RemB(_) => "rem_btreeset",
            Cons::Rio(RioKind::Ttl, ..) => "rio_turtle",
            Cons::Rio(RioKind::Trig, ..) => "rio_trig",
            Cons::Rio(RioKind::Xml, ..) => "rio_xml",
        }
    }
}

/// one observed `parse_step`: emitted items, then `None` = Ok or `Some(hex of the error message)`
type Script = Vec<(Vec<It>, Option<String>)>;

#[derive(Clone, Debug)]
enum Src {
    /// iterator of `Result`; the flag says quads (needed when no item shows the kind)
    Iter(bool, Vec<Result<It, String>>),
    Doc(Script),
    /// the harness's synthetic chunked source (flag: quads)
    Chunk(bool, Script),
}

fn render_src(s: &Src) -> String {
    match s {
        Src::Iter(q, v) => {
            let tag = if *q { "J" } else { "I" };
            if v.is_empty() {
                format!("{}:_", tag)
            } else {
                format!(
                    "{}:{}",
                    tag,
                    v.iter()
                        .map(|r| match r {
                            Ok(i) => i.render(),
                            Err(e) => format!("E{}", e),
                        })
                        .collect::<Vec<_>>()
                        .join(",")
                )
            }
        }
        Src::Doc(sc) | Src::Chunk(_, sc) => {
            let tag = match s {
                Src::Chunk(false, _) => "C",
                Src::Chunk(true, _) => "D",
                _ => "P",
            };
            if sc.is_empty() {
                format!("{}:_", tag)
            } else {
                format!(
                    "{}:{}",
                    tag,
                    sc.iter()
                        .map(|(is, e)| match e {
                            None => format!("o:{}", render_items(is)),
                            Some(h) => format!("e{}:{}", h, render_items(is)),
                        })
                        .collect::<Vec<_>>()
                        .join(";")
                )
            }
        }
    }
}

fn parse_src(s: &str) -> Option<Src> {
    if let Some((q, r)) = s.strip_prefix("I:").map(|r| (false, r)).or(s.strip_prefix("J:").map(|r| (true, r))) {
        if r == "_" {
            return Some(Src::Iter(q, vec![]));
        }
        let v: Option<Vec<_>> = r
            .split(',')
            .map(|x| match x.strip_prefix('E') {
                Some(e) => Some(Err(e.to_string())),
                None => It::parse(x).map(Ok),
            })
            .collect();
        Some(Src::Iter(q, v?))
    } else if let Some((tag, r)) = ["P:", "C:", "D:"].iter().find_map(|t| s.strip_prefix(t).map(|r| (*t, r))) {
        let mk = |sc: Script| match tag {
            "C:" => Src::Chunk(false, sc),
            "D:" => Src::Chunk(true, sc),
            _ => Src::Doc(sc),
        };
        if r == "_" {
            return Some(mk(vec![]));
        }
        let v: Option<Vec<_>> = r
            .split(';')
            .map(|st| {
                let (h, is) = st.split_once(':')?;
                let is = parse_items(is)?;
                if h == "o" {
                    Some((is, None))
                } else {
                    Some((is, Some(h.strip_prefix('e')?.to_string())))
                }
            })
            .collect();
        Some(mk(v?))
    } else {
        None
    }
}

/// items delivered up to (and within) the first failing step, and that step's error
fn delivered(s: &Src) -> (Vec<It>, Option<String>) {
    let mut out = vec![];
    match s {
        Src::Iter(_, v) => {
            for r in v {
                match r {
                    Ok(i) => out.push(*i),
                    Err(e) => return (out, Some(e.clone())),
                }
            }
        }
        Src::Doc(sc) | Src::Chunk(_, sc) => {
            for (is, e) in sc {
                out.extend(is.iter().copied());
                if let Some(e) = e {
                    return (out, Some(e.clone()));
                }
            }
        }
    }
    (out, None)
}

// ------------------------------------------------------------------ concrete terms

type T3 = [SimpleTerm<'static>; 3];
type Q4 = Spog<SimpleTerm<'static>>;

fn iri(s: &str) -> SimpleTerm<'static> {
    SimpleTerm::Iri(IriRef::new_unchecked(s.to_string().into()))
}

fn lit(n: u64) -> SimpleTerm<'static> {
    SimpleTerm::LiteralDatatype(n.to_string().into(), IriRef::new_unchecked(XSD_INTEGER.to_string().into()))
}

fn t3(n: u64) -> T3 {
    [iri("x:s"), iri("x:p"), lit(n)]
}

fn q4(n: u64, g: u64) -> Q4 {
    (t3(n), if g == 0 { None } else { Some(iri(&format!("x:g{}", g))) })
}

fn val_term<T: Term>(o: T) -> Option<u64> {
    if !o.is_literal() {
        return None;
    }
    o.lexical_form()?.parse().ok()
}

fn val_t<T: Triple>(t: &T) -> u64 {
    val_term(t.o()).expect("item is not of the C15 shape")
}

fn val_q<Q: Quad>(q: &Q) -> u64 {
    val_term(q.o()).expect("item is not of the C15 shape")
}

fn g_q<Q: Quad>(q: &Q) -> u64 {
    match q.g() {
        None => 0,
        Some(g) => g.iri().and_then(|i| i.as_str().strip_prefix("x:g").and_then(|x| x.parse().ok())).expect("graph name"),
    }
}

fn own_t<T: Triple>(t: &T) -> T3 {
    [t.s().into_term(), t.p().into_term(), t.o().into_term()]
}

fn own_q<Q: Quad>(q: &Q) -> Q4 {
    ([q.s().into_term(), q.p().into_term(), q.o().into_term()], q.g().map(|g| g.into_term()))
}

// ------------------------------------------------------------------ errors

#[derive(Debug)]
struct SrcErr(String);
impl fmt::Display for SrcErr {
    fn fmt(&self, f: &mut fmt::Formatter<'_>) -> fmt::Result {
        write!(f, "{}", self.0)
    }
}
impl Error for SrcErr {}

#[derive(Debug)]
struct SinkErr(String);
impl fmt::Display for SinkErr {
    fn fmt(&self, f: &mut fmt::Formatter<'_>) -> fmt::Result {
        write!(f, "{}", self.0)
    }
}
impl Error for SinkErr {}

/// a sink error in transit through a type-erased stage
#[derive(Debug)]
struct DynErr(Box<dyn Any + Send + Sync>);
impl fmt::Display for DynErr {
    fn fmt(&self, f: &mut fmt::Formatter<'_>) -> fmt::Result {
        write!(f, "erased sink error")
    }
}
impl Error for DynErr {}

// ------------------------------------------------------------------ type erasure between adapters

trait DynT {
    fn step(&mut self, f: &mut dyn FnMut(T3) -> Result<(), DynErr>) -> StreamResult<bool, SrcErr, DynErr>;
}
struct EraseT<S>(S);
impl<S: TripleSource> DynT for EraseT<S> {
    fn step(&mut self, f: &mut dyn FnMut(T3) -> Result<(), DynErr>) -> StreamResult<bool, SrcErr, DynErr> {
        self.0.try_for_some_item(|t| f(own_t(&t))).map_err(|e| match e {
            SourceError(e) => SourceError(SrcErr(e.to_string())),
            SinkError(e) => SinkError(e),
        })
    }
}
struct BoxT(Box<dyn DynT>);
impl Source for BoxT {
    type Item<'x> = T3;
    type Error = SrcErr;
    fn try_for_some_item<E, F>(&mut self, mut f: F) -> StreamResult<bool, SrcErr, E>
    where
        E: Error + Send + Sync + 'static,
        F: FnMut(T3) -> Result<(), E>,
    {
        match self.0.step(&mut |t| f(t).map_err(|e| DynErr(Box::new(e)))) {
            Ok(b) => Ok(b),
            Err(SourceError(e)) => Err(SourceError(e)),
            Err(SinkError(d)) => Err(SinkError(*d.0.downcast::<E>().expect("sink error changed type in transit"))),
        }
    }
}

trait DynQ {
    fn step(&mut self, f: &mut dyn FnMut(Q4) -> Result<(), DynErr>) -> StreamResult<bool, SrcErr, DynErr>;
}
struct EraseQ<S>(S);
impl<S: QuadSource> DynQ for EraseQ<S> {
    fn step(&mut self, f: &mut dyn FnMut(Q4) -> Result<(), DynErr>) -> StreamResult<bool, SrcErr, DynErr> {
        self.0.try_for_some_item(|q| f(own_q(&q))).map_err(|e| match e {
            SourceError(e) => SourceError(SrcErr(e.to_string())),
            SinkError(e) => SinkError(e),
        })
    }
}
struct BoxQ(Box<dyn DynQ>);
impl Source for BoxQ {
    type Item<'x> = Q4;
    type Error = SrcErr;
    fn try_for_some_item<E, F>(&mut self, mut f: F) -> StreamResult<bool, SrcErr, E>
    where
        E: Error + Send + Sync + 'static,
        F: FnMut(Q4) -> Result<(), E>,
    {
        match self.0.step(&mut |q| f(q).map_err(|e| DynErr(Box::new(e)))) {
            Ok(b) => Ok(b),
            Err(SourceError(e)) => Err(SourceError(e)),
            Err(SinkError(d)) => Err(SinkError(*d.0.downcast::<E>().expect("sink error changed type in transit"))),
        }
    }
}

// ------------------------------------------------------------------ synthetic chunked source

/// a `Source` that hands out its items in chunks: one `try_for_some_item` = one step = the step's
/// items, then the step's error if it has one (like a parser failing in the middle of a statement)
struct Chunked<T> {
    steps: std::collections::VecDeque<(Vec<T>, Option<String>)>,
    /// number of steps taken out of the source
    pulled: Rc<Cell<usize>>,
}

/// an iterator that counts how many elements were taken out of it
struct Counting<I> {
    inner: I,
    pulled: Rc<Cell<usize>>,
}
impl<I: Iterator> Iterator for Counting<I> {
    type Item = I::Item;
    fn next(&mut self) -> Option<I::Item> {
        let x = self.inner.next();
        if x.is_some() {
            self.pulled.set(self.pulled.get() + 1);
        }
        x
    }
    fn size_hint(&self) -> (usize, Option<usize>) {
        self.inner.size_hint()
    }
}

macro_rules! impl_chunked {
    ($t:ty) => {
        impl Source for Chunked<$t> {
            type Item<'x> = $t;
            type Error = SrcErr;
            fn try_for_some_item<E, F>(&mut self, mut f: F) -> StreamResult<bool, SrcErr, E>
            where
                E: Error + Send + Sync + 'static,
                F: FnMut($t) -> Result<(), E>,
            {
                let Some((items, err)) = self.steps.pop_front() else { return Ok(false) };
                self.pulled.set(self.pulled.get() + 1);
                for i in items {
                    f(i).map_err(SinkError)?;
                }
                match err {
                    Some(e) => Err(SourceError(SrcErr(e))),
                    None => Ok(true),
                }
            }
        }
    };
}
impl_chunked!(T3);
impl_chunked!(Q4);

// ------------------------------------------------------------------ the tap in front of the consumer

type Log = Rc<RefCell<Vec<It>>>;

struct TapT<S> {
    inner: S,
    log: Log,
}
impl<S: TripleSource> Source for TapT<S> {
    type Item<'x> = S::Item<'x>;
    type Error = S::Error;
    fn try_for_some_item<E, F>(&mut self, mut f: F) -> StreamResult<bool, Self::Error, E>
    where
        E: Error + Send + Sync + 'static,
        F: FnMut(Self::Item<'_>) -> Result<(), E>,
    {
        let log = &self.log;
        self.inner.try_for_some_item(|t| {
            log.borrow_mut().push(It::T(val_t(&t)));
            f(t)
        })
    }
}

struct TapQ<S> {
    inner: S,
    log: Log,
}
impl<S: QuadSource> Source for TapQ<S> {
    type Item<'x> = S::Item<'x>;
    type Error = S::Error;
    fn try_for_some_item<E, F>(&mut self, mut f: F) -> StreamResult<bool, Self::Error, E>
    where
        E: Error + Send + Sync + 'static,
        F: FnMut(Self::Item<'_>) -> Result<(), E>,
    {
        let log = &self.log;
        self.inner.try_for_some_item(|q| {
            log.borrow_mut().push(It::Q(val_q(&q), g_q(&q)));
            f(q)
        })
    }
}

// ------------------------------------------------------------------ observation

#[derive(Clone, Debug, PartialEq)]
enum Ret {
    Ok,
    Src(String),
    Sink(String),
}

#[derive(Debug)]
struct Obs {
    log: Vec<It>,
    ret: Ret,
    val: Option<usize>,
    steps: Option<usize>,
    fin: String,
    notes: Vec<String>,
    /// writer consumers: length of the tap log when the writer first refused bytes
    refused_at: Option<usize>,
}

impl Obs {
    fn bad(msg: &str) -> Obs {
        Obs {
            log: vec![],
            ret: Ret::Ok,
            val: None,
            steps: None,
            fin: "-".into(),
            notes: vec![msg.to_string()],
            refused_at: None,
        }
    }
}

fn ret_of<T, E1: Error + 'static, E2: Error>(r: &StreamResult<T, E1, E2>, sink: impl Fn(&E2) -> String) -> Ret {
    match r {
        Ok(_) => Ret::Ok,
        Err(SourceError(e)) => Ret::Src(src_payload(e)),
        Err(SinkError(e)) => Ret::Sink(sink(e)),
    }
}

thread_local! {
    /// the source-error message the request expects (parser sources), so that an error that still
    /// *carries* the original one (as its `source()`) is recognised although its Display differs
    static EXPECTED_SRC: RefCell<Option<String>> = const { RefCell::new(None) };
}

fn token(s: &str) -> String {
    if !s.is_empty() && s.chars().all(|c| c.is_ascii_alphanumeric()) && s.len() < 12 { s.to_string() } else { hex(s) }
}

/// parser messages are free text: compare them in hex; injected payloads are plain tokens.  "carrying
/// the original error value" is honoured anywhere in the `source()` chain.
fn src_payload<E: Error + 'static>(e: &E) -> String {
    let own = token(&e.to_string());
    let want = EXPECTED_SRC.with(|x| x.borrow().clone());
    if let Some(want) = want {
        let mut cur: Option<&(dyn Error + 'static)> = Some(e);
        while let Some(x) = cur {
            if token(&x.to_string()) == want {
                return want;
            }
            cur = x.source();
        }
    }
    own
}

struct FailAfter {
    buf: Vec<u8>,
    limit: usize,
    msg: String,
    /// the tap's log, and its length when bytes were first refused / when the writer first took fewer
    /// bytes than offered (a correct caller comes back with the rest at once and is refused)
    log: Log,
    refused_at: Option<usize>,
    short_at: Option<usize>,
}

/// `msg == "Z"`: a writer that is simply full (`&mut [u8]`, `Cursor` over a fixed buffer): `Ok(0)` for ever
const ZERO_WRITER: &str = "Z";
const WRITE_ZERO_MSG: &str = "failed to write whole buffer";
impl Write for FailAfter {
    fn write(&mut self, b: &[u8]) -> io::Result<usize> {
        if b.is_empty() {
            return Ok(0);
        }
        let room = self.limit - self.buf.len();
        if room == 0 {
            if self.refused_at.is_none() {
                self.refused_at = Some(self.log.borrow().len());
            }
            if self.msg == ZERO_WRITER {
                return Ok(0);
            }
            return Err(io::Error::new(io::ErrorKind::BrokenPipe, self.msg.clone()));
        }
        let n = room.min(b.len());
        if n < b.len() && self.short_at.is_none() {
            self.short_at = Some(self.log.borrow().len());
        }
        self.buf.extend_from_slice(&b[..n]);
        Ok(n)
    }
    fn flush(&mut self) -> io::Result<()> {
        Ok(())
    }
}

#[derive(Clone, Copy, PartialEq, Debug)]
enum Mode {
    /// whole stream
    W,
    /// step-wise `try_for_some_item`
    S,
    /// step-wise `try_for_some_triple` / `try_for_some_quad`
    S2,
    /// step-wise `for_some_triple` / `for_some_quad`
    F,
}

struct Cx {
    cons: Cons,
    mode: Mode,
    /// whole chain length and position of the adapter followed by `.into_iter()`
    total: usize,
    iter_at: Option<usize>,
}

impl Cx {
    /// is the first adapter of the remaining chain `rest_with_head` the one to call `.into_iter()` on?
    fn iter_here(&self, remaining: usize) -> bool {
        self.iter_at == Some(self.total - remaining)
    }
}

fn sorted(mut v: Vec<It>) -> Vec<It> {
    v.sort();
    v.dedup();
    v
}

/// The store seen through each of its access paths must be the same set as the full scan: after
/// a faulted load "exactly the items before k" have to be visible to every query, not only to `triples()`.
/// Returns the names of the views that disagree with the scan.
fn graph_views<G: Graph>(g: &G, extra: &[u64]) -> Vec<String> {
    use sophia_api::term::matcher::Any;
    let scan = graph_items(g);
    let mut vals: BTreeSet<u64> = scan.iter().map(|i| i.val()).collect();
    vals.extend(extra.iter().copied());
    let shape = |t: Vec<It>| sorted(t);
    let mut bad = vec![];
    let mut check = |name: &str, got: Vec<It>| {
        if shape(got) != scan {
            bad.push(name.to_string());
        }
    };
    let items = |it: &mut dyn Iterator<Item = It>| it.collect::<Vec<It>>();
    check("s__", items(&mut g.triples_matching([iri("x:s")], Any, Any).filter_map(|t| t.ok()).filter_map(|t| val_term(t.o()).map(It::T))));
    check("_p_", items(&mut g.triples_matching(Any, [iri("x:p")], Any).filter_map(|t| t.ok()).filter_map(|t| val_term(t.o()).map(It::T))));
    check("sp_", items(&mut g.triples_matching([iri("x:s")], [iri("x:p")], Any).filter_map(|t| t.ok()).filter_map(|t| val_term(t.o()).map(It::T))));
    let mut o = vec![];
    let mut so = vec![];
    let mut po = vec![];
    let mut spo = vec![];
    for n in &vals {
        o.extend(g.triples_matching(Any, Any, [lit(*n)]).filter_map(|t| t.ok()).filter_map(|t| val_term(t.o()).map(It::T)));
        so.extend(g.triples_matching([iri("x:s")], Any, [lit(*n)]).filter_map(|t| t.ok()).filter_map(|t| val_term(t.o()).map(It::T)));
        po.extend(g.triples_matching(Any, [iri("x:p")], [lit(*n)]).filter_map(|t| t.ok()).filter_map(|t| val_term(t.o()).map(It::T)));
        spo.extend(
            g.triples_matching([iri("x:s")], [iri("x:p")], [lit(*n)]).filter_map(|t| t.ok()).filter_map(|t| val_term(t.o()).map(It::T)),
        );
    }
    check("__o", o);
    check("s_o", so);
    check("_po", po);
    check("spo", spo);
    bad
}

fn dataset_views<D: Dataset>(d: &D, extra: &[It]) -> Vec<String> {
    use sophia_api::term::matcher::Any;
    let scan = dataset_items(d);
    let mut vals: BTreeSet<u64> = scan.iter().map(|i| i.val()).collect();
    let mut gs: BTreeSet<u64> = scan.iter().map(|i| if let It::Q(_, g) = i { *g } else { 0 }).collect();
    for x in extra {
        vals.insert(x.val());
        if let It::Q(_, g) = x {
            gs.insert(*g);
        }
    }
    let gname = |g: u64| if g == 0 { None } else { Some(iri(&format!("x:g{}", g))) };
    let dec = |q: &dyn Fn() -> Option<It>| q();
    let _ = &dec;
    let mut bad = vec![];
    let mut check = |name: &str, got: Vec<It>| {
        if sorted(got) != scan {
            bad.push(name.to_string());
        }
    };
    macro_rules! view {
        ($s:expr, $p:expr, $o:expr, $g:expr) => {
            d.quads_matching($s, $p, $o, $g)
                .filter_map(|q| q.ok())
                .filter_map(|q| val_term(q.o()).map(|n| It::Q(n, g_q(&q))))
                .collect::<Vec<It>>()
        };
    }
    check("s___", view!([iri("x:s")], Any, Any, Any));
    check("_p__", view!(Any, [iri("x:p")], Any, Any));
    check("sp__", view!([iri("x:s")], [iri("x:p")], Any, Any));
    let (mut o, mut so, mut po, mut g_, mut sg, mut pg, mut og, mut spog) = (vec![], vec![], vec![], vec![], vec![], vec![], vec![], vec![]);
    for n in &vals {
        o.extend(view!(Any, Any, [lit(*n)], Any));
        so.extend(view!([iri("x:s")], Any, [lit(*n)], Any));
        po.extend(view!(Any, [iri("x:p")], [lit(*n)], Any));
    }
    for g in &gs {
        g_.extend(view!(Any, Any, Any, [gname(*g)]));
        sg.extend(view!([iri("x:s")], Any, Any, [gname(*g)]));
        pg.extend(view!(Any, [iri("x:p")], Any, [gname(*g)]));
        for n in &vals {
            og.extend(view!(Any, Any, [lit(*n)], [gname(*g)]));
            spog.extend(view!([iri("x:s")], [iri("x:p")], [lit(*n)], [gname(*g)]));
        }
    }
    check("__o_", o);
    check("s_o_", so);
    check("_po_", po);
    check("___g", g_);
    check("s__g", sg);
    check("_p_g", pg);
    check("__og", og);
    check("spog", spog);
    bad
}

fn fin_graph<G: Graph>(g: &G, log: &Log, pre: &[It], notes: &mut Vec<String>) -> String {
    let mut extra: Vec<u64> = pre.iter().map(|i| i.val()).collect();
    extra.extend(log.borrow().iter().map(|i| i.val()));
    for v in graph_views(g, &extra) {
        notes.push(format!("index_{}", v));
    }
    render_items(&graph_items(g))
}

fn fin_dataset<D: Dataset>(d: &D, log: &Log, pre: &[It], notes: &mut Vec<String>) -> String {
    let mut extra: Vec<It> = pre.to_vec();
    extra.extend(log.borrow().iter().copied());
    for v in dataset_views(d, &extra) {
        notes.push(format!("index_{}", v));
    }
    render_items(&dataset_items(d))
}

fn graph_items<G: Graph>(g: &G) -> Vec<It> {
    sorted(g.triples().filter_map(|t| t.ok()).filter_map(|t| val_term(t.o()).map(It::T)).collect())
}

fn dataset_items<D: Dataset>(d: &D) -> Vec<It> {
    sorted(d.quads().filter_map(|q| q.ok()).filter_map(|q| val_term(q.o()).map(|n| It::Q(n, g_q(&q)))).collect())
}

type SmallGraph = sophia_inmem::graph::small::LightGraph;

fn small_base(nlit: usize) -> SmallGraph {
    let mut g = SmallGraph::new();
    g.insert_triple([iri("x:s"), iri("x:p"), iri("x:f")]).unwrap();
    for i in 0..nlit {
        g.insert_triple(t3(1_000_000 + i as u64)).unwrap();
    }
    g
}

/// how many more terms fit into a small graph that holds the base triple and `nlit` distinct
/// literal objects: measured by inserting until `TermIndexFullError` (nothing about the index
/// width or the interning scheme is assumed; `guess` only speeds the measurement up)
fn probe_room(nlit: usize) -> usize {
    let guess = (u16::MAX as usize).saturating_sub(1000);
    let mut g = small_base(nlit);
    let mut k = 0usize;
    let mut bulk_ok = true;
    while k + 3 <= guess {
        let t = [iri(&format!("f:{}", k)), iri(&format!("f:{}", k + 1)), iri(&format!("f:{}", k + 2))];
        if g.insert_triple(t).is_err() {
            bulk_ok = false; // smaller than guessed: an unknown part of this triple was interned
            break;
        }
        k += 3;
    }
    if !bulk_ok {
        g = small_base(nlit);
        k = 0;
    }
    loop {
        if g.insert_triple([iri("x:s"), iri("x:p"), iri(&format!("f:{}", k))]).is_err() {
            return k;
        }
        k += 1;
        if k > 10_000_000 {
            return usize::MAX; // not a small index at all
        }
    }
}

thread_local! {
    /// `Some(room0)` if measured: an empty-but-for-the-base graph has `room0` free slots and every new
    /// distinct object literal takes exactly one (checked for 1 and 3 literals); `None` otherwise
    static SMALL_CALIBRATION: RefCell<Option<Option<usize>>> = const { RefCell::new(None) };
}

fn small_calibration() -> Option<usize> {
    SMALL_CALIBRATION.with(|c| {
        let mut c = c.borrow_mut();
        if c.is_none() {
            let r0 = probe_room(0);
            let ok = r0 != usize::MAX && r0 >= 64 && probe_room(1) + 1 == r0 && probe_room(3) + 3 == r0;
            *c = Some(if ok { Some(r0) } else { None });
        }
        c.unwrap()
    })
}

/// a small-index graph with exactly `free` unused term slots, already holding `pre` and knowing
/// `x:s`, `x:p`; `None` if the calibration does not support the construction
fn small_graph(free: usize, pre: &[It]) -> Option<SmallGraph> {
    let room0 = small_calibration()?;
    let mut g = SmallGraph::new();
    g.insert_triple([iri("x:s"), iri("x:p"), iri("x:f")]).unwrap();
    let mut seen = BTreeSet::new();
    for p in pre {
        seen.insert(p.val());
        g.insert_triple(t3(p.val())).unwrap();
    }
    let need = room0.checked_sub(seen.len())?.checked_sub(free)?;
    let mut k = 0usize;
    while need - k >= 3 {
        g.insert_triple([iri(&format!("f:{}", k)), iri(&format!("f:{}", k + 1)), iri(&format!("f:{}", k + 2))]).ok()?;
        k += 3;
    }
    while k < need {
        g.insert_triple([iri("x:s"), iri("x:p"), iri(&format!("f:{}", k))]).ok()?;
        k += 1;
    }
    Some(g)
}

fn index_full(_: &sophia_inmem::index::TermIndexFullError) -> String {
    "index-full".into()
}

fn pre_t<G: MutableGraph>(g: &mut G, pre: &[It]) {
    for p in pre {
        let _ = g.insert_triple(t3(p.val()));
    }
}

fn pre_q<D: MutableDataset>(d: &mut D, pre: &[It]) {
    for p in pre {
        if let It::Q(n, g) = p {
            let _ = d.insert_quad(q4(*n, *g));
        }
    }
}

fn consume_t<S: TripleSource>(s: S, cx: &Cx) -> Obs
where
    S::Error: 'static,
{
    let log: Log = Rc::new(RefCell::new(vec![]));
    let mut src = TapT { inner: s, log: log.clone() };
    let mut notes = vec![];
    let mut refused_at = None;
    let (ret, val, steps, fin) = match &cx.cons {
        Cons::Try(j, e) => {
            let mut own: Vec<It> = vec![];
            let mut calls = 0usize;
            let (ret, steps) = if cx.mode != Mode::W {
                let mut steps = 0usize;
                let ret = loop {
                    let r = if cx.mode == Mode::S2 {
                        src.try_for_some_triple(|x| {
                            own.push(It::T(val_t(&x)));
                            let c = calls;
                            calls += 1;
                            if Some(c) == *j { Err(SinkErr(e.clone())) } else { Ok(()) }
                        })
                    } else {
                        src.try_for_some_item(|x| {
                            own.push(It::T(val_t(&x)));
                            let c = calls;
                            calls += 1;
                            if Some(c) == *j { Err(SinkErr(e.clone())) } else { Ok(()) }
                        })
                    };
                    match r {
                        Ok(true) => steps += 1,
                        Ok(false) => break Ret::Ok,
                        r => break ret_of(&r, |e| e.0.clone()),
                    }
                    if steps > 100_000 {
                        break Ret::Src("never-ending".into());
                    }
                };
                (ret, Some(steps))
            } else {
                let r = src.try_for_each_item(|x| {
                    own.push(It::T(val_t(&x)));
                    let c = calls;
                    calls += 1;
                    if Some(c) == *j { Err(SinkErr(e.clone())) } else { Ok(()) }
                });
                (ret_of(&r, |e| e.0.clone()), None)
            };
            if own != *log.borrow() {
                notes.push("tap".into());
            }
            (ret, None, steps, "-".to_string())
        }
        Cons::For => {
            let mut own: Vec<It> = vec![];
            let (r, steps) = if cx.mode == Mode::F {
                // `for_some_triple` until it returns `Ok(false)` or an error
                let mut steps = 0usize;
                let r = loop {
                    match src.for_some_triple(|x| own.push(It::T(val_t(&x)))) {
                        Ok(true) => steps += 1,
                        Ok(false) => break Ok(()),
                        Err(e) => break Err(e),
                    }
                    if steps > 100_000 {
                        notes.push("never_ending".into());
                        break Ok(());
                    }
                };
                (r, Some(steps))
            } else {
                (src.for_each_item(|x| own.push(It::T(val_t(&x)))), None)
            };
            if own != *log.borrow() {
                notes.push("tap".into());
            }
            (
                match r {
                    Ok(()) => Ret::Ok,
                    Err(e) => Ret::Src(src_payload(&e)),
                },
                None,
                steps,
                "-".to_string(),
            )
        }
        Cons::Vec => {
            let r: StreamResult<Vec<T3>, S::Error, Infallible> = src.collect_triples();
            let fin = match &r {
                Ok(v) => render_items(&v.iter().map(|x| It::T(val_t(x))).collect::<Vec<_>>()),
                Err(_) => "-".into(),
            };
            (ret_of(&r, |_| "infallible".into()), None, None, fin)
        }
        Cons::Hs => {
            let r: StreamResult<HashSet<T3>, S::Error, Infallible> = src.collect_triples();
            let fin = match &r {
                Ok(g) => fin_graph(g, &log, &[], &mut notes),
                Err(_) => "-".into(),
            };
            (ret_of(&r, |_| "infallible".into()), None, None, fin)
        }
        Cons::Bs => {
            let r: StreamResult<BTreeSet<T3>, S::Error, Infallible> = src.collect_triples();
            let fin = match &r {
                Ok(g) => fin_graph(g, &log, &[], &mut notes),
                Err(_) => "-".into(),
            };
            (ret_of(&r, |_| "infallible".into()), None, None, fin)
        }
        Cons::Lg => {
            let r: StreamResult<sophia_inmem::graph::LightGraph, _, _> = src.collect_triples();
            let fin = match &r {
                Ok(g) => fin_graph(g, &log, &[], &mut notes),
                Err(_) => "-".into(),
            };
            (ret_of(&r, index_full), None, None, fin)
        }
        Cons::Fg => {
            let r: StreamResult<sophia_inmem::graph::FastGraph, _, _> = src.collect_triples();
            let fin = match &r {
                Ok(g) => fin_graph(g, &log, &[], &mut notes),
                Err(_) => "-".into(),
            };
            (ret_of(&r, index_full), None, None, fin)
        }
        Cons::Add(pre) => {
            let mut g = sophia_inmem::graph::LightGraph::new();
            pre_t(&mut g, pre);
            let r = src.add_to_graph(&mut g);
            (ret_of(&r, index_full), r.ok(), None, fin_graph(&g, &log, pre, &mut notes))
        }
        Cons::AddH(pre) => {
            let mut g: HashSet<T3> = HashSet::new();
            pre_t(&mut g, pre);
            let r = src.add_to_graph(&mut g);
            (ret_of(&r, |_| "infallible".into()), r.ok(), None, fin_graph(&g, &log, pre, &mut notes))
        }
        Cons::Ins(pre) => {
            let mut g = sophia_inmem::graph::FastGraph::new();
            pre_t(&mut g, pre);
            let r = g.insert_all(src);
            (ret_of(&r, index_full), r.ok(), None, fin_graph(&g, &log, pre, &mut notes))
        }
        Cons::Rem(pre) => {
            let mut g = sophia_inmem::graph::LightGraph::new();
            pre_t(&mut g, pre);
            let r = g.remove_all(src);
            (ret_of(&r, index_full), r.ok(), None, fin_graph(&g, &log, pre, &mut notes))
        }
        Cons::RemB(pre) => {
            let mut g: BTreeSet<T3> = BTreeSet::new();
            pre_t(&mut g, pre);
            let r = g.remove_all(src);
            (ret_of(&r, |_| "infallible".into()), r.ok(), None, fin_graph(&g, &log, pre, &mut notes))
        }
        Cons::Small(free, pre) => {
            let Some(mut g) = small_graph(*free, pre) else { return Obs::bad("small-uncalibrated") };
            let r = g.insert_all(src);
            (ret_of(&r, index_full), r.ok(), None, fin_graph(&g, &log, pre, &mut notes))
        }
        Cons::Dsg(gn, pre) | Cons::DsgRem(gn, pre) => {
            let mut d = sophia_inmem::dataset::LightDataset::new();
            pre_q(&mut d, pre);
            let name = if *gn == 0 { None } else { Some(iri(&format!("x:g{}", gn))) };
            let r = {
                let mut g = d.graph_mut(name);
                if matches!(&cx.cons, Cons::Dsg(..)) { g.insert_all(src) } else { g.remove_all(src) }
            };
            let mut extra: Vec<It> = pre.clone();
            extra.extend(log.borrow().iter().map(|i| It::Q(i.val(), *gn)));
            for v in dataset_views(&d, &extra) {
                notes.push(format!("index_{}", v));
            }
            (ret_of(&r, index_full), r.ok(), None, render_items(&dataset_items(&d)))
        }
        Cons::Gad(..) => return Obs::bad("bad-consumer"),
        Cons::Ser(limit, e) => {
            let mut w = FailAfter { buf: vec![], limit: *limit, msg: e.clone(), log: log.clone(), refused_at: None, short_at: None };
            let ret = {
                let mut ser = sophia_turtle::serializer::nt::NtSerializer::new(&mut w);
                let r = ser.serialize_triples(src).map(|_| ());
                ret_of(&r, |e| token(&e.to_string()))
            };
            // the first moment the writer could not take what it was offered
            refused_at = w.short_at.or(w.refused_at);
            (ret, None, None, hex_bytes(&w.buf))
        }
        Cons::Rio(kind, limit, e, _) => {
            let mut w = FailAfter { buf: vec![], limit: *limit, msg: e.clone(), log: log.clone(), refused_at: None, short_at: None };
            let ret = match kind {
                RioKind::Ttl => {
                    let mut ser = sophia_turtle::serializer::turtle::TurtleSerializer::new(&mut w);
                    let r = ser.serialize_triples(src).map(|_| ());
                    ret_of(&r, |e| token(&e.to_string()))
                }
                RioKind::Xml => {
                    let mut ser = sophia_xml::serializer::RdfXmlSerializer::new(&mut w);
                    let r = ser.serialize_triples(src).map(|_| ());
                    ret_of(&r, |e| token(&e.to_string()))
                }
                RioKind::Trig => return Obs::bad("bad-consumer"),
            };
            // the first moment the writer could not take what it was offered
            refused_at = w.short_at.or(w.refused_at);
            (ret, None, None, "-".to_string())
        }
    };
    let log = log.borrow().clone();
    Obs { log, ret, val, steps, fin, notes, refused_at }
}

fn consume_q<S: QuadSource>(s: S, cx: &Cx) -> Obs
where
    S::Error: 'static,
{
    let log: Log = Rc::new(RefCell::new(vec![]));
    let mut src = TapQ { inner: s, log: log.clone() };
    let mut notes = vec![];
    let mut refused_at = None;
    let (ret, val, steps, fin) = match &cx.cons {
        Cons::Try(j, e) => {
            let mut own: Vec<It> = vec![];
            let mut calls = 0usize;
            let (ret, steps) = if cx.mode != Mode::W {
                let mut steps = 0usize;
                let ret = loop {
                    let r = if cx.mode == Mode::S2 {
                        src.try_for_some_quad(|x| {
                            own.push(It::Q(val_q(&x), g_q(&x)));
                            let c = calls;
                            calls += 1;
                            if Some(c) == *j { Err(SinkErr(e.clone())) } else { Ok(()) }
                        })
                    } else {
                        src.try_for_some_item(|x| {
                            own.push(It::Q(val_q(&x), g_q(&x)));
                            let c = calls;
                            calls += 1;
                            if Some(c) == *j { Err(SinkErr(e.clone())) } else { Ok(()) }
                        })
                    };
                    match r {
                        Ok(true) => steps += 1,
                        Ok(false) => break Ret::Ok,
                        r => break ret_of(&r, |e| e.0.clone()),
                    }
                    if steps > 100_000 {
                        break Ret::Src("never-ending".into());
                    }
                };
                (ret, Some(steps))
            } else {
                let r = src.try_for_each_item(|x| {
                    own.push(It::Q(val_q(&x), g_q(&x)));
                    let c = calls;
                    calls += 1;
                    if Some(c) == *j { Err(SinkErr(e.clone())) } else { Ok(()) }
                });
                (ret_of(&r, |e| e.0.clone()), None)
            };
            if own != *log.borrow() {
                notes.push("tap".into());
            }
            (ret, None, steps, "-".to_string())
        }
        Cons::For => {
            let mut own: Vec<It> = vec![];
            let (r, steps) = if cx.mode == Mode::F {
                // `for_some_quad` until it returns `Ok(false)` or an error
                let mut steps = 0usize;
                let r = loop {
                    match src.for_some_quad(|x| own.push(It::Q(val_q(&x), g_q(&x)))) {
                        Ok(true) => steps += 1,
                        Ok(false) => break Ok(()),
                        Err(e) => break Err(e),
                    }
                    if steps > 100_000 {
                        notes.push("never_ending".into());
                        break Ok(());
                    }
                };
                (r, Some(steps))
            } else {
                (src.for_each_item(|x| own.push(It::Q(val_q(&x), g_q(&x)))), None)
            };
            if own != *log.borrow() {
                notes.push("tap".into());
            }
            (
                match r {
                    Ok(()) => Ret::Ok,
                    Err(e) => Ret::Src(src_payload(&e)),
                },
                None,
                steps,
                "-".to_string(),
            )
        }
        Cons::Vec => {
            let r: StreamResult<Vec<Q4>, S::Error, Infallible> = src.collect_quads();
            let fin = match &r {
                Ok(v) => render_items(&v.iter().map(|x| It::Q(val_q(x), g_q(x))).collect::<Vec<_>>()),
                Err(_) => "-".into(),
            };
            (ret_of(&r, |_| "infallible".into()), None, None, fin)
        }
        Cons::Hs => {
            let r: StreamResult<HashSet<Q4>, S::Error, Infallible> = src.collect_quads();
            let fin = match &r {
                Ok(g) => fin_dataset(g, &log, &[], &mut notes),
                Err(_) => "-".into(),
            };
            (ret_of(&r, |_| "infallible".into()), None, None, fin)
        }
        Cons::Bs => {
            let r: StreamResult<BTreeSet<Q4>, S::Error, Infallible> = src.collect_quads();
            let fin = match &r {
                Ok(g) => fin_dataset(g, &log, &[], &mut notes),
                Err(_) => "-".into(),
            };
            (ret_of(&r, |_| "infallible".into()), None, None, fin)
        }
        Cons::Lg => {
            let r: StreamResult<sophia_inmem::dataset::LightDataset, _, _> = src.collect_quads();
            let fin = match &r {
                Ok(g) => fin_dataset(g, &log, &[], &mut notes),
                Err(_) => "-".into(),
            };
            (ret_of(&r, index_full), None, None, fin)
        }
        Cons::Fg => {
            let r: StreamResult<sophia_inmem::dataset::FastDataset, _, _> = src.collect_quads();
            let fin = match &r {
                Ok(g) => fin_dataset(g, &log, &[], &mut notes),
                Err(_) => "-".into(),
            };
            (ret_of(&r, index_full), None, None, fin)
        }
        Cons::Add(pre) => {
            let mut g = sophia_inmem::dataset::LightDataset::new();
            pre_q(&mut g, pre);
            let r = src.add_to_dataset(&mut g);
            (ret_of(&r, index_full), r.ok(), None, fin_dataset(&g, &log, pre, &mut notes))
        }
        Cons::AddH(pre) => {
            let mut g: HashSet<Q4> = HashSet::new();
            pre_q(&mut g, pre);
            let r = src.add_to_dataset(&mut g);
            (ret_of(&r, |_| "infallible".into()), r.ok(), None, fin_dataset(&g, &log, pre, &mut notes))
        }
        Cons::Ins(pre) => {
            let mut g = sophia_inmem::dataset::FastDataset::new();
            pre_q(&mut g, pre);
            let r = g.insert_all(src);
            (ret_of(&r, index_full), r.ok(), None, fin_dataset(&g, &log, pre, &mut notes))
        }
        Cons::Rem(pre) => {
            let mut g = sophia_inmem::dataset::LightDataset::new();
            pre_q(&mut g, pre);
            let r = g.remove_all(src);
            (ret_of(&r, index_full), r.ok(), None, fin_dataset(&g, &log, pre, &mut notes))
        }
        Cons::RemB(pre) => {
            let mut g: BTreeSet<Q4> = BTreeSet::new();
            pre_q(&mut g, pre);
            let r = g.remove_all(src);
            (ret_of(&r, |_| "infallible".into()), r.ok(), None, fin_dataset(&g, &log, pre, &mut notes))
        }
        Cons::Small(..) => return Obs::bad("small-needs-triples"),
        Cons::Gad(variant, pre) => {
            use sophia_api::dataset::adapter::GraphAsDatasetMutationError as GadErr;
            let pay = |e: &GadErr<sophia_inmem::index::TermIndexFullError>| match e {
                GadErr::OnlyDefaultGraph => "only-default-graph".to_string(),
                GadErr::Graph(_) => "index-full".to_string(),
            };
            match variant {
                0 => {
                    let mut g = sophia_inmem::graph::LightGraph::new();
                    pre_t(&mut g, pre);
                    let r = g.as_dataset_mut().insert_all(src);
                    (ret_of(&r, pay), r.ok(), None, fin_graph(&g, &log, pre, &mut notes))
                }
                1 => {
                    let mut g = sophia_inmem::graph::FastGraph::new();
                    pre_t(&mut g, pre);
                    let mut d = g.into_dataset();
                    let r = src.add_to_dataset(&mut d);
                    let g = d.unwrap();
                    (ret_of(&r, pay), r.ok(), None, fin_graph(&g, &log, pre, &mut notes))
                }
                _ => {
                    // element-wise, for comparison
                    let mut g = sophia_inmem::graph::LightGraph::new();
                    pre_t(&mut g, pre);
                    let mut c = 0usize;
                    let r = {
                        let mut d = g.as_dataset_mut();
                        src.try_for_each_quad(|q| {
                            d.insert_quad(q).map(|b| {
                                if b {
                                    c += 1;
                                }
                            })
                        })
                    };
                    let val = r.as_ref().ok().map(|_| c);
                    (ret_of(&r, pay), val, None, fin_graph(&g, &log, pre, &mut notes))
                }
            }
        }
        Cons::Dsg(..) | Cons::DsgRem(..) => return Obs::bad("bad-consumer"),
        Cons::Ser(limit, e) => {
            let mut w = FailAfter { buf: vec![], limit: *limit, msg: e.clone(), log: log.clone(), refused_at: None, short_at: None };
            let ret = {
                let mut ser = sophia_turtle::serializer::nq::NqSerializer::new(&mut w);
                let r = ser.serialize_quads(src).map(|_| ());
                ret_of(&r, |e| token(&e.to_string()))
            };
            // the first moment the writer could not take what it was offered
            refused_at = w.short_at.or(w.refused_at);
            (ret, None, None, hex_bytes(&w.buf))
        }
        Cons::Rio(kind, limit, e, _) => {
            let mut w = FailAfter { buf: vec![], limit: *limit, msg: e.clone(), log: log.clone(), refused_at: None, short_at: None };
            let ret = match kind {
                RioKind::Trig => {
                    let mut ser = sophia_turtle::serializer::trig::TrigSerializer::new(&mut w);
                    let r = ser.serialize_quads(src).map(|_| ());
                    ret_of(&r, |e| token(&e.to_string()))
                }
                _ => return Obs::bad("bad-consumer"),
            };
            // the first moment the writer could not take what it was offered
            refused_at = w.short_at.or(w.refused_at);
            (ret, None, None, "-".to_string())
        }
    };
    let log = log.borrow().clone();
    Obs { log, ret, val, steps, fin, notes, refused_at }
}

// ------------------------------------------------------------------ building the pipeline

fn next_t<S: TripleSource + 'static>(s: S, rest: &[Adapter], cx: &Cx) -> Obs {
    if rest.is_empty() { consume_t(s, cx) } else { start_t(BoxT(Box::new(EraseT(s))), rest, cx) }
}

fn next_q<S: QuadSource + 'static>(s: S, rest: &[Adapter], cx: &Cx) -> Obs {
    if rest.is_empty() { consume_q(s, cx) } else { start_q(BoxQ(Box::new(EraseQ(s))), rest, cx) }
}

fn start_t<S: TripleSource + 'static>(s: S, chain: &[Adapter], cx: &Cx) -> Obs {
    let Some((a, rest)) = chain.split_first() else { return consume_t(s, cx) };
    let it = cx.iter_here(chain.len());
    match *a {
        Adapter::Filter(W::I, p) => next_t(s.filter_items(move |t| p.eval(val_t(t))), rest, cx),
        Adapter::Filter(W::T, p) => next_t(s.filter_triples(move |t| p.eval(val_t(t))), rest, cx),
        Adapter::Map(W::I, Fun::Add(k) | Fun::ToTriple(k)) => { let x = s.map_items(move |t| t3(val_t(&t) + k)); if it { next_t(x.into_iter(), rest, cx) } else { next_t(x, rest, cx) } }
        Adapter::Map(W::T, Fun::Add(k) | Fun::ToTriple(k)) => { let x = s.map_triples(move |t| t3(val_t(&t) + k)); if it { next_t(x.into_iter(), rest, cx) } else { next_t(x, rest, cx) } }
        Adapter::Map(W::I, Fun::ToQuad(k, g)) => { let x = s.map_items(move |t| q4(val_t(&t) + k, g)); if it { next_q(x.into_iter(), rest, cx) } else { next_q(x, rest, cx) } }
        Adapter::Map(W::T, Fun::ToQuad(k, g)) => { let x = s.map_triples(move |t| q4(val_t(&t) + k, g)); if it { next_q(x.into_iter(), rest, cx) } else { next_q(x, rest, cx) } }
        Adapter::FilterMap(W::I, p, Fun::Add(k) | Fun::ToTriple(k)) => {
            let x = s.filter_map_items(move |t| {
                let v = val_t(&t);
                p.eval(v).then(|| t3(v + k))
            });
            if it { next_t(x.into_iter(), rest, cx) } else { next_t(x, rest, cx) }
        }
        Adapter::FilterMap(W::T, p, Fun::Add(k) | Fun::ToTriple(k)) => {
            let x = s.filter_map_triples(move |t| {
                let v = val_t(&t);
                p.eval(v).then(|| t3(v + k))
            });
            if it { next_t(x.into_iter(), rest, cx) } else { next_t(x, rest, cx) }
        }
        Adapter::FilterMap(W::I, p, Fun::ToQuad(k, g)) => {
            let x = s.filter_map_items(move |t| {
                let v = val_t(&t);
                p.eval(v).then(|| q4(v + k, g))
            });
            if it { next_q(x.into_iter(), rest, cx) } else { next_q(x, rest, cx) }
        }
        Adapter::FilterMap(W::T, p, Fun::ToQuad(k, g)) => {
            let x = s.filter_map_triples(move |t| {
                let v = val_t(&t);
                p.eval(v).then(|| q4(v + k, g))
            });
            if it { next_q(x.into_iter(), rest, cx) } else { next_q(x, rest, cx) }
        }
        Adapter::ToQuads => next_q(s.to_quads(), rest, cx),
        _ if it => Obs::bad("bad-chain"),
        _ => Obs::bad("bad-chain"),
    }
}

fn start_q<S: QuadSource + 'static>(s: S, chain: &[Adapter], cx: &Cx) -> Obs {
    let Some((a, rest)) = chain.split_first() else { return consume_q(s, cx) };
    let it = cx.iter_here(chain.len());
    match *a {
        Adapter::Filter(W::I, p) => next_q(s.filter_items(move |q| p.eval(val_q(q))), rest, cx),
        Adapter::Filter(W::Q, p) => next_q(s.filter_quads(move |q| p.eval(val_q(q))), rest, cx),
        Adapter::Map(W::I, Fun::Add(k)) => { let x = s.map_items(move |q| q4(val_q(&q) + k, g_q(&q))); if it { next_q(x.into_iter(), rest, cx) } else { next_q(x, rest, cx) } }
        Adapter::Map(W::Q, Fun::Add(k)) => { let x = s.map_quads(move |q| q4(val_q(&q) + k, g_q(&q))); if it { next_q(x.into_iter(), rest, cx) } else { next_q(x, rest, cx) } }
        Adapter::Map(W::I, Fun::ToQuad(k, g)) => { let x = s.map_items(move |q| q4(val_q(&q) + k, g)); if it { next_q(x.into_iter(), rest, cx) } else { next_q(x, rest, cx) } }
        Adapter::Map(W::Q, Fun::ToQuad(k, g)) => { let x = s.map_quads(move |q| q4(val_q(&q) + k, g)); if it { next_q(x.into_iter(), rest, cx) } else { next_q(x, rest, cx) } }
        Adapter::Map(W::I, Fun::ToTriple(k)) => { let x = s.map_items(move |q| t3(val_q(&q) + k)); if it { next_t(x.into_iter(), rest, cx) } else { next_t(x, rest, cx) } }
        Adapter::Map(W::Q, Fun::ToTriple(k)) => { let x = s.map_quads(move |q| t3(val_q(&q) + k)); if it { next_t(x.into_iter(), rest, cx) } else { next_t(x, rest, cx) } }
        Adapter::FilterMap(W::I, p, Fun::Add(k)) => {
            let x = s.filter_map_items(move |q| {
                let v = val_q(&q);
                p.eval(v).then(|| q4(v + k, g_q(&q)))
            });
            if it { next_q(x.into_iter(), rest, cx) } else { next_q(x, rest, cx) }
        }
        Adapter::FilterMap(W::Q, p, Fun::Add(k)) => {
            let x = s.filter_map_quads(move |q| {
                let v = val_q(&q);
                p.eval(v).then(|| q4(v + k, g_q(&q)))
            });
            if it { next_q(x.into_iter(), rest, cx) } else { next_q(x, rest, cx) }
        }
        Adapter::FilterMap(W::I, p, Fun::ToQuad(k, g)) => {
            let x = s.filter_map_items(move |q| {
                let v = val_q(&q);
                p.eval(v).then(|| q4(v + k, g))
            });
            if it { next_q(x.into_iter(), rest, cx) } else { next_q(x, rest, cx) }
        }
        Adapter::FilterMap(W::Q, p, Fun::ToQuad(k, g)) => {
            let x = s.filter_map_quads(move |q| {
                let v = val_q(&q);
                p.eval(v).then(|| q4(v + k, g))
            });
            if it { next_q(x.into_iter(), rest, cx) } else { next_q(x, rest, cx) }
        }
        Adapter::FilterMap(W::I, p, Fun::ToTriple(k)) => {
            let x = s.filter_map_items(move |q| {
                let v = val_q(&q);
                p.eval(v).then(|| t3(v + k))
            });
            if it { next_t(x.into_iter(), rest, cx) } else { next_t(x, rest, cx) }
        }
        Adapter::FilterMap(W::Q, p, Fun::ToTriple(k)) => {
            let x = s.filter_map_quads(move |q| {
                let v = val_q(&q);
                p.eval(v).then(|| t3(v + k))
            });
            if it { next_t(x.into_iter(), rest, cx) } else { next_t(x, rest, cx) }
        }
        Adapter::ToTriples => next_t(s.to_triples(), rest, cx),
        _ if it => Obs::bad("bad-chain"),
        _ => Obs::bad("bad-chain"),
    }
}

// ------------------------------------------------------------------ documents

#[derive(Clone, Copy, PartialEq, Debug)]
enum Fmt {
    Nt,
    Ttl,
    Nq,
    Trig,
    Gnq,
    Gtrig,
}

impl Fmt {
    fn name(self) -> &'static str {
        match self {
            Fmt::Nt => "nt",
            Fmt::Ttl => "ttl",
            Fmt::Nq => "nq",
            Fmt::Trig => "trig",
            Fmt::Gnq => "gnq",
            Fmt::Gtrig => "gtrig",
        }
    }
    fn parse(s: &str) -> Option<Fmt> {
        Some(match s {
            "nt" => Fmt::Nt,
            "ttl" => Fmt::Ttl,
            "nq" => Fmt::Nq,
            "trig" => Fmt::Trig,
            "gnq" => Fmt::Gnq,
            "gtrig" => Fmt::Gtrig,
            _ => return None,
        })
    }
    fn quads(self) -> bool {
        !matches!(self, Fmt::Nt | Fmt::Ttl)
    }
}

fn run_doc(fmt: Fmt, doc: Vec<u8>, chain: &[Adapter], cx: &Cx) -> Obs {
    let data = Cursor::new(doc);
    match fmt {
        Fmt::Nt => start_t(sophia_turtle::parser::nt::NTriplesParser {}.parse(data), chain, cx),
        Fmt::Ttl => start_t(sophia_turtle::parser::turtle::TurtleParser { base: None }.parse(data), chain, cx),
        // the quad parsers are erased at once (keeps the number of static pipelines manageable),
        // except that an empty chain consumes them raw
        Fmt::Nq => {
            let s = sophia_turtle::parser::nq::NQuadsParser {}.parse(data);
            if chain.is_empty() { consume_q(s, cx) } else { start_q(BoxQ(Box::new(EraseQ(s))), chain, cx) }
        }
        Fmt::Trig => {
            let s = sophia_turtle::parser::trig::TriGParser { base: None }.parse(data);
            if chain.is_empty() { consume_q(s, cx) } else { start_q(BoxQ(Box::new(EraseQ(s))), chain, cx) }
        }
        Fmt::Gnq => {
            let s = sophia_turtle::parser::gnq::GNQuadsParser {}.parse(data);
            if chain.is_empty() { consume_q(s, cx) } else { start_q(BoxQ(Box::new(EraseQ(s))), chain, cx) }
        }
        Fmt::Gtrig => {
            let s = sophia_turtle::parser::gtrig::GTriGParser { base: None }.parse(data);
            if chain.is_empty() { consume_q(s, cx) } else { start_q(BoxQ(Box::new(EraseQ(s))), chain, cx) }
        }
    }
}

// observation of the batch structure with the third-party parsers alone (no /repo code)
mod observe {
    use super::{hex, It, Script};
    use rio_api::model as rm;
    use rio_api::parser::{GeneralizedQuadsParser, QuadsParser, TriplesParser};

    fn lit_val(l: &rm::Literal<'_>) -> u64 {
        match l {
            rm::Literal::Typed { value, .. } => value.parse().expect("shape"),
            _ => panic!("shape"),
        }
    }
    fn term_val(t: &rm::Term<'_>) -> u64 {
        match t {
            rm::Term::Literal(l) => lit_val(l),
            _ => panic!("shape"),
        }
    }
    fn gname(g: &Option<rm::GraphName<'_>>) -> u64 {
        match g {
            None => 0,
            Some(rm::GraphName::NamedNode(n)) => n.iri.strip_prefix("x:g").and_then(|x| x.parse().ok()).expect("shape"),
            _ => panic!("shape"),
        }
    }
    pub fn triples<P: TriplesParser>(mut p: P) -> Script
    where
        P::Error: std::fmt::Display,
    {
        let mut sc = vec![];
        while !p.is_end() && sc.len() < 1000 {
            let mut items = vec![];
            let r: Result<(), P::Error> = p.parse_step(&mut |t| {
                items.push(It::T(term_val(&t.object)));
                Ok(())
            });
            match r {
                Ok(()) => sc.push((items, None)),
                Err(e) => {
                    sc.push((items, Some(hex(&e.to_string()))));
                    break;
                }
            }
        }
        sc
    }
    pub fn quads<P: QuadsParser>(mut p: P) -> Script
    where
        P::Error: std::fmt::Display,
    {
        let mut sc = vec![];
        while !p.is_end() && sc.len() < 1000 {
            let mut items = vec![];
            let r: Result<(), P::Error> = p.parse_step(&mut |q| {
                items.push(It::Q(term_val(&q.object), gname(&q.graph_name)));
                Ok(())
            });
            match r {
                Ok(()) => sc.push((items, None)),
                Err(e) => {
                    sc.push((items, Some(hex(&e.to_string()))));
                    break;
                }
            }
        }
        sc
    }
    pub fn gquads<P: GeneralizedQuadsParser>(mut p: P) -> Script
    where
        P::Error: std::fmt::Display,
    {
        let mut sc = vec![];
        while !p.is_end() && sc.len() < 1000 {
            let mut items = vec![];
            let r: Result<(), P::Error> = p.parse_step(&mut |q| {
                let n = match &q.object {
                    rm::GeneralizedTerm::Literal(l) => lit_val(l),
                    _ => panic!("shape"),
                };
                let g = match &q.graph_name {
                    None => 0,
                    Some(rm::GeneralizedTerm::NamedNode(n)) => {
                        n.iri.strip_prefix("x:g").and_then(|x| x.parse().ok()).expect("shape")
                    }
                    _ => panic!("shape"),
                };
                items.push(It::Q(n, g));
                Ok(())
            });
            match r {
                Ok(()) => sc.push((items, None)),
                Err(e) => {
                    sc.push((items, Some(hex(&e.to_string()))));
                    break;
                }
            }
        }
        sc
    }
}

/// where the third-party formatter alone (no /repo code) hits a writer that accepts `limit` bytes,
/// when fed the items `xs` in order: the plan given to the model for the streaming serializers
fn observe_plan(kind: RioKind, xs: &[It], limit: usize) -> Plan {
    use rio_api::formatter::{QuadsFormatter, TriplesFormatter};
    use rio_api::model as rm;
    struct W {
        n: usize,
        limit: usize,
    }
    impl Write for W {
        fn write(&mut self, b: &[u8]) -> io::Result<usize> {
            if b.is_empty() {
                return Ok(0);
            }
            let room = self.limit - self.n;
            if room == 0 {
                return Err(io::Error::new(io::ErrorKind::BrokenPipe, "full"));
            }
            let k = room.min(b.len());
            self.n += k;
            Ok(k)
        }
        fn flush(&mut self) -> io::Result<()> {
            Ok(())
        }
    }
    let w = W { n: 0, limit };
    let vals: Vec<String> = xs.iter().map(|x| x.val().to_string()).collect();
    let gnames: Vec<String> = xs
        .iter()
        .map(|x| match x {
            It::Q(_, g) if *g > 0 => format!("x:g{}", g),
            _ => String::new(),
        })
        .collect();
    let triple = |j: usize| rm::Triple {
        subject: rm::NamedNode { iri: "x:s" }.into(),
        predicate: rm::NamedNode { iri: "x:p" },
        object: rm::Literal::Typed { value: &vals[j], datatype: rm::NamedNode { iri: XSD_INTEGER } }.into(),
    };
    match kind {
        RioKind::Ttl => {
            let mut f = rio_turtle::TurtleFormatter::new(w);
            for j in 0..xs.len() {
                if f.format(&triple(j)).is_err() {
                    return Plan::Call(j);
                }
            }
            if f.finish().is_err() { Plan::Finish } else { Plan::Never }
        }
        RioKind::Xml => {
            let Ok(mut f) = rio_xml::RdfXmlFormatter::new(w) else { return Plan::New };
            for j in 0..xs.len() {
                if f.format(&triple(j)).is_err() {
                    return Plan::Call(j);
                }
            }
            if f.finish().is_err() { Plan::Finish } else { Plan::Never }
        }
        RioKind::Trig => {
            let mut f = rio_turtle::TriGFormatter::new(w);
            for j in 0..xs.len() {
                let t = triple(j);
                let q = rm::Quad {
                    subject: t.subject,
                    predicate: t.predicate,
                    object: t.object,
                    graph_name: if gnames[j].is_empty() { None } else { Some(rm::NamedNode { iri: &gnames[j] }.into()) },
                };
                if f.format(&q).is_err() {
                    return Plan::Call(j);
                }
            }
            if f.finish().is_err() { Plan::Finish } else { Plan::Never }
        }
    }
}

/// streaming-serializer consumers for the delivered items `xs` (no source fault assumed for the
/// plan: a source fault only cuts the run short before the planned failure or not at all), with
/// writer limits spread over the output
fn rio_consumers(rng: &mut Rng, quads: bool, xs: &[It], payload: &str, n: usize) -> Vec<Cons> {
    let kinds: &[RioKind] = if quads { &[RioKind::Trig] } else { &[RioKind::Ttl, RioKind::Xml] };
    let mut v = vec![];
    for _ in 0..n {
        let kind = *rng.pick(kinds);
        // total size by a dry run with a huge limit is not observable through Plan: probe by doubling
        let mut hi = 64usize;
        while observe_plan(kind, xs, hi) != Plan::Never && hi < 1 << 20 {
            hi *= 2;
        }
        let limit = match rng.below(6) {
            0 => 0,
            1 => hi,
            _ => rng.below(hi + 1),
        };
        v.push(Cons::Rio(kind, limit, payload.to_string(), observe_plan(kind, xs, limit)));
    }
    v
}

fn observe_doc(fmt: Fmt, doc: &str) -> Script {
    let data = Cursor::new(doc.as_bytes().to_vec());
    match fmt {
        Fmt::Nt => observe::triples(rio_turtle::NTriplesParser::new(data)),
        Fmt::Ttl => observe::triples(rio_turtle::TurtleParser::new(data, None)),
        Fmt::Nq => observe::quads(rio_turtle::NQuadsParser::new(data)),
        Fmt::Trig => observe::quads(rio_turtle::TriGParser::new(data, None)),
        Fmt::Gnq => observe::gquads(rio_turtle::GeneralizedNQuadsParser::new(data)),
        Fmt::Gtrig => observe::gquads(rio_turtle::GTriGParser::new(data, None)),
    }
}

// ------------------------------------------------------------------ Rust-side oracle

struct Expect {
    log: Vec<It>,
    ret: Ret,
    val: Option<usize>,
    fin: Option<String>,
    max_pulled: usize,
}

/// reference serialisation of one item (the real serializer on an unbounded buffer, no fault)
fn ref_bytes(i: It) -> Vec<u8> {
    match i {
        It::T(n) => {
            let mut ser = sophia_turtle::serializer::nt::NtSerializer::new(Vec::<u8>::new());
            ser.serialize_triples(vec![Ok::<_, Infallible>(t3(n))].into_iter()).unwrap();
            sophia_api::serializer::Stringifier::as_utf8(&ser).to_vec()
        }
        It::Q(n, g) => {
            let mut ser = sophia_turtle::serializer::nq::NqSerializer::new(Vec::<u8>::new());
            ser.serialize_quads(vec![Ok::<_, Infallible>(q4(n, g))].into_iter()).unwrap();
            sophia_api::serializer::Stringifier::as_utf8(&ser).to_vec()
        }
    }
}

/// the steps of a source: number of delivered items per step, and whether the step fails
fn steps_of(src: &Src) -> Vec<(Vec<It>, bool)> {
    match src {
        Src::Iter(_, v) => v
            .iter()
            .map(|r| match r {
                Ok(i) => (vec![*i], false),
                Err(_) => (vec![], true),
            })
            .collect(),
        Src::Doc(sc) | Src::Chunk(_, sc) => sc.iter().map(|(is, e)| (is.clone(), e.is_some())).collect(),
    }
}

/// What the property demands of this run.  The position of a sink failure is the request's own
/// (`try`), or — for writers and the small index, whose failure position depends on bytes / slots —
/// taken from what the writer was *observed* to refuse (`refused_at`) resp. from the calibrated
/// slot arithmetic; never from a byte-exact expectation.
fn expect(src: &Src, chain: &[Adapter], cons: &Cons, obs: &Obs) -> Expect {
    let (items, err) = delivered(src);
    let xs = chain_meaning(chain, &items);
    // number of items handed to the sink when it fails (the failing one included), payload
    let mut sink_fail: Option<(usize, String)> = None;
    let mut fin = None;
    let mut val = None;
    match cons {
        Cons::Try(j, e) => {
            if let Some(j) = j {
                if *j < xs.len() {
                    sink_fail = Some((*j + 1, e.clone()));
                }
            }
        }
        Cons::For => {}
        Cons::Vec => fin = Some(render_items(&xs)),
        Cons::Lg | Cons::Fg | Cons::Hs | Cons::Bs => fin = Some(render_items(&sorted(xs.clone()))),
        Cons::Add(pre) | Cons::Ins(pre) | Cons::AddH(pre) => {
            let p = sorted(pre.clone());
            let mut all = p.clone();
            all.extend(xs.iter().copied());
            let all = sorted(all);
            val = Some(all.len() - p.len());
            fin = Some(render_items(&all));
        }
        Cons::Rem(pre) | Cons::RemB(pre) => {
            let p = sorted(pre.clone());
            let left: Vec<It> = p.iter().copied().filter(|i| !xs.contains(i)).collect();
            val = Some(p.len() - left.len());
            fin = Some(render_items(&left));
        }
        Cons::Small(free, pre) => {
            let p = sorted(pre.clone());
            let mut known: BTreeSet<u64> = p.iter().map(|i| i.val()).collect();
            let mut free = *free;
            let mut all = p.clone();
            for (idx, x) in xs.iter().enumerate() {
                if !known.contains(&x.val()) {
                    if free == 0 {
                        sink_fail = Some((idx + 1, "index-full".into()));
                        break;
                    }
                    free -= 1;
                    known.insert(x.val());
                }
                all.push(*x);
            }
            let all = sorted(all);
            val = Some(all.len() - p.len());
            fin = Some(render_items(&all));
        }
        Cons::Gad(_, pre) => {
            // the wrapped graph holds triples; the first quad in a named graph is the sink's own fault
            let p = sorted(pre.clone());
            let mut all = p.clone();
            for (idx, x) in xs.iter().enumerate() {
                if matches!(x, It::Q(_, g) if *g != 0) {
                    sink_fail = Some((idx + 1, "only-default-graph".into()));
                    break;
                }
                all.push(It::T(x.val()));
            }
            let all = sorted(all);
            val = Some(all.len() - p.len());
            fin = Some(render_items(&all));
        }
        Cons::Dsg(gn, pre) => {
            let p = sorted(pre.clone());
            let mut all = p.clone();
            all.extend(xs.iter().map(|x| It::Q(x.val(), *gn)));
            let all = sorted(all);
            val = Some(all.len() - p.len());
            fin = Some(render_items(&all));
        }
        Cons::DsgRem(gn, pre) => {
            let p = sorted(pre.clone());
            let left: Vec<It> = p.iter().copied().filter(|i| !xs.iter().any(|x| It::Q(x.val(), *gn) == *i)).collect();
            val = Some(p.len() - left.len());
            fin = Some(render_items(&left));
        }
        Cons::Ser(_, e) | Cons::Rio(_, _, e, _) => {
            // the writer refused bytes while the sink was working on item number `n` (or before any /
            // after all of them): the stream must have stopped right there, as a SinkError
            if let Some(n) = obs.refused_at {
                let payload = if e == ZERO_WRITER { hex(WRITE_ZERO_MSG) } else { e.clone() };
                sink_fail = Some((n.min(xs.len()), payload));
            }
        }
    }
    let (log, ret) = match sink_fail {
        Some((n, p)) => (xs[..n].to_vec(), Ret::Sink(p)),
        None => (
            xs.clone(),
            match &err {
                Some(e) => Ret::Src(e.clone()),
                None => Ret::Ok,
            },
        ),
    };
    if ret != Ret::Ok {
        val = None;
        if matches!(cons, Cons::Vec | Cons::Lg | Cons::Fg | Cons::Hs | Cons::Bs) {
            fin = Some("-".into());
        }
    }
    // how far the source may have been consumed: up to and including the step of the fault
    let steps = steps_of(src);
    let mut max_pulled = steps.len();
    let mut out_count = 0usize;
    'outer: for (t, (is, fails)) in steps.iter().enumerate() {
        if matches!(ret, Ret::Sink(_)) && log.is_empty() {
            max_pulled = 0;
            break;
        }
        for i in is {
            if !chain_meaning(chain, &[*i]).is_empty() {
                out_count += 1;
                if matches!(ret, Ret::Sink(_)) && out_count == log.len() {
                    max_pulled = t + 1;
                    break 'outer;
                }
            }
        }
        if *fails {
            max_pulled = t + 1;
            break;
        }
    }
    if matches!(cons, Cons::Ser(..) | Cons::Rio(..)) && log.len() == xs.len() && err.is_none() {
        // the writer may have refused in `finish()`, i.e. after the source was legitimately exhausted
        max_pulled = steps.len();
    }
    Expect { log, ret, val, fin, max_pulled }
}

// ------------------------------------------------------------------ exec

fn render_ret(r: &Ret) -> String {
    match r {
        Ret::Ok => "ret=ok side=- payload=-".into(),
        Ret::Src(p) => format!("ret=err side=src payload={}", p),
        Ret::Sink(p) => format!("ret=err side=sink payload={}", p),
    }
}

pub fn exec(line: &str) -> String {
    let f: Vec<&str> = line.split_whitespace().collect();
    if f.len() < 5 || f[0] != "x" {
        return "bad-op".into();
    }
    let (Some(src), Some((chain, iter_at)), Some(cons)) = (parse_src(f[1]), parse_chain(f[2]), Cons::parse(f[3])) else {
        return "bad-op".into();
    };
    let mode = match f[4] {
        "w" => Mode::W,
        "s" => Mode::S,
        "S" => Mode::S2,
        "f" => Mode::F,
        _ => return "bad-op".into(),
    };
    let mut fmt = None;
    let mut doc = None;
    for t in &f[5..] {
        if let Some(v) = t.strip_prefix("fmt=") {
            fmt = Fmt::parse(v);
        } else if let Some(v) = t.strip_prefix("doc=") {
            doc = unhex_bytes(v);
        }
    }
    let cx = Cx { cons: cons.clone(), mode, total: chain.len(), iter_at };
    let pulled = Rc::new(Cell::new(0usize));
    EXPECTED_SRC.with(|x| *x.borrow_mut() = if matches!(src, Src::Doc(_)) { delivered(&src).1 } else { None });
    let obs = match &src {
        Src::Iter(quads, v) => {
            if *quads {
                let it: Vec<Result<Q4, SrcErr>> = v
                    .iter()
                    .map(|r| match r {
                        Ok(It::Q(n, g)) => Ok(q4(*n, *g)),
                        Ok(It::T(n)) => Ok(q4(*n, 0)),
                        Err(e) => Err(SrcErr(e.clone())),
                    })
                    .collect();
                start_q(Counting { inner: it.into_iter(), pulled: pulled.clone() }, &chain, &cx)
            } else {
                let it: Vec<Result<T3, SrcErr>> = v
                    .iter()
                    .map(|r| match r {
                        Ok(i) => Ok(t3(i.val())),
                        Err(e) => Err(SrcErr(e.clone())),
                    })
                    .collect();
                start_t(Counting { inner: it.into_iter(), pulled: pulled.clone() }, &chain, &cx)
            }
        }
        Src::Doc(_) => {
            let (Some(fmt), Some(doc)) = (fmt, doc) else { return "bad-op".into() };
            run_doc(fmt, doc, &chain, &cx)
        }
        Src::Chunk(false, sc) => {
            let steps = sc
                .iter()
                .map(|(is, e)| (is.iter().map(|i| t3(i.val())).collect::<Vec<T3>>(), e.clone()))
                .collect();
            start_t(Chunked::<T3> { steps, pulled: pulled.clone() }, &chain, &cx)
        }
        Src::Chunk(true, sc) => {
            let steps = sc
                .iter()
                .map(|(is, e)| {
                    let v: Vec<Q4> = is
                        .iter()
                        .map(|i| match i {
                            It::Q(n, g) => q4(*n, *g),
                            It::T(n) => q4(*n, 0),
                        })
                        .collect();
                    (v, e.clone())
                })
                .collect();
            start_q(Chunked::<Q4> { steps, pulled: pulled.clone() }, &chain, &cx)
        }
    };
    if obs.notes.iter().any(|n| n == "small-uncalibrated") {
        // the small index does not behave as one slot per new literal: nothing can be said here
        return "skip=small-uncalibrated".into();
    }
    if obs.notes.iter().any(|n| n.starts_with("bad-") || n.starts_with("small-")) {
        return "bad-op".into();
    }
    let mut out = format!(
        "log={} {} val={} final={}",
        render_items(&obs.log),
        render_ret(&obs.ret),
        obs.val.map(|v| v.to_string()).unwrap_or("-".into()),
        obs.fin
    );
    if let Some(s) = obs.steps {
        // informational: the number of rounds is not part of the property
        out += &format!(" info.steps={}", s);
    }
    let counted = !matches!(src, Src::Doc(_));
    if counted {
        out += &format!(" pulled={}", pulled.get());
    }
    // the property, evaluated here
    let ex = expect(&src, &chain, &cons, &obs);
    if counted && pulled.get() > ex.max_pulled {
        out += &format!(" FAIL.readahead=pulled:{}:allowed:{}", pulled.get(), ex.max_pulled);
    }
    if obs.log != ex.log {
        out += &format!(" FAIL.log=expected:{}", render_items(&ex.log));
    }
    if obs.ret != ex.ret {
        out += &format!(" FAIL.blame=expected:{}", render_ret(&ex.ret).replace(' ', ":"));
    }
    if obs.ret == Ret::Ok && ex.val.is_some() && obs.val != ex.val {
        out += &format!(" FAIL.count=expected:{}", ex.val.unwrap());
    }
    if let Some(fin) = &ex.fin {
        if *fin != obs.fin {
            out += &format!(" FAIL.final=expected:{}", fin);
        }
    }
    if matches!(
        cons,
        Cons::Lg | Cons::Fg | Cons::Add(_) | Cons::Ins(_) | Cons::Rem(_) | Cons::Small(..) | Cons::Gad(..) | Cons::Dsg(..) | Cons::DsgRem(..)
    ) {
        out += if obs.notes.iter().any(|n| n.starts_with("index_")) { " idx=0" } else { " idx=1" };
    }
    for n in &obs.notes {
        out += &format!(" FAIL.{}=1", n);
    }
    out
}

// ------------------------------------------------------------------ generation

fn gen_adapter(rng: &mut Rng, quads: bool) -> Adapter {
    let p = Pred { m: rng.range(1, 4) as u64, r: rng.range(0, 2) as u64 };
    let w = if rng.chance(1, 2) {
        W::I
    } else if quads {
        W::Q
    } else {
        W::T
    };
    let fun = |rng: &mut Rng| match rng.below(4) {
        0 | 1 => Fun::Add(rng.range(0, 3) as u64),
        2 => Fun::ToQuad(rng.range(0, 2) as u64, rng.range(0, 2) as u64),
        _ => Fun::ToTriple(rng.range(0, 2) as u64),
    };
    match rng.below(7) {
        0 | 1 => Adapter::Filter(w, p),
        2 | 3 => Adapter::Map(w, fun(rng)),
        4 | 5 => Adapter::FilterMap(w, p, fun(rng)),
        _ => {
            if quads {
                Adapter::ToTriples
            } else {
                Adapter::ToQuads
            }
        }
    }
}

/// a well-typed chain of the given depth; returns the final item kind
fn gen_chain(rng: &mut Rng, depth: usize, mut quads: bool) -> (Vec<Adapter>, bool) {
    let mut c = vec![];
    for _ in 0..depth {
        let a = gen_adapter(rng, quads);
        quads = a.kind_after(quads).expect("generator produces typed chains");
        c.push(a);
    }
    (c, quads)
}

/// some map / filter_map position of the chain (if any), to be followed by `.into_iter()`
fn pick_iter_at(rng: &mut Rng, chain: &[Adapter]) -> Option<usize> {
    let pos: Vec<usize> = chain
        .iter()
        .enumerate()
        .filter(|(_, a)| matches!(a, Adapter::Map(..) | Adapter::FilterMap(..)))
        .map(|(i, _)| i)
        .collect();
    if pos.is_empty() { None } else { Some(*rng.pick(&pos)) }
}

/// a chain that contains a map / filter_map adapter somewhere
fn gen_chain_with_map(rng: &mut Rng, max_depth: usize, quads: bool) -> (Vec<Adapter>, bool, usize) {
    loop {
        let d = rng.range(1, max_depth.max(1));
        let (c, q) = gen_chain(rng, d, quads);
        if let Some(i) = pick_iter_at(rng, &c) {
            return (c, q, i);
        }
    }
}

fn gen_items(rng: &mut Rng, len: usize, quads: bool) -> Vec<It> {
    let span = rng.range(3, 12);
    (0..len)
        .map(|_| {
            let n = rng.below(span) as u64;
            if quads { It::Q(n, rng.below(3) as u64) } else { It::T(n) }
        })
        .collect()
}

fn gen_pre(rng: &mut Rng, quads: bool) -> Vec<It> {
    let n = rng.below(5);
    sorted(gen_items(rng, n, quads).into_iter().map(|i| match i {
        It::T(n) => It::T(n + rng.below(4) as u64),
        q => q,
    }).collect())
}

struct Emit<'a> {
    ctx: &'a mut GenCtx,
    /// position of the adapter to be followed by `.into_iter()` in the chains emitted next
    iter_at: Option<usize>,
    /// flips between the two step-wise entry points (`try_for_some_item` / `try_for_some_triple|quad`)
    flip: bool,
}

impl Emit<'_> {
    fn case(&mut self, src: &Src, chain: &[Adapter], cons: &Cons, stepwise: bool, extra: &str, fault: &str) {
        let line = format!(
            "x {} {} {} {}{}",
            render_src(src),
            render_chain(chain, self.iter_at),
            cons.render(),
            {
                self.flip = !self.flip;
                match (stepwise, cons) {
                    (true, Cons::For) => "f",
                    (true, _) if self.flip => "S",
                    (true, _) => "s",
                    _ => "w",
                }
            },
            extra
        );
        self.ctx.stats.bump(&format!("consumer.{}", cons.name()));
        self.ctx.stats.bump(&format!("fault.{}", fault));
        self.ctx.stats.bump(&format!("depth.{}", chain.len()));
        self.ctx.stats.bump(if stepwise { "mode.stepwise" } else { "mode.whole" });
        if let Some(i) = self.iter_at {
            let k = match chain[i] {
                Adapter::Map(w, _) => format!("into_iter.map_{}", w.ch()),
                Adapter::FilterMap(w, ..) => format!("into_iter.filter_map_{}", w.ch()),
                _ => "into_iter.bad".into(),
            };
            self.ctx.stats.bump(&k);
        }
        self.ctx.stats.bump(match src {
            Src::Iter(..) => "source.iterator",
            Src::Doc(..) => "source.parser",
            Src::Chunk(..) => "source.chunked",
        });
        for a in chain {
            let k = match a {
                Adapter::Filter(w, _) => format!("adapter.filter_{}", w.ch()),
                Adapter::Map(w, _) => format!("adapter.map_{}", w.ch()),
                Adapter::FilterMap(w, ..) => format!("adapter.filter_map_{}", w.ch()),
                Adapter::ToQuads => "adapter.to_quads".into(),
                Adapter::ToTriples => "adapter.to_triples".into(),
            };
            self.ctx.stats.bump(&k);
        }
        if self.ctx.stats.samples.len() < 8 && self.ctx.rng.chance(1, 200) {
            self.ctx.stats.sample(line.clone());
        }
        self.ctx.emit(&line);
    }
}

/// the consumers other than the recording closure, valid for the final item kind
fn other_consumers(rng: &mut Rng, quads: bool, xs: &[It]) -> Vec<Cons> {
    let mut v = vec![Cons::For, Cons::Vec, Cons::Lg, Cons::Fg];
    let pre = |rng: &mut Rng| {
        let mut p = gen_pre(rng, quads);
        // make some of the delivered items already present
        for x in xs {
            if rng.chance(1, 4) {
                p.push(*x);
            }
        }
        sorted(p)
    };
    v.push(Cons::Add(pre(rng)));
    v.push(Cons::Ins(pre(rng)));
    v.push(Cons::Rem(pre(rng)));
    if quads {
        // the wrapped graph is pre-filled with triples
        let pt = |rng: &mut Rng| {
            let mut p = gen_pre(rng, false);
            for x in xs {
                if rng.chance(1, 4) {
                    p.push(It::T(x.val()));
                }
            }
            sorted(p)
        };
        for variant in 0..3u8 {
            v.push(Cons::Gad(variant, pt(rng)));
        }
    } else {
        let pq = |rng: &mut Rng| {
            let mut p = gen_pre(rng, true);
            for x in xs {
                if rng.chance(1, 3) {
                    p.push(It::Q(x.val(), rng.below(3) as u64));
                }
            }
            sorted(p)
        };
        let gn = rng.below(3) as u64;
        v.push(Cons::Dsg(gn, pq(rng)));
        v.push(Cons::DsgRem(gn, pq(rng)));
    }
    v.push(Cons::Hs);
    v.push(Cons::Bs);
    v.push(Cons::AddH(pre(rng)));
    v.push(Cons::RemB(pre(rng)));
    v
}

fn with_fault(quads: bool, items: &[It], k: usize, payload: &str) -> Src {
    let mut v: Vec<Result<It, String>> = items.iter().map(|i| Ok(*i)).collect();
    v.insert(k, Err(payload.to_string()));
    Src::Iter(quads, v)
}

fn no_fault(quads: bool, items: &[It]) -> Src {
    Src::Iter(quads, items.iter().map(|i| Ok(*i)).collect())
}

fn cum_lengths(xs: &[It]) -> Vec<usize> {
    let mut c = 0;
    xs.iter()
        .map(|x| {
            c += ref_bytes(*x).len();
            c
        })
        .collect()
}

fn gen_iter_sample(e: &mut Emit, len: usize, depth: usize, small_budget: &mut usize) {
    let quads0 = e.ctx.rng.chance(1, 3);
    let items = gen_items(&mut e.ctx.rng, len, quads0);
    let (chain, quads) = gen_chain(&mut e.ctx.rng, depth, quads0);
    e.iter_at = if e.ctx.rng.chance(1, 3) { pick_iter_at(&mut e.ctx.rng, &chain) } else { None };
    let xs = chain_meaning(&chain, &items);
    let payload = (e.ctx.rng.below(90) + 10).to_string();
    let sink_payload = (e.ctx.rng.below(90) + 100).to_string();
    let others = other_consumers(&mut e.ctx.rng, quads, &xs);
    let rios = rio_consumers(&mut e.ctx.rng, quads, &xs, &sink_payload, 3);
    // (a) source fault at every position k (0 ..= len), recording closure, whole and step-wise;
    //     plus one other consumer and one streaming serializer per position (rotating)
    for k in 0..=items.len() {
        let src = with_fault(quads0, &items, k, &payload);
        e.case(&src, &chain, &Cons::Try(None, sink_payload.clone()), false, "", "source");
        e.case(&src, &chain, &Cons::Try(None, sink_payload.clone()), true, "", "source");
        let o = &others[(k + len) % others.len()];
        e.case(&src, &chain, o, false, "", "source");
        e.case(&src, &chain, &rios[k % rios.len()], false, "", "source+writer");
        if k % 2 == 0 {
            e.case(&src, &chain, &Cons::For, true, "", "source");
        }
    }
    // (b) sink fault on every delivered item j (0 ..= |xs|; j = |xs| is never reached)
    for j in 0..=xs.len() {
        let src = no_fault(quads0, &items);
        e.case(&src, &chain, &Cons::Try(Some(j), sink_payload.clone()), false, "", "sink.closure");
        e.case(&src, &chain, &Cons::Try(Some(j), sink_payload.clone()), true, "", "sink.closure");
    }
    // (b') both: a source fault somewhere and a sink fault somewhere (whichever comes first wins)
    if !items.is_empty() {
        let k = e.ctx.rng.range(0, items.len());
        let j = e.ctx.rng.range(0, xs.len());
        e.case(&with_fault(quads0, &items, k, &payload), &chain, &Cons::Try(Some(j), sink_payload.clone()), false, "", "both");
    }
    // (c) no fault at all, every consumer
    {
        let src = no_fault(quads0, &items);
        e.case(&src, &chain, &Cons::Try(None, sink_payload.clone()), false, "", "none");
        e.case(&src, &chain, &Cons::For, true, "", "none");
        for o in &others {
            e.case(&src, &chain, o, false, "", "none");
        }
        for o in rio_consumers(&mut e.ctx.rng, quads, &xs, &sink_payload, 6) {
            e.case(&src, &chain, &o, false, "", "sink.rio_writer");
        }
    }
    // (d) writer failing at every item boundary (and one byte around it)
    {
        let cum = cum_lengths(&xs);
        let mut limits = vec![0usize, 1];
        for c in &cum {
            limits.push(*c);
            limits.push(c - 1);
            if e.ctx.rng.chance(1, 3) {
                limits.push(c + e.ctx.rng.range(1, 30));
            }
        }
        limits.sort();
        limits.dedup();
        let src = no_fault(quads0, &items);
        for (i, l) in limits.into_iter().enumerate() {
            e.case(&src, &chain, &Cons::Ser(l, sink_payload.clone()), false, "", "sink.writer");
            if i % 3 == 0 {
                // a writer that is simply full: `Ok(0)` instead of an error
                e.case(&src, &chain, &Cons::Ser(l, ZERO_WRITER.to_string()), false, "", "sink.writer_full");
            }
        }
        if !items.is_empty() {
            let k = e.ctx.rng.range(0, items.len());
            let l = e.ctx.rng.range(0, cum.last().copied().unwrap_or(0) + 5);
            e.case(&with_fault(quads0, &items, k, &payload), &chain, &Cons::Ser(l, sink_payload.clone()), false, "", "both");
        }
    }
    // (e) term index full after `free` new terms: every position
    if !quads && *small_budget > 0 {
        let distinct = sorted(xs.clone()).len();
        let pre = if e.ctx.rng.chance(1, 2) { vec![] } else { gen_pre(&mut e.ctx.rng, false) };
        for free in 0..=distinct.min(if e.ctx.thorough { 8 } else { 3 }) {
            if *small_budget == 0 {
                break;
            }
            *small_budget -= 1;
            e.case(&no_fault(quads0, &items), &chain, &Cons::Small(free, pre.clone()), false, "", "sink.index_full");
        }
        if *small_budget > 0 && !items.is_empty() {
            *small_budget -= 1;
            let k = e.ctx.rng.range(0, items.len());
            let free = e.ctx.rng.below(4);
            e.case(&with_fault(quads0, &items, k, &payload), &chain, &Cons::Small(free, pre), false, "", "both");
        }
    }
}

/// one statement of a generated document: its text and the items it yields
fn gen_statement(rng: &mut Rng, fmt: Fmt) -> (String, Vec<It>) {
    let n = |rng: &mut Rng| rng.below(9) as u64;
    let nt_lit = |v: u64| format!("\"{}\"^^<{}>", v, XSD_INTEGER);
    match fmt {
        Fmt::Nt => {
            let v = n(rng);
            (format!("<x:s> <x:p> {} .\n", nt_lit(v)), vec![It::T(v)])
        }
        Fmt::Nq | Fmt::Gnq => {
            let v = n(rng);
            let g = rng.below(3) as u64;
            let gs = if g == 0 { String::new() } else { format!(" <x:g{}>", g) };
            (format!("<x:s> <x:p> {}{} .\n", nt_lit(v), gs), vec![It::Q(v, g)])
        }
        Fmt::Ttl => match rng.below(5) {
            0 => {
                let v = n(rng);
                (format!("<x:s> <x:p> {} .\n", v), vec![It::T(v)])
            }
            1 => {
                let vs: Vec<u64> = (0..rng.range(2, 4)).map(|_| n(rng)).collect();
                (
                    format!("<x:s> <x:p> {} .\n", vs.iter().map(|v| v.to_string()).collect::<Vec<_>>().join(", ")),
                    vs.into_iter().map(It::T).collect(),
                )
            }
            2 => {
                let (a, b) = (n(rng), n(rng));
                (format!("<x:s> <x:p> {} ;\n   <x:p> {} .\n", a, b), vec![It::T(a), It::T(b)])
            }
            3 => ("@prefix x: <x:> .\n".to_string(), vec![]),
            _ => {
                let v = n(rng);
                (format!("<x:s> <x:p> {} .\n", nt_lit(v)), vec![It::T(v)])
            }
        },
        Fmt::Trig | Fmt::Gtrig => match rng.below(4) {
            0 => {
                let v = n(rng);
                (format!("<x:s> <x:p> {} .\n", v), vec![It::Q(v, 0)])
            }
            1 => {
                let g = rng.range(1, 2) as u64;
                let vs: Vec<u64> = (0..rng.range(1, 3)).map(|_| n(rng)).collect();
                (
                    format!(
                        "<x:g{}> {{ <x:s> <x:p> {} . }}\n",
                        g,
                        vs.iter().map(|v| v.to_string()).collect::<Vec<_>>().join(", ")
                    ),
                    vs.into_iter().map(|v| It::Q(v, g)).collect(),
                )
            }
            2 => {
                let g = rng.range(1, 2) as u64;
                let (a, b) = (n(rng), n(rng));
                (
                    format!("GRAPH <x:g{}> {{ <x:s> <x:p> {} . <x:s> <x:p> {} }}\n", g, a, b),
                    vec![It::Q(a, g), It::Q(b, g)],
                )
            }
            _ => ("@prefix x: <x:> .\n".to_string(), vec![]),
        },
    }
}

/// a statement with a syntax error (some emit items before failing)
fn gen_broken(rng: &mut Rng, fmt: Fmt) -> String {
    match fmt {
        Fmt::Nt | Fmt::Nq | Fmt::Gnq => match rng.below(4) {
            0 => "<x:s> <x:p> .\n".into(),
            1 => "<x:s> <x:p> \"1\"^^<http://www.w3.org/2001/XMLSchema#integer>\n".into(),
            2 => "@@@ nonsense\n".into(),
            _ => "<x:s> <x:p> \"unterminated .\n".into(),
        },
        Fmt::Ttl => match rng.below(5) {
            0 => "<x:s> <x:p> .\n".into(),
            1 => format!("<x:s> <x:p> {}, {}, .\n", rng.below(9), rng.below(9)),
            2 => format!("<x:s> <x:p> {} ; <x:p> {} ; 7 .\n", rng.below(9), rng.below(9)),
            3 => "@prefix : .\n".into(),
            _ => format!("<x:s> <x:p> {} <x:p> .\n", rng.below(9)),
        },
        Fmt::Trig | Fmt::Gtrig => match rng.below(4) {
            0 => "<x:s> <x:p> .\n".into(),
            1 => format!("<x:g1> {{ <x:s> <x:p> {}, {}, . }}\n", rng.below(9), rng.below(9)),
            2 => format!("<x:g2> {{ <x:s> <x:p> {} . <x:s> <x:p> }}\n", rng.below(9)),
            _ => "@prefix : .\n".into(),
        },
    }
}

fn gen_doc_sample(e: &mut Emit, fmt: Fmt, nstmt: usize, depth: usize) {
    let stmts: Vec<(String, Vec<It>)> = (0..nstmt).map(|_| gen_statement(&mut e.ctx.rng, fmt)).collect();
    let (chain, quads) = gen_chain(&mut e.ctx.rng, depth, fmt.quads());
    e.iter_at = if e.ctx.rng.chance(1, 2) { pick_iter_at(&mut e.ctx.rng, &chain) } else { None };
    let sink_payload = (e.ctx.rng.below(90) + 100).to_string();
    // syntax error at statement k, for every k (k = nstmt: no error)
    for k in 0..=nstmt {
        let mut doc = String::new();
        for (i, (txt, _)) in stmts.iter().enumerate() {
            if i == k {
                doc += &gen_broken(&mut e.ctx.rng, fmt);
            }
            doc += txt;
        }
        if k == nstmt && e.ctx.rng.chance(1, 3) {
            doc.pop(); // no final newline
        }
        let script = observe_doc(fmt, &doc);
        let src = Src::Doc(script.clone());
        let (items, err) = delivered(&src);
        let xs = chain_meaning(&chain, &items);
        let extra = format!(" fmt={} doc={}", fmt.name(), hex(&doc));
        let fault = if err.is_some() { "source.syntax" } else { "none" };
        e.ctx.stats.bump(&format!("parser.{}", fmt.name()));
        if script.iter().any(|(is, er)| er.is_some() && !is.is_empty()) {
            e.ctx.stats.bump("parser.step_emits_then_fails");
        }
        if script.iter().any(|(is, _)| is.len() > 1) {
            e.ctx.stats.bump("parser.multi_item_step");
        }
        e.case(&src, &chain, &Cons::Try(None, sink_payload.clone()), false, &extra, fault);
        e.case(&src, &chain, &Cons::Try(None, sink_payload.clone()), true, &extra, fault);
        let others = other_consumers(&mut e.ctx.rng, quads, &xs);
        let o = &others[(k + nstmt) % others.len()];
        e.case(&src, &chain, o, false, &extra, fault);
        for o in rio_consumers(&mut e.ctx.rng, quads, &xs, &sink_payload, 1) {
            e.case(&src, &chain, &o, false, &extra, "sink.rio_writer");
        }
        e.case(&src, &chain, &Cons::For, true, &extra, fault);
        // sink fault on every delivered item, in front of / inside / behind the failing statement
        if k == nstmt || k == nstmt / 2 {
            for j in 0..=xs.len() {
                let sw = j % 2 == 1;
                e.case(&src, &chain, &Cons::Try(Some(j), sink_payload.clone()), sw, &extra, "sink.closure");
            }
            let total: usize = xs.iter().map(|x| ref_bytes(*x).len()).sum();
            let l = e.ctx.rng.range(0, total + 3);
            e.case(&src, &chain, &Cons::Ser(l, sink_payload.clone()), false, &extra, "sink.writer");
        }
    }
}

/// a script over `items` with chunk sizes 1..=3 (sometimes an empty chunk) and a fault after the
/// first `k` items: the chunk that contains position `k` emits its items before `k`, then fails
fn chunk_script(rng: &mut Rng, items: &[It], k: Option<usize>, payload: &str) -> Script {
    let mut sc: Script = vec![];
    let mut i = 0usize;
    loop {
        if rng.chance(1, 8) {
            sc.push((vec![], None));
        }
        let size = rng.range(1, 3);
        let end = (i + size).min(items.len());
        if let Some(k) = k {
            if k >= i && (k < end || (k == end && (end == items.len() || rng.chance(1, 2)))) {
                sc.push((items[i..k].to_vec(), Some(payload.to_string())));
                // what the source would do after its failure (must not matter)
                if k < items.len() {
                    sc.push((items[k..].to_vec(), None));
                }
                return sc;
            }
        }
        if i >= items.len() {
            return sc;
        }
        sc.push((items[i..end].to_vec(), None));
        i = end;
    }
}

/// (a) synthetic chunked source, `.into_iter()` on a map / filter_map, fault at EVERY item position
fn gen_chunked_sample(e: &mut Emit, len: usize, max_depth: usize) {
    let quads0 = e.ctx.rng.chance(1, 3);
    let items = gen_items(&mut e.ctx.rng, len, quads0);
    let (chain, quads, at) = gen_chain_with_map(&mut e.ctx.rng, max_depth, quads0);
    let payload = (e.ctx.rng.below(90) + 10).to_string();
    let sink_payload = (e.ctx.rng.below(90) + 100).to_string();
    let xs_all = chain_meaning(&chain, &items);
    let others = other_consumers(&mut e.ctx.rng, quads, &xs_all);
    for k in 0..=items.len() {
        let src = Src::Chunk(quads0, chunk_script(&mut e.ctx.rng, &items, Some(k), &payload));
        for iter_at in [Some(at), None] {
            e.iter_at = iter_at;
            e.case(&src, &chain, &Cons::Try(None, sink_payload.clone()), false, "", "source.midchunk");
            e.case(&src, &chain, &Cons::Try(None, sink_payload.clone()), true, "", "source.midchunk");
        }
        e.iter_at = Some(at);
        let o = &others[(k + len) % others.len()];
        e.case(&src, &chain, o, false, "", "source.midchunk");
        e.case(&src, &chain, &Cons::For, true, "", "source.midchunk");
        let xs_k = chain_meaning(&chain, &delivered(&src).0);
        for o in rio_consumers(&mut e.ctx.rng, quads, &xs_k, &sink_payload, 1) {
            e.case(&src, &chain, &o, false, "", "source+writer");
        }
    }
    // no source fault: sink fault on every delivered item, and every other consumer
    let src = Src::Chunk(quads0, chunk_script(&mut e.ctx.rng, &items, None, &payload));
    e.iter_at = Some(at);
    for j in 0..=xs_all.len() {
        e.case(&src, &chain, &Cons::Try(Some(j), sink_payload.clone()), j % 2 == 1, "", "sink.closure");
    }
    for o in &others {
        e.case(&src, &chain, o, false, "", "none");
    }
    for o in rio_consumers(&mut e.ctx.rng, quads, &xs_all, &sink_payload, 3) {
        e.case(&src, &chain, &o, false, "", "sink.rio_writer");
    }
    let total: usize = xs_all.iter().map(|x| ref_bytes(*x).len()).sum();
    let l = e.ctx.rng.range(0, total + 3);
    e.case(&src, &chain, &Cons::Ser(l, sink_payload.clone()), false, "", "sink.writer");
    e.iter_at = None;
}

/// (b) the real Turtle parser, one statement with object lists / predicate lists, a syntax error
/// put at EVERY object position (so that the step has already emitted the objects before it)
fn gen_turtle_list_sample(e: &mut Emit, max_depth: usize) {
    let npred = e.ctx.rng.range(1, 3);
    let lists: Vec<Vec<u64>> = (0..npred).map(|_| (0..e.ctx.rng.range(1, 4)).map(|_| e.ctx.rng.below(9) as u64).collect()).collect();
    let total: usize = lists.iter().map(|l| l.len()).sum();
    let lead = e.ctx.rng.range(0, 2);
    let (chain, quads, at) = gen_chain_with_map(&mut e.ctx.rng, max_depth, false);
    let sink_payload = (e.ctx.rng.below(90) + 100).to_string();
    for bad in 0..=total {
        // bad == total: no error
        let mut doc = String::new();
        for i in 0..lead {
            doc += &format!("<x:s> <x:p> {} .\n", i);
        }
        let mut pos = 0usize;
        let mut stmt = String::from("<x:s>");
        for (pi, l) in lists.iter().enumerate() {
            stmt += if pi == 0 { " <x:p> " } else { " ;\n    <x:p> " };
            for (oi, v) in l.iter().enumerate() {
                if oi > 0 {
                    stmt += ", ";
                }
                if pos == bad {
                    stmt += "%%%";
                } else {
                    stmt += &v.to_string();
                }
                pos += 1;
            }
        }
        stmt += " .\n";
        doc += &stmt;
        doc += "<x:s> <x:p> 8 .\n";
        let script = observe_doc(Fmt::Ttl, &doc);
        let src = Src::Doc(script.clone());
        let (items, err) = delivered(&src);
        let xs = chain_meaning(&chain, &items);
        let extra = format!(" fmt=ttl doc={}", hex(&doc));
        let fault = if err.is_some() { "source.syntax.in_list" } else { "none" };
        e.ctx.stats.bump("parser.ttl");
        if script.iter().any(|(is, er)| er.is_some() && !is.is_empty()) {
            e.ctx.stats.bump("parser.step_emits_then_fails");
        }
        for iter_at in [Some(at), None] {
            e.iter_at = iter_at;
            e.case(&src, &chain, &Cons::Try(None, sink_payload.clone()), false, &extra, fault);
            e.case(&src, &chain, &Cons::Try(None, sink_payload.clone()), true, &extra, fault);
        }
        e.iter_at = Some(at);
        let others = other_consumers(&mut e.ctx.rng, quads, &xs);
        let o = &others[bad % others.len()];
        e.case(&src, &chain, o, false, &extra, fault);
        for o in rio_consumers(&mut e.ctx.rng, quads, &xs, &sink_payload, 1) {
            e.case(&src, &chain, &o, false, &extra, "sink.rio_writer");
        }
        if bad == total / 2 {
            for j in 0..=xs.len() {
                e.case(&src, &chain, &Cons::Try(Some(j), sink_payload.clone()), false, &extra, "sink.closure");
            }
        }
    }
    e.iter_at = None;
}

/// quad streams whose ONLY named-graph quad sits at position k, for every k, into the GraphAsDataset
/// sinks (all three ways), through a kind-preserving chain; plus a source fault before / after it
fn gen_gad_sample(e: &mut Emit, len: usize, max_depth: usize) {
    e.iter_at = None;
    let payload = (e.ctx.rng.below(90) + 10).to_string();
    // a chain that keeps quads and their graph names
    let depth = e.ctx.rng.range(0, max_depth.min(2));
    let mut chain = vec![];
    for _ in 0..depth {
        let p = Pred { m: e.ctx.rng.range(2, 4) as u64, r: e.ctx.rng.range(0, 2) as u64 };
        chain.push(match e.ctx.rng.below(4) {
            0 => Adapter::Filter(W::Q, p),
            1 => Adapter::Filter(W::I, p),
            2 => Adapter::Map(W::Q, Fun::Add(e.ctx.rng.below(3) as u64)),
            _ => Adapter::FilterMap(W::I, p, Fun::Add(e.ctx.rng.below(3) as u64)),
        });
    }
    let base: Vec<u64> = (0..len).map(|_| e.ctx.rng.below(7) as u64).collect();
    for k in 0..=len {
        // k == len: no named graph at all
        let items: Vec<It> =
            base.iter().enumerate().map(|(i, n)| It::Q(*n, if i == k { 1 + (i as u64 % 2) } else { 0 })).collect();
        let xs = chain_meaning(&chain, &items);
        let pre = sorted(xs.iter().filter(|_| e.ctx.rng.chance(1, 4)).map(|x| It::T(x.val())).collect());
        for variant in 0..3u8 {
            e.case(&no_fault(true, &items), &chain, &Cons::Gad(variant, pre.clone()), false, "", "sink.only_default_graph");
        }
        if len > 0 {
            let j = e.ctx.rng.range(0, len);
            let v = (k % 3) as u8;
            e.case(&with_fault(true, &items, j, &payload), &chain, &Cons::Gad(v, pre.clone()), false, "", "both");
            let src = Src::Chunk(true, chunk_script(&mut e.ctx.rng, &items, Some(j), &payload));
            e.case(&src, &chain, &Cons::Gad(v, pre), false, "", "both");
        }
    }
}

pub fn generate(ctx: &mut GenCtx) {
    if std::env::var("C15_DEBUG").is_ok() {
        std::panic::set_hook(Box::new(|i| eprintln!("{}", i)));
    }
    let thorough = ctx.thorough;
    let mut e = Emit { ctx, iter_at: None, flip: false };
    let max_depth = if thorough { 5 } else { 3 };
    // one 16-bit graph costs ~0.35 s to pre-fill in a dev build
    let mut small_budget = if thorough { 500 } else { 36 };
    // fixed corner cases first: empty stream, single item, fault at 0 and at the end, every adapter kind alone
    for quads in [false, true] {
        for len in [0usize, 1, 2] {
            let items: Vec<It> = (0..len as u64).map(|n| if quads { It::Q(n, n % 2) } else { It::T(n) }).collect();
            let singles: Vec<Adapter> = {
                let p = Pred { m: 2, r: 0 };
                let w = if quads { W::Q } else { W::T };
                let mut v = vec![
                    Adapter::Filter(W::I, p),
                    Adapter::Filter(w, p),
                    Adapter::Map(W::I, Fun::Add(1)),
                    Adapter::Map(w, Fun::Add(1)),
                    Adapter::Map(W::I, Fun::ToQuad(1, 1)),
                    Adapter::Map(w, Fun::ToTriple(1)),
                    Adapter::FilterMap(W::I, p, Fun::Add(1)),
                    Adapter::FilterMap(w, p, Fun::ToQuad(0, 2)),
                    Adapter::FilterMap(w, p, Fun::ToTriple(0)),
                ];
                v.push(if quads { Adapter::ToTriples } else { Adapter::ToQuads });
                v
            };
            let mut chains: Vec<Vec<Adapter>> = vec![vec![]];
            chains.extend(singles.into_iter().map(|a| vec![a]));
            for c in chains {
                for k in 0..=len {
                    e.case(&with_fault(quads, &items, k, "7"), &c, &Cons::Try(None, "9".into()), false, "", "source");
                    e.case(&with_fault(quads, &items, k, "7"), &c, &Cons::Try(None, "9".into()), true, "", "source");
                    e.case(&no_fault(quads, &items), &c, &Cons::Try(Some(k), "9".into()), false, "", "sink.closure");
                }
            }
        }
    }
    let n_iter = if thorough { 1500 } else { 120 };
    for i in 0..n_iter {
        let len = match i % 6 {
            0 => e.ctx.rng.range(0, 3),
            1 => 20,
            _ => e.ctx.rng.range(2, 20),
        };
        let depth = match i % 4 {
            0 => e.ctx.rng.range(0, 1),
            _ => e.ctx.rng.range(1, max_depth),
        };
        gen_iter_sample(&mut e, len, depth, &mut small_budget);
    }
    let n_doc = if thorough { 1200 } else { 96 };
    let fmts = [Fmt::Nt, Fmt::Ttl, Fmt::Ttl, Fmt::Nq, Fmt::Trig, Fmt::Gnq, Fmt::Gtrig, Fmt::Ttl];
    for i in 0..n_doc {
        let fmt = fmts[i % fmts.len()];
        let nstmt = e.ctx.rng.range(0, if thorough { 10 } else { 7 });
        let depth = if i % 3 == 0 { 0 } else { e.ctx.rng.range(1, max_depth) };
        gen_doc_sample(&mut e, fmt, nstmt, depth);
    }
    let n_chunk = if thorough { 600 } else { 60 };
    for i in 0..n_chunk {
        let len = if i % 5 == 0 { e.ctx.rng.range(0, 3) } else { e.ctx.rng.range(2, 12) };
        gen_chunked_sample(&mut e, len, max_depth);
    }
    let n_gad = if thorough { 300 } else { 30 };
    for i in 0..n_gad {
        let len = if i % 4 == 0 { e.ctx.rng.range(0, 2) } else { e.ctx.rng.range(2, 10) };
        gen_gad_sample(&mut e, len, max_depth);
    }
    let n_list = if thorough { 400 } else { 40 };
    for _ in 0..n_list {
        gen_turtle_list_sample(&mut e, max_depth);
    }
}

fn main() {
    // `vh-c15 observe <fmt> <hex doc>`: print the source token for a document (helper for writing corpus cases)
    let args: Vec<String> = std::env::args().collect();
    if args.get(1).map(|s| s.as_str()) == Some("observe") {
        let fmt = Fmt::parse(&args[2]).expect("fmt");
        let doc = unhex(&args[3]).expect("hex");
        println!("{}", render_src(&Src::Doc(observe_doc(fmt, &doc))));
        return;
    }
    vhcore::main_loop(generate, exec);
}
