//! A quarantining global allocator for the harness process (the code under test is untouched).
//!
//! While a history runs, released blocks are NOT handed back to the system allocator, so no address
//! is reused within a history: a pointer into a released buffer can then never *look* as if it
//! pointed into a live one (observed without this: a clone made after the original's drop got its
//! keys at the very addresses the original's keys had, and the range audit reported `inside`).
//! This is exactly the model's "allocation ids are never reused".  Everything quarantined is
//! really released when the history ends.
use std::alloc::{GlobalAlloc, Layout, System};
use std::sync::atomic::{AtomicBool, Ordering};
use std::sync::Mutex;

pub struct Quarantine;

struct Queue {
    buf: *mut (usize, Layout),
    len: usize,
    cap: usize,
}
unsafe impl Send for Queue {}

static ENABLED: AtomicBool = AtomicBool::new(false);
static QUEUE: Mutex<Queue> = Mutex::new(Queue { buf: std::ptr::null_mut(), len: 0, cap: 0 });

unsafe impl GlobalAlloc for Quarantine {
    unsafe fn alloc(&self, l: Layout) -> *mut u8 {
        unsafe { System.alloc(l) }
    }
    unsafe fn alloc_zeroed(&self, l: Layout) -> *mut u8 {
        unsafe { System.alloc_zeroed(l) }
    }
    // `realloc` is the default one: alloc + copy + dealloc, so the old block is quarantined as well
    unsafe fn dealloc(&self, p: *mut u8, l: Layout) {
        if !ENABLED.load(Ordering::Relaxed) {
            return unsafe { System.dealloc(p, l) };
        }
        let mut q = QUEUE.lock().unwrap_or_else(|e| e.into_inner());
        if q.len == q.cap {
            let ncap = if q.cap == 0 { 1 << 16 } else { q.cap * 2 };
            let nl = Layout::array::<(usize, Layout)>(ncap).unwrap();
            let nb = unsafe {
                if q.cap == 0 {
                    System.alloc(nl)
                } else {
                    System.realloc(q.buf as *mut u8, Layout::array::<(usize, Layout)>(q.cap).unwrap(), nl.size())
                }
            } as *mut (usize, Layout);
            if nb.is_null() {
                std::process::abort();
            }
            q.buf = nb;
            q.cap = ncap;
        }
        unsafe { q.buf.add(q.len).write((p as usize, l)) };
        q.len += 1;
    }
}

/// does `[addr, addr + len)` touch a block released since the history began?
pub fn released(addr: usize, len: usize) -> bool {
    // nothing is allocated or released while the lock is held
    let q = QUEUE.lock().unwrap_or_else(|e| e.into_inner());
    for i in 0..q.len {
        let (p, l) = unsafe { q.buf.add(i).read() };
        if addr < p + l.size() && p < addr + len {
            return true;
        }
    }
    false
}

/// quarantine is on while a `Guard` is alive
pub struct Guard;

pub fn begin() -> Guard {
    ENABLED.store(true, Ordering::Relaxed);
    Guard
}

impl Drop for Guard {
    fn drop(&mut self) {
        ENABLED.store(false, Ordering::Relaxed);
        let mut q = QUEUE.lock().unwrap_or_else(|e| e.into_inner());
        for i in 0..q.len {
            let (p, l) = unsafe { q.buf.add(i).read() };
            unsafe { System.dealloc(p as *mut u8, l) };
        }
        q.len = 0;
    }
}
