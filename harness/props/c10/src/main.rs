//! C10 — clones of in-memory stores are independent and memory-safe.
//!
//! ONE REQUEST LINE = ONE SELF-CONTAINED HISTORY over any number of named stores:
//!   H <op> ; <op> ; …
//!     new <n> <LD|FD|LG|FG|TI> <16|32>   ins <n> <quad>   ens <n> <term>   rem <n> <quad>
//!     fill <n> <k> <off> <lit|iri|qt|lang>   clone <a> <b>   cfrom <a> <b>   drop <n>
//!     swap <a> <b>   mv <a> <b>   box <n>   take <a> <b>   all <n>
//!
//! After every op, for every live store: the audit vector of the cfg-guarded hook
//! `verif_audit` (when /repo has it: `has_audit`), and the content — ONLY of stores that are safe
//! to read: audit clean (hook) resp. no dropped clone-ancestor (no hook).  A store whose audit
//! reports a pointer outside its own keys is NEVER read: no undefined behaviour inside the checker.
mod quarantine;
#[global_allocator]
static ALLOC: quarantine::Quarantine = quarantine::Quarantine;

use sophia_api::dataset::{Dataset, MutableDataset};
use sophia_api::graph::{Graph, MutableGraph};
use sophia_api::term::SimpleTerm;
use sophia_inmem::dataset::{GenericFastDataset, GenericLightDataset};
use sophia_inmem::graph::{GenericFastGraph, GenericLightGraph};
use sophia_inmem::index::{Index, SimpleTermIndex, TermIndex};
use std::collections::{BTreeMap, BTreeSet};
use vhcore::tgen::{self, TermGen};
use vhcore::util::*;
use vhcore::GenCtx;

type ST = SimpleTerm<'static>;
type Ranges = Vec<(usize, usize)>;

// ---------------------------------------------------------------- rendering (as the Lean driver)

fn canon(t: &T) -> T {
    match t {
        T::Lang(l, tag) => T::Lang(l.clone(), tag.to_ascii_lowercase()),
        T::Triple(b) => T::Triple(Box::new([canon(&b[0]), canon(&b[1]), canon(&b[2])])),
        other => other.clone(),
    }
}
fn render_q(q: &Q, n: usize) -> String {
    let s = if n == 3 {
        format!("{} {} {}", canon(&q.s).render(), canon(&q.p).render(), canon(&q.o).render())
    } else {
        Q { s: canon(&q.s), p: canon(&q.p), o: canon(&q.o), g: q.g.as_ref().map(canon) }.render()
    };
    s.replace(' ', ",")
}
fn fnv(s: &str) -> u64 {
    let mut h: u64 = 0xcbf29ce484222325;
    for b in s.as_bytes() {
        h = (h ^ (*b as u64)).wrapping_mul(0x100000001b3);
    }
    h
}
fn digest(items: &[String]) -> String {
    format!("{}:{:016x}", items.len(), fnv(&items.join(";")))
}
fn rle(v: &[char]) -> String {
    if v.is_empty() {
        return "_".into();
    }
    let mut parts = vec![];
    let (mut c, mut k) = (v[0], 0usize);
    for x in v {
        if *x == c {
            k += 1;
        } else {
            parts.push(format!("{}*{}", c, k));
            c = *x;
            k = 1;
        }
    }
    parts.push(format!("{}*{}", c, k));
    parts.join(",")
}

/// address ranges of the (non-empty) strings of a term that is known to be readable
fn ranges_of(t: &ST, out: &mut Ranges) {
    let mut push = |s: &str| {
        if !s.is_empty() {
            out.push((s.as_ptr() as usize, s.len()))
        }
    };
    match t {
        SimpleTerm::Iri(i) => push(i.as_str()),
        SimpleTerm::BlankNode(b) => push(b.as_str()),
        SimpleTerm::Variable(v) => push(v.as_str()),
        SimpleTerm::LiteralDatatype(l, d) => {
            push(l);
            push(d.as_str())
        }
        SimpleTerm::LiteralLanguage(l, g) => {
            push(l);
            push(g.as_str())
        }
        SimpleTerm::Triple(b) => {
            for c in b.iter() {
                ranges_of(c, out)
            }
        }
    }
}

// ---------------------------------------------------------------- the ten store types behind one trait

#[derive(Clone, Copy, PartialEq, Eq)]
enum R {
    Flag(bool),
    Idx(usize),
    Full,
    Bad,
}

trait Ops: Clone + Default {
    /// 4 = dataset, 3 = graph, 0 = bare term index
    const N: usize;
    fn ins(&mut self, _q: &Q) -> R {
        R::Bad
    }
    fn rem(&mut self, _q: &Q) -> R {
        R::Bad
    }
    fn ens(&mut self, _t: &T) -> R {
        R::Bad
    }
    /// rendered items + address ranges of every string read.  ONLY called on readable stores.
    fn read(&self) -> (Vec<String>, Ranges);
    fn audit(&self) -> Option<Vec<(bool, bool)>>;
}

macro_rules! dataset_ops {
    ($ty:ident) => {
        impl<I: Index + Default> Ops for $ty<SimpleTermIndex<I>> {
            const N: usize = 4;
            fn ins(&mut self, q: &Q) -> R {
                let ([s, p, o], g) = tgen::q_to_simple(q);
                match MutableDataset::insert(self, &s, &p, &o, g.as_ref()) {
                    Ok(b) => R::Flag(b),
                    Err(_) => R::Full,
                }
            }
            fn rem(&mut self, q: &Q) -> R {
                let ([s, p, o], g) = tgen::q_to_simple(q);
                match MutableDataset::remove(self, &s, &p, &o, g.as_ref()) {
                    Ok(b) => R::Flag(b),
                    Err(_) => R::Full,
                }
            }
            fn read(&self) -> (Vec<String>, Ranges) {
                let mut items = vec![];
                let mut rg = vec![];
                for q in self.quads() {
                    let (g, [s, p, o]) = q.unwrap();
                    for t in [s, p, o].into_iter().chain(g) {
                        ranges_of(t, &mut rg);
                    }
                    items.push(render_q(&Q { s: tgen::view(s), p: tgen::view(p), o: tgen::view(o), g: g.map(tgen::view) }, 4));
                }
                items.sort();
                (items, rg)
            }
            fn audit(&self) -> Option<Vec<(bool, bool)>> {
                #[cfg(has_audit)]
                {
                    Some(self.verif_audit())
                }
                #[cfg(not(has_audit))]
                {
                    None
                }
            }
        }
    };
}
macro_rules! graph_ops {
    ($ty:ident) => {
        impl<I: Index + Default> Ops for $ty<SimpleTermIndex<I>> {
            const N: usize = 3;
            fn ins(&mut self, q: &Q) -> R {
                let ([s, p, o], _) = tgen::q_to_simple(q);
                match MutableGraph::insert(self, &s, &p, &o) {
                    Ok(b) => R::Flag(b),
                    Err(_) => R::Full,
                }
            }
            fn rem(&mut self, q: &Q) -> R {
                let ([s, p, o], _) = tgen::q_to_simple(q);
                match MutableGraph::remove(self, &s, &p, &o) {
                    Ok(b) => R::Flag(b),
                    Err(_) => R::Full,
                }
            }
            fn read(&self) -> (Vec<String>, Ranges) {
                let mut items = vec![];
                let mut rg = vec![];
                for t in self.triples() {
                    let [s, p, o] = t.unwrap();
                    for t in [s, p, o] {
                        ranges_of(t, &mut rg);
                    }
                    items.push(render_q(&Q { s: tgen::view(s), p: tgen::view(p), o: tgen::view(o), g: None }, 3));
                }
                items.sort();
                (items, rg)
            }
            fn audit(&self) -> Option<Vec<(bool, bool)>> {
                #[cfg(has_audit)]
                {
                    Some(self.verif_audit())
                }
                #[cfg(not(has_audit))]
                {
                    None
                }
            }
        }
    };
}
dataset_ops!(GenericLightDataset);
dataset_ops!(GenericFastDataset);
graph_ops!(GenericLightGraph);
graph_ops!(GenericFastGraph);

impl<I: Index + Default> Ops for SimpleTermIndex<I> {
    const N: usize = 0;
    fn ens(&mut self, t: &T) -> R {
        match self.ensure_index(tgen::to_simple(t)) {
            Ok(i) => R::Idx(i.into_usize()),
            Err(_) => R::Full,
        }
    }
    fn read(&self) -> (Vec<String>, Ranges) {
        let mut items = vec![];
        let mut rg = vec![];
        for i in 0..self.len() {
            let t = self.get_term(I::from_usize(i));
            ranges_of(t, &mut rg);
            items.push(tgen::view(t).render().replace(' ', ","));
        }
        (items, rg)
    }
    fn audit(&self) -> Option<Vec<(bool, bool)>> {
        #[cfg(has_audit)]
        {
            Some(self.verif_audit())
        }
        #[cfg(not(has_audit))]
        {
            None
        }
    }
}

enum Store {
    LD32(GenericLightDataset<SimpleTermIndex<u32>>),
    LD16(GenericLightDataset<SimpleTermIndex<u16>>),
    FD32(GenericFastDataset<SimpleTermIndex<u32>>),
    FD16(GenericFastDataset<SimpleTermIndex<u16>>),
    LG32(GenericLightGraph<SimpleTermIndex<u32>>),
    LG16(GenericLightGraph<SimpleTermIndex<u16>>),
    FG32(GenericFastGraph<SimpleTermIndex<u32>>),
    FG16(GenericFastGraph<SimpleTermIndex<u16>>),
    TI32(SimpleTermIndex<u32>),
    TI16(SimpleTermIndex<u16>),
}

macro_rules! each {
    ($s:expr, $v:ident => $body:expr) => {
        match $s {
            Store::LD32($v) => $body,
            Store::LD16($v) => $body,
            Store::FD32($v) => $body,
            Store::FD16($v) => $body,
            Store::LG32($v) => $body,
            Store::LG16($v) => $body,
            Store::FG32($v) => $body,
            Store::FG16($v) => $body,
            Store::TI32($v) => $body,
            Store::TI16($v) => $body,
        }
    };
}
/// same-variant pairs; `$other` for mixed ones
macro_rules! both {
    ($a:expr, $b:expr, $x:ident, $y:ident => $body:expr, else $other:expr) => {
        match ($a, $b) {
            (Store::LD32($x), Store::LD32($y)) => $body,
            (Store::LD16($x), Store::LD16($y)) => $body,
            (Store::FD32($x), Store::FD32($y)) => $body,
            (Store::FD16($x), Store::FD16($y)) => $body,
            (Store::LG32($x), Store::LG32($y)) => $body,
            (Store::LG16($x), Store::LG16($y)) => $body,
            (Store::FG32($x), Store::FG32($y)) => $body,
            (Store::FG16($x), Store::FG16($y)) => $body,
            (Store::TI32($x), Store::TI32($y)) => $body,
            (Store::TI16($x), Store::TI16($y)) => $body,
            _ => $other,
        }
    };
}
/// rebuild the same variant from a value computed from the inner store
macro_rules! map_same {
    ($s:expr, $v:ident => $body:expr) => {
        match $s {
            Store::LD32($v) => Store::LD32($body),
            Store::LD16($v) => Store::LD16($body),
            Store::FD32($v) => Store::FD32($body),
            Store::FD16($v) => Store::FD16($body),
            Store::LG32($v) => Store::LG32($body),
            Store::LG16($v) => Store::LG16($body),
            Store::FG32($v) => Store::FG32($body),
            Store::FG16($v) => Store::FG16($body),
            Store::TI32($v) => Store::TI32($body),
            Store::TI16($v) => Store::TI16($body),
        }
    };
}

fn n_of<S: Ops>(_: &S) -> usize {
    S::N
}

impl Store {
    fn new(kind: &str, width: &str) -> Option<Store> {
        Some(match (kind, width) {
            ("LD", "32") => Store::LD32(Default::default()),
            ("LD", "16") => Store::LD16(Default::default()),
            ("FD", "32") => Store::FD32(Default::default()),
            ("FD", "16") => Store::FD16(Default::default()),
            ("LG", "32") => Store::LG32(Default::default()),
            ("LG", "16") => Store::LG16(Default::default()),
            ("FG", "32") => Store::FG32(Default::default()),
            ("FG", "16") => Store::FG16(Default::default()),
            ("TI", "32") => Store::TI32(Default::default()),
            ("TI", "16") => Store::TI16(Default::default()),
            _ => return None,
        })
    }
    fn n(&self) -> usize {
        each!(self, s => n_of(s))
    }
    fn same_type(&self, other: &Store) -> bool {
        std::mem::discriminant(self) == std::mem::discriminant(other)
    }
}

/// where the struct itself lives (irrelevant for the string buffers — that is the point)
enum Slot {
    Inline(Store),
    Boxed(Box<Store>),
}
impl Slot {
    fn get(&self) -> &Store {
        match self {
            Slot::Inline(s) => s,
            Slot::Boxed(b) => b,
        }
    }
    fn get_mut(&mut self) -> &mut Store {
        match self {
            Slot::Inline(s) => s,
            Slot::Boxed(b) => b,
        }
    }
    fn into_store(self) -> Store {
        match self {
            Slot::Inline(s) => s,
            Slot::Boxed(b) => *b,
        }
    }
}

struct Entry {
    slot: Slot,
    /// identity of the VALUE (follows it through moves and swaps)
    id: u64,
    /// values this one was (transitively) cloned from, itself included: the only values whose
    /// buffers its `i2t` can point into
    deps: BTreeSet<u64>,
    /// values it was SEEN to share string buffers with (public API only, both alive at the time)
    aliased: BTreeSet<u64>,
}

#[derive(Default)]
struct WorldR {
    stores: BTreeMap<String, Entry>,
    live: BTreeSet<u64>,
    next: u64,
}

impl WorldR {
    fn fresh(&mut self) -> u64 {
        self.next += 1;
        self.live.insert(self.next);
        self.next
    }
    fn add(&mut self, name: &str, st: Store, from: Option<&BTreeSet<u64>>) {
        let id = self.fresh();
        let mut deps = from.cloned().unwrap_or_default();
        deps.insert(id);
        self.stores.insert(name.to_string(), Entry { slot: Slot::Inline(st), id, deps, aliased: BTreeSet::new() });
    }
}

fn res(r: R) -> String {
    match r {
        R::Flag(b) => (if b { "1" } else { "0" }).to_string(),
        R::Idx(i) => format!("i{}", i),
        R::Full => "full".into(),
        R::Bad => "bad".into(),
    }
}

fn fill_term(mode: &str, i: usize) -> T {
    let lit = T::Lit(i.to_string(), "x:fill".into());
    match mode {
        "iri" => T::Iri(format!("x:n{}", i)),
        "qt" => T::Triple(Box::new([T::Iri("x:s".into()), T::Iri("x:p".into()), lit])),
        "lang" => T::Lang(i.to_string(), "en".into()),
        _ => lit,
    }
}

fn norm_q(mut q: Q, n: usize) -> Q {
    if n != 4 {
        q.g = None;
    }
    q
}

fn exec1(w: &mut WorldR, toks: &[&str]) -> String {
    let bad = || "bad".to_string();
    match toks {
        ["new", n, kind, width] => {
            if w.stores.contains_key(*n) {
                return bad();
            }
            match Store::new(kind, width) {
                Some(st) => {
                    w.add(n, st, None);
                    "ok".into()
                }
                None => bad(),
            }
        }
        ["ins", n, rest @ ..] | ["rem", n, rest @ ..] => {
            let Some(e) = w.stores.get_mut(*n) else { return bad() };
            let mut it = rest.iter().copied().peekable();
            let Some(q) = Q::parse(&mut it) else { return bad() };
            if it.peek().is_some() {
                return bad();
            }
            let st = e.slot.get_mut();
            let q = norm_q(q, st.n());
            let ins = toks[0] == "ins";
            res(each!(st, s => if ins { s.ins(&q) } else { s.rem(&q) }))
        }
        ["ens", n, rest @ ..] => {
            let Some(e) = w.stores.get_mut(*n) else { return bad() };
            let mut it = rest.iter().copied();
            let Some(t) = T::parse(&mut it) else { return bad() };
            if it.next().is_some() {
                return bad();
            }
            res(each!(e.slot.get_mut(), s => s.ens(&t)))
        }
        ["fill", n, k, off, mode] => {
            let Some(e) = w.stores.get_mut(*n) else { return bad() };
            let (Ok(k), Ok(off)) = (k.parse::<usize>(), off.parse::<usize>()) else { return bad() };
            let st = e.slot.get_mut();
            let ti = st.n() == 0;
            let mut cnt = 0usize;
            for i in off..off + k {
                let t = fill_term(mode, i);
                let r = if ti {
                    each!(st, s => s.ens(&t))
                } else {
                    let q = Q { s: T::Iri("x:s".into()), p: T::Iri("x:p".into()), o: t, g: None };
                    each!(st, s => s.ins(&q))
                };
                match r {
                    R::Idx(_) | R::Flag(true) => cnt += 1,
                    R::Flag(false) => {}
                    R::Full => return "full".into(),
                    R::Bad => return bad(),
                }
            }
            cnt.to_string()
        }
        ["clone", a, b] => {
            if w.stores.contains_key(*b) {
                return bad();
            }
            let Some(e) = w.stores.get(*a) else { return bad() };
            // `let b = a.clone();`
            let c = map_same!(e.slot.get(), s => s.clone());
            let deps = e.deps.clone();
            w.add(b, c, Some(&deps));
            "ok".into()
        }
        ["cfrom", a, b] => {
            if a == b || !w.stores.contains_key(*a) || !w.stores.contains_key(*b) {
                return bad();
            }
            let mut eb = w.stores.remove(*b).unwrap();
            let ea = w.stores.get(*a).unwrap();
            if !ea.slot.get().same_type(eb.slot.get()) {
                w.stores.insert(b.to_string(), eb);
                return bad();
            }
            // `b.clone_from(&a);`
            both!(ea.slot.get(), eb.slot.get_mut(), x, y => y.clone_from(x), else unreachable!());
            let mut deps = ea.deps.clone();
            w.live.remove(&eb.id); // the old value of `b` is gone
            let id = w.fresh();
            deps.insert(id);
            eb.id = id;
            eb.deps = deps;
            eb.aliased = BTreeSet::new();
            w.stores.insert(b.to_string(), eb);
            "ok".into()
        }
        ["drop", a] => {
            let Some(e) = w.stores.remove(*a) else { return bad() };
            w.live.remove(&e.id);
            drop(e);
            "ok".into()
        }
        ["swap", a, b] => {
            if !w.stores.contains_key(*a) || !w.stores.contains_key(*b) {
                return bad();
            }
            if a == b {
                return "ok".into();
            }
            let mut ea = w.stores.remove(*a).unwrap();
            let mut eb = w.stores.remove(*b).unwrap();
            let ok = ea.slot.get().same_type(eb.slot.get());
            if ok {
                // `std::mem::swap(&mut a, &mut b);` — the values trade places (and their identities with them)
                std::mem::swap(ea.slot.get_mut(), eb.slot.get_mut());
                std::mem::swap(&mut ea.id, &mut eb.id);
                std::mem::swap(&mut ea.deps, &mut eb.deps);
                std::mem::swap(&mut ea.aliased, &mut eb.aliased);
            }
            w.stores.insert(a.to_string(), ea);
            w.stores.insert(b.to_string(), eb);
            if ok { "ok".into() } else { bad() }
        }
        ["mv", a, b] => {
            if w.stores.contains_key(*b) || !w.stores.contains_key(*a) {
                return bad();
            }
            // `let b = a;`
            let e = w.stores.remove(*a).unwrap();
            let Entry { slot, id, deps, aliased } = e;
            let moved: Store = slot.into_store();
            w.stores.insert(b.to_string(), Entry { slot: Slot::Inline(moved), id, deps, aliased });
            "ok".into()
        }
        ["box", a] => {
            let Some(e) = w.stores.remove(*a) else { return bad() };
            let Entry { slot, id, deps, aliased } = e;
            let slot = match slot {
                Slot::Inline(s) => Slot::Boxed(Box::new(s)),
                Slot::Boxed(b) => Slot::Inline(*b),
            };
            w.stores.insert(a.to_string(), Entry { slot, id, deps, aliased });
            "ok".into()
        }
        ["take", a, b] => {
            if w.stores.contains_key(*b) || !w.stores.contains_key(*a) {
                return bad();
            }
            let fresh = w.fresh();
            let ea = w.stores.get_mut(*a).unwrap();
            // `let b = std::mem::take(&mut a);`
            let taken = map_same!(ea.slot.get_mut(), s => std::mem::take(s));
            let (id, deps, aliased) = (ea.id, std::mem::take(&mut ea.deps), std::mem::take(&mut ea.aliased));
            ea.id = fresh;
            ea.deps = BTreeSet::from([fresh]);
            w.stores.insert(b.to_string(), Entry { slot: Slot::Inline(taken), id, deps, aliased });
            "ok".into()
        }
        ["all", a] => {
            if w.stores.contains_key(*a) { "ok".into() } else { bad() }
        }
        _ => bad(),
    }
}

fn overlap(a: &Ranges, b: &Ranges) -> bool {
    // both sorted by start
    let (mut i, mut j) = (0, 0);
    while i < a.len() && j < b.len() {
        let (s1, l1) = a[i];
        let (s2, l2) = b[j];
        if s1 < s2 + l2 && s2 < s1 + l1 {
            return true;
        }
        if s1 + l1 <= s2 + l2 {
            i += 1
        } else {
            j += 1
        }
    }
    false
}

/// state of every live store after step `k`
fn report(w: &mut WorldR, k: usize, out: &mut Vec<String>) {
    let names: Vec<String> = w.stores.keys().cloned().collect();
    let mut seen: Vec<(String, u64, Ranges)> = vec![];
    for nm in &names {
        let e = &w.stores[nm];
        let st = e.slot.get();
        let audit = each!(st, s => s.audit());
        let tainted = !e.deps.iter().all(|d| w.live.contains(d));
        let readable = match &audit {
            Some(v) => {
                let chars: Vec<char> = v
                    .iter()
                    .map(|p| match p {
                        (true, true) => '1',
                        (true, false) => 'x',
                        (false, false) => 'n',
                        (false, true) => '?',
                    })
                    .collect();
                out.push(format!("{}.A.{}={}", k, nm, rle(&chars)));
                let dirty = v.iter().any(|p| *p != (true, true));
                out.push(format!("{}.D.{}={}", k, nm, if dirty { 1 } else { 0 }));
                if dirty {
                    out.push(format!("FAIL.dangling.{}.{}={}", k, nm, if tainted { "freed" } else { "latent" }));
                }
                !dirty
            }
            None => !tainted,
        };
        if readable {
            let (items, mut rg) = each!(st, s => s.read());
            out.push(format!("{}.C.{}={}", k, nm, digest(&items)));
            rg.sort();
            rg.dedup();
            seen.push((nm.clone(), e.id, rg));
        } else {
            out.push(format!("{}.skipped.{}=1", k, nm));
        }
    }
    // sharing of string buffers between two live, readable stores — observed through the public API only
    let mut newly: Vec<(String, u64)> = vec![];
    for i in 0..seen.len() {
        for j in 0..seen.len() {
            if i != j && overlap(&seen[i].2, &seen[j].2) {
                // the borrower is the one that descends from the other
                let ei = &w.stores[&seen[i].0];
                if ei.deps.contains(&seen[j].1) {
                    newly.push((seen[i].0.clone(), seen[j].1));
                }
            }
        }
    }
    for (nm, other) in newly {
        w.stores.get_mut(&nm).unwrap().aliased.insert(other);
    }
    if cfg!(not(has_audit)) {
        for nm in &names {
            let e = &w.stores[nm];
            if !e.aliased.is_empty() {
                let freed = !e.aliased.iter().all(|d| w.live.contains(d));
                out.push(format!("{}.D.{}=1", k, nm));
                out.push(format!("FAIL.dangling.{}.{}={}", k, nm, if freed { "freed" } else { "latent" }));
            }
        }
    }
}

pub fn exec(line: &str) -> String {
    let toks: Vec<&str> = line.split_whitespace().collect();
    if toks.first() != Some(&"H") {
        return "bad-op".into();
    }
    let ops: Vec<&[&str]> = toks[1..].split(|t| *t == ";").filter(|g| !g.is_empty()).collect();
    if ops.is_empty() {
        return "bad-op".into();
    }
    // no address is reused while the history runs (see quarantine.rs)
    let _guard = quarantine::begin();
    let mut w = WorldR::default();
    let mut out = vec![format!("audit={}", if cfg!(has_audit) { "hook" } else { "unavailable" })];
    for (k, op) in ops.iter().enumerate() {
        let r = exec1(&mut w, op);
        out.push(format!("{}.r={}", k, r));
        report(&mut w, k, &mut out);
    }
    drop(w);
    out.join(" ")
}

// ---------------------------------------------------------------- generation

const KINDS: &[(&str, &str)] = &[
    ("LD", "32"), ("FD", "32"), ("LG", "32"), ("FG", "32"), ("TI", "32"),
    ("LD", "16"), ("FD", "16"), ("LG", "16"), ("FG", "16"), ("TI", "16"),
];
const NAMES: &[&str] = &["a", "b", "c", "d", "e", "f"];

struct GStore {
    kind: usize,
    pool: Vec<Q>,
    tpool: Vec<T>,
}

fn emit_h(ctx: &mut GenCtx, ops: &[String]) {
    ctx.emit(&format!("H {}", ops.join(" ; ")));
}

fn random_history(ctx: &mut GenCtx, g: &TermGen, h: usize, maxlen: usize) {
    let mut live: BTreeMap<&'static str, GStore> = BTreeMap::new();
    let mut ops: Vec<String> = vec![];
    let base = h % KINDS.len();
    let mixed = ctx.rng.chance(1, 5);
    let generalized = h % 3 != 0;
    let n = ctx.rng.range(6, maxlen);
    ctx.stats.bump(&format!("store.{}{}", KINDS[base].0, KINDS[base].1));
    let mut cloned_live = 0usize;
    for step in 0..n {
        let free: Vec<&'static str> = NAMES.iter().copied().filter(|x| !live.contains_key(x)).collect();
        let names: Vec<&'static str> = live.keys().copied().collect();
        if names.is_empty() {
            let kind = if mixed { ctx.rng.below(KINDS.len()) } else { base };
            let nm = *ctx.rng.pick(&free);
            ops.push(format!("new {} {} {}", nm, KINDS[kind].0, KINDS[kind].1));
            live.insert(nm, GStore { kind, pool: vec![], tpool: vec![] });
            ctx.stats.bump("op.new");
            continue;
        }
        let a = *ctx.rng.pick(&names);
        let ka = live[a].kind;
        let ti = KINDS[ka].0 == "TI";
        let graph = KINDS[ka].0.ends_with('G');
        let roll = ctx.rng.below(100);
        let op: &str = match roll {
            0..=37 => "ins",
            38..=43 => "rem",
            44..=55 => "clone",
            56..=65 => "drop",
            66..=70 => "swap",
            71..=73 => "mv",
            74..=77 => "box",
            78..=80 => "take",
            81..=84 => "cfrom",
            85..=91 => "all",
            92..=95 => "fill",
            _ => "new",
        };
        // the first steps build something worth cloning
        let op = if step < 3 && !matches!(op, "ins" | "fill") { "ins" } else { op };
        let line = match op {
            "ins" => {
                if ti {
                    let t = if !live[a].tpool.is_empty() && ctx.rng.chance(1, 4) { ctx.rng.pick(&live[a].tpool).clone() } else { g.term(&mut ctx.rng, 2) };
                    if matches!(t, T::Triple(_)) {
                        ctx.stats.bump("term.quoted_triple");
                    }
                    live.get_mut(a).unwrap().tpool.push(t.clone());
                    Some(format!("ens {} {}", a, t.render()))
                } else {
                    let mut q = if !live[a].pool.is_empty() && ctx.rng.chance(1, 4) {
                        ctx.rng.pick(&live[a].pool).clone()
                    } else if generalized {
                        g.any_quad(&mut ctx.rng)
                    } else {
                        g.strict_quad(&mut ctx.rng)
                    };
                    if graph {
                        q.g = None;
                    }
                    if [&q.s, &q.p, &q.o].iter().any(|t| matches!(t, T::Triple(_))) {
                        ctx.stats.bump("term.quoted_triple");
                    }
                    live.get_mut(a).unwrap().pool.push(q.clone());
                    Some(format!("ins {} {}", a, q.render()))
                }
            }
            "rem" if !ti => {
                let mut q = if !live[a].pool.is_empty() && ctx.rng.chance(3, 4) { ctx.rng.pick(&live[a].pool).clone() } else { g.strict_quad(&mut ctx.rng) };
                if graph {
                    q.g = None;
                }
                Some(format!("rem {} {}", a, q.render()))
            }
            "clone" if !free.is_empty() => {
                let b = *ctx.rng.pick(&free);
                let c = GStore { kind: ka, pool: live[a].pool.clone(), tpool: live[a].tpool.clone() };
                live.insert(b, c);
                cloned_live += 1;
                Some(format!("clone {} {}", a, b))
            }
            "drop" => {
                live.remove(a);
                if cloned_live > 0 {
                    ctx.stats.bump("drop_with_clone_history");
                }
                Some(format!("drop {}", a))
            }
            "swap" => {
                let b = *ctx.rng.pick(&names);
                if live[b].kind == ka {
                    if a != b {
                        let sa = live.remove(a).unwrap();
                        let sb = live.remove(b).unwrap();
                        live.insert(a, sb);
                        live.insert(b, sa);
                    }
                    Some(format!("swap {} {}", a, b))
                } else {
                    None
                }
            }
            "mv" if !free.is_empty() => {
                let b = *ctx.rng.pick(&free);
                let s = live.remove(a).unwrap();
                live.insert(b, s);
                Some(format!("mv {} {}", a, b))
            }
            "box" => Some(format!("box {}", a)),
            "take" if !free.is_empty() => {
                let b = *ctx.rng.pick(&free);
                let s = live.remove(a).unwrap();
                live.insert(a, GStore { kind: ka, pool: vec![], tpool: vec![] });
                live.insert(b, s);
                Some(format!("take {} {}", a, b))
            }
            "cfrom" => {
                let b = *ctx.rng.pick(&names);
                if b != a && live[b].kind == ka {
                    let c = GStore { kind: ka, pool: live[a].pool.clone(), tpool: live[a].tpool.clone() };
                    live.insert(b, c);
                    cloned_live += 1;
                    Some(format!("cfrom {} {}", a, b))
                } else {
                    None
                }
            }
            "all" => Some(format!("all {}", a)),
            "fill" => {
                let k = ctx.rng.range(3, 24);
                let off = ctx.rng.below(40);
                let mode = *ctx.rng.pick(&["lit", "iri", "qt", "lang"]);
                Some(format!("fill {} {} {} {}", a, k, off, mode))
            }
            "new" if !free.is_empty() => {
                let kind = if mixed { ctx.rng.below(KINDS.len()) } else { base };
                let nm = *ctx.rng.pick(&free);
                live.insert(nm, GStore { kind, pool: vec![], tpool: vec![] });
                Some(format!("new {} {} {}", nm, KINDS[kind].0, KINDS[kind].1))
            }
            _ => None,
        };
        if let Some(l) = line {
            ctx.stats.bump(&format!("op.{}", l.split(' ').next().unwrap()));
            ops.push(l);
        }
    }
    // every survivor is read at the end
    for nm in live.keys() {
        ops.push(format!("all {}", nm));
    }
    if h < 2 {
        ctx.stats.sample(format!("random history {}: {} ops on {}{}", h, ops.len(), KINDS[base].0, KINDS[base].1));
    }
    emit_h(ctx, &ops);
}

pub fn generate(ctx: &mut GenCtx) {
    let mut g = TermGen::default();
    g.iris.truncate(4);
    g.lexicals.truncate(6);
    let s = |v: &[&str]| v.iter().map(|x| x.to_string()).collect::<Vec<String>>();
    // which oracle this build has (goes into the evidence's generator_distribution)
    ctx.stats.bump(if cfg!(has_audit) {
        "oracle.audit_hook_present"
    } else {
        "oracle.audit_hook_ABSENT__only_public_api_aliasing_and_model_witness"
    });

    // the kernel-checked witness (`derive_clone_dangles`), replayed: insert; clone; drop the original; read the clone
    emit_h(ctx, &s(&["new a TI 32", "ens a i 78", "clone a b", "drop a", "all b"]));
    ctx.stats.bump("scripted.witness");

    let sizes: &[usize] = if ctx.thorough { &[100, 500, 1000, 2000] } else { &[100, 300, 600] };
    let modes = ["lit", "iri", "qt", "lang"];
    for (ki, (kind, width)) in KINDS.iter().enumerate() {
        let nw = format!("new a {} {}", kind, width);
        // the defect of the earlier probe: insert 100 terms, clone, drop the original, iterate the clone
        emit_h(ctx, &[nw.clone(), "fill a 100 0 lit".into(), "clone a b".into(), "drop a".into(), "all b".into(),
            "fill b 10 1000 iri".into(), "all b".into(), "drop b".into()]);
        // the clone goes first; the original lives on
        emit_h(ctx, &[nw.clone(), format!("fill a 60 0 {}", modes[ki % 4]), "clone a b".into(), "fill b 20 100 lit".into(), "drop b".into(),
            "all a".into(), "fill a 20 200 lang".into(), "all a".into()]);
        // the values trade places before one of them goes
        emit_h(ctx, &[nw.clone(), "fill a 40 0 lit".into(), "clone a b".into(), "swap a b".into(), "drop a".into(), "all b".into()]);
        emit_h(ctx, &[nw.clone(), "fill a 40 0 iri".into(), "clone a b".into(), "swap a b".into(), "drop b".into(), "all a".into()]);
        // clone_from over a non-empty target; the source goes afterwards
        emit_h(ctx, &[nw.clone(), format!("new b {} {}", kind, width), "fill a 30 0 qt".into(), "fill b 30 500 lit".into(),
            "cfrom a b".into(), "drop a".into(), "all b".into(), "fill b 5 900 lit".into(), "all b".into()]);
        // take / box / move, then a chain of clones whose links disappear one by one
        emit_h(ctx, &[nw.clone(), "fill a 30 0 lang".into(), "take a b".into(), "box b".into(), "clone b c".into(), "mv c d".into(),
            "clone d e".into(), "drop b".into(), "all d".into(), "all e".into(), "drop d".into(), "all e".into(), "all a".into(), "box e".into(), "all e".into()]);
        ctx.stats.add("scripted.patterns", 6);
        // growth across the table's 2^k thresholds, before and after cloning, on the original and on the clone
        for (si, n) in sizes.iter().enumerate() {
            if !ctx.thorough && width == &"16" && *n > 300 {
                continue;
            }
            let m = modes[(ki + si) % 4];
            emit_h(ctx, &[nw.clone(), format!("fill a {} 0 {}", n, m), "clone a b".into(), format!("fill a {} {} {}", n, n, m),
                format!("fill b {} {} {}", n / 2, 3 * n, modes[(ki + si + 1) % 4]), "all a".into(), "all b".into(), "drop a".into(), "all b".into(),
                "clone b c".into(), "drop b".into(), "all c".into()]);
            ctx.stats.bump(&format!("scripted.growth.{}", n));
        }
    }
    let histories = if ctx.thorough { 600 } else { 120 };
    let maxlen = if ctx.thorough { 60 } else { 32 };
    for h in 0..histories {
        random_history(ctx, &g, h, maxlen);
    }
}

fn main() {
    vhcore::main_loop(generate, exec);
}
