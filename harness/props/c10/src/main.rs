//! C10 — clones of in-memory stores are independent and memory-safe.
//!
//! ONE REQUEST LINE = ONE SELF-CONTAINED HISTORY over any number of named stores:
//!   H <op> ; <op> ; …
//!     new <n> <LD|FD|LG|FG|TI> <6|16|32|64>   ins <n> <quad>   ens <n> <term>   rem <n> <quad>
//!     fill <n> <k> <off> <lit|iri|qt|lang>   clone <a> <b>   cfrom <a> <b>   drop <n>
//!     swap <a> <b>   mv <a> <b>   box <n>   take <a> <b>   all <n>   dbg <n>
//!     esc <n> <x> <term>   resc <x>   desc <x>   via <own|ref>   gt <n> <i>
//!
//! Width `6` is `I6`, an `Index` type defined HERE (`Index` is a public trait) with `MAX = 6`: every
//! history reaches "index full".  `esc` clones the term `Term::eq` to <term> that the store lends
//! (`get_term` / `triples()` / `quads()`) and KEEPS the clone as <x> — possible in safe code only while
//! the store lends `&SimpleTerm<'static>` (build.rs: cfg `term_escapes`); the kept term is never
//! dereferenced again: the address ranges of its borrowed strings are taken while the store is alive
//! and compared with the blocks the allocator has released since (`k.E.x`).  `via own` makes every
//! later ins/rem/ens/fill/esc hand its terms to the store through accessors that return OWNED
//! `MownStr`s (the `is_owned` branch of `ensure_owned`: clone + transmute).
//!
//! After every op, for every live store: the audit vector of the cfg-guarded hook
//! `verif_audit` (when /repo has it: `has_audit`), and the content — ONLY of stores that are safe
//! to read: audit clean (hook) resp. no dropped clone-ancestor (no hook).  A store whose audit
//! reports a pointer outside its own keys is NEVER read: no undefined behaviour inside the checker.
mod quarantine;
#[global_allocator]
static ALLOC: quarantine::Quarantine = quarantine::Quarantine;

use sophia_api::dataset::{Dataset, MutableDataset};
use sophia_api::graph::{Graph, MutableGraph};
use sophia_api::term::{BnodeId, IriRef, LanguageTag, SimpleTerm, Term, TermKind, VarName};
use sophia_api::MownStr;
use sophia_inmem::dataset::{GenericFastDataset, GenericLightDataset};
use sophia_inmem::graph::{GenericFastGraph, GenericLightGraph};
use sophia_inmem::index::{Index, SimpleTermIndex, TermIndex};
use std::collections::{BTreeMap, BTreeSet};
use std::ops::Deref;
use std::panic::AssertUnwindSafe;
use vhcore::tgen::{self, TermGen};
use vhcore::util::*;
use vhcore::GenCtx;

type Ranges = Vec<(usize, usize)>;

/// An index type with room for six terms (`0..=5`; `6` stands for the default graph), shaped like
/// the `u16` / `u32` ones of sophia_inmem: `from_usize` panics beyond `MAX`.
#[derive(Clone, Copy, Debug, Default, PartialEq, Eq, PartialOrd, Ord)]
pub struct I6(u8);
impl Index for I6 {
    const ZERO: Self = I6(0);
    const MAX: Self = I6(6);
    fn from_usize(other: usize) -> Self {
        assert!(other <= 6, "usize too big to be converted to I6");
        I6(other as u8)
    }
    fn into_usize(self) -> usize {
        self.0 as usize
    }
}

// The public aliases must be what the harness instantiates (a retargeted alias = build failure here).
#[allow(dead_code, clippy::type_complexity)]
fn _aliases_are_the_tested_types(
    a: (sophia_inmem::graph::LightGraph, sophia_inmem::graph::FastGraph, sophia_inmem::dataset::LightDataset, sophia_inmem::dataset::FastDataset),
    b: (sophia_inmem::graph::small::LightGraph, sophia_inmem::graph::small::FastGraph, sophia_inmem::dataset::small::LightDataset, sophia_inmem::dataset::small::FastDataset),
) -> (
    (GenericLightGraph<SimpleTermIndex<u32>>, GenericFastGraph<SimpleTermIndex<u32>>, GenericLightDataset<SimpleTermIndex<u32>>, GenericFastDataset<SimpleTermIndex<u32>>),
    (GenericLightGraph<SimpleTermIndex<u16>>, GenericFastGraph<SimpleTermIndex<u16>>, GenericLightDataset<SimpleTermIndex<u16>>, GenericFastDataset<SimpleTermIndex<u16>>),
) {
    (a, b)
}

/// A caller's term whose accessors hand out OWNED `MownStr`s (as terms backed by `i32`, `f64`, `String` … do):
/// `SimpleTerm::from_term` then takes the `is_owned` branch of `ensure_owned` (clone + transmute to 'static).
#[derive(Clone, Copy, Debug)]
struct OwnT<'a>(&'a T);
fn own(s: &str) -> MownStr<'static> {
    MownStr::from(s.to_string())
}
impl<'a> Term for OwnT<'a> {
    type BorrowTerm<'x>
        = OwnT<'x>
    where
        'a: 'x;
    fn kind(&self) -> TermKind {
        match self.0 {
            T::Iri(_) => TermKind::Iri,
            T::Bnode(_) => TermKind::BlankNode,
            T::Var(_) => TermKind::Variable,
            T::Lit(..) | T::Lang(..) => TermKind::Literal,
            T::Triple(_) => TermKind::Triple,
        }
    }
    fn iri(&self) -> Option<IriRef<MownStr<'_>>> {
        if let T::Iri(s) = self.0 { Some(IriRef::new_unchecked(own(s))) } else { None }
    }
    fn bnode_id(&self) -> Option<BnodeId<MownStr<'_>>> {
        if let T::Bnode(s) = self.0 { Some(BnodeId::new_unchecked(own(s))) } else { None }
    }
    fn variable(&self) -> Option<VarName<MownStr<'_>>> {
        if let T::Var(s) = self.0 { Some(VarName::new_unchecked(own(s))) } else { None }
    }
    fn lexical_form(&self) -> Option<MownStr<'_>> {
        match self.0 {
            T::Lit(l, _) | T::Lang(l, _) => Some(own(l)),
            _ => None,
        }
    }
    fn datatype(&self) -> Option<IriRef<MownStr<'_>>> {
        match self.0 {
            T::Lit(_, d) => Some(IriRef::new_unchecked(own(d))),
            T::Lang(..) => Some(IriRef::new_unchecked(own("http://www.w3.org/1999/02/22-rdf-syntax-ns#langString"))),
            _ => None,
        }
    }
    fn language_tag(&self) -> Option<LanguageTag<MownStr<'_>>> {
        if let T::Lang(_, g) = self.0 { Some(LanguageTag::new_unchecked(own(g))) } else { None }
    }
    fn triple(&self) -> Option<[OwnT<'_>; 3]> {
        if let T::Triple(b) = self.0 { Some([OwnT(&b[0]), OwnT(&b[1]), OwnT(&b[2])]) } else { None }
    }
    fn to_triple(self) -> Option<[Self; 3]> {
        if let T::Triple(b) = self.0 { Some([OwnT(&b[0]), OwnT(&b[1]), OwnT(&b[2])]) } else { None }
    }
    fn borrow_term(&self) -> OwnT<'_> {
        *self
    }
}

// ---------------------------------------------------------------- rendering (as the Lean driver)

fn canon(t: &T) -> T {
    match t {
        T::Lang(l, tag) => T::Lang(l.clone(), tag.to_ascii_lowercase()),
        T::Triple(b) => T::Triple(Box::new([canon(&b[0]), canon(&b[1]), canon(&b[2])])),
        other => other.clone(),
    }
}
fn render_q(q: &Q, n: usize) -> String {
    let s = if n == 3 {
        format!("{} {} {}", canon(&q.s).render(), canon(&q.p).render(), canon(&q.o).render())
    } else {
        Q { s: canon(&q.s), p: canon(&q.p), o: canon(&q.o), g: q.g.as_ref().map(canon) }.render()
    };
    s.replace(' ', ",")
}
fn fnv(s: &str) -> u64 {
    let mut h: u64 = 0xcbf29ce484222325;
    for b in s.as_bytes() {
        h = (h ^ (*b as u64)).wrapping_mul(0x100000001b3);
    }
    h
}
fn digest(items: &[String]) -> String {
    format!("{}:{:016x}", items.len(), fnv(&items.join(";")))
}
fn rle(v: &[char]) -> String {
    if v.is_empty() {
        return "_".into();
    }
    let mut parts = vec![];
    let (mut c, mut k) = (v[0], 0usize);
    for x in v {
        if *x == c {
            k += 1;
        } else {
            parts.push(format!("{}*{}", c, k));
            c = *x;
            k = 1;
        }
    }
    parts.push(format!("{}*{}", c, k));
    parts.join(",")
}

/// address ranges of the (non-empty) strings of a term that is known to be readable
fn ranges_of(t: &SimpleTerm<'_>, out: &mut Ranges) {
    let mut push = |s: &str| {
        if !s.is_empty() {
            out.push((s.as_ptr() as usize, s.len()))
        }
    };
    match t {
        SimpleTerm::Iri(i) => push(i.as_str()),
        SimpleTerm::BlankNode(b) => push(b.as_str()),
        SimpleTerm::Variable(v) => push(v.as_str()),
        SimpleTerm::LiteralDatatype(l, d) => {
            push(l);
            push(d.as_str())
        }
        SimpleTerm::LiteralLanguage(l, g) => {
            push(l);
            push(g.as_str())
        }
        SimpleTerm::Triple(b) => {
            for c in b.iter() {
                ranges_of(c, out)
            }
        }
    }
}

/// address ranges of the non-empty strings of `t` that `t` does NOT own (`t` is readable right now)
fn borrowed_ranges(t: &SimpleTerm<'_>, out: &mut Ranges) {
    let mut push = |m: &MownStr<'_>| {
        if !m.is_owned() && !m.is_empty() {
            out.push((m.as_ptr() as usize, m.len()))
        }
    };
    match t {
        SimpleTerm::Iri(i) => push(i.deref()),
        SimpleTerm::BlankNode(b) => push(b.deref()),
        SimpleTerm::Variable(v) => push(v.deref()),
        SimpleTerm::LiteralDatatype(l, d) => {
            push(l);
            push(d.deref())
        }
        SimpleTerm::LiteralLanguage(l, g) => {
            push(l);
            push(g.deref())
        }
        SimpleTerm::Triple(b) => {
            for c in b.iter() {
                borrowed_ranges(c, out)
            }
        }
    }
}

/// A term cloned out of a store and kept.  `term` is never read again; `borrowed` = where its
/// borrowed strings point (taken when it was made).
struct Kept {
    #[allow(dead_code)]
    term: Option<SimpleTerm<'static>>,
    borrowed: Ranges,
}

/// `let x: SimpleTerm<'static> = lent.clone();` — what safe code can write while the store lends `&SimpleTerm<'static>`
#[cfg(term_escapes)]
fn keep(lent: &SimpleTerm<'static>) -> Option<Kept> {
    let term: SimpleTerm<'static> = lent.clone();
    let mut borrowed = vec![];
    borrowed_ranges(&term, &mut borrowed);
    Some(Kept { term: Some(term), borrowed })
}
/// with a term type bound to the borrow of the store the clone lives and dies inside that borrow
#[cfg(not(term_escapes))]
fn keep(lent: &SimpleTerm<'_>) -> Option<Kept> {
    let c = lent.clone();
    let _ = tgen::view(&c);
    None
}

// ---------------------------------------------------------------- the twenty store types behind one trait

#[derive(Clone, Copy, PartialEq, Eq)]
enum R {
    Flag(bool),
    Idx(usize),
    Full,
    Bad,
    Panic,
}

/// `Some(kept)` = a lent term equal to `t` was found (and cloned); the inner `None` = the clone could not be kept
type EscOut = Option<Option<Kept>>;

trait Ops: Clone + Default {
    /// 4 = dataset, 3 = graph, 0 = bare term index
    const N: usize;
    fn ins(&mut self, _q: &Q, _own: bool) -> R {
        R::Bad
    }
    fn rem(&mut self, _q: &Q, _own: bool) -> R {
        R::Bad
    }
    fn ens(&mut self, _t: &T, _own: bool) -> R {
        R::Bad
    }
    /// `get_term(i)` for a raw index `i` (bare index only): `Some(true)` = a term was lent, `Some(false)` = the
    /// call panicked (what the property demands when `i` was never handed out); the lent reference is not used
    fn gt(&self, _i: usize) -> Option<bool> {
        None
    }
    /// clone (and keep, if the types allow) the first lent term `Term::eq` to `t`
    fn esc(&self, t: &T, own: bool) -> EscOut;
    fn dbg(&self) -> usize;
    /// rendered items + address ranges of every string read.  ONLY called on readable stores.
    fn read(&self) -> (Vec<String>, Ranges);
    fn audit(&self) -> Option<Vec<(bool, bool)>>;
}

macro_rules! dataset_ops {
    ($ty:ident) => {
        impl<I: Index + Default> Ops for $ty<SimpleTermIndex<I>> {
            const N: usize = 4;
            fn ins(&mut self, q: &Q, own: bool) -> R {
                let r = if own {
                    MutableDataset::insert(self, OwnT(&q.s), OwnT(&q.p), OwnT(&q.o), q.g.as_ref().map(OwnT))
                } else {
                    let ([s, p, o], g) = tgen::q_to_simple(q);
                    MutableDataset::insert(self, &s, &p, &o, g.as_ref())
                };
                match r {
                    Ok(b) => R::Flag(b),
                    Err(_) => R::Full,
                }
            }
            fn rem(&mut self, q: &Q, own: bool) -> R {
                let r = if own {
                    MutableDataset::remove(self, OwnT(&q.s), OwnT(&q.p), OwnT(&q.o), q.g.as_ref().map(OwnT))
                } else {
                    let ([s, p, o], g) = tgen::q_to_simple(q);
                    MutableDataset::remove(self, &s, &p, &o, g.as_ref())
                };
                match r {
                    Ok(b) => R::Flag(b),
                    Err(_) => R::Full,
                }
            }
            fn esc(&self, t: &T, own: bool) -> EscOut {
                let st = tgen::to_simple(t);
                for q in self.quads() {
                    let (g, [s, p, o]) = q.unwrap();
                    for lent in [s, p, o].into_iter().chain(g) {
                        if if own { Term::eq(lent, OwnT(t)) } else { Term::eq(lent, &st) } {
                            return Some(keep(lent));
                        }
                    }
                }
                None
            }
            fn dbg(&self) -> usize {
                format!("{:?}", self).len()
            }
            fn read(&self) -> (Vec<String>, Ranges) {
                let mut items = vec![];
                let mut rg = vec![];
                for q in self.quads() {
                    let (g, [s, p, o]) = q.unwrap();
                    for t in [s, p, o].into_iter().chain(g) {
                        ranges_of(t, &mut rg);
                    }
                    items.push(render_q(&Q { s: tgen::view(s), p: tgen::view(p), o: tgen::view(o), g: g.map(tgen::view) }, 4));
                }
                items.sort();
                (items, rg)
            }
            fn audit(&self) -> Option<Vec<(bool, bool)>> {
                #[cfg(has_audit)]
                {
                    Some(self.verif_audit())
                }
                #[cfg(not(has_audit))]
                {
                    None
                }
            }
        }
    };
}
macro_rules! graph_ops {
    ($ty:ident) => {
        impl<I: Index + Default> Ops for $ty<SimpleTermIndex<I>> {
            const N: usize = 3;
            fn ins(&mut self, q: &Q, own: bool) -> R {
                let r = if own {
                    MutableGraph::insert(self, OwnT(&q.s), OwnT(&q.p), OwnT(&q.o))
                } else {
                    let ([s, p, o], _) = tgen::q_to_simple(q);
                    MutableGraph::insert(self, &s, &p, &o)
                };
                match r {
                    Ok(b) => R::Flag(b),
                    Err(_) => R::Full,
                }
            }
            fn rem(&mut self, q: &Q, own: bool) -> R {
                let r = if own {
                    MutableGraph::remove(self, OwnT(&q.s), OwnT(&q.p), OwnT(&q.o))
                } else {
                    let ([s, p, o], _) = tgen::q_to_simple(q);
                    MutableGraph::remove(self, &s, &p, &o)
                };
                match r {
                    Ok(b) => R::Flag(b),
                    Err(_) => R::Full,
                }
            }
            fn esc(&self, t: &T, own: bool) -> EscOut {
                let st = tgen::to_simple(t);
                for tr in self.triples() {
                    for lent in tr.unwrap() {
                        if if own { Term::eq(lent, OwnT(t)) } else { Term::eq(lent, &st) } {
                            return Some(keep(lent));
                        }
                    }
                }
                None
            }
            fn dbg(&self) -> usize {
                format!("{:?}", self).len()
            }
            fn read(&self) -> (Vec<String>, Ranges) {
                let mut items = vec![];
                let mut rg = vec![];
                for t in self.triples() {
                    let [s, p, o] = t.unwrap();
                    for t in [s, p, o] {
                        ranges_of(t, &mut rg);
                    }
                    items.push(render_q(&Q { s: tgen::view(s), p: tgen::view(p), o: tgen::view(o), g: None }, 3));
                }
                items.sort();
                (items, rg)
            }
            fn audit(&self) -> Option<Vec<(bool, bool)>> {
                #[cfg(has_audit)]
                {
                    Some(self.verif_audit())
                }
                #[cfg(not(has_audit))]
                {
                    None
                }
            }
        }
    };
}
dataset_ops!(GenericLightDataset);
dataset_ops!(GenericFastDataset);
graph_ops!(GenericLightGraph);
graph_ops!(GenericFastGraph);

impl<I: Index + Default> Ops for SimpleTermIndex<I> {
    const N: usize = 0;
    fn ens(&mut self, t: &T, own: bool) -> R {
        let r = if own { self.ensure_index(OwnT(t)) } else { self.ensure_index(tgen::to_simple(t)) };
        match r {
            Ok(i) => R::Idx(i.into_usize()),
            Err(_) => R::Full,
        }
    }
    fn gt(&self, i: usize) -> Option<bool> {
        Some(catch(AssertUnwindSafe(|| {
            let _ = self.get_term(I::from_usize(i));
        }))
        .is_ok())
    }
    fn esc(&self, t: &T, own: bool) -> EscOut {
        let i = if own { self.get_index(OwnT(t)) } else { self.get_index(tgen::to_simple(t)) }?;
        Some(keep(self.get_term(i)))
    }
    fn dbg(&self) -> usize {
        format!("{:?}", self).len()
    }
    fn read(&self) -> (Vec<String>, Ranges) {
        let mut items = vec![];
        let mut rg = vec![];
        for i in 0..self.len() {
            let t = self.get_term(I::from_usize(i));
            ranges_of(t, &mut rg);
            items.push(tgen::view(t).render().replace(' ', ","));
        }
        (items, rg)
    }
    fn audit(&self) -> Option<Vec<(bool, bool)>> {
        #[cfg(has_audit)]
        {
            Some(self.verif_audit())
        }
        #[cfg(not(has_audit))]
        {
            None
        }
    }
}

enum Store {
    LD32(GenericLightDataset<SimpleTermIndex<u32>>),
    LD16(GenericLightDataset<SimpleTermIndex<u16>>),
    LD6(GenericLightDataset<SimpleTermIndex<I6>>),
    LD64(GenericLightDataset<SimpleTermIndex<usize>>),
    FD32(GenericFastDataset<SimpleTermIndex<u32>>),
    FD16(GenericFastDataset<SimpleTermIndex<u16>>),
    FD6(GenericFastDataset<SimpleTermIndex<I6>>),
    FD64(GenericFastDataset<SimpleTermIndex<usize>>),
    LG32(GenericLightGraph<SimpleTermIndex<u32>>),
    LG16(GenericLightGraph<SimpleTermIndex<u16>>),
    LG6(GenericLightGraph<SimpleTermIndex<I6>>),
    LG64(GenericLightGraph<SimpleTermIndex<usize>>),
    FG32(GenericFastGraph<SimpleTermIndex<u32>>),
    FG16(GenericFastGraph<SimpleTermIndex<u16>>),
    FG6(GenericFastGraph<SimpleTermIndex<I6>>),
    FG64(GenericFastGraph<SimpleTermIndex<usize>>),
    TI32(SimpleTermIndex<u32>),
    TI16(SimpleTermIndex<u16>),
    TI6(SimpleTermIndex<I6>),
    TI64(SimpleTermIndex<usize>),
}

macro_rules! each {
    ($s:expr, $v:ident => $body:expr) => {
        match $s {
            Store::LD32($v) => $body,
            Store::LD16($v) => $body,
            Store::LD6($v) => $body,
            Store::LD64($v) => $body,
            Store::FD32($v) => $body,
            Store::FD16($v) => $body,
            Store::FD6($v) => $body,
            Store::FD64($v) => $body,
            Store::LG32($v) => $body,
            Store::LG16($v) => $body,
            Store::LG6($v) => $body,
            Store::LG64($v) => $body,
            Store::FG32($v) => $body,
            Store::FG16($v) => $body,
            Store::FG6($v) => $body,
            Store::FG64($v) => $body,
            Store::TI32($v) => $body,
            Store::TI16($v) => $body,
            Store::TI6($v) => $body,
            Store::TI64($v) => $body,
        }
    };
}
/// same-variant pairs; `$other` for mixed ones
macro_rules! both {
    ($a:expr, $b:expr, $x:ident, $y:ident => $body:expr, else $other:expr) => {
        match ($a, $b) {
            (Store::LD32($x), Store::LD32($y)) => $body,
            (Store::LD16($x), Store::LD16($y)) => $body,
            (Store::LD6($x), Store::LD6($y)) => $body,
            (Store::LD64($x), Store::LD64($y)) => $body,
            (Store::FD32($x), Store::FD32($y)) => $body,
            (Store::FD16($x), Store::FD16($y)) => $body,
            (Store::FD6($x), Store::FD6($y)) => $body,
            (Store::FD64($x), Store::FD64($y)) => $body,
            (Store::LG32($x), Store::LG32($y)) => $body,
            (Store::LG16($x), Store::LG16($y)) => $body,
            (Store::LG6($x), Store::LG6($y)) => $body,
            (Store::LG64($x), Store::LG64($y)) => $body,
            (Store::FG32($x), Store::FG32($y)) => $body,
            (Store::FG16($x), Store::FG16($y)) => $body,
            (Store::FG6($x), Store::FG6($y)) => $body,
            (Store::FG64($x), Store::FG64($y)) => $body,
            (Store::TI32($x), Store::TI32($y)) => $body,
            (Store::TI16($x), Store::TI16($y)) => $body,
            (Store::TI6($x), Store::TI6($y)) => $body,
            (Store::TI64($x), Store::TI64($y)) => $body,
            _ => $other,
        }
    };
}
/// rebuild the same variant from a value computed from the inner store
macro_rules! map_same {
    ($s:expr, $v:ident => $body:expr) => {
        match $s {
            Store::LD32($v) => Store::LD32($body),
            Store::LD16($v) => Store::LD16($body),
            Store::LD6($v) => Store::LD6($body),
            Store::LD64($v) => Store::LD64($body),
            Store::FD32($v) => Store::FD32($body),
            Store::FD16($v) => Store::FD16($body),
            Store::FD6($v) => Store::FD6($body),
            Store::FD64($v) => Store::FD64($body),
            Store::LG32($v) => Store::LG32($body),
            Store::LG16($v) => Store::LG16($body),
            Store::LG6($v) => Store::LG6($body),
            Store::LG64($v) => Store::LG64($body),
            Store::FG32($v) => Store::FG32($body),
            Store::FG16($v) => Store::FG16($body),
            Store::FG6($v) => Store::FG6($body),
            Store::FG64($v) => Store::FG64($body),
            Store::TI32($v) => Store::TI32($body),
            Store::TI16($v) => Store::TI16($body),
            Store::TI6($v) => Store::TI6($body),
            Store::TI64($v) => Store::TI64($body),
        }
    };
}

fn n_of<S: Ops>(_: &S) -> usize {
    S::N
}

impl Store {
    fn new(kind: &str, width: &str) -> Option<Store> {
        Some(match (kind, width) {
            ("LD", "32") => Store::LD32(Default::default()),
            ("LD", "16") => Store::LD16(Default::default()),
            ("LD", "6") => Store::LD6(Default::default()),
            ("LD", "64") => Store::LD64(Default::default()),
            ("FD", "32") => Store::FD32(Default::default()),
            ("FD", "16") => Store::FD16(Default::default()),
            ("FD", "6") => Store::FD6(Default::default()),
            ("FD", "64") => Store::FD64(Default::default()),
            ("LG", "32") => Store::LG32(Default::default()),
            ("LG", "16") => Store::LG16(Default::default()),
            ("LG", "6") => Store::LG6(Default::default()),
            ("LG", "64") => Store::LG64(Default::default()),
            ("FG", "32") => Store::FG32(Default::default()),
            ("FG", "16") => Store::FG16(Default::default()),
            ("FG", "6") => Store::FG6(Default::default()),
            ("FG", "64") => Store::FG64(Default::default()),
            ("TI", "32") => Store::TI32(Default::default()),
            ("TI", "16") => Store::TI16(Default::default()),
            ("TI", "6") => Store::TI6(Default::default()),
            ("TI", "64") => Store::TI64(Default::default()),
            _ => return None,
        })
    }
    fn n(&self) -> usize {
        each!(self, s => n_of(s))
    }
    fn same_type(&self, other: &Store) -> bool {
        std::mem::discriminant(self) == std::mem::discriminant(other)
    }
}

/// where the struct itself lives (irrelevant for the string buffers — that is the point)
enum Slot {
    Inline(Store),
    Boxed(Box<Store>),
}
impl Slot {
    fn get(&self) -> &Store {
        match self {
            Slot::Inline(s) => s,
            Slot::Boxed(b) => b,
        }
    }
    fn get_mut(&mut self) -> &mut Store {
        match self {
            Slot::Inline(s) => s,
            Slot::Boxed(b) => b,
        }
    }
    fn into_store(self) -> Store {
        match self {
            Slot::Inline(s) => s,
            Slot::Boxed(b) => *b,
        }
    }
}

struct Entry {
    slot: Slot,
    /// identity of the VALUE (follows it through moves and swaps)
    id: u64,
    /// values this one was (transitively) cloned from, itself included: the only values whose
    /// buffers its `i2t` can point into
    deps: BTreeSet<u64>,
    /// values it was SEEN to share string buffers with (public API only, both alive at the time)
    aliased: BTreeSet<u64>,
}

#[derive(Default)]
struct WorldR {
    stores: BTreeMap<String, Entry>,
    live: BTreeSet<u64>,
    next: u64,
    /// terms cloned out of stores and kept (`esc`)
    kept: BTreeMap<String, Kept>,
    /// `via own`: terms reach the stores through accessors returning owned strings
    own: bool,
}

impl WorldR {
    fn fresh(&mut self) -> u64 {
        self.next += 1;
        self.live.insert(self.next);
        self.next
    }
    fn add(&mut self, name: &str, st: Store, from: Option<&BTreeSet<u64>>) {
        let id = self.fresh();
        let mut deps = from.cloned().unwrap_or_default();
        deps.insert(id);
        self.stores.insert(name.to_string(), Entry { slot: Slot::Inline(st), id, deps, aliased: BTreeSet::new() });
    }
}

fn res(r: R) -> String {
    match r {
        R::Flag(b) => (if b { "1" } else { "0" }).to_string(),
        R::Idx(i) => format!("i{}", i),
        R::Full => "full".into(),
        R::Bad => "bad".into(),
        R::Panic => "panic".into(),
    }
}

/// a panic of the code under test is an outcome (`panic`), not the end of the history
fn guarded(f: impl FnOnce() -> R) -> R {
    catch(AssertUnwindSafe(f)).unwrap_or(R::Panic)
}

fn fill_term(mode: &str, i: usize) -> T {
    let lit = T::Lit(i.to_string(), "x:fill".into());
    match mode {
        "iri" => T::Iri(format!("x:n{}", i)),
        "qt" => T::Triple(Box::new([T::Iri("x:s".into()), T::Iri("x:p".into()), lit])),
        "lang" => T::Lang(i.to_string(), "en".into()),
        _ => lit,
    }
}

fn norm_q(mut q: Q, n: usize) -> Q {
    if n != 4 {
        q.g = None;
    }
    q
}

fn exec1(w: &mut WorldR, toks: &[&str]) -> String {
    let bad = || "bad".to_string();
    match toks {
        ["new", n, kind, width] => {
            if w.stores.contains_key(*n) {
                return bad();
            }
            match Store::new(kind, width) {
                Some(st) => {
                    w.add(n, st, None);
                    "ok".into()
                }
                None => bad(),
            }
        }
        ["ins", n, rest @ ..] | ["rem", n, rest @ ..] => {
            let Some(e) = w.stores.get_mut(*n) else { return bad() };
            let mut it = rest.iter().copied().peekable();
            let Some(q) = Q::parse(&mut it) else { return bad() };
            if it.peek().is_some() {
                return bad();
            }
            let st = e.slot.get_mut();
            let q = norm_q(q, st.n());
            let ins = toks[0] == "ins";
            let own = w.own;
            res(guarded(|| each!(st, s => if ins { s.ins(&q, own) } else { s.rem(&q, own) })))
        }
        ["ens", n, rest @ ..] => {
            let Some(e) = w.stores.get_mut(*n) else { return bad() };
            let mut it = rest.iter().copied();
            let Some(t) = T::parse(&mut it) else { return bad() };
            if it.next().is_some() {
                return bad();
            }
            let own = w.own;
            res(guarded(|| each!(e.slot.get_mut(), s => s.ens(&t, own))))
        }
        ["fill", n, k, off, mode] => {
            let Some(e) = w.stores.get_mut(*n) else { return bad() };
            let (Ok(k), Ok(off)) = (k.parse::<usize>(), off.parse::<usize>()) else { return bad() };
            let st = e.slot.get_mut();
            let ti = st.n() == 0;
            let own = w.own;
            let mut cnt = 0usize;
            for i in off..off + k {
                let t = fill_term(mode, i);
                let r = guarded(|| {
                    if ti {
                        each!(st, s => s.ens(&t, own))
                    } else {
                        let q = Q { s: T::Iri("x:s".into()), p: T::Iri("x:p".into()), o: t, g: None };
                        each!(st, s => s.ins(&q, own))
                    }
                });
                match r {
                    R::Idx(_) | R::Flag(true) => cnt += 1,
                    R::Flag(false) => {}
                    R::Full => return "full".into(),
                    R::Bad => return bad(),
                    R::Panic => return "panic".into(),
                }
            }
            cnt.to_string()
        }
        ["clone", a, b] => {
            if w.stores.contains_key(*b) {
                return bad();
            }
            let Some(e) = w.stores.get(*a) else { return bad() };
            // the manual `Clone` hashes every `i2t` entry, i.e. reads it: never on a store that is not safe to read
            if !store_readable(w, e) {
                return "skipped".into();
            }
            // `let b = a.clone();`
            let Ok(c) = catch(AssertUnwindSafe(|| map_same!(e.slot.get(), s => s.clone()))) else { return "panic".into() };
            let deps = e.deps.clone();
            w.add(b, c, Some(&deps));
            "ok".into()
        }
        ["cfrom", a, b] => {
            if a == b || !w.stores.contains_key(*a) || !w.stores.contains_key(*b) {
                return bad();
            }
            if !store_readable(w, &w.stores[*a]) {
                return "skipped".into();
            }
            let mut eb = w.stores.remove(*b).unwrap();
            let ea = w.stores.get(*a).unwrap();
            if !ea.slot.get().same_type(eb.slot.get()) {
                w.stores.insert(b.to_string(), eb);
                return bad();
            }
            // `b.clone_from(&a);`
            if catch(AssertUnwindSafe(|| both!(ea.slot.get(), eb.slot.get_mut(), x, y => y.clone_from(x), else unreachable!()))).is_err() {
                w.stores.insert(b.to_string(), eb);
                return "panic".into();
            }
            let mut deps = ea.deps.clone();
            w.live.remove(&eb.id); // the old value of `b` is gone
            let id = w.fresh();
            deps.insert(id);
            eb.id = id;
            eb.deps = deps;
            eb.aliased = BTreeSet::new();
            w.stores.insert(b.to_string(), eb);
            "ok".into()
        }
        ["drop", a] => {
            let Some(e) = w.stores.remove(*a) else { return bad() };
            w.live.remove(&e.id);
            drop(e);
            "ok".into()
        }
        ["swap", a, b] => {
            if !w.stores.contains_key(*a) || !w.stores.contains_key(*b) {
                return bad();
            }
            if a == b {
                return "ok".into();
            }
            let mut ea = w.stores.remove(*a).unwrap();
            let mut eb = w.stores.remove(*b).unwrap();
            let ok = ea.slot.get().same_type(eb.slot.get());
            if ok {
                // `std::mem::swap(&mut a, &mut b);` — the values trade places (and their identities with them)
                std::mem::swap(ea.slot.get_mut(), eb.slot.get_mut());
                std::mem::swap(&mut ea.id, &mut eb.id);
                std::mem::swap(&mut ea.deps, &mut eb.deps);
                std::mem::swap(&mut ea.aliased, &mut eb.aliased);
            }
            w.stores.insert(a.to_string(), ea);
            w.stores.insert(b.to_string(), eb);
            if ok { "ok".into() } else { bad() }
        }
        ["mv", a, b] => {
            if w.stores.contains_key(*b) || !w.stores.contains_key(*a) {
                return bad();
            }
            // `let b = a;`
            let e = w.stores.remove(*a).unwrap();
            let Entry { slot, id, deps, aliased } = e;
            let moved: Store = slot.into_store();
            w.stores.insert(b.to_string(), Entry { slot: Slot::Inline(moved), id, deps, aliased });
            "ok".into()
        }
        ["box", a] => {
            let Some(e) = w.stores.remove(*a) else { return bad() };
            let Entry { slot, id, deps, aliased } = e;
            let slot = match slot {
                Slot::Inline(s) => Slot::Boxed(Box::new(s)),
                Slot::Boxed(b) => Slot::Inline(*b),
            };
            w.stores.insert(a.to_string(), Entry { slot, id, deps, aliased });
            "ok".into()
        }
        ["take", a, b] => {
            if w.stores.contains_key(*b) || !w.stores.contains_key(*a) {
                return bad();
            }
            let fresh = w.fresh();
            let ea = w.stores.get_mut(*a).unwrap();
            // `let b = std::mem::take(&mut a);`
            let taken = map_same!(ea.slot.get_mut(), s => std::mem::take(s));
            let (id, deps, aliased) = (ea.id, std::mem::take(&mut ea.deps), std::mem::take(&mut ea.aliased));
            ea.id = fresh;
            ea.deps = BTreeSet::from([fresh]);
            w.stores.insert(b.to_string(), Entry { slot: Slot::Inline(taken), id, deps, aliased });
            "ok".into()
        }
        ["all", a] => {
            if w.stores.contains_key(*a) { "ok".into() } else { bad() }
        }
        ["gt", a, i] => {
            let Some(e) = w.stores.get(*a) else { return bad() };
            let Ok(i) = i.parse::<usize>() else { return bad() };
            match each!(e.slot.get(), s => s.gt(i)) {
                None => bad(),
                Some(true) => "ok".into(),
                Some(false) => "refused".into(),
            }
        }
        ["dbg", a] => {
            let Some(e) = w.stores.get(*a) else { return bad() };
            // `format!("{:?}", a)` walks every key and every entry: only on a store that is safe to read
            if store_readable(w, e) {
                let st = e.slot.get();
                if catch(AssertUnwindSafe(|| each!(st, s => s.dbg()))).is_err() {
                    return "panic".into();
                }
            }
            "ok".into()
        }
        ["esc", a, x, rest @ ..] => {
            let mut it = rest.iter().copied();
            let Some(t) = T::parse(&mut it) else { return bad() };
            if it.next().is_some() {
                return bad();
            }
            let Some(e) = w.stores.get(*a) else { return bad() };
            if w.kept.contains_key(*x) {
                return bad();
            }
            if !store_readable(w, e) {
                // never iterate a store that is not safe to read; the model's answer stands alone
                return "skipped".into();
            }
            let st = e.slot.get();
            let own = w.own;
            match catch(AssertUnwindSafe(|| each!(st, s => s.esc(&t, own)))) {
                Err(_) => "panic".into(),
                Ok(None) => "absent".into(),
                Ok(Some(None)) => "bounded".into(),
                Ok(Some(Some(k))) => {
                    w.kept.insert(x.to_string(), k);
                    "escaped".into()
                }
            }
        }
        ["resc", x] => {
            // the kept term is never dereferenced by the checker (it may dangle): only its existence matters
            if w.kept.contains_key(*x) { "ok".into() } else { bad() }
        }
        ["desc", x] => {
            if w.kept.remove(*x).is_some() { "ok".into() } else { bad() }
        }
        ["via", m] => match *m {
            "own" => {
                w.own = true;
                "ok".into()
            }
            "ref" => {
                w.own = false;
                "ok".into()
            }
            _ => bad(),
        },
        _ => bad(),
    }
}

/// audit clean (hook) resp. no dropped clone-ancestor (no hook)
fn store_readable(w: &WorldR, e: &Entry) -> bool {
    match each!(e.slot.get(), s => s.audit()) {
        Some(v) => v.iter().all(|p| *p == (true, true)),
        None => e.deps.iter().all(|d| w.live.contains(d)),
    }
}

fn overlap(a: &Ranges, b: &Ranges) -> bool {
    // both sorted by start
    let (mut i, mut j) = (0, 0);
    while i < a.len() && j < b.len() {
        let (s1, l1) = a[i];
        let (s2, l2) = b[j];
        if s1 < s2 + l2 && s2 < s1 + l1 {
            return true;
        }
        if s1 + l1 <= s2 + l2 {
            i += 1
        } else {
            j += 1
        }
    }
    false
}

/// state of every live store after step `k`
fn report(w: &mut WorldR, k: usize, out: &mut Vec<String>) {
    let names: Vec<String> = w.stores.keys().cloned().collect();
    let mut seen: Vec<(String, u64, Ranges)> = vec![];
    for nm in &names {
        let e = &w.stores[nm];
        let st = e.slot.get();
        let audit = each!(st, s => s.audit());
        let tainted = !e.deps.iter().all(|d| w.live.contains(d));
        let readable = match &audit {
            Some(v) => {
                let chars: Vec<char> = v
                    .iter()
                    .map(|p| match p {
                        (true, true) => '1',
                        (true, false) => 'x',
                        (false, false) => 'n',
                        (false, true) => '?',
                    })
                    .collect();
                out.push(format!("{}.A.{}={}", k, nm, rle(&chars)));
                let dirty = v.iter().any(|p| *p != (true, true));
                out.push(format!("{}.D.{}={}", k, nm, if dirty { 1 } else { 0 }));
                if dirty {
                    out.push(format!("FAIL.dangling.{}.{}={}", k, nm, if tainted { "freed" } else { "latent" }));
                }
                !dirty
            }
            None => !tainted,
        };
        if readable {
            let (items, mut rg) = each!(st, s => s.read());
            out.push(format!("{}.C.{}={}", k, nm, digest(&items)));
            rg.sort();
            rg.dedup();
            seen.push((nm.clone(), e.id, rg));
        } else {
            out.push(format!("{}.skipped.{}=1", k, nm));
        }
    }
    // sharing of string buffers between two live, readable stores — observed through the public API only
    let mut newly: Vec<(String, u64)> = vec![];
    for i in 0..seen.len() {
        for j in 0..seen.len() {
            if i != j && overlap(&seen[i].2, &seen[j].2) {
                // the borrower is the one that descends from the other
                let ei = &w.stores[&seen[i].0];
                if ei.deps.contains(&seen[j].1) {
                    newly.push((seen[i].0.clone(), seen[j].1));
                }
            }
        }
    }
    for (nm, other) in newly {
        w.stores.get_mut(&nm).unwrap().aliased.insert(other);
    }
    // kept clones of lent terms: does one of their borrowed strings point into a block released since?
    for (x, kpt) in &w.kept {
        let dangling = kpt.borrowed.iter().any(|(a, l)| quarantine::released(*a, *l));
        out.push(format!("{}.E.{}={}", k, x, if dangling { 1 } else { 0 }));
        if dangling {
            out.push(format!("FAIL.escape.{}.{}=freed", k, x));
        }
    }
    if cfg!(not(has_audit)) {
        for nm in &names {
            let e = &w.stores[nm];
            if !e.aliased.is_empty() {
                let freed = !e.aliased.iter().all(|d| w.live.contains(d));
                out.push(format!("{}.D.{}=1", k, nm));
                out.push(format!("FAIL.dangling.{}.{}={}", k, nm, if freed { "freed" } else { "latent" }));
            }
        }
    }
}

/// `F <kind> 16`: a REAL 16-bit index grown to exactly `u16::MAX` = 65535 distinct terms, then two more new
/// terms and a known one.  65535 insertions are nothing for the implementation and 15 minutes for the list-based
/// model, so the model does not replay this one: its answer is the instance `max = 65535` of the theorems
/// `ensure_index_full_refused` / `ensure_index_known` / `index_sized` / `audit_clean` (refused, nothing left
/// behind, exactly MAX entries, every entry tied to its key).
fn exec_full(kind: &str) -> String {
    let Some(mut st) = Store::new(kind, "16") else { return "bad-op".into() };
    let _guard = quarantine::begin();
    let ti = st.n() == 0;
    let feed = |st: &mut Store, t: T| -> R {
        guarded(|| {
            if ti {
                each!(st, s => s.ens(&t, false))
            } else {
                let q = Q { s: T::Iri("x:s".into()), p: T::Iri("x:p".into()), o: t, g: None };
                each!(st, s => s.ins(&q, false))
            }
        })
    };
    let fill = if ti { 65535 } else { 65533 };
    let mut ok = 0usize;
    for i in 0..fill {
        match feed(&mut st, T::Lit(i.to_string(), "x:fill".into())) {
            R::Idx(_) | R::Flag(true) => ok += 1,
            _ => break,
        }
    }
    let r1 = feed(&mut st, T::Iri("x:over1".into()));
    let r2 = feed(&mut st, T::Iri("x:over2".into()));
    let known = feed(&mut st, T::Lit("0".into(), "x:fill".into()));
    let audit = each!(&st, s => s.audit());
    let mut out = vec![
        format!("filled={}", if ok == fill { 1 } else { 0 }),
        format!("refused={}", if r1 == R::Full && r2 == R::Full { 1 } else { 0 }),
        format!("known={}", if matches!(known, R::Idx(0) | R::Flag(false)) { 1 } else { 0 }),
    ];
    if let Some(v) = audit {
        out.push(format!("n={}", v.len()));
        out.push(format!("clean={}", if v.iter().all(|p| *p == (true, true)) { 1 } else { 0 }));
    }
    drop(st);
    out.join(" ")
}

pub fn exec(line: &str) -> String {
    let toks: Vec<&str> = line.split_whitespace().collect();
    if let ["F", kind, "16"] = toks.as_slice() {
        return exec_full(kind);
    }
    if toks.first() != Some(&"H") {
        return "bad-op".into();
    }
    let ops: Vec<&[&str]> = toks[1..].split(|t| *t == ";").filter(|g| !g.is_empty()).collect();
    if ops.is_empty() {
        return "bad-op".into();
    }
    // no address is reused while the history runs (see quarantine.rs)
    let _guard = quarantine::begin();
    let mut w = WorldR::default();
    let mut out = vec![
        format!("audit={}", if cfg!(has_audit) { "hook" } else { "unavailable" }),
        format!("lends={}", if cfg!(term_escapes) { "static" } else { "bounded" }),
    ];
    for (k, op) in ops.iter().enumerate() {
        let r = exec1(&mut w, op);
        out.push(format!("{}.r={}", k, r));
        report(&mut w, k, &mut out);
    }
    drop(w);
    out.join(" ")
}

// ---------------------------------------------------------------- generation

const KINDS: &[(&str, &str)] = &[
    ("LD", "32"), ("FD", "32"), ("LG", "32"), ("FG", "32"), ("TI", "32"),
    ("LD", "16"), ("FD", "16"), ("LG", "16"), ("FG", "16"), ("TI", "16"),
    ("LD", "6"), ("FD", "6"), ("LG", "6"), ("FG", "6"), ("TI", "6"),
    // `impl Index for usize`, the third width the crate ships
    ("LD", "64"), ("FD", "64"), ("LG", "64"), ("FG", "64"), ("TI", "64"),
];
const NAMES: &[&str] = &["a", "b", "c", "d", "e", "f"];
const KEPT: &[&str] = &["x", "y", "z"];

#[derive(Clone)]
struct GStore {
    kind: usize,
    pool: Vec<Q>,
    tpool: Vec<T>,
    /// distinct terms the index has seen (modulo the case of language tags) — only to COUNT what the
    /// histories reach (index-full refusals), never to decide anything
    terms: BTreeSet<String>,
}

impl GStore {
    fn new(kind: usize) -> GStore {
        GStore { kind, pool: vec![], tpool: vec![], terms: BTreeSet::new() }
    }
    fn cap(&self) -> usize {
        match KINDS[self.kind].1 {
            "6" => 6,
            "16" => 65535,
            _ => usize::MAX,
        }
    }
    /// `ensure_index(t)`: false = refused (index full)
    fn see(&mut self, t: &T) -> bool {
        let k = canon(t).render();
        if self.terms.contains(&k) {
            return true;
        }
        if self.terms.len() >= self.cap() {
            return false;
        }
        self.terms.insert(k);
        true
    }
    /// terms of a quad in the order the stores look them up; stops at the first refusal
    fn see_quad(&mut self, q: &Q, stats: &mut Stats) {
        let graph = KINDS[self.kind].0.ends_with('G');
        let mut ts: Vec<&T> = vec![&q.s, &q.p, &q.o];
        if !graph {
            if let Some(g) = &q.g {
                ts.push(g);
            }
        }
        for (i, t) in ts.iter().enumerate() {
            if !self.see(t) {
                stats.bump(if i == 0 { "reach.index_full.first_term" } else { "reach.index_full.mid_quad" });
                return;
            }
        }
    }
}

fn emit_h(ctx: &mut GenCtx, ops: &[String]) {
    ctx.emit(&format!("H {}", ops.join(" ; ")));
}

fn random_history(ctx: &mut GenCtx, g: &TermGen, h: usize, maxlen: usize) {
    let mut live: BTreeMap<&'static str, GStore> = BTreeMap::new();
    let mut kept: BTreeSet<&'static str> = BTreeSet::new();
    let mut ops: Vec<String> = vec![];
    let base = h % KINDS.len();
    let mixed = ctx.rng.chance(1, 5);
    let generalized = h % 3 != 0;
    let n = ctx.rng.range(6, maxlen);
    ctx.stats.bump(&format!("store.{}{}", KINDS[base].0, KINDS[base].1));
    let mut cloned_live = 0usize;
    let mut escaped = false;
    // how the terms reach the stores: accessors returning borrowed strings (`SimpleTerm`) or owned ones
    if ctx.rng.chance(1, 3) {
        ops.push("via own".into());
        ctx.stats.bump("via.own_from_start");
    }
    for step in 0..n {
        let free: Vec<&'static str> = NAMES.iter().copied().filter(|x| !live.contains_key(x)).collect();
        let names: Vec<&'static str> = live.keys().copied().collect();
        if names.is_empty() {
            let kind = if mixed { ctx.rng.below(KINDS.len()) } else { base };
            let nm = *ctx.rng.pick(&free);
            ops.push(format!("new {} {} {}", nm, KINDS[kind].0, KINDS[kind].1));
            live.insert(nm, GStore::new(kind));
            ctx.stats.bump("op.new");
            continue;
        }
        let a = *ctx.rng.pick(&names);
        let ka = live[a].kind;
        let ti = KINDS[ka].0 == "TI";
        let graph = KINDS[ka].0.ends_with('G');
        let roll = ctx.rng.below(114);
        let op: &str = match roll {
            0..=37 => "ins",
            38..=43 => "rem",
            44..=55 => "clone",
            56..=65 => "drop",
            66..=70 => "swap",
            71..=73 => "mv",
            74..=77 => "box",
            78..=80 => "take",
            81..=84 => "cfrom",
            85..=91 => "all",
            92..=95 => "fill",
            96..=99 => "new",
            100..=104 => "esc",
            105..=107 => "dbg",
            108 => "resc",
            109 => "desc",
            110 => "via",
            _ => "gt",
        };
        // the first steps build something worth cloning
        let op = if step < 3 && !matches!(op, "ins" | "fill") { "ins" } else { op };
        let line = match op {
            "ins" => {
                if ti {
                    let t = if !live[a].tpool.is_empty() && ctx.rng.chance(1, 4) { ctx.rng.pick(&live[a].tpool).clone() } else { g.term(&mut ctx.rng, 2) };
                    if matches!(t, T::Triple(_)) {
                        ctx.stats.bump("term.quoted_triple");
                    }
                    let st = live.get_mut(a).unwrap();
                    if !st.see(&t) {
                        ctx.stats.bump("reach.index_full.first_term");
                    }
                    st.tpool.push(t.clone());
                    Some(format!("ens {} {}", a, t.render()))
                } else {
                    let mut q = if !live[a].pool.is_empty() && ctx.rng.chance(1, 4) {
                        ctx.rng.pick(&live[a].pool).clone()
                    } else if generalized {
                        g.any_quad(&mut ctx.rng)
                    } else {
                        g.strict_quad(&mut ctx.rng)
                    };
                    if graph {
                        q.g = None;
                    }
                    if [&q.s, &q.p, &q.o].iter().any(|t| matches!(t, T::Triple(_))) {
                        ctx.stats.bump("term.quoted_triple");
                    }
                    let st = live.get_mut(a).unwrap();
                    st.see_quad(&q, &mut ctx.stats);
                    st.pool.push(q.clone());
                    Some(format!("ins {} {}", a, q.render()))
                }
            }
            "rem" if !ti => {
                let mut q = if !live[a].pool.is_empty() && ctx.rng.chance(3, 4) { ctx.rng.pick(&live[a].pool).clone() } else { g.strict_quad(&mut ctx.rng) };
                if graph {
                    q.g = None;
                }
                Some(format!("rem {} {}", a, q.render()))
            }
            "clone" if !free.is_empty() => {
                let b = *ctx.rng.pick(&free);
                let c = live[a].clone();
                if c.terms.len() >= c.cap() {
                    ctx.stats.bump("reach.clone_of_full_index");
                }
                live.insert(b, c);
                cloned_live += 1;
                Some(format!("clone {} {}", a, b))
            }
            "drop" => {
                live.remove(a);
                if cloned_live > 0 {
                    ctx.stats.bump("drop_with_clone_history");
                }
                if escaped {
                    ctx.stats.bump("reach.drop_after_esc");
                }
                Some(format!("drop {}", a))
            }
            "swap" => {
                let b = *ctx.rng.pick(&names);
                if live[b].kind == ka {
                    if a != b {
                        let sa = live.remove(a).unwrap();
                        let sb = live.remove(b).unwrap();
                        live.insert(a, sb);
                        live.insert(b, sa);
                    }
                    Some(format!("swap {} {}", a, b))
                } else {
                    None
                }
            }
            "mv" if !free.is_empty() => {
                let b = *ctx.rng.pick(&free);
                let s = live.remove(a).unwrap();
                live.insert(b, s);
                Some(format!("mv {} {}", a, b))
            }
            "box" => Some(format!("box {}", a)),
            "take" if !free.is_empty() => {
                let b = *ctx.rng.pick(&free);
                let s = live.remove(a).unwrap();
                live.insert(a, GStore::new(ka));
                live.insert(b, s);
                Some(format!("take {} {}", a, b))
            }
            "cfrom" => {
                let b = *ctx.rng.pick(&names);
                if b != a && live[b].kind == ka {
                    let c = live[a].clone();
                    live.insert(b, c);
                    cloned_live += 1;
                    if escaped {
                        ctx.stats.bump("reach.drop_after_esc");
                    }
                    Some(format!("cfrom {} {}", a, b))
                } else {
                    None
                }
            }
            "all" => Some(format!("all {}", a)),
            "dbg" => Some(format!("dbg {}", a)),
            "fill" => {
                let k = ctx.rng.range(3, 24);
                let off = ctx.rng.below(40);
                let mode = *ctx.rng.pick(&["lit", "iri", "qt", "lang"]);
                let st = live.get_mut(a).unwrap();
                for i in off..off + k {
                    let t = fill_term(mode, i);
                    let ok = if ti {
                        st.see(&t)
                    } else {
                        st.see(&T::Iri("x:s".into())) && st.see(&T::Iri("x:p".into())) && st.see(&t)
                    };
                    if !ok {
                        ctx.stats.bump("reach.index_full.in_fill");
                        break;
                    }
                }
                Some(format!("fill {} {} {} {}", a, k, off, mode))
            }
            "new" if !free.is_empty() => {
                let kind = if mixed { ctx.rng.below(KINDS.len()) } else { base };
                let nm = *ctx.rng.pick(&free);
                live.insert(nm, GStore::new(kind));
                Some(format!("new {} {} {}", nm, KINDS[kind].0, KINDS[kind].1))
            }
            "esc" => {
                // keep a clone of a term the store lends: mostly one it has, sometimes one it has not
                let x = KEPT.iter().copied().find(|x| !kept.contains(x));
                let t = if ti {
                    if !live[a].tpool.is_empty() && ctx.rng.chance(5, 6) { Some(ctx.rng.pick(&live[a].tpool).clone()) } else { Some(g.term(&mut ctx.rng, 1)) }
                } else if !live[a].pool.is_empty() && ctx.rng.chance(5, 6) {
                    let q = ctx.rng.pick(&live[a].pool).clone();
                    let mut ts = vec![q.s, q.p, q.o];
                    if let (Some(gn), false) = (q.g, graph) {
                        ts.push(gn);
                    }
                    Some(ctx.rng.pick(&ts).clone())
                } else {
                    Some(g.term(&mut ctx.rng, 1))
                };
                match (x, t) {
                    (Some(x), Some(t)) => {
                        kept.insert(x);
                        escaped = true;
                        if matches!(t, T::Triple(_)) {
                            ctx.stats.bump("esc.quoted_triple");
                        }
                        Some(format!("esc {} {} {}", a, x, t.render()))
                    }
                    _ => None,
                }
            }
            "resc" | "desc" => {
                let ks: Vec<&'static str> = kept.iter().copied().collect();
                if ks.is_empty() {
                    None
                } else {
                    let x = *ctx.rng.pick(&ks);
                    if op == "desc" {
                        kept.remove(x);
                    }
                    Some(format!("{} {}", op, x))
                }
            }
            "via" => Some(format!("via {}", ctx.rng.pick(&["own", "ref"]))),
            "gt" if ti => Some(format!("gt {} {}", a, ctx.rng.below(7))),
            _ => None,
        };
        if let Some(l) = line {
            ctx.stats.bump(&format!("op.{}", l.split(' ').next().unwrap()));
            ops.push(l);
        }
    }
    // every survivor is read at the end
    for nm in live.keys() {
        ops.push(format!("all {}", nm));
    }
    if escaped {
        ctx.stats.bump("histories_with_esc");
    }
    if h < 2 {
        ctx.stats.sample(format!("random history {}: {} ops on {}{}", h, ops.len(), KINDS[base].0, KINDS[base].1));
    }
    emit_h(ctx, &ops);
}

/// scripted histories around "index full" on the six-term index types (`I6`)
fn tiny_index_patterns(ctx: &mut GenCtx, kind: &str) {
    let nw = format!("new a {} 6", kind);
    let ti = kind == "TI";
    let newterm = |nm: &str, i: usize| {
        if ti { format!("ens {} i {}", nm, hex(&format!("x:new{}", i))) } else { format!("ins {} i {} i {} i {} -", nm, hex("x:s"), hex("x:p"), hex(&format!("x:new{}", i))) }
    };
    let known = |nm: &str| {
        if ti { format!("ens {} l 30 {}", nm, hex("x:fill")) } else { format!("ins {} i {} i {} l 30 {} -", nm, hex("x:s"), hex("x:p"), hex("x:fill")) }
    };
    // fill until refused; refused again (and again); known terms still answer; Debug walks i2t; the clone of a
    // full index is full as well; both die in either order
    for (mode, first) in [("lit", "a"), ("qt", "b"), ("lang", "a"), ("iri", "b")] {
        let second = if first == "a" { "b" } else { "a" };
        emit_h(ctx, &[nw.clone(), format!("fill a 9 0 {}", mode), newterm("a", 1), newterm("a", 2), "dbg a".into(), "all a".into(),
            if mode == "lit" { known("a") } else { "all a".into() }, "clone a b".into(), newterm("b", 3), "dbg b".into(),
            format!("drop {}", first), format!("all {}", second), newterm(second, 4), format!("dbg {}", second), format!("drop {}", second)]);
        ctx.stats.bump("scripted.index_full.fill_refuse_clone_drop");
    }
    // refusals with owned-string terms, then clone_from / swap / take / Box of full indexes
    emit_h(ctx, &[nw.clone(), "via own".into(), "fill a 9 0 lit".into(), newterm("a", 1), format!("new b {} 6", kind), "fill b 2 50 iri".into(),
        "cfrom a b".into(), newterm("b", 2), "swap a b".into(), "take a c".into(), newterm("a", 3), newterm("c", 4), "box c".into(), "dbg c".into(),
        "drop c".into(), "all a".into(), "all b".into()]);
    ctx.stats.bump("scripted.index_full.owned_feed_cfrom_swap_take");
    if !ti {
        // the refusal comes in the MIDDLE of a quad: the terms before it stay in the index, no row is added
        let g = if kind.ends_with('D') { format!("i {}", hex("x:g9")) } else { "-".into() };
        emit_h(ctx, &[nw.clone(), "fill a 2 0 lit".into(),
            format!("ins a i {} i {} i {} {}", hex("x:n1"), hex("x:n2"), hex("x:n3"), g), "dbg a".into(), "all a".into(),
            format!("ins a i {} i {} i {} {}", hex("x:n1"), hex("x:n2"), hex("x:n3"), g),
            format!("esc a x i {}", hex("x:n1")), format!("esc a y i {}", hex("x:s")), "clone a b".into(),
            format!("rem b i {} i {} l 30 {} -", hex("x:s"), hex("x:p"), hex("x:fill")), "all b".into(), "drop a".into(), "all b".into(), "dbg b".into()]);
        ctx.stats.bump("scripted.index_full.mid_quad");
    }
}

/// scripted histories around terms cloned out of a store and kept (`get_term(i).clone()`)
fn escape_patterns(ctx: &mut GenCtx, kind: &str, width: &str, ki: usize) {
    let nw = format!("new a {} {}", kind, width);
    let lit0 = format!("l 30 {}", hex("x:fill"));
    let qt0 = format!("t i {} i {} l 30 {}", hex("x:s"), hex("x:p"), hex("x:fill"));
    let lang0 = format!("g 30 {}", hex("en"));
    let (mode, t0) = [("lit", &lit0), ("qt", &qt0), ("lang", &lang0)][ki % 3];
    // kept clone, source dropped (the minimal history of the finding); a quoted triple owns deep copies instead
    emit_h(ctx, &[nw.clone(), format!("fill a 3 0 {}", mode), format!("esc a x {}", t0), "all a".into(), "drop a".into(), "resc x".into(), "desc x".into()]);
    // kept clone dropped BEFORE the source: fine; the source mutates, grows, moves, is cloned: the kept clone follows the ORIGINAL's keys
    emit_h(ctx, &[nw.clone(), format!("fill a 3 0 {}", mode), format!("esc a x {}", t0), "desc x".into(), format!("esc a x {}", t0),
        "fill a 40 10 iri".into(), "box a".into(), "clone a b".into(), "mv a c".into(), "resc x".into(), "drop b".into(), "resc x".into(),
        "take c d".into(), "drop c".into(), "resc x".into(), "drop d".into(), "resc x".into()]);
    // kept clone taken from a CLONE; clone_from over the source releases its keys as well
    emit_h(ctx, &[nw.clone(), "via own".into(), format!("fill a 3 0 {}", mode), "clone a b".into(), format!("esc b x {}", t0), format!("esc a y {}", t0),
        format!("new c {} {}", kind, width), "cfrom c b".into(), "resc x".into(), "resc y".into(), "all a".into(), "drop a".into(), "all b".into()]);
    ctx.stats.add("scripted.escape_patterns", 3);
}

pub fn generate(ctx: &mut GenCtx) {
    let mut g = TermGen::default();
    g.iris.truncate(4);
    g.lexicals.truncate(6);
    let s = |v: &[&str]| v.iter().map(|x| x.to_string()).collect::<Vec<String>>();
    // which oracle this build has (goes into the evidence's generator_distribution)
    ctx.stats.bump(if cfg!(has_audit) {
        "oracle.audit_hook_present"
    } else {
        "oracle.audit_hook_ABSENT__only_public_api_aliasing_and_model_witness"
    });

    // the kernel-checked witness (`derive_clone_dangles`), replayed: insert; clone; drop the original; read the clone
    emit_h(ctx, &s(&["new a TI 32", "ens a i 78", "clone a b", "drop a", "all b"]));
    ctx.stats.bump("scripted.witness");

    let sizes: &[usize] = if ctx.thorough { &[100, 500, 1000, 2000] } else { &[100, 300, 600] };
    let modes = ["lit", "iri", "qt", "lang"];
    for (ki, (kind, width)) in KINDS.iter().enumerate() {
        escape_patterns(ctx, kind, width, ki);
        // clone_from over a destination that holds MORE terms than the source (whatever `clone_from` reuses of the
        // destination, nothing of its old content may survive), then the source goes; and the other way round
        {
            let (big, small) = if *width == "6" { (6, 2) } else { (30, 5) };
            let nwa = format!("new a {} {}", kind, width);
            let nwb = format!("new b {} {}", kind, width);
            emit_h(ctx, &[nwa.clone(), nwb.clone(), format!("fill a {} 0 {}", small, ["lit", "iri", "lang", "qt"][ki % 4]), format!("fill b {} 500 iri", big),
                "cfrom a b".into(), "all b".into(), "dbg b".into(), "drop a".into(), "all b".into(), "fill b 3 900 lit".into(), "clone b c".into(), "drop b".into(), "all c".into()]);
            emit_h(ctx, &[nwa.clone(), nwb.clone(), "via own".into(), format!("fill a {} 0 iri", big), format!("fill b {} 500 {}", small, ["qt", "lit", "iri", "lang"][ki % 4]),
                "cfrom a b".into(), "all b".into(), "cfrom b a".into(), "drop b".into(), "all a".into(), "dbg a".into()]);
            // an EMPTY source over a full destination, twice
            emit_h(ctx, &[nwa.clone(), nwb, format!("fill b {} 0 lit", big), "cfrom a b".into(), "all b".into(), "dbg b".into(), "fill b 2 0 iri".into(), "cfrom a b".into(), "all b".into(), "drop a".into(), "all b".into()]);
            ctx.stats.add("scripted.clone_from_sizes", 3);
            if *kind == "TI" {
                // get_term with an index the store never handed out: on an empty index; an index minted by a grown
                // clone used on the original; exactly len(); after the clone is gone.  Expected: a panic (`refused`).
                emit_h(ctx, &[nwa.clone(), "gt a 0".into(), "fill a 3 0 lit".into(), "gt a 2".into(), "gt a 3".into(), "clone a b".into(),
                    "fill b 3 10 iri".into(), "gt b 5".into(), "gt a 5".into(), "gt a 4".into(), "drop b".into(), "gt a 5".into(),
                    "take a c".into(), "gt a 0".into(), "gt c 2".into(), "gt c 3".into()]);
                ctx.stats.bump("scripted.get_term_out_of_range");
            }
        }
        if *width == "6" {
            // six terms: everything below would only ever see "full"
            tiny_index_patterns(ctx, kind);
            continue;
        }
        let nw = format!("new a {} {}", kind, width);
        // the defect of the earlier probe: insert 100 terms, clone, drop the original, iterate the clone
        emit_h(ctx, &[nw.clone(), "fill a 100 0 lit".into(), "clone a b".into(), "drop a".into(), "all b".into(),
            "fill b 10 1000 iri".into(), "all b".into(), "drop b".into()]);
        // the clone goes first; the original lives on
        emit_h(ctx, &[nw.clone(), format!("fill a 60 0 {}", modes[ki % 4]), "clone a b".into(), "fill b 20 100 lit".into(), "drop b".into(),
            "all a".into(), "fill a 20 200 lang".into(), "all a".into()]);
        // the values trade places before one of them goes
        emit_h(ctx, &[nw.clone(), "fill a 40 0 lit".into(), "clone a b".into(), "swap a b".into(), "drop a".into(), "all b".into()]);
        emit_h(ctx, &[nw.clone(), "fill a 40 0 iri".into(), "clone a b".into(), "swap a b".into(), "drop b".into(), "all a".into()]);
        // clone_from over a non-empty target; the source goes afterwards
        emit_h(ctx, &[nw.clone(), format!("new b {} {}", kind, width), "fill a 30 0 qt".into(), "fill b 30 500 lit".into(),
            "cfrom a b".into(), "drop a".into(), "all b".into(), "fill b 5 900 lit".into(), "all b".into()]);
        // take / box / move, then a chain of clones whose links disappear one by one
        emit_h(ctx, &[nw.clone(), "fill a 30 0 lang".into(), "take a b".into(), "box b".into(), "clone b c".into(), "mv c d".into(),
            "clone d e".into(), "drop b".into(), "all d".into(), "all e".into(), "drop d".into(), "all e".into(), "all a".into(), "box e".into(), "all e".into()]);
        ctx.stats.add("scripted.patterns", 6);
        // growth across the table's 2^k thresholds, before and after cloning, on the original and on the clone
        for (si, n) in sizes.iter().enumerate() {
            if !ctx.thorough && ((width == &"16" && *n > 300) || (width == &"64" && *n > 100)) {
                continue;
            }
            let m = modes[(ki + si) % 4];
            emit_h(ctx, &[nw.clone(), format!("fill a {} 0 {}", n, m), "clone a b".into(), format!("fill a {} {} {}", n, n, m),
                format!("fill b {} {} {}", n / 2, 3 * n, modes[(ki + si + 1) % 4]), "all a".into(), "all b".into(), "drop a".into(), "all b".into(),
                "clone b c".into(), "drop b".into(), "all c".into()]);
            ctx.stats.bump(&format!("scripted.growth.{}", n));
        }
    }
    // the real 16-bit width at exactly u16::MAX terms (answered by theorem on the model side, see `exec_full`)
    for kind in if ctx.thorough { &["TI", "LG", "FG", "LD", "FD"][..] } else { &["TI", "LG", "FD"][..] } {
        ctx.emit(&format!("F {} 16", kind));
        ctx.stats.bump("real_u16_index_at_65535_terms");
    }
    let histories = if ctx.thorough { 800 } else { 200 };
    let maxlen = if ctx.thorough { 60 } else { 32 };
    for h in 0..histories {
        random_history(ctx, &g, h, maxlen);
    }
}

fn main() {
    vhcore::main_loop(generate, exec);
}
