//! Is the cfg-guarded hook `SimpleTermIndex::verif_audit` (notes/hooks/C10-audit.diff) present in /repo?
//! The harness compiles either way; without the hook it reports `audit=unavailable` and falls back to
//! clone-ancestry tracking + pointer-aliasing observed through the public API.
fn main() {
    let p = "/repo/inmem/src/index.rs";
    println!("cargo:rerun-if-changed={}", p);
    println!("cargo:rerun-if-changed=/repo/inmem/src/graph.rs");
    println!("cargo:rerun-if-changed=/repo/inmem/src/dataset.rs");
    println!("cargo:rerun-if-changed=build.rs");
    // a path that never exists: cargo then re-runs this (cheap) script on EVERY build, so the detection
    // can never be stale (an mtime-based re-run was observed to be skipped once after `git apply`)
    println!("cargo:rerun-if-changed=/nonexistent/vh-c10-always-rerun");
    let has = |f: &str| std::fs::read_to_string(f).map(|s| s.contains("fn verif_audit")).unwrap_or(false);
    if has(p) && has("/repo/inmem/src/graph.rs") && has("/repo/inmem/src/dataset.rs") {
        println!("cargo:rustc-cfg=has_audit");
    }
    // Does the index lend `&'_ SimpleTerm<'static>` (then `get_term(i).clone()` may be KEPT by safe code: op `esc`)
    // or terms bound to the borrow (notes/fixes/C10-indexed-term-lifetime.diff)?  The same text decides
    // `Gen.termEscapes` on the Lean side (tools/extractors/c10.py, fail-closed on any other shape); if this
    // guess were wrong the `esc` code would not compile (harness-build failure), never pass silently.
    let src = std::fs::read_to_string(p).unwrap_or_default();
    if src.contains("type Term = SimpleTerm<'static>;") {
        println!("cargo:rustc-cfg=term_escapes");
    }
}
