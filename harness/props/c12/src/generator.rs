//! list-shape generator for C12, derived from the property's quantifier: default + named graphs,
//! blank nodes shared between graphs, rdf:first/rest chains well-formed / shared / branching /
//! cyclic / typed rdf:List / split across graphs / unreferenced heads / same label described in two
//! graphs, rdf:type with IRI and non-IRI objects, plain / typed / language / rdf:JSON literals,
//! quads JSON-LD cannot express, i18n-datatype and compound-literal shapes; modes 1.0 / 1.1,
//! use_rdf_type, rdf_direction (same on both sides), indentation.
use vhcore::util::*;
use vhcore::GenCtx;

pub const RDF: &str = "http://www.w3.org/1999/02/22-rdf-syntax-ns#";
pub const XSD: &str = "http://www.w3.org/2001/XMLSchema#";
pub const I18N: &str = "https://www.w3.org/ns/i18n#";

fn iri(s: &str) -> T {
    T::Iri(s.to_string())
}
fn rdf(s: &str) -> T {
    T::Iri(format!("{}{}", RDF, s))
}
fn bn(s: &str) -> T {
    T::Bnode(s.to_string())
}
fn plain(s: &str) -> T {
    T::Lit(s.to_string(), format!("{}string", XSD))
}
fn q(s: &T, p: &T, o: &T, g: &Option<T>) -> Q {
    Q { s: s.clone(), p: p.clone(), o: o.clone(), g: g.clone() }
}

const SUBJ: &[&str] = &["http://x/s0", "http://x/s1", "tag:s2"];
const PRED: &[&str] = &["http://x/p0", "http://x/p1"];
const GRAPHS: &[&str] = &["http://x/g0", "http://x/g1"];
const LABELS: &[&str] = &["b0", "b1", "b2", "l0", "l1"];
/// rdf:JSON lexical forms in canonical (JCS) form
const JSONS: &[&str] = &["{\"a\":1}", "[1,2]", "\"s\"", "null", "true", "1", "{}", "[]", "{\"a\":[null,{\"b\":\"c\"}]}", "-0.5", "\"\\\"\""];

struct G<'a> {
    ctx: &'a mut GenCtx,
}

impl G<'_> {
    fn pick<'b>(&mut self, xs: &'b [&'b str]) -> &'b str {
        xs[self.ctx.rng.below(xs.len())]
    }
    fn chance(&mut self, n: usize, d: usize) -> bool {
        self.ctx.rng.chance(n, d)
    }
    fn subject(&mut self) -> T {
        if self.chance(1, 3) { bn(self.pick(LABELS)) } else { iri(self.pick(SUBJ)) }
    }
    fn pred(&mut self) -> T {
        match self.ctx.rng.below(10) {
            0 => rdf("type"),
            1 => rdf("first"),
            2 => rdf("rest"),
            3 => rdf("value"),
            _ => iri(self.pick(PRED)),
        }
    }
    fn literal(&mut self, dir: &str) -> T {
        match self.ctx.rng.below(9) {
            0 => plain("plain"),
            1 => plain(""),
            2 => T::Lit("5".into(), format!("{}integer", XSD)),
            3 => T::Lit("x".into(), "http://x/dt".into()),
            4 => T::Lang("chat".into(), self.pick(&["en", "EN-gb", "fr"]).into()),
            5 => T::Lit(self.pick(JSONS).into(), format!("{}JSON", RDF)),
            6 => plain("a\"b\\c\nd\u{e9}\u{10000}"),
            7 if dir == "i" => T::Lit("dir".into(), format!("{}{}", I18N, self.pick(&["en_ltr", "_rtl", "fr_", "en", "", "en_ltr_x"]))),
            _ => T::Lit("true".into(), format!("{}boolean", XSD)),
        }
    }
    fn object(&mut self, dir: &str) -> T {
        match self.ctx.rng.below(8) {
            0 | 1 => iri(self.pick(SUBJ)),
            2 | 3 => bn(self.pick(LABELS)),
            4 => rdf(self.pick(&["nil", "List", "type"])),
            _ => self.literal(dir),
        }
    }
    fn graph(&mut self) -> Option<T> {
        match self.ctx.rng.below(6) {
            0 | 1 | 2 => None,
            3 | 4 => Some(iri(self.pick(GRAPHS))),
            _ => Some(bn(self.pick(LABELS))),
        }
    }
    fn other_graph(&mut self, g: &Option<T>) -> Option<T> {
        for _ in 0..8 {
            let h = self.graph();
            if &h != g {
                return h;
            }
        }
        if g.is_none() { Some(iri(GRAPHS[0])) } else { None }
    }
    fn strict_quad(&mut self, dir: &str) -> Q {
        Q { s: self.subject(), p: self.pred(), o: self.object(dir), g: self.graph() }
    }
    /// a quad JSON-LD cannot express
    fn inexpressible(&mut self, dir: &str) -> Q {
        let mut x = self.strict_quad(dir);
        let tr = T::Triple(Box::new([iri(SUBJ[0]), iri(PRED[0]), bn("b0")]));
        match self.ctx.rng.below(8) {
            0 => x.s = plain("subject"),
            1 => x.p = bn("b0"),
            2 => x.p = plain("pred"),
            3 => x.s = tr,
            4 => x.o = tr,
            5 => x.g = Some(plain("graph")),
            6 => x.o = T::Var("v".into()),
            _ => x.g = Some(tr),
        }
        self.ctx.stats.bump("quad.inexpressible");
        x
    }

    /// a well-formed list of `items` in graph `g`; returns (head term, cell labels, quads)
    fn list(&mut self, prefix: &str, items: &[T], g: &Option<T>) -> (T, Vec<String>, Vec<Q>) {
        let cells: Vec<String> = (0..items.len()).map(|i| format!("{}{}", prefix, i)).collect();
        let mut qs = vec![];
        for (i, it) in items.iter().enumerate() {
            let c = bn(&cells[i]);
            let rest = if i + 1 < items.len() { bn(&cells[i + 1]) } else { rdf("nil") };
            qs.push(q(&c, &rdf("first"), it, g));
            qs.push(q(&c, &rdf("rest"), &rest, g));
        }
        let head = if items.is_empty() { rdf("nil") } else { bn(&cells[0]) };
        (head, cells, qs)
    }

    fn list_case(&mut self, dir: &str) -> (Vec<Q>, String) {
        let g = self.graph();
        let n = self.ctx.rng.range(0, 3);
        let mut items: Vec<T> = vec![];
        let mut qs: Vec<Q> = vec![];
        for k in 0..n {
            let it = match self.ctx.rng.below(8) {
                0 => {
                    // nested list
                    let m = self.ctx.rng.range(0, 2);
                    let inner: Vec<T> = (0..m).map(|_| self.object(dir)).collect();
                    let (h, _, iq) = self.list(&format!("n{}c", k), &inner, &g);
                    qs.extend(iq);
                    self.ctx.stats.bump("list.nested");
                    h
                }
                1 => rdf("nil"),
                _ => self.object(dir),
            };
            items.push(it);
        }
        let (head, cells, lq) = self.list("c", &items, &g);
        qs.extend(lq);
        let s = self.subject();
        let p = self.pred();
        let mut shape = String::from("wellformed");
        let variant = self.ctx.rng.below(16);
        let mut referenced = true;
        let pick_cell = |me: &mut Self| -> Option<T> {
            if cells.is_empty() { None } else { Some(bn(&cells[me.ctx.rng.below(cells.len())])) }
        };
        match variant {
            0 | 1 => {}
            2 => {
                // shared head: a second parent
                shape = "shared".into();
                let s2 = self.subject();
                let p2 = self.pred();
                let g2 = if self.chance(1, 2) { g.clone() } else { self.other_graph(&g) };
                qs.push(q(&s2, &p2, &head, &g2));
            }
            3 => {
                shape = "branching".into();
                if let Some(c) = pick_cell(self) {
                    let p = if self.chance(1, 2) { rdf("first") } else { rdf("rest") };
                    let o = if self.chance(1, 2) { self.object(dir) } else { pick_cell(self).unwrap() };
                    qs.push(q(&c, &p, &o, &g));
                }
            }
            4 => {
                shape = "cyclic".into();
                if let Some(c) = pick_cell(self) {
                    if self.chance(1, 2) {
                        // replace the final rdf:rest rdf:nil by a back link
                        if let Some(last) = qs.iter_mut().rev().find(|x| x.p == rdf("rest") && x.o == rdf("nil") && matches!(&x.s, T::Bnode(b) if b.starts_with('c'))) {
                            last.o = c;
                        }
                    } else {
                        // rdf:first pointing back into the list (self-containing list)
                        if let Some(f) = qs.iter_mut().find(|x| x.p == rdf("first") && matches!(&x.s, T::Bnode(b) if b.starts_with('c'))) {
                            f.o = c;
                        }
                        if self.chance(1, 2) {
                            referenced = false;
                        }
                    }
                }
            }
            5 => {
                shape = "typedlist".into();
                for c in &cells {
                    if self.chance(2, 3) {
                        qs.push(q(&bn(c), &rdf("type"), &rdf("List"), &g));
                    }
                }
            }
            6 => {
                shape = "split".into();
                // move the quads of one cell (or just one of them) to another graph
                if let Some(c) = pick_cell(self) {
                    let g2 = self.other_graph(&g);
                    let only_one = self.chance(1, 2);
                    for x in qs.iter_mut() {
                        if x.s == c && (!only_one || x.p == rdf("rest")) {
                            x.g = g2.clone();
                        }
                    }
                }
            }
            7 => {
                shape = "split_ref".into();
                // the reference to the head lives in another graph
                let g2 = self.other_graph(&g);
                qs.push(q(&s, &p, &head, &g2));
                referenced = false;
            }
            8 => {
                shape = "unreferenced".into();
                referenced = false;
            }
            9 => {
                shape = "twograph_desc".into();
                // a cell label is also described in another graph
                if let Some(c) = pick_cell(self) {
                    let g2 = self.other_graph(&g);
                    match self.ctx.rng.below(3) {
                        0 => {
                            let p2 = self.pred();
                            let o2 = self.object(dir);
                            qs.push(q(&c, &p2, &o2, &g2));
                        }
                        1 => {
                            let o2 = self.object(dir);
                            qs.push(q(&c, &rdf("first"), &o2, &g2));
                            qs.push(q(&c, &rdf("rest"), &rdf("nil"), &g2));
                        }
                        _ => {
                            // the whole list again in the other graph (its own reference too)
                            let again: Vec<Q> = qs.iter().map(|x| Q { g: g2.clone(), ..x.clone() }).collect();
                            qs.extend(again);
                            qs.push(q(&s, &p, &head, &g2));
                        }
                    }
                }
            }
            10 => {
                shape = "cell_as_graph".into();
                if let Some(c) = pick_cell(self) {
                    let x = self.strict_quad(dir);
                    qs.push(Q { g: Some(c), ..x });
                }
            }
            11 => {
                shape = "extra_prop".into();
                if let Some(c) = pick_cell(self) {
                    let p2 = self.pred();
                    let o2 = self.object(dir);
                    qs.push(q(&c, &p2, &o2, &g));
                }
            }
            12 => {
                shape = "midref".into();
                if let Some(c) = pick_cell(self) {
                    let s2 = self.subject();
                    qs.push(q(&s2, &iri(PRED[1]), &c, &g));
                }
            }
            13 => {
                shape = "head_via_first_or_rest".into();
                // the head hangs below a non-list node through rdf:first / rdf:rest, or below a blank parent
                let s2 = if self.chance(1, 2) { bn("b0") } else { iri(SUBJ[0]) };
                let p2 = if self.chance(1, 2) { rdf("first") } else { rdf("rest") };
                qs.push(q(&s2, &p2, &head, &g));
                referenced = false;
                if self.chance(1, 2) {
                    qs.push(q(&iri(SUBJ[1]), &iri(PRED[0]), &s2, &g));
                }
            }
            14 => {
                shape = "dup_quads".into();
                let k = qs.len();
                if k > 0 {
                    let d = qs[self.ctx.rng.below(k)].clone();
                    qs.push(d);
                }
            }
            _ => {
                shape = "literal_rest".into();
                if let Some(c) = pick_cell(self) {
                    let l = self.literal(dir);
                    qs.push(q(&c, &rdf("rest"), &l, &g));
                }
            }
        }
        if referenced {
            qs.push(q(&s, &p, &head, &g));
        }
        (qs, format!("list.{}", shape))
    }

    fn type_case(&mut self, dir: &str) -> (Vec<Q>, String) {
        let g = self.graph();
        let s = self.subject();
        let mut qs = vec![];
        for _ in 0..self.ctx.rng.range(1, 3) {
            let o = match self.ctx.rng.below(5) {
                0 | 1 => iri("http://x/C"),
                2 => bn(self.pick(LABELS)),
                3 => self.literal(dir),
                _ => rdf("List"),
            };
            qs.push(q(&s, &rdf("type"), &o, &g));
        }
        (qs, "type".into())
    }

    fn compound_case(&mut self) -> (Vec<Q>, String) {
        let g = self.graph();
        let c = bn(self.pick(LABELS));
        let mut qs = vec![q(&c, &rdf("value"), &plain("v"), &g), q(&c, &rdf("direction"), &plain("rtl"), &g)];
        let mut shape = "compound.wellformed";
        match self.ctx.rng.below(8) {
            0 => {}
            1 => qs.push(q(&c, &rdf("language"), &plain("ar"), &g)),
            2 => {
                shape = "compound.extra";
                qs.push(q(&c, &iri(PRED[0]), &plain("x"), &g));
            }
            3 => {
                shape = "compound.two_values";
                qs.push(q(&c, &rdf("value"), &plain("w"), &g));
            }
            4 => {
                shape = "compound.shared";
                qs.push(q(&iri(SUBJ[1]), &iri(PRED[1]), &c, &g));
            }
            5 => {
                shape = "compound.unreferenced";
                return (qs, shape.into());
            }
            6 => {
                shape = "compound.nonplain";
                qs[0].o = T::Lang("v".into(), "ar".into());
            }
            _ => {
                shape = "compound.other_graph";
                let g2 = self.other_graph(&g);
                qs.push(q(&c, &iri(PRED[0]), &plain("x"), &g2));
            }
        }
        qs.push(q(&iri(SUBJ[0]), &iri(PRED[0]), &c, &g));
        (qs, shape.into())
    }

    fn case(&mut self, force_dir: Option<&'static str>) -> String {
        let mode = if self.chance(1, 3) { "10" } else { "11" };
        let urt = if self.chance(1, 3) { "1" } else { "0" };
        let dir: &str = force_dir.unwrap_or("n");
        let sp = *self.ctx.rng.pick(&["0", "0", "2", "4"]);
        let kind = self.ctx.rng.below(20);
        let (mut qs, mut label) = match kind {
            0..=10 => self.list_case(dir),
            11 | 12 => self.type_case(dir),
            13 | 14 => {
                let n = self.ctx.rng.range(1, 6);
                ((0..n).map(|_| self.strict_quad(dir)).collect(), "random".to_string())
            }
            15 => {
                // two lists sharing cells / tails
                let (mut a, _) = self.list_case(dir);
                let (b, _) = self.list_case(dir);
                a.extend(b);
                (a, "list.two".to_string())
            }
            16 | 17 => {
                let n = self.ctx.rng.range(0, 3);
                let mut v: Vec<Q> = (0..n).map(|_| self.strict_quad(dir)).collect();
                for _ in 0..self.ctx.rng.range(1, 3) {
                    let x = self.inexpressible(dir);
                    v.push(x);
                }
                (v, "inexpressible".to_string())
            }
            18 if dir == "c" => self.compound_case(),
            18 => self.type_case(dir),
            _ => {
                // relative IRIs: outside the property's domain (differential only)
                let o = iri(self.pick(&["a", "", "a\u{e9}", "\u{e9}", "ab", "\u{20ac}"]));
                let mut x = self.strict_quad(dir);
                if self.chance(1, 2) { x.o = o } else { x.s = o }
                (vec![x], "relative_iri".to_string())
            }
        };
        if dir == "c" && self.chance(1, 2) && label != "relative_iri" {
            let (c, l) = self.compound_case();
            qs.extend(c);
            label = format!("{}+{}", label, l);
        }
        // noise: unrelated quads, then a shuffle (slot numbering depends on the order)
        for _ in 0..self.ctx.rng.below(3) {
            let x = self.strict_quad(dir);
            qs.push(x);
            self.ctx.stats.bump("noise.quad");
        }
        if self.chance(1, 8) {
            let x = self.inexpressible(dir);
            qs.push(x);
        }
        for i in (1..qs.len()).rev() {
            let j = self.ctx.rng.below(i + 1);
            qs.swap(i, j);
        }
        self.ctx.stats.bump(&format!("shape.{}", label));
        self.ctx.stats.bump(&format!("opt.mode{}.urt{}.dir_{}", mode, urt, dir));
        if qs.iter().any(|x| x.g.is_some()) {
            self.ctx.stats.bump("has.named_graph");
        }
        render(mode, urt, dir, sp, &qs)
    }
}

pub fn render(mode: &str, urt: &str, dir: &str, sp: &str, qs: &[Q]) -> String {
    let body: Vec<String> = qs.iter().map(|x| x.render()).collect();
    format!("s {} {} {} {} {} {}", mode, urt, dir, sp, qs.len(), body.join(" ")).trim_end().to_string()
}

/// fixed corpus: the minimal inputs of the known defects and their neighbours
fn corpus(ctx: &mut GenCtx) {
    let s = iri("http://x/s");
    let p = iri("http://x/p");
    let l = bn("l");
    let m = bn("m");
    let a = iri("http://x/a");
    let g1 = Some(iri("http://x/g"));
    let first = rdf("first");
    let rest = rdf("rest");
    let nil = rdf("nil");
    let cases: Vec<Vec<Q>> = vec![
        // unreferenced list head
        vec![q(&l, &first, &a, &None), q(&l, &rest, &nil, &None)],
        // referenced: fine
        vec![q(&s, &p, &l, &None), q(&l, &first, &a, &None), q(&l, &rest, &nil, &None)],
        // two-cell list whose head is unreferenced
        vec![q(&l, &first, &a, &None), q(&l, &rest, &m, &None), q(&m, &first, &a, &None), q(&m, &rest, &nil, &None)],
        // cell also described in another graph
        vec![q(&s, &p, &l, &None), q(&l, &first, &a, &None), q(&l, &rest, &nil, &None), q(&l, &p, &a, &g1)],
        // cell label used as graph name
        vec![q(&s, &p, &l, &g1), q(&l, &first, &a, &g1), q(&l, &rest, &nil, &g1), q(&s, &p, &a, &Some(l.clone()))],
        // typed rdf:List cell
        vec![q(&s, &p, &l, &None), q(&l, &first, &a, &None), q(&l, &rest, &nil, &None), q(&l, &rdf("type"), &rdf("List"), &None)],
        // list containing itself
        vec![q(&l, &first, &l, &None), q(&l, &rest, &nil, &None)],
        vec![q(&l, &first, &m, &None), q(&l, &rest, &nil, &None), q(&m, &first, &l, &None), q(&m, &rest, &nil, &None)],
        // reference from another graph only
        vec![q(&s, &p, &l, &g1), q(&l, &first, &a, &None), q(&l, &rest, &nil, &None)],
        vec![],
    ];
    for c in &cases {
        for (mode, urt) in [("11", "0"), ("10", "0"), ("11", "1")] {
            ctx.emit(&render(mode, urt, "n", "0", c));
            ctx.stats.bump("corpus");
        }
    }
}

/// every dataset of at most `k` quads over a small vocabulary (the small-scope search of DESIGN 4.12,
/// run on model and implementation alike)
fn exhaustive(ctx: &mut GenCtx, subs: &[T], preds: &[T], objs: &[T], graphs: &[Option<T>], k: usize, mode: &str, urt: &str) {
    let mut quads = vec![];
    for s in subs {
        for p in preds {
            for o in objs {
                for g in graphs {
                    quads.push(q(s, p, o, g));
                }
            }
        }
    }
    fn rec(ctx: &mut GenCtx, quads: &[Q], start: usize, k: usize, cur: &mut Vec<Q>, mode: &str, urt: &str) {
        ctx.emit(&render(mode, urt, "n", "0", cur));
        ctx.stats.bump("exhaustive");
        if cur.len() == k {
            return;
        }
        for i in start..quads.len() {
            cur.push(quads[i].clone());
            rec(ctx, quads, i + 1, k, cur, mode, urt);
            cur.pop();
        }
    }
    rec(ctx, &quads, 0, k, &mut vec![], mode, urt);
}

pub fn generate(ctx: &mut GenCtx) {
    corpus(ctx);
    {
        let (x, y, s, a, g) = (bn("x"), bn("y"), iri("http://x/s"), iri("http://x/a"), Some(iri("http://x/g")));
        let list_preds = [rdf("first"), rdf("rest"), iri("http://x/p")];
        if ctx.thorough {
            // <= 3 quads over 72 candidate quads, modes 1.1 and 1.0
            exhaustive(ctx, &[x.clone(), y.clone(), s.clone()], &list_preds, &[x.clone(), y.clone(), rdf("nil"), a.clone()],
                &[None, g.clone()], 3, "11", "0");
            exhaustive(ctx, &[x.clone(), y.clone(), s.clone()], &list_preds, &[x.clone(), y.clone(), rdf("nil"), a.clone()],
                &[None, g.clone()], 2, "10", "0");
            // typed cells
            exhaustive(ctx, &[x.clone(), s.clone()], &[rdf("first"), rdf("rest"), rdf("type")],
                &[x.clone(), rdf("nil"), rdf("List"), a.clone()], &[None, g.clone()], 3, "11", "0");
            // <= 4 quads, blank graph name
            exhaustive(ctx, &[x.clone(), s.clone()], &list_preds, &[x.clone(), y.clone(), rdf("nil")], &[None, Some(y.clone())], 4, "11", "0");
        } else {
            exhaustive(ctx, &[x.clone(), y.clone(), s.clone()], &list_preds, &[x.clone(), y.clone(), rdf("nil"), a.clone()],
                &[None, g.clone()], 2, "11", "0");
        }
    }
    let n = if ctx.thorough { 40000 } else { 4000 };
    let mut g = G { ctx };
    for i in 0..n {
        let force = match i % 10 {
            8 => Some("i"),
            9 => Some("c"),
            _ => None,
        };
        let line = g.case(force);
        if i < 4 {
            g.ctx.stats.sample(line.chars().take(300).collect());
        }
        g.ctx.emit(&line);
    }
}
