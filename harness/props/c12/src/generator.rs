//! list-shape generator for C12, derived from the property's quantifier: default + named graphs,
//! blank nodes shared between graphs, rdf:first/rest chains well-formed / shared / branching /
//! cyclic / typed rdf:List / split across graphs / unreferenced heads / same label described in two
//! graphs, rdf:type with IRI and non-IRI objects, plain / typed / language / rdf:JSON literals,
//! quads JSON-LD cannot express, i18n-datatype and compound-literal shapes; modes 1.0 / 1.1,
//! use_rdf_type, rdf_direction (same on both sides), indentation.
use vhcore::util::*;
use vhcore::GenCtx;

pub const RDF: &str = "http://www.w3.org/1999/02/22-rdf-syntax-ns#";
pub const XSD: &str = "http://www.w3.org/2001/XMLSchema#";
pub const I18N: &str = "https://www.w3.org/ns/i18n#";
pub const RDF_JSON: &str = "http://www.w3.org/1999/02/22-rdf-syntax-ns#JSON";

fn iri(s: &str) -> T {
    T::Iri(s.to_string())
}
fn rdf(s: &str) -> T {
    T::Iri(format!("{}{}", RDF, s))
}
fn bn(s: &str) -> T {
    T::Bnode(s.to_string())
}
fn plain(s: &str) -> T {
    T::Lit(s.to_string(), format!("{}string", XSD))
}
fn q(s: &T, p: &T, o: &T, g: &Option<T>) -> Q {
    Q { s: s.clone(), p: p.clone(), o: o.clone(), g: g.clone() }
}

const SUBJ: &[&str] = &["http://x/s0", "http://x/s1", "tag:s2"];
/// absolute IRIs of unusual shape (two bytes only; non-ASCII path; fragment; the rdf namespace itself)
const ODD_IRIS: &[&str] = &["a:", "http://x/\u{e9}\u{20ac}", "urn:x:y#frag", "http://www.w3.org/1999/02/22-rdf-syntax-ns#", "x-y.z+w:?q"];
const PRED: &[&str] = &["http://x/p0", "http://x/p1"];
const GRAPHS: &[&str] = &["http://x/g0", "http://x/g1"];
const LABELS: &[&str] = &["b0", "b1", "b2", "l0", "l1"];
/// language tags: case variants, three subtags, variant, private use
const TAGS: &[&str] = &["en", "EN-gb", "fr", "zh-Hant-TW", "de-CH-1996", "en-x-priv", "x-foo"];
/// rdf:JSON lexical forms in canonical (JCS, RFC 8785) form: every kind of value, numbers with exponent / at the
/// 2^53 boundary / fractions, strings with the mandatory escapes, lower-case \u escapes, non-ASCII and non-BMP
/// characters verbatim, keys sorted (by UTF-16 code unit), nesting depth up to 5
pub const JSONS: &[&str] = &[
    "{\"a\":1}", "[1,2]", "\"s\"", "null", "true", "false", "1", "0", "-1", "{}", "[]", "\"\"",
    "{\"a\":[null,{\"b\":\"c\"}]}", "-0.5", "\"\\\"\"", "\"\\\\\"",
    "1e+21", "1.5e-7", "1e-7", "123456789012", "9007199254740992", "0.1", "4.5",
    "\"\u{20ac}\"", "\"\\u000f\"", "\"\\n\\t\"", "\"\u{10000}\"", "\"\u{7f}\"", "\"/\"",
    "{\"a\":{\"b\":{\"c\":{\"d\":[1]}}}}", "[[[[[]]]]]", "{\"\":0,\"a\":1,\"b\":[]}", "{\"@id\":\"x\",\"@type\":\"y\"}",
    "[{\"@value\":1},null]", "{\"a\":\"\u{e9}\",\"\u{e9}\":true}",
];

struct G<'a> {
    ctx: &'a mut GenCtx,
}

impl G<'_> {
    fn pick<'b>(&mut self, xs: &'b [&'b str]) -> &'b str {
        xs[self.ctx.rng.below(xs.len())]
    }
    fn chance(&mut self, n: usize, d: usize) -> bool {
        self.ctx.rng.chance(n, d)
    }
    fn an_iri(&mut self) -> T {
        if self.chance(1, 12) {
            self.ctx.stats.bump("iri.odd");
            iri(self.pick(ODD_IRIS))
        } else {
            iri(self.pick(SUBJ))
        }
    }
    fn subject(&mut self) -> T {
        if self.chance(1, 3) { bn(self.pick(LABELS)) } else { self.an_iri() }
    }
    fn pred(&mut self) -> T {
        match self.ctx.rng.below(10) {
            0 => rdf("type"),
            1 => rdf("first"),
            2 => rdf("rest"),
            3 => rdf("value"),
            _ => iri(self.pick(PRED)),
        }
    }
    fn literal(&mut self, dir: &str) -> T {
        match self.ctx.rng.below(15) {
            0 => plain("plain"),
            1 => plain(""),
            2 => T::Lit("5".into(), format!("{}integer", XSD)),
            3 => T::Lit("x".into(), "http://x/dt".into()),
            4 | 5 => {
                let tag = self.pick(TAGS);
                self.ctx.stats.bump(&format!("lit.tag.{}", tag));
                let lex = *self.ctx.rng.pick(&["chat", "", "a\"b\n\u{e9}"]);
                T::Lang(lex.into(), tag.into())
            }
            6 | 7 => {
                let k = self.ctx.rng.below(JSONS.len());
                self.ctx.stats.bump("lit.json");
                let j = JSONS[k];
                let class = if j.contains("e+") || j.contains("e-") { "exponent" }
                    else if j.len() >= 12 && j.chars().all(|c| c.is_ascii_digit()) { "big_integer" }
                    else if j.contains('\\') { "string_escape" }
                    else if !j.is_ascii() || j.contains('\u{7f}') { "non_ascii" }
                    else if j.contains("[[[") || j.contains("{\"c\"") { "deep" }
                    else if j.starts_with('{') || j.starts_with('[') { "structure" }
                    else { "scalar" };
                self.ctx.stats.bump(&format!("lit.json.{}", class));
                T::Lit(JSONS[k].into(), RDF_JSON.into())
            }
            8 => plain("a\"b\\c\nd\u{e9}\u{10000}"),
            9 if dir == "i" => T::Lit("dir".into(), format!("{}{}", I18N, self.pick(&["en_ltr", "_rtl", "fr_", "en", "", "en_ltr_x"]))),
            10 => {
                // every kind of character a JSON string has to escape or may not escape
                self.ctx.stats.bump("lit.control_chars");
                plain(*self.ctx.rng.pick(&["\u{1}\t\r\u{8}\u{c}\u{1f}\u{7f}", "\u{0}", "/\\/\\\\", "\u{85}\u{a0}"]))
            }
            11 => {
                self.ctx.stats.bump("lit.unicode_edge");
                plain(*self.ctx.rng.pick(&["\u{2028}\u{2029}\u{feff}", "\u{d7ff}\u{e000}\u{fffd}\u{ffff}", "\u{10ffff}\u{1f600}", " lead and trail "]))
            }
            12 => {
                self.ctx.stats.bump("lit.long");
                let n = self.ctx.rng.range(100, 400);
                plain(&"x\u{e9}\"".repeat(n))
            }
            13 => {
                self.ctx.stats.bump("lit.other_datatype");
                match self.ctx.rng.below(4) {
                    0 => T::Lit("1.0E0".into(), format!("{}double", XSD)),
                    1 => T::Lit("INF".into(), format!("{}double", XSD)),
                    2 => T::Lit("x".into(), "http://x/\u{e9}#dt".into()),
                    // looks like rdf:JSON / i18n but is not
                    _ => T::Lit("{".into(), format!("{}JSONx", RDF)),
                }
            }
            _ => T::Lit("true".into(), format!("{}boolean", XSD)),
        }
    }
    fn object(&mut self, dir: &str) -> T {
        match self.ctx.rng.below(8) {
            0 | 1 => self.an_iri(),
            2 | 3 => bn(self.pick(LABELS)),
            4 => rdf(self.pick(&["nil", "List", "type"])),
            _ => self.literal(dir),
        }
    }
    fn graph(&mut self) -> Option<T> {
        match self.ctx.rng.below(13) {
            0..=5 => None,
            6..=8 => Some(iri(self.pick(GRAPHS))),
            9 => {
                // a graph name that is also a node with properties of its own (SUBJ and GRAPHS overlap here)
                self.ctx.stats.bump("graph.name_is_subject_iri");
                Some(iri(SUBJ[0]))
            }
            _ => Some(bn(self.pick(LABELS))),
        }
    }
    fn other_graph(&mut self, g: &Option<T>) -> Option<T> {
        for _ in 0..8 {
            let h = self.graph();
            if &h != g {
                return h;
            }
        }
        if g.is_none() { Some(iri(GRAPHS[0])) } else { None }
    }
    fn strict_quad(&mut self, dir: &str) -> Q {
        Q { s: self.subject(), p: self.pred(), o: self.object(dir), g: self.graph() }
    }
    /// a quad JSON-LD cannot express
    fn inexpressible(&mut self, dir: &str) -> Q {
        let mut x = self.strict_quad(dir);
        let tr = T::Triple(Box::new([iri(SUBJ[0]), iri(PRED[0]), bn("b0")]));
        match self.ctx.rng.below(8) {
            0 => x.s = plain("subject"),
            1 => x.p = bn("b0"),
            2 => x.p = plain("pred"),
            3 => x.s = tr,
            4 => x.o = tr,
            5 => x.g = Some(plain("graph")),
            6 => x.o = T::Var("v".into()),
            _ => x.g = Some(tr),
        }
        self.ctx.stats.bump("quad.inexpressible");
        x
    }

    /// a well-formed list of `items` in graph `g`; returns (head term, cell labels, quads)
    fn list(&mut self, prefix: &str, items: &[T], g: &Option<T>) -> (T, Vec<String>, Vec<Q>) {
        let cells: Vec<String> = (0..items.len()).map(|i| format!("{}{}", prefix, i)).collect();
        let mut qs = vec![];
        for (i, it) in items.iter().enumerate() {
            let c = bn(&cells[i]);
            let rest = if i + 1 < items.len() { bn(&cells[i + 1]) } else { rdf("nil") };
            qs.push(q(&c, &rdf("first"), it, g));
            qs.push(q(&c, &rdf("rest"), &rest, g));
        }
        let head = if items.is_empty() { rdf("nil") } else { bn(&cells[0]) };
        (head, cells, qs)
    }

    /// items of a list; a nested list (depth <= `depth`) puts its cells into `qs`
    fn items(&mut self, prefix: &str, n: usize, depth: usize, dir: &str, g: &Option<T>, qs: &mut Vec<Q>) -> Vec<T> {
        let mut items: Vec<T> = vec![];
        for k in 0..n {
            let it = match self.ctx.rng.below(8) {
                0 if depth > 0 => {
                    // nested list (its items may be lists again)
                    let m = self.ctx.rng.range(0, 2);
                    let inner = self.items(&format!("{}n{}", prefix, k), m, depth - 1, dir, g, qs);
                    let (h, _, iq) = self.list(&format!("{}n{}c", prefix, k), &inner, g);
                    qs.extend(iq);
                    self.ctx.stats.bump(if depth == 2 { "list.nested" } else { "list.nested_in_nested" });
                    h
                }
                1 => rdf("nil"),
                _ => self.object(dir),
            };
            items.push(it);
        }
        items
    }

    /// length of a list: mostly 0..3, sometimes longer (thorough: up to 40 cells)
    fn list_len(&mut self) -> usize {
        let n = match self.ctx.rng.below(10) {
            0 => self.ctx.rng.range(4, 8),
            1 if self.ctx.thorough => self.ctx.rng.range(9, 40),
            _ => self.ctx.rng.range(0, 3),
        };
        self.ctx.stats.bump(&format!("list.len.{}", if n <= 3 { n.to_string() } else if n <= 8 { "4-8".into() } else { "9-40".into() }));
        n
    }

    /// every cell (head, inner, last) gets 0 / 1 / 2 / 3 rdf:type values drawn from {rdf:List, another IRI class, a second
    /// class, a blank node, rdf:List again}; sometimes one extra non-type property as well
    fn type_cells(&mut self, cells: &[String], g: &Option<T>, qs: &mut Vec<Q>) {
        for (k, c) in cells.iter().enumerate() {
            let n = self.ctx.rng.below(4);
            let pos = if k == 0 { "head" } else if k + 1 == cells.len() { "last" } else { "inner" };
            let mut kinds: Vec<&str> = vec![];
            for _ in 0..n {
                let (o, kind) = match self.ctx.rng.below(6) {
                    0 | 1 | 2 => (rdf("List"), "List"),
                    3 => (iri("http://x/C"), "class"),
                    4 => (iri("http://x/D"), "class"),
                    _ => (bn(self.pick(LABELS)), "bnode"),
                };
                kinds.push(kind);
                qs.push(q(&bn(c), &rdf("type"), &o, g));
            }
            kinds.sort();
            kinds.dedup();
            self.ctx.stats.bump(&format!("typed_cell.{}.n{}", pos, n));
            self.ctx.stats.bump(&format!("typed_cell.kinds.{}", if kinds.is_empty() { "none".to_string() } else { kinds.join("+") }));
            if self.chance(1, 8) {
                let o = self.object("n");
                qs.push(q(&bn(c), &iri(PRED[1]), &o, g));
                self.ctx.stats.bump("typed_cell.extra_property");
            }
        }
    }

    fn other_pred(&mut self, p: &T) -> T {
        for _ in 0..8 {
            let p2 = self.pred();
            if &p2 != p {
                return p2;
            }
        }
        iri("http://x/p2")
    }

    fn list_case(&mut self, dir: &str) -> (Vec<Q>, String) {
        let g = self.graph();
        let n = self.list_len();
        let mut qs: Vec<Q> = vec![];
        let items = self.items("", n, 2, dir, &g, &mut qs);
        let (head, cells, lq) = self.list("c", &items, &g);
        qs.extend(lq);
        let s = self.subject();
        let p = self.pred();
        let mut shape = String::from("wellformed");
        let variant = match self.ctx.rng.below(23) {
            21 | 22 => 5, // typed cells: twice the weight
            v => v,
        };
        let mut referenced = true;
        let pick_cell = |me: &mut Self| -> Option<T> {
            if cells.is_empty() { None } else { Some(bn(&cells[me.ctx.rng.below(cells.len())])) }
        };
        match variant {
            0 | 1 => {}
            2 => {
                // shared head: a second parent
                shape = "shared".into();
                let s2 = self.subject();
                let p2 = self.pred();
                let g2 = if self.chance(1, 2) { g.clone() } else { self.other_graph(&g) };
                qs.push(q(&s2, &p2, &head, &g2));
            }
            3 => {
                shape = "branching".into();
                if let Some(c) = pick_cell(self) {
                    let p = if self.chance(1, 2) { rdf("first") } else { rdf("rest") };
                    let o = if self.chance(1, 2) { self.object(dir) } else { pick_cell(self).unwrap() };
                    qs.push(q(&c, &p, &o, &g));
                }
            }
            4 => {
                shape = "cyclic".into();
                if let Some(c) = pick_cell(self) {
                    if self.chance(1, 2) {
                        // replace the final rdf:rest rdf:nil by a back link
                        if let Some(last) = qs.iter_mut().rev().find(|x| x.p == rdf("rest") && x.o == rdf("nil") && matches!(&x.s, T::Bnode(b) if b.starts_with('c'))) {
                            last.o = c;
                        }
                    } else {
                        // rdf:first pointing back into the list (self-containing list)
                        if let Some(f) = qs.iter_mut().find(|x| x.p == rdf("first") && matches!(&x.s, T::Bnode(b) if b.starts_with('c'))) {
                            f.o = c;
                        }
                        if self.chance(1, 2) {
                            referenced = false;
                        }
                    }
                }
            }
            5 => {
                shape = "typedlist".into();
                self.type_cells(&cells, &g, &mut qs);
            }
            6 => {
                shape = "split".into();
                // move the quads of one cell (or just one of them) to another graph
                if let Some(c) = pick_cell(self) {
                    let g2 = self.other_graph(&g);
                    let only_one = self.chance(1, 2);
                    for x in qs.iter_mut() {
                        if x.s == c && (!only_one || x.p == rdf("rest")) {
                            x.g = g2.clone();
                        }
                    }
                }
            }
            7 => {
                shape = "split_ref".into();
                // the reference to the head lives in another graph
                let g2 = self.other_graph(&g);
                qs.push(q(&s, &p, &head, &g2));
                referenced = false;
            }
            8 => {
                shape = "unreferenced".into();
                referenced = false;
            }
            9 => {
                shape = "twograph_desc".into();
                // a cell label is also described in another graph
                if let Some(c) = pick_cell(self) {
                    let g2 = self.other_graph(&g);
                    match self.ctx.rng.below(3) {
                        0 => {
                            let p2 = self.pred();
                            let o2 = self.object(dir);
                            qs.push(q(&c, &p2, &o2, &g2));
                        }
                        1 => {
                            let o2 = self.object(dir);
                            qs.push(q(&c, &rdf("first"), &o2, &g2));
                            qs.push(q(&c, &rdf("rest"), &rdf("nil"), &g2));
                        }
                        _ => {
                            // the whole list again in the other graph (its own reference too)
                            let again: Vec<Q> = qs.iter().map(|x| Q { g: g2.clone(), ..x.clone() }).collect();
                            qs.extend(again);
                            qs.push(q(&s, &p, &head, &g2));
                        }
                    }
                }
            }
            10 => {
                shape = "cell_as_graph".into();
                if let Some(c) = pick_cell(self) {
                    let x = self.strict_quad(dir);
                    qs.push(Q { g: Some(c), ..x });
                }
            }
            11 => {
                shape = "extra_prop".into();
                if let Some(c) = pick_cell(self) {
                    let p2 = self.pred();
                    let o2 = self.object(dir);
                    qs.push(q(&c, &p2, &o2, &g));
                }
            }
            12 => {
                shape = "midref".into();
                if let Some(c) = pick_cell(self) {
                    let s2 = self.subject();
                    qs.push(q(&s2, &iri(PRED[1]), &c, &g));
                }
            }
            13 => {
                shape = "head_via_first_or_rest".into();
                // the head hangs below a non-list node through rdf:first / rdf:rest, or below a blank parent
                let s2 = if self.chance(1, 2) { bn("b0") } else { iri(SUBJ[0]) };
                let p2 = if self.chance(1, 2) { rdf("first") } else { rdf("rest") };
                qs.push(q(&s2, &p2, &head, &g));
                referenced = false;
                if self.chance(1, 2) {
                    qs.push(q(&iri(SUBJ[1]), &iri(PRED[0]), &s2, &g));
                }
            }
            14 => {
                shape = "dup_quads".into();
                let k = qs.len();
                if k > 0 {
                    let d = qs[self.ctx.rng.below(k)].clone();
                    qs.push(d);
                }
            }
            15 => {
                shape = "literal_rest".into();
                if let Some(c) = pick_cell(self) {
                    let l = self.literal(dir);
                    qs.push(q(&c, &rdf("rest"), &l, &g));
                }
            }
            16 | 17 => {
                // the head is referenced twice by the SAME subject through two different predicates
                // (one unique-parent *slot*, two parents)
                shape = "two_preds_same_subject".into();
                let p2 = self.other_pred(&p);
                qs.push(q(&s, &p2, &head, &g));
            }
            18 => {
                // a cell is both the rdf:first and the rdf:rest of its parent cell
                shape = "cell_first_and_rest".into();
                if cells.len() >= 2 {
                    let k = self.ctx.rng.below(cells.len() - 1);
                    let (c, next) = (bn(&cells[k]), bn(&cells[k + 1]));
                    for x in qs.iter_mut() {
                        if x.s == c && x.p == rdf("first") {
                            x.o = next.clone();
                        }
                    }
                }
            }
            19 => {
                // one cell is an IRI instead of a blank node
                shape = "iri_cell".into();
                if let Some(c) = pick_cell(self) {
                    let i = iri("http://x/cell");
                    for x in qs.iter_mut() {
                        if x.s == c {
                            x.s = i.clone();
                        }
                        if x.o == c {
                            x.o = i.clone();
                        }
                    }
                    if head == c {
                        qs.push(q(&s, &p, &i, &g));
                        referenced = false;
                    }
                }
            }
            _ => {
                // the same subject refers to the head twice, from two graphs / the list twice in one node
                shape = "same_subject_two_graphs".into();
                let g2 = self.other_graph(&g);
                qs.push(q(&s, &p, &head, &g2));
            }
        }
        if referenced {
            qs.push(q(&s, &p, &head, &g));
        }
        (qs, format!("list.{}", shape))
    }

    /// two (or three) lists with cells of their own that continue into one common tail
    fn shared_tail_case(&mut self, dir: &str) -> (Vec<Q>, String) {
        let g = self.graph();
        let mut qs = vec![];
        let nt = self.ctx.rng.range(1, 3);
        let titems = self.items("t", nt, 1, dir, &g, &mut qs);
        let (thead, _, tq) = self.list("t", &titems, &g);
        qs.extend(tq);
        for (k, prefix) in ["c", "d", "e"].iter().enumerate().take(self.ctx.rng.range(2, 3)) {
            let n = self.ctx.rng.range(1, 2);
            // first item of the first list: sometimes a nested list (its parent cell then continues into a shared cell)
            let depth = if k == 0 { 2 } else { 0 };
            let items = self.items(prefix, n, depth, dir, &g, &mut qs);
            let (h, cells, mut lq) = self.list(prefix, &items, &g);
            // the last cell continues into the tail
            let last = bn(cells.last().unwrap());
            for x in lq.iter_mut() {
                if x.s == last && x.p == rdf("rest") {
                    x.o = thead.clone();
                }
            }
            qs.extend(lq);
            let s = self.subject();
            let p = self.pred();
            qs.push(q(&s, &p, &h, &g));
        }
        (qs, "list.shared_tail".into())
    }

    /// a list whose item k is a nested list while the cell after it is NOT a list node
    /// (second parent, extra property, typed, described in another graph, two rdf:first values)
    fn nested_then_broken_tail_case(&mut self, dir: &str) -> (Vec<Q>, String) {
        let g = self.graph();
        let mut qs = vec![];
        let n = self.ctx.rng.range(2, 4);
        let k = self.ctx.rng.below(n - 1);
        let mut items: Vec<T> = vec![];
        for i in 0..n {
            if i == k {
                let m = self.ctx.rng.range(1, 2);
                let inner: Vec<T> = (0..m).map(|_| self.object(dir)).collect();
                let (h, _, iq) = self.list(&format!("n{}c", i), &inner, &g);
                qs.extend(iq);
                items.push(h);
            } else {
                items.push(self.object(dir));
            }
        }
        let (head, cells, lq) = self.list("c", &items, &g);
        qs.extend(lq);
        let t = bn(&cells[k + 1]);
        match self.ctx.rng.below(5) {
            0 => {
                let s2 = self.subject();
                qs.push(q(&s2, &iri(PRED[1]), &t, &g));
            }
            1 => {
                let o2 = self.object(dir);
                qs.push(q(&t, &iri(PRED[0]), &o2, &g));
            }
            2 => qs.push(q(&t, &rdf("type"), &iri("http://x/C"), &g)),
            3 => {
                let g2 = self.other_graph(&g);
                qs.push(q(&iri(SUBJ[1]), &iri(PRED[1]), &t, &g2));
            }
            _ => {
                let o2 = self.object(dir);
                qs.push(q(&t, &rdf("first"), &o2, &g));
            }
        }
        if self.chance(4, 5) {
            let s = self.subject();
            let p = self.pred();
            qs.push(q(&s, &p, &head, &g));
        }
        (qs, "list.nested_then_broken_tail".into())
    }

    /// an IRI that is a graph name AND a node with properties of its own, in the default graph, in its own graph
    /// and in another one; a list inside the graph it names
    fn graph_node_case(&mut self, dir: &str) -> (Vec<Q>, String) {
        let x = self.an_iri();
        let gx = Some(x.clone());
        let mut qs = vec![];
        for _ in 0..self.ctx.rng.range(1, 3) {
            let (p, o) = (self.pred(), self.object(dir));
            let g = match self.ctx.rng.below(3) {
                0 => None,
                1 => gx.clone(),
                _ => self.graph(),
            };
            qs.push(q(&x, &p, &o, &g));
        }
        for _ in 0..self.ctx.rng.range(1, 2) {
            let y = self.strict_quad(dir);
            qs.push(Q { g: gx.clone(), ..y });
        }
        if self.chance(1, 2) {
            let n = self.ctx.rng.range(1, 2);
            let items: Vec<T> = (0..n).map(|_| self.object(dir)).collect();
            let (h, _, lq) = self.list("c", &items, &gx);
            qs.extend(lq);
            let s = if self.chance(1, 2) { x.clone() } else { self.subject() };
            qs.push(q(&s, &iri(PRED[0]), &h, &gx));
        }
        (qs, "graph_is_node".into())
    }

    fn type_case(&mut self, dir: &str) -> (Vec<Q>, String) {
        let g = self.graph();
        let s = self.subject();
        let mut qs = vec![];
        for _ in 0..self.ctx.rng.range(1, 3) {
            let o = match self.ctx.rng.below(5) {
                0 | 1 => iri("http://x/C"),
                2 => bn(self.pick(LABELS)),
                3 => self.literal(dir),
                _ => rdf("List"),
            };
            qs.push(q(&s, &rdf("type"), &o, &g));
        }
        (qs, "type".into())
    }

    fn compound_case(&mut self) -> (Vec<Q>, String) {
        let g = self.graph();
        let c = bn(self.pick(LABELS));
        let mut qs = vec![q(&c, &rdf("value"), &plain("v"), &g), q(&c, &rdf("direction"), &plain("rtl"), &g)];
        let mut shape = "compound.wellformed";
        match self.ctx.rng.below(8) {
            0 => {}
            1 => qs.push(q(&c, &rdf("language"), &plain("ar"), &g)),
            2 => {
                shape = "compound.extra";
                qs.push(q(&c, &iri(PRED[0]), &plain("x"), &g));
            }
            3 => {
                shape = "compound.two_values";
                qs.push(q(&c, &rdf("value"), &plain("w"), &g));
            }
            4 => {
                shape = "compound.shared";
                qs.push(q(&iri(SUBJ[1]), &iri(PRED[1]), &c, &g));
            }
            5 => {
                shape = "compound.unreferenced";
                return (qs, shape.into());
            }
            6 => {
                shape = "compound.nonplain";
                qs[0].o = T::Lang("v".into(), "ar".into());
            }
            _ => {
                shape = "compound.other_graph";
                let g2 = self.other_graph(&g);
                qs.push(q(&c, &iri(PRED[0]), &plain("x"), &g2));
            }
        }
        qs.push(q(&iri(SUBJ[0]), &iri(PRED[0]), &c, &g));
        (qs, shape.into())
    }

    fn case(&mut self, force_dir: Option<&'static str>) -> String {
        let mode = if self.chance(1, 3) { "10" } else { "11" };
        let urt = if self.chance(1, 3) { "1" } else { "0" };
        let dir: &str = force_dir.unwrap_or("n");
        let sp = *self.ctx.rng.pick(&["0", "0", "0", "2", "4", "1", "8", "300"]);
        let kind = self.ctx.rng.below(24);
        let (mut qs, label) = match kind {
            0..=10 => self.list_case(dir),
            11 | 12 => self.type_case(dir),
            13 | 14 => {
                let n = self.ctx.rng.range(1, 6);
                ((0..n).map(|_| self.strict_quad(dir)).collect(), "random".to_string())
            }
            15 => {
                // two lists sharing cells / tails
                let (mut a, _) = self.list_case(dir);
                let (b, _) = self.list_case(dir);
                a.extend(b);
                (a, "list.two".to_string())
            }
            16 | 17 => {
                let n = self.ctx.rng.range(0, 3);
                let mut v: Vec<Q> = (0..n).map(|_| self.strict_quad(dir)).collect();
                for _ in 0..self.ctx.rng.range(1, 3) {
                    let x = self.inexpressible(dir);
                    v.push(x);
                }
                (v, "inexpressible".to_string())
            }
            18 if dir == "c" => self.compound_case(),
            18 => self.type_case(dir),
            20 | 21 => self.shared_tail_case(dir),
            22 => self.nested_then_broken_tail_case(dir),
            23 => self.graph_node_case(dir),
            _ => {
                // relative IRIs: outside the property's domain (differential only)
                let o = iri(self.pick(&["a", "", "a\u{e9}", "\u{e9}", "ab", "\u{20ac}"]));
                let mut x = self.strict_quad(dir);
                if self.chance(1, 2) { x.o = o } else { x.s = o }
                (vec![x], "relative_iri".to_string())
            }
        };
        if dir == "c" && self.chance(1, 2) && label != "relative_iri" {
            let (c, l) = self.compound_case();
            qs.extend(c);
            self.ctx.stats.bump(&format!("shape.+{}", l));
        }
        // noise: unrelated quads, then a shuffle (slot numbering depends on the order)
        for _ in 0..self.ctx.rng.below(3) {
            let x = self.strict_quad(dir);
            qs.push(x);
            self.ctx.stats.bump("noise.quad");
        }
        if self.chance(1, 8) {
            let x = self.inexpressible(dir);
            qs.push(x);
        }
        for i in (1..qs.len()).rev() {
            let j = self.ctx.rng.below(i + 1);
            qs.swap(i, j);
        }
        self.ctx.stats.bump(&format!("shape.{}", label));
        self.ctx.stats.bump(&format!("opt.mode{}.urt{}.dir_{}", mode, urt, dir));
        self.ctx.stats.bump(&format!("opt.spaces.{}", sp));
        self.ctx.stats.bump(&format!("size.quads.{}", match qs.len() { 0..=3 => "0-3", 4..=7 => "4-7", 8..=15 => "8-15", 16..=31 => "16-31", _ => "32+" }));
        if qs.iter().any(|x| x.g.is_some()) {
            self.ctx.stats.bump("has.named_graph");
        }
        render(mode, urt, dir, sp, &qs)
    }
}

pub fn render(mode: &str, urt: &str, dir: &str, sp: &str, qs: &[Q]) -> String {
    let body: Vec<String> = qs.iter().map(|x| x.render()).collect();
    format!("s {} {} {} {} {} {}", mode, urt, dir, sp, qs.len(), body.join(" ")).trim_end().to_string()
}

/// fixed corpus: the minimal inputs of the known defects and their neighbours
fn corpus(ctx: &mut GenCtx) {
    let s = iri("http://x/s");
    let p = iri("http://x/p");
    let l = bn("l");
    let m = bn("m");
    let a = iri("http://x/a");
    let g1 = Some(iri("http://x/g"));
    let first = rdf("first");
    let rest = rdf("rest");
    let nil = rdf("nil");
    let cases: Vec<Vec<Q>> = vec![
        // unreferenced list head
        vec![q(&l, &first, &a, &None), q(&l, &rest, &nil, &None)],
        // referenced: fine
        vec![q(&s, &p, &l, &None), q(&l, &first, &a, &None), q(&l, &rest, &nil, &None)],
        // two-cell list whose head is unreferenced
        vec![q(&l, &first, &a, &None), q(&l, &rest, &m, &None), q(&m, &first, &a, &None), q(&m, &rest, &nil, &None)],
        // cell also described in another graph
        vec![q(&s, &p, &l, &None), q(&l, &first, &a, &None), q(&l, &rest, &nil, &None), q(&l, &p, &a, &g1)],
        // cell label used as graph name
        vec![q(&s, &p, &l, &g1), q(&l, &first, &a, &g1), q(&l, &rest, &nil, &g1), q(&s, &p, &a, &Some(l.clone()))],
        // typed rdf:List cell
        vec![q(&s, &p, &l, &None), q(&l, &first, &a, &None), q(&l, &rest, &nil, &None), q(&l, &rdf("type"), &rdf("List"), &None)],
        // list containing itself
        vec![q(&l, &first, &l, &None), q(&l, &rest, &nil, &None)],
        vec![q(&l, &first, &m, &None), q(&l, &rest, &nil, &None), q(&m, &first, &l, &None), q(&m, &rest, &nil, &None)],
        // reference from another graph only
        vec![q(&s, &p, &l, &g1), q(&l, &first, &a, &None), q(&l, &rest, &nil, &None)],
        vec![],
        // the dataset every `Jsonifier` is used for before the request's own (see main.rs)
        crate::warmup(),
        // same subject, two predicates, one list
        vec![q(&s, &p, &l, &None), q(&s, &iri("http://x/q"), &l, &None), q(&l, &first, &a, &None), q(&l, &rest, &nil, &None)],
        // a nested list in front of a cell that two lists share
        vec![q(&s, &p, &l, &None), q(&l, &first, &m, &None), q(&m, &first, &a, &None), q(&m, &rest, &nil, &None),
            q(&l, &rest, &bn("t"), &None), q(&bn("t"), &first, &a, &None), q(&bn("t"), &rest, &nil, &None),
            q(&s, &p, &bn("u"), &None), q(&bn("u"), &first, &a, &None), q(&bn("u"), &rest, &bn("t"), &None)],
    ];
    for c in &cases {
        for (mode, urt) in [("11", "0"), ("10", "0"), ("11", "1")] {
            ctx.emit(&render(mode, urt, "n", "0", c));
            ctx.stats.bump("corpus");
        }
    }
    for dir in ["i", "c"] {
        ctx.emit(&render("11", "0", dir, "2", &crate::warmup()));
        ctx.stats.bump("corpus");
    }
    // the kernel-checked witnesses of Props/C12.lean that need an option: i18nGood / i18nBad (rdf_direction = i18n-datatype),
    // compoundShape and a dataset without rdf:direction (compound-literal), and the one-byte IRI of
    // no_panic_needs_absolute_iris (out of domain: model and implementation must agree on the panic)
    let lit = |l: &str, d: &str| T::Lit(l.to_string(), d.to_string());
    let b = bn("b");
    let i18n_good = vec![q(&s, &p, &lit("x", &format!("{}en_ltr", I18N)), &None), q(&s, &p, &T::Lang("y".into(), "fr".into()), &g1)];
    let i18n_bad = vec![q(&s, &p, &lit("x", &format!("{}_rtl", I18N)), &None)];
    let compound = vec![q(&s, &p, &b, &None), q(&b, &rdf("value"), &plain("v"), &None), q(&b, &rdf("direction"), &plain("rtl"), &None)];
    let no_direction = vec![q(&s, &p, &b, &None), q(&b, &rdf("value"), &plain("v"), &g1)];
    for (dir, c) in [("i", &i18n_good), ("i", &i18n_bad), ("c", &compound), ("c", &no_direction), ("n", &compound)] {
        for mode in ["11", "10"] {
            ctx.emit(&render(mode, "0", dir, "0", c));
            ctx.stats.bump("corpus");
        }
    }
    ctx.emit(&render("11", "0", "n", "0", &[q(&s, &p, &iri("a"), &None)]));
    ctx.stats.bump("corpus");
}

/// every dataset of at most `k` quads over a small vocabulary (the small-scope search of DESIGN 4.12,
/// run on model and implementation alike)
fn exhaustive(ctx: &mut GenCtx, subs: &[T], preds: &[T], objs: &[T], graphs: &[Option<T>], k: usize, mode: &str, urt: &str) {
    exhaustive_over(ctx, &[], subs, preds, objs, graphs, k, mode, urt, "exhaustive");
}

/// the fixed quads `core` plus every set of at most `k` quads over the vocabulary
fn exhaustive_over(ctx: &mut GenCtx, core: &[Q], subs: &[T], preds: &[T], objs: &[T], graphs: &[Option<T>], k: usize, mode: &str, urt: &str, counter: &str) {
    let mut quads = vec![];
    for s in subs {
        for p in preds {
            for o in objs {
                for g in graphs {
                    quads.push(q(s, p, o, g));
                }
            }
        }
    }
    quads.retain(|x| !core.contains(x));
    fn rec(ctx: &mut GenCtx, quads: &[Q], start: usize, k: usize, cur: &mut Vec<Q>, mode: &str, urt: &str, counter: &str) {
        ctx.emit(&render(mode, urt, "n", "0", cur));
        ctx.stats.bump(counter);
        if k == 0 {
            return;
        }
        for i in start..quads.len() {
            cur.push(quads[i].clone());
            rec(ctx, quads, i + 1, k - 1, cur, mode, urt, counter);
            cur.pop();
        }
    }
    rec(ctx, &quads, 0, k, &mut core.to_vec(), mode, urt, counter);
}

pub fn generate(ctx: &mut GenCtx) {
    corpus(ctx);
    {
        let (x, y, s, a, g) = (bn("x"), bn("y"), iri("http://x/s"), iri("http://x/a"), Some(iri("http://x/g")));
        let list_preds = [rdf("first"), rdf("rest"), iri("http://x/p")];
        if ctx.thorough {
            // <= 3 quads over 72 candidate quads, modes 1.1 and 1.0
            exhaustive(ctx, &[x.clone(), y.clone(), s.clone()], &list_preds, &[x.clone(), y.clone(), rdf("nil"), a.clone()],
                &[None, g.clone()], 3, "11", "0");
            exhaustive(ctx, &[x.clone(), y.clone(), s.clone()], &list_preds, &[x.clone(), y.clone(), rdf("nil"), a.clone()],
                &[None, g.clone()], 2, "10", "0");
            // typed cells
            exhaustive(ctx, &[x.clone(), s.clone()], &[rdf("first"), rdf("rest"), rdf("type")],
                &[x.clone(), rdf("nil"), rdf("List"), a.clone()], &[None, g.clone()], 3, "11", "0");
            // <= 4 quads, blank graph name
            exhaustive(ctx, &[x.clone(), s.clone()], &list_preds, &[x.clone(), y.clone(), rdf("nil")], &[None, Some(y.clone())], 4, "11", "0");
        } else {
            exhaustive(ctx, &[x.clone(), y.clone(), s.clone()], &list_preds, &[x.clone(), y.clone(), rdf("nil"), a.clone()],
                &[None, g.clone()], 2, "11", "0");
        }
        // a one-cell list `_:x rdf:first <a>; rdf:rest rdf:nil` plus every set of <= 2 further quads over a vocabulary with
        // TWO plain predicates (all the ways the cell can be referenced / described again: two parents in one slot,
        // other graph, self reference, second rdf:first ...), every mode x use_rdf_type for <= 1 further quad
        let core = [q(&x, &rdf("first"), &a, &None), q(&x, &rdf("rest"), &rdf("nil"), &None)];
        let preds4 = [rdf("first"), rdf("rest"), iri("http://x/p"), iri("http://x/q")];
        let subs = [x.clone(), y.clone(), s.clone()];
        let objs = [x.clone(), y.clone(), rdf("nil"), a.clone()];
        exhaustive_over(ctx, &core, &subs, &preds4, &objs, &[None, g.clone()], 2, "11", "0", "exhaustive.cell_plus");
        for (mode, urt) in [("10", "0"), ("11", "1"), ("10", "1")] {
            exhaustive_over(ctx, &core, &subs, &preds4, &objs, &[None, g.clone()], 1, mode, urt, "exhaustive.cell_plus");
        }
        // a referenced one-cell list (default graph, then a named graph) plus every set of <= 3 quads typing / describing the
        // cell: rdf:type rdf:List / a class / a second class / a blank node, or a plain property; both use_rdf_type settings
        for gr in [None, g.clone()] {
            let tcore = [q(&s, &iri("http://x/p"), &x, &gr), q(&x, &rdf("first"), &a, &gr), q(&x, &rdf("rest"), &rdf("nil"), &gr)];
            for (mode, urt) in [("11", "0"), ("11", "1"), ("10", "0")] {
                exhaustive_over(ctx, &tcore, &[x.clone()], &[rdf("type"), iri("http://x/p")],
                    &[rdf("List"), iri("http://x/C"), iri("http://x/D"), y.clone()], &[gr.clone()], 3, mode, urt, "exhaustive.typed_cell");
            }
        }
        if ctx.thorough {
            // the same around a two-cell list in a named graph, <= 2 further quads, mode 1.0 too
            let core2 = [q(&s, &iri("http://x/p"), &x, &g), q(&x, &rdf("first"), &a, &g), q(&x, &rdf("rest"), &y, &g),
                q(&y, &rdf("first"), &a, &g), q(&y, &rdf("rest"), &rdf("nil"), &g)];
            exhaustive_over(ctx, &core2, &subs, &preds4, &objs, &[None, g.clone()], 2, "11", "0", "exhaustive.list2_plus");
            exhaustive_over(ctx, &core, &subs, &preds4, &objs, &[None, g.clone()], 2, "10", "0", "exhaustive.cell_plus");
        }
    }
    let n = if ctx.thorough { 40000 } else { 8000 };
    let mut g = G { ctx };
    for i in 0..n {
        let force = match i % 10 {
            8 => Some("i"),
            9 => Some("c"),
            _ => None,
        };
        let line = g.case(force);
        if i < 4 {
            g.ctx.stats.sample(line.chars().take(300).collect());
        }
        g.ctx.emit(&line);
    }
}
