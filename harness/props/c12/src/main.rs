//! C12 — JSON-LD serialisation round-trips every representable dataset.
//!
//! request:
//!   s <mode:10|11> <use_rdf_type:0|1> <dir:n|i|c> <spaces> <n> <quad>*n   (quads in `Q::render` notation;
//!                    dir = rdf_direction none / i18n-datatype / compound-literal, same on both sides)
//!   d ...same...                                          debug: also prints the JSON text / parsed quads (stderr)
//! reply (implementation):
//!   dom=<0|1>        1 = every IRI of the expressible quads is absolute (the property's domain);
//!                    0 = differential only (no oracle)
//!   panic=<0|1>      the REAL serializer panicked (then FAIL.panic=<hex message> when dom=1)
//!   err=<0|1>        the serializer returned an error
//!   json=<canon>     canonical rendering of the JSON text (see `canon`), parsed with json-syntax
//!   kept=<n>         number of distinct input quads that `is_jsonld` (re-stated here on abstract terms) keeps
//!   rt=<0|1>         REAL JsonLdParser on the REAL output is isomorphic (exact test below) to the kept quads
//!   rtn=<n>          number of distinct quads parsed back
//!   FAIL.roundtrip=<detail> when rt=0 and dom=1
use json_syntax::{Parse, Print, Value};
use sophia_api::prelude::*;
use sophia_api::quad::Spog;
use sophia_api::serializer::{QuadSerializer, Stringifier};
use sophia_api::source::QuadSource;
use sophia_api::term::SimpleTerm;
use sophia_jsonld::{JsonLdOptions, JsonLdParser, JsonLdSerializer, ProcessingMode, RdfDirection};
use std::collections::{BTreeMap, BTreeSet};
use vhcore::tgen;
use vhcore::util::*;
use vhcore::GenCtx;

mod generator;

pub fn generate(ctx: &mut GenCtx) {
    generator::generate(ctx);
}

// ------------------------------------------------------------------ canonical JSON rendering

/// One canonical text for a JSON value in expanded JSON-LD form:
///   string            s:<hex>
///   object            {<hexkey>:<v>,...}   entries sorted by hex key
///   array             [<v>,...]            elements sorted as texts (JSON-LD arrays are sets) ...
///   value of "@list"  (<v>,...)            ... except the value of `@list`, which keeps its order
///   value of "@value" in an object whose "@type" is "@json":  j:<hex of the compact JSON text>
///   other scalars     n:<hex of the compact JSON text>
fn canon(v: &Value<()>, list: bool) -> String {
    match v {
        Value::String(s) => format!("s:{}", hex(s.as_str())),
        Value::Array(a) => {
            let mut items: Vec<String> = a.iter().map(|x| canon(&x.0, false)).collect();
            if list {
                format!("({})", items.join(","))
            } else {
                items.sort();
                format!("[{}]", items.join(","))
            }
        }
        Value::Object(o) => {
            let is_json = o
                .entries()
                .iter()
                .any(|e| e.key.0.as_str() == "@type" && matches!(&e.value.0, Value::String(s) if s.as_str() == "@json"));
            let mut items: Vec<String> = o
                .entries()
                .iter()
                .map(|e| {
                    let k = e.key.0.as_str();
                    let val = if is_json && k == "@value" {
                        format!("j:{}", hex(&e.value.0.compact_print().to_string()))
                    } else {
                        canon(&e.value.0, k == "@list")
                    };
                    format!("{}:{}", hex(k), val)
                })
                .collect();
            items.sort();
            format!("{{{}}}", items.join(","))
        }
        other => format!("n:{}", hex(&other.compact_print().to_string())),
    }
}

// ------------------------------------------------------------------ the property's notion of "expressible"

fn is_subject(t: &T) -> bool {
    matches!(t, T::Iri(_) | T::Bnode(_))
}
fn is_object(t: &T) -> bool {
    matches!(t, T::Iri(_) | T::Bnode(_) | T::Lit(..) | T::Lang(..))
}
/// "IRI or blank subjects and graph names, IRI predicates, any object" (property statement)
pub fn expressible(q: &Q) -> bool {
    is_subject(&q.s) && matches!(q.p, T::Iri(_)) && is_object(&q.o) && q.g.as_ref().is_none_or(is_subject)
}

fn absolute(i: &str) -> bool {
    let mut cs = i.chars();
    match cs.next() {
        Some(c) if c.is_ascii_alphabetic() => {}
        _ => return false,
    }
    for c in cs {
        if c == ':' {
            return true;
        }
        if !(c.is_ascii_alphanumeric() || c == '+' || c == '-' || c == '.') {
            return false;
        }
    }
    false
}

fn term_in_domain(t: &T) -> bool {
    match t {
        T::Iri(i) => absolute(i),
        T::Lit(_, d) => absolute(d),
        _ => true,
    }
}

/// with rdf_direction = i18n-datatype, only well-formed i18n datatypes `…i18n#[lang]_(ltr|rtl)` are in the domain
fn i18n_ok(t: &T) -> bool {
    match t {
        T::Lit(_, d) if d.starts_with(generator::I18N) => {
            let rest = &d[generator::I18N.len()..];
            match rest.split_once('_') {
                Some((lang, dir)) => (dir == "ltr" || dir == "rtl") && lang.chars().all(|c| c.is_ascii_alphanumeric() || c == '-'),
                None => false,
            }
        }
        _ => true,
    }
}

pub fn in_domain(qs: &[Q], dir: Option<RdfDirection>) -> bool {
    qs.iter().filter(|q| expressible(q)).all(|q| {
        (dir != Some(RdfDirection::I18nDatatype) || i18n_ok(&q.o)) &&
        term_in_domain(&q.s) && term_in_domain(&q.p) && term_in_domain(&q.o) && q.g.as_ref().is_none_or(term_in_domain)
    })
}

// ------------------------------------------------------------------ exact blank-node isomorphism on abstract quads

fn bnodes_of(q: &Q, out: &mut BTreeSet<String>) {
    for t in [Some(&q.s), Some(&q.o), q.g.as_ref()].into_iter().flatten() {
        if let T::Bnode(b) = t {
            out.insert(b.clone());
        }
    }
}

fn rename(t: &T, m: &BTreeMap<String, String>) -> T {
    match t {
        T::Bnode(b) => T::Bnode(m.get(b).cloned().unwrap_or_else(|| format!("\u{0}unmapped{}", b))),
        _ => t.clone(),
    }
}

fn rename_q(q: &Q, m: &BTreeMap<String, String>) -> Q {
    Q { s: rename(&q.s, m), p: q.p.clone(), o: rename(&q.o, m), g: q.g.as_ref().map(|g| rename(g, m)) }
}

/// blank-node-agnostic signature of a blank node: the multiset of its occurrences with the
/// other blank nodes replaced by a constant
fn signature(b: &str, qs: &BTreeSet<Q>) -> Vec<String> {
    let mask = |t: &T| match t {
        T::Bnode(x) if x == b => "@".to_string(),
        T::Bnode(_) => "*".to_string(),
        _ => t.render(),
    };
    let mut v: Vec<String> = qs
        .iter()
        .filter(|q| {
            let mut s = BTreeSet::new();
            bnodes_of(q, &mut s);
            s.contains(b)
        })
        .map(|q| format!("{} {} {} {}", mask(&q.s), q.p.render(), mask(&q.o), q.g.as_ref().map(mask).unwrap_or("-".into())))
        .collect();
    v.sort();
    v
}

/// Some(true/false) exact; None = too many blank nodes for the brute force
pub fn isomorphic(a: &BTreeSet<Q>, b: &BTreeSet<Q>) -> Option<bool> {
    if a.len() != b.len() {
        return Some(false);
    }
    let (mut ba, mut bb) = (BTreeSet::new(), BTreeSet::new());
    a.iter().for_each(|q| bnodes_of(q, &mut ba));
    b.iter().for_each(|q| bnodes_of(q, &mut bb));
    if ba.len() != bb.len() {
        return Some(false);
    }
    let ba: Vec<String> = ba.into_iter().collect();
    let bb: Vec<String> = bb.into_iter().collect();
    let sa: Vec<Vec<String>> = ba.iter().map(|x| signature(x, a)).collect();
    let sb: Vec<Vec<String>> = bb.iter().map(|x| signature(x, b)).collect();
    {
        let (mut x, mut y) = (sa.clone(), sb.clone());
        x.sort();
        y.sort();
        if x != y {
            return Some(false);
        }
    }
    // backtracking over signature-compatible bijections; every complete assignment is checked exactly
    let mut budget: u64 = 2_000_000;
    let mut used = vec![false; bb.len()];
    let mut m = BTreeMap::new();
    fn go(
        i: usize,
        ba: &[String],
        bb: &[String],
        sa: &[Vec<String>],
        sb: &[Vec<String>],
        used: &mut Vec<bool>,
        m: &mut BTreeMap<String, String>,
        a: &BTreeSet<Q>,
        b: &BTreeSet<Q>,
        budget: &mut u64,
    ) -> Option<bool> {
        if i == ba.len() {
            *budget = budget.checked_sub(1)?;
            return Some(a.iter().all(|q| b.contains(&rename_q(q, m))));
        }
        for j in 0..bb.len() {
            if used[j] || sa[i] != sb[j] {
                continue;
            }
            used[j] = true;
            m.insert(ba[i].clone(), bb[j].clone());
            let r = go(i + 1, ba, bb, sa, sb, used, m, a, b, budget);
            used[j] = false;
            m.remove(&ba[i]);
            match r {
                Some(false) => {}
                other => return other,
            }
        }
        Some(false)
    }
    // |a| = |b| and renaming is injective, so a ⊆-embedding is an equality
    go(0, &ba, &bb, &sa, &sb, &mut used, &mut m, a, b, &mut budget)
}

/// label-independent description of a failed round trip: the quads (blank nodes masked as `b *`)
/// of the input that have no counterpart in the output, and vice versa (multiset difference)
fn lost_extra(kept: &BTreeSet<Q>, got: &BTreeSet<Q>) -> (Vec<String>, Vec<String>) {
    fn mask(t: &T) -> String {
        match t {
            T::Bnode(_) => "b *".to_string(),
            _ => t.render(),
        }
    }
    fn sigs(s: &BTreeSet<Q>) -> BTreeMap<String, i64> {
        let mut m = BTreeMap::new();
        for q in s {
            let k = format!("{} {} {} {}", mask(&q.s), mask(&q.p), mask(&q.o), q.g.as_ref().map(mask).unwrap_or("-".into()));
            *m.entry(k).or_insert(0) += 1;
        }
        m
    }
    let (a, b) = (sigs(kept), sigs(got));
    let diff = |x: &BTreeMap<String, i64>, y: &BTreeMap<String, i64>| -> Vec<String> {
        let mut v = vec![];
        for (k, n) in x {
            let d = n - y.get(k).copied().unwrap_or(0);
            for _ in 0..d.max(0) {
                if v.len() < 40 {
                    v.push(k.clone());
                }
            }
        }
        v
    };
    (diff(&a, &b), diff(&b, &a))
}

// ------------------------------------------------------------------ exec

pub struct Req {
    pub mode: ProcessingMode,
    pub urt: bool,
    pub dir: Option<RdfDirection>,
    pub spaces: u16,
    pub quads: Vec<Q>,
}

pub fn parse_req(f: &[&str]) -> Option<Req> {
    let mode = match *f.get(1)? {
        "10" => ProcessingMode::JsonLd1_0,
        "11" => ProcessingMode::JsonLd1_1,
        _ => return None,
    };
    let urt = match *f.get(2)? {
        "0" => false,
        "1" => true,
        _ => return None,
    };
    let dir = match *f.get(3)? {
        "n" => None,
        "i" => Some(RdfDirection::I18nDatatype),
        "c" => Some(RdfDirection::CompoundLiteral),
        _ => return None,
    };
    let spaces: u16 = f.get(4)?.parse().ok()?;
    let n: usize = f.get(5)?.parse().ok()?;
    let mut it = f[6..].iter().copied().peekable();
    let mut quads = vec![];
    for _ in 0..n {
        quads.push(Q::parse(&mut it)?);
    }
    if it.next().is_some() {
        return None;
    }
    Some(Req { mode, urt, dir, spaces, quads })
}

fn options(r: &Req) -> JsonLdOptions<sophia_jsonld::loader_factory::DefaultLoaderFactory<sophia_jsonld::loader::NoLoader>> {
    let o = JsonLdOptions::new().with_processing_mode(r.mode).with_use_rdf_type(r.urt).with_spaces(r.spaces);
    match r.dir {
        Some(d) => o.with_rdf_direction(d),
        None => o,
    }
}

pub fn exec(line: &str) -> String {
    let f: Vec<&str> = line.split_whitespace().collect();
    let debug = f.first() == Some(&"d");
    if !matches!(f.first(), Some(&"s") | Some(&"d")) {
        return "bad-op".into();
    }
    let Some(req) = parse_req(&f) else { return "bad-op".into() };
    let dom = in_domain(&req.quads, req.dir);
    let ds: Vec<Spog<SimpleTerm<'static>>> = req.quads.iter().map(tgen::q_to_simple).collect();
    let kept: BTreeSet<Q> = req.quads.iter().filter(|q| expressible(q)).cloned().collect();
    let mut out = format!("dom={}", dom as u8);
    // 1. the real serializer
    let ser = catch(std::panic::AssertUnwindSafe(|| {
        let mut s = JsonLdSerializer::new_stringifier_with_options(options(&req));
        match s.serialize_dataset(&ds) {
            Ok(_) => Ok(s.to_string()),
            Err(e) => Err(e.to_string()),
        }
    }));
    let txt = match ser {
        Err(msg) => {
            out += " panic=1";
            if dom {
                out += &format!(" FAIL.panic={}", hex(&msg.chars().take(120).collect::<String>()));
            }
            return out;
        }
        Ok(Err(e)) => {
            if debug {
                eprintln!("serializer error: {}", e);
            }
            return out + " panic=0 err=1";
        }
        Ok(Ok(t)) => t,
    };
    out += " panic=0 err=0";
    if debug {
        eprintln!("{}", txt);
    }
    // 2. JSON-level view
    match Value::parse_str(&txt, |_| ()) {
        Ok(v) => out += &format!(" json={}", canon(&v.0, false)),
        Err(_) => out += " json=unparsable",
    }
    out += &format!(" kept={}", kept.len());
    if !dom {
        return out;
    }
    // 3. semantic round trip through the real parser
    let back = catch(std::panic::AssertUnwindSafe(|| {
        let p = JsonLdParser::new_with_options(options(&req));
        let mut got: BTreeSet<Q> = BTreeSet::new();
        let r = p.parse_str(&txt).for_each_quad(|q| {
            got.insert(tgen::view_quad(q));
        });
        r.map(|_| got).map_err(|e| e.to_string())
    }));
    match back {
        Err(msg) => out += &format!(" rt=0 FAIL.roundtrip=parser-panic:{}", hex(&msg.chars().take(80).collect::<String>())),
        Ok(Err(e)) => out += &format!(" rt=0 FAIL.roundtrip=parser-error:{}", hex(&e.chars().take(80).collect::<String>())),
        Ok(Ok(got)) => {
            if debug {
                for q in &got {
                    eprintln!("  back: {:?}", q);
                }
            }
            out += &format!(" rtn={}", got.len());
            match isomorphic(&kept, &got) {
                Some(true) => out += " rt=1",
                Some(false) => {
                    let (lost, extra) = lost_extra(&kept, &got);
                    out += &format!(" rt=0 FAIL.roundtrip=L{}.X{}", hex(&lost.join(";")), hex(&extra.join(";")));
                }
                None => out += " rt=unknown",
            }
        }
    }
    out
}

fn main() {
    vhcore::main_loop(generate, exec);
}
