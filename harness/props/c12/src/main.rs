//! C12 — JSON-LD serialisation round-trips every representable dataset.
//!
//! request:
//!   s <mode:10|11> <use_rdf_type:0|1> <dir:n|i|c> <spaces> <n> <quad>*n   (quads in `Q::render` notation;
//!                    dir = rdf_direction none / i18n-datatype / compound-literal, same on both sides)
//!   d ...same...                                          debug: also prints the JSON text / parsed quads (stderr)
//! reply (implementation):
//!   dom=<0|1>        1 = the request is in the property's domain: every IRI of the expressible quads is absolute,
//!                    rdf:JSON literals are valid JSON, i18n datatypes are well-formed; 0 = differential only (no oracle)
//!   panic=<0|1>      the REAL serializer panicked (then FAIL.panic=<hex message> when dom=1)
//!   err=<0|1>        the serializer returned an error (then FAIL.error=<hex message> when dom=1: an expressible
//!                    dataset must be serialised)
//!   hang=1           the REAL code did not answer within REQ_TIMEOUT seconds (it runs in a watched child process, see
//!                    "the watchdog"; FAIL.hang=<seconds> when dom=1); abort=1 [FAIL.abort=<status>] the child died on
//!                    this request; after MAX_INCIDENTS such requests the rest is answered `skipped=1`
//!   json=<canon>     canonical rendering of the JSON text (see `canon`), parsed with json-syntax
//!   kept=<n>         number of distinct input quads that `is_jsonld` (re-stated here on abstract terms) keeps
//!   rt=<0|1>         REAL JsonLdParser on the REAL output is isomorphic (exact test below) to the kept quads
//!   rtn=<n>          number of distinct quads parsed back
//!   FAIL.roundtrip=<detail> when rt=0 and dom=1
//!   jfy=<same|iso|lossy|err|panic>  the other implementation of `QuadSerializer`, `Jsonifier` (target = a JSON value), on
//!                    a serializer that has already been used for another dataset (state must not leak between two
//!                    `serialize_quads` calls): same = same document as the stringifier (canonical comparison);
//!                    iso = another document that round-trips as well; lossy / err / panic = FAIL.jsonifier=<detail> (dom=1)
use json_syntax::{Parse, Print, Value};
use sophia_api::prelude::*;
use sophia_api::quad::Spog;
use sophia_api::serializer::{QuadSerializer, Stringifier};
use sophia_api::source::QuadSource;
use sophia_api::term::SimpleTerm;
use sophia_jsonld::{Jsonifier, JsonLdOptions, JsonLdParser, JsonLdSerializer, ProcessingMode, RdfDirection};
use std::collections::{BTreeMap, BTreeSet};
use std::sync::mpsc;
use std::sync::Mutex;
use std::time::Duration;
use vhcore::tgen;
use vhcore::util::*;
use vhcore::GenCtx;

mod generator;

pub fn generate(ctx: &mut GenCtx) {
    generator::generate(ctx);
}

// ------------------------------------------------------------------ canonical JSON rendering

/// One canonical text for a JSON value in expanded JSON-LD form:
///   string            s:<hex>
///   object            {<hexkey>:<v>,...}   entries sorted by hex key
///   array             [<v>,...]            elements sorted as texts (JSON-LD arrays are sets) ...
///   value of "@list"  (<v>,...)            ... except the value of `@list`, which keeps its order
///   value of "@value" in an object whose "@type" is "@json":  j:<hex of the compact JSON text>
///   other scalars     n:<hex of the compact JSON text>
fn canon(v: &Value<()>, list: bool) -> String {
    match v {
        Value::String(s) => format!("s:{}", hex(s.as_str())),
        Value::Array(a) => {
            let mut items: Vec<String> = a.iter().map(|x| canon(&x.0, false)).collect();
            if list {
                format!("({})", items.join(","))
            } else {
                items.sort();
                format!("[{}]", items.join(","))
            }
        }
        Value::Object(o) => {
            let is_json = o
                .entries()
                .iter()
                .any(|e| e.key.0.as_str() == "@type" && matches!(&e.value.0, Value::String(s) if s.as_str() == "@json"));
            let mut items: Vec<String> = o
                .entries()
                .iter()
                .map(|e| {
                    let k = e.key.0.as_str();
                    let val = if is_json && k == "@value" {
                        format!("j:{}", hex(&e.value.0.compact_print().to_string()))
                    } else {
                        canon(&e.value.0, k == "@list")
                    };
                    format!("{}:{}", hex(k), val)
                })
                .collect();
            items.sort();
            format!("{{{}}}", items.join(","))
        }
        other => format!("n:{}", hex(&other.compact_print().to_string())),
    }
}

// ------------------------------------------------------------------ the property's notion of "expressible"

fn is_subject(t: &T) -> bool {
    matches!(t, T::Iri(_) | T::Bnode(_))
}
fn is_object(t: &T) -> bool {
    matches!(t, T::Iri(_) | T::Bnode(_) | T::Lit(..) | T::Lang(..))
}
/// "IRI or blank subjects and graph names, IRI predicates, any object" (property statement)
pub fn expressible(q: &Q) -> bool {
    is_subject(&q.s) && matches!(q.p, T::Iri(_)) && is_object(&q.o) && q.g.as_ref().is_none_or(is_subject)
}

fn absolute(i: &str) -> bool {
    let mut cs = i.chars();
    match cs.next() {
        Some(c) if c.is_ascii_alphabetic() => {}
        _ => return false,
    }
    for c in cs {
        if c == ':' {
            return true;
        }
        if !(c.is_ascii_alphanumeric() || c == '+' || c == '-' || c == '.') {
            return false;
        }
    }
    false
}

fn term_in_domain(t: &T) -> bool {
    match t {
        T::Iri(i) => absolute(i),
        // "rdf:JSON literals in canonical form": at the very least the lexical form is a JSON text
        T::Lit(l, d) if d == generator::RDF_JSON => Value::parse_str(l, |_| ()).is_ok(),
        T::Lit(_, d) => absolute(d),
        _ => true,
    }
}

/// with rdf_direction = i18n-datatype, only well-formed i18n datatypes `…i18n#[lang]_(ltr|rtl)` are in the domain
fn i18n_ok(t: &T) -> bool {
    match t {
        T::Lit(_, d) if d.starts_with(generator::I18N) => {
            let rest = &d[generator::I18N.len()..];
            match rest.split_once('_') {
                Some((lang, dir)) => (dir == "ltr" || dir == "rtl") && lang.chars().all(|c| c.is_ascii_alphanumeric() || c == '-'),
                None => false,
            }
        }
        _ => true,
    }
}

pub fn in_domain(qs: &[Q], dir: Option<RdfDirection>) -> bool {
    qs.iter().filter(|q| expressible(q)).all(|q| {
        (dir != Some(RdfDirection::I18nDatatype) || i18n_ok(&q.o)) &&
        term_in_domain(&q.s) && term_in_domain(&q.p) && term_in_domain(&q.o) && q.g.as_ref().is_none_or(term_in_domain)
    })
}

// ------------------------------------------------------------------ exact blank-node isomorphism on abstract quads

fn bnodes_of(q: &Q, out: &mut BTreeSet<String>) {
    for t in [Some(&q.s), Some(&q.o), q.g.as_ref()].into_iter().flatten() {
        if let T::Bnode(b) = t {
            out.insert(b.clone());
        }
    }
}

fn rename(t: &T, m: &BTreeMap<String, String>) -> T {
    match t {
        T::Bnode(b) => T::Bnode(m.get(b).cloned().unwrap_or_else(|| format!("\u{0}unmapped{}", b))),
        _ => t.clone(),
    }
}

fn rename_q(q: &Q, m: &BTreeMap<String, String>) -> Q {
    Q { s: rename(&q.s, m), p: q.p.clone(), o: rename(&q.o, m), g: q.g.as_ref().map(|g| rename(g, m)) }
}

/// colour refinement on the two datasets at once: colour of a blank node = rank of the sorted list of its
/// occurrences, the other blank nodes replaced by THEIR colour of the previous round (0 at the start), among all
/// such lists of both datasets.  Isomorphic datasets get the same colour multiset; the cells of a long list are
/// told apart by their distance to the ends, so the search below rarely has to backtrack.
fn colours(a: &BTreeSet<Q>, b: &BTreeSet<Q>, ba: &[String], bb: &[String]) -> (Vec<usize>, Vec<usize>) {
    fn occ<'x>(qs: &'x BTreeSet<Q>, labels: &[String]) -> Vec<Vec<&'x Q>> {
        labels
            .iter()
            .map(|l| {
                qs.iter()
                    .filter(|q| {
                        let mut s = BTreeSet::new();
                        bnodes_of(q, &mut s);
                        s.contains(l)
                    })
                    .collect()
            })
            .collect()
    }
    fn sigs(labels: &[String], occ: &[Vec<&Q>], col: &BTreeMap<&str, usize>) -> Vec<Vec<String>> {
        labels
            .iter()
            .enumerate()
            .map(|(i, me)| {
                let mask = |t: &T| match t {
                    T::Bnode(x) if x == me => "@".to_string(),
                    T::Bnode(x) => format!("#{}", col.get(x.as_str()).copied().unwrap_or(0)),
                    _ => t.render(),
                };
                let mut v: Vec<String> = occ[i]
                    .iter()
                    .map(|q| format!("{} {} {} {}", mask(&q.s), q.p.render(), mask(&q.o), q.g.as_ref().map(mask).unwrap_or("-".into())))
                    .collect();
                v.sort();
                v
            })
            .collect()
    }
    let (oa, ob) = (occ(a, ba), occ(b, bb));
    let mut ca: Vec<usize> = vec![0; ba.len()];
    let mut cb: Vec<usize> = vec![0; bb.len()];
    let mut classes = 1;
    for _round in 0..=ba.len().max(bb.len()) {
        let ma: BTreeMap<&str, usize> = ba.iter().map(|s| s.as_str()).zip(ca.iter().copied()).collect();
        let mb: BTreeMap<&str, usize> = bb.iter().map(|s| s.as_str()).zip(cb.iter().copied()).collect();
        let (sa, sb) = (sigs(ba, &oa, &ma), sigs(bb, &ob, &mb));
        let all: BTreeSet<&Vec<String>> = sa.iter().chain(sb.iter()).collect();
        let rank: BTreeMap<&Vec<String>, usize> = all.iter().enumerate().map(|(i, v)| (*v, i)).collect();
        ca = sa.iter().map(|v| rank[v]).collect();
        cb = sb.iter().map(|v| rank[v]).collect();
        if all.len() <= classes {
            break;
        }
        classes = all.len();
    }
    (ca, cb)
}

/// Some(true/false) exact; None = the search budget ran out (no verdict)
pub fn isomorphic(a: &BTreeSet<Q>, b: &BTreeSet<Q>) -> Option<bool> {
    if a.len() != b.len() {
        return Some(false);
    }
    let (mut ba, mut bb) = (BTreeSet::new(), BTreeSet::new());
    a.iter().for_each(|q| bnodes_of(q, &mut ba));
    b.iter().for_each(|q| bnodes_of(q, &mut bb));
    if ba.len() != bb.len() {
        return Some(false);
    }
    let ba: Vec<String> = ba.into_iter().collect();
    let bb: Vec<String> = bb.into_iter().collect();
    let (sa, sb) = colours(a, b, &ba, &bb);
    {
        let (mut x, mut y) = (sa.clone(), sb.clone());
        x.sort();
        y.sort();
        if x != y {
            return Some(false);
        }
    }
    // backtracking over colour-compatible bijections; every complete assignment is checked exactly
    // (the budget counts every node of the search tree; when it runs out the verdict is `unknown`, never a failure)
    let mut budget: u64 = 150_000;
    let mut used = vec![false; bb.len()];
    let mut m = BTreeMap::new();
    fn go(
        i: usize,
        ba: &[String],
        bb: &[String],
        sa: &[usize],
        sb: &[usize],
        used: &mut Vec<bool>,
        m: &mut BTreeMap<String, String>,
        a: &BTreeSet<Q>,
        b: &BTreeSet<Q>,
        budget: &mut u64,
    ) -> Option<bool> {
        *budget = budget.checked_sub(1)?;
        if i == ba.len() {
            return Some(a.iter().all(|q| b.contains(&rename_q(q, m))));
        }
        for j in 0..bb.len() {
            if used[j] || sa[i] != sb[j] {
                continue;
            }
            used[j] = true;
            m.insert(ba[i].clone(), bb[j].clone());
            let r = go(i + 1, ba, bb, sa, sb, used, m, a, b, budget);
            used[j] = false;
            m.remove(&ba[i]);
            match r {
                Some(false) => {}
                other => return other,
            }
        }
        Some(false)
    }
    // |a| = |b| and renaming is injective, so a ⊆-embedding is an equality
    go(0, &ba, &bb, &sa, &sb, &mut used, &mut m, a, b, &mut budget)
}

/// label-independent description of a failed round trip: the quads (blank nodes masked as `b *`)
/// of the input that have no counterpart in the output, and vice versa (multiset difference)
fn lost_extra(kept: &BTreeSet<Q>, got: &BTreeSet<Q>) -> (Vec<String>, Vec<String>) {
    fn mask(t: &T) -> String {
        match t {
            T::Bnode(_) => "b *".to_string(),
            _ => t.render(),
        }
    }
    fn sigs(s: &BTreeSet<Q>) -> BTreeMap<String, i64> {
        let mut m = BTreeMap::new();
        for q in s {
            let k = format!("{} {} {} {}", mask(&q.s), mask(&q.p), mask(&q.o), q.g.as_ref().map(mask).unwrap_or("-".into()));
            *m.entry(k).or_insert(0) += 1;
        }
        m
    }
    let (a, b) = (sigs(kept), sigs(got));
    let diff = |x: &BTreeMap<String, i64>, y: &BTreeMap<String, i64>| -> Vec<String> {
        let mut v = vec![];
        for (k, n) in x {
            let d = n - y.get(k).copied().unwrap_or(0);
            for _ in 0..d.max(0) {
                if v.len() < 400 {
                    v.push(k.clone());
                }
            }
        }
        v
    };
    (diff(&a, &b), diff(&b, &a))
}

// ------------------------------------------------------------------ exec

#[derive(Clone)]
pub struct Req {
    pub mode: ProcessingMode,
    pub urt: bool,
    pub dir: Option<RdfDirection>,
    pub spaces: u16,
    pub quads: Vec<Q>,
    pub debug: bool,
    pub dom: bool,
}

pub fn parse_req(f: &[&str]) -> Option<Req> {
    let mode = match *f.get(1)? {
        "10" => ProcessingMode::JsonLd1_0,
        "11" => ProcessingMode::JsonLd1_1,
        _ => return None,
    };
    let urt = match *f.get(2)? {
        "0" => false,
        "1" => true,
        _ => return None,
    };
    let dir = match *f.get(3)? {
        "n" => None,
        "i" => Some(RdfDirection::I18nDatatype),
        "c" => Some(RdfDirection::CompoundLiteral),
        _ => return None,
    };
    let spaces: u16 = f.get(4)?.parse().ok()?;
    let n: usize = f.get(5)?.parse().ok()?;
    let mut it = f[6..].iter().copied().peekable();
    let mut quads = vec![];
    for _ in 0..n {
        quads.push(Q::parse(&mut it)?);
    }
    if it.next().is_some() {
        return None;
    }
    let dom = in_domain(&quads, dir);
    Some(Req { mode, urt, dir, spaces, quads, debug: f.first() == Some(&"d"), dom })
}

fn options(r: &Req) -> JsonLdOptions<sophia_jsonld::loader_factory::DefaultLoaderFactory<sophia_jsonld::loader::NoLoader>> {
    let o = JsonLdOptions::new().with_processing_mode(r.mode).with_use_rdf_type(r.urt).with_spaces(r.spaces);
    match r.dir {
        Some(d) => o.with_rdf_direction(d),
        None => o,
    }
}

/// outcome of a call into the real code: `Err` = it panicked (message), `Ok(Err)` = it returned an error
type Outcome<X> = Result<Result<X, String>, String>;

/// everything the REAL code says about one request
struct Real {
    ser: Outcome<String>,
    /// canonical rendering of the serializer's text (`unparsable` when it is not JSON)
    json: Option<String>,
    /// the text parsed back by the real parser (dom = 1 only)
    back: Option<Outcome<BTreeSet<Q>>>,
    /// `Jsonifier` used for a second dataset: its document (canonical rendering, compact text)
    jfy: Option<Outcome<(String, String)>>,
    /// the jsonifier's document parsed back, when it differs from the stringifier's (dom = 1 only)
    jback: Option<Outcome<BTreeSet<Q>>>,
}

fn parse_back(req: &Req, txt: &str) -> Outcome<BTreeSet<Q>> {
    catch(std::panic::AssertUnwindSafe(|| {
        let p = JsonLdParser::new_with_options(options(req));
        let mut got: BTreeSet<Q> = BTreeSet::new();
        let r = p.parse_str(txt).for_each_quad(|q| {
            got.insert(tgen::view_quad(q));
        });
        r.map(|_| got).map_err(|e| e.to_string())
    }))
}

/// the dataset a `Jsonifier` is used for before the request's own dataset: lists, a named graph, a blank graph,
/// labels and IRIs of the generator's alphabets (whatever leaks from it into the second document shows)
pub fn warmup() -> Vec<Q> {
    let i = |s: &str| T::Iri(s.to_string());
    let b = |s: &str| T::Bnode(s.to_string());
    let r = |s: &str| T::Iri(format!("{}{}", generator::RDF, s));
    let g = Some(i("http://x/g0"));
    let mut v = vec![];
    for (gr, cell) in [(None, "c0"), (g.clone(), "c1"), (Some(b("b0")), "l0")] {
        v.push(Q { s: i("http://x/s0"), p: i("http://x/p0"), o: b(cell), g: gr.clone() });
        v.push(Q { s: b(cell), p: r("first"), o: i("http://x/s1"), g: gr.clone() });
        v.push(Q { s: b(cell), p: r("rest"), o: r("nil"), g: gr.clone() });
        v.push(Q { s: b("b1"), p: r("type"), o: i("http://x/C"), g: gr.clone() });
    }
    v.push(Q { s: b("b2"), p: r("value"), o: T::Lit("v".into(), format!("{}string", generator::XSD)), g: None });
    v.push(Q { s: b("b2"), p: r("direction"), o: T::Lit("rtl".into(), format!("{}string", generator::XSD)), g: None });
    v
}

fn run_real(req: &Req) -> Real {
    let ds: Vec<Spog<SimpleTerm<'static>>> = req.quads.iter().map(tgen::q_to_simple).collect();
    // 1. the real serializer, text target
    let ser: Outcome<String> = catch(std::panic::AssertUnwindSafe(|| {
        let mut s = JsonLdSerializer::new_stringifier_with_options(options(req));
        match s.serialize_dataset(&ds) {
            Ok(_) => Ok(s.to_string()),
            Err(e) => Err(e.to_string()),
        }
    }));
    let mut real = Real { ser, json: None, back: None, jfy: None, jback: None };
    let txt = match &real.ser {
        Ok(Ok(t)) => t.clone(),
        _ => String::new(),
    };
    if let Ok(Ok(_)) = &real.ser {
        if req.debug {
            eprintln!("{}", txt);
        }
        // 2. JSON-level view
        real.json = Some(match Value::parse_str(&txt, |_| ()) {
            Ok(v) => canon(&v.0, false),
            Err(_) => "unparsable".to_string(),
        });
        // 3. semantic round trip through the real parser
        if req.dom {
            real.back = Some(parse_back(req, &txt));
        }
    }
    // 4. the other `QuadSerializer`: `Jsonifier`, second use of one serializer
    let wds: Vec<Spog<SimpleTerm<'static>>> = warmup().iter().map(tgen::q_to_simple).collect();
    let jfy: Outcome<(String, String)> = catch(std::panic::AssertUnwindSafe(|| {
        let mut j = Jsonifier::new_jsonifier_with_options(options(req));
        // (a failure on the warm-up dataset is not this request's: that dataset is a corpus case of its own)
        let warm = catch(std::panic::AssertUnwindSafe(|| j.serialize_dataset(&wds).is_ok()));
        if warm != Ok(true) {
            j = Jsonifier::new_jsonifier_with_options(options(req));
        }
        j.serialize_dataset(&ds).map_err(|e| e.to_string())?;
        let v = j.to_json();
        Ok((canon(&v, false), v.compact_print().to_string()))
    }));
    if req.dom {
        if let (Ok(Ok((c, t))), Some(sc)) = (&jfy, &real.json) {
            if c != sc {
                real.jback = Some(parse_back(req, t));
            }
        }
    }
    real.jfy = Some(jfy);
    real
}

// ------------------------------------------------------------------ the watchdog
//
// `vh-c12 exec` does not run the real code itself: it feeds each request to a child process (`vh-c12 worker`, same
// binary) and waits for its reply.  A request that is not answered within REQ_TIMEOUT seconds is reported as
// `hang=1` for THAT request and the child is killed and replaced; a child that dies (stack overflow, abort, out of
// memory) is reported as `abort=1` for the request it was processing.  The run goes on, so the other failing
// inputs of the same run are still found, and check.py never has to guess from a stalled pipe.  REQ_TIMEOUT is
// four orders of magnitude above what a request takes (milliseconds; the harness' own isomorphism search is
// bounded by a node budget), so that a loaded machine cannot turn a slow case into a report.

const REQ_TIMEOUT_S: u64 = 60;
/// once this many requests have hung, the timeout drops to SHORT_TIMEOUT_S ...
const HANGS_BEFORE_SHORT: usize = 2;
const SHORT_TIMEOUT_S: u64 = 5;
/// ... and after this many hangs / aborts the rest of the run is answered `skipped=1`
const MAX_INCIDENTS: usize = 12;

struct Child {
    proc: std::process::Child,
    stdin: std::process::ChildStdin,
    replies: mpsc::Receiver<String>,
}

fn spawn_child() -> Option<Child> {
    use std::io::BufRead;
    let exe = std::env::current_exe().ok()?;
    let mut proc = std::process::Command::new(exe)
        .arg("worker")
        .stdin(std::process::Stdio::piped())
        .stdout(std::process::Stdio::piped())
        .spawn()
        .ok()?;
    let stdin = proc.stdin.take()?;
    let stdout = proc.stdout.take()?;
    let (tx, replies) = mpsc::channel::<String>();
    std::thread::spawn(move || {
        for line in std::io::BufReader::new(stdout).lines() {
            match line {
                Ok(l) => {
                    if tx.send(l).is_err() {
                        return;
                    }
                }
                Err(_) => return,
            }
        }
    });
    Some(Child { proc, stdin, replies })
}

static CHILD: Mutex<Option<Child>> = Mutex::new(None);
/// (hangs, aborts)
static INCIDENTS: Mutex<(usize, usize)> = Mutex::new((0, 0));

fn timeout_s(hangs: usize) -> u64 {
    let long = std::env::var("VH_C12_REQ_TIMEOUT").ok().and_then(|s| s.parse().ok()).unwrap_or(REQ_TIMEOUT_S);
    if hangs >= HANGS_BEFORE_SHORT { long.min(SHORT_TIMEOUT_S) } else { long }
}

/// `dom=` of a request line, for the replies the supervisor has to write itself
fn dom_of(line: &str) -> Option<bool> {
    let f: Vec<&str> = line.split_whitespace().collect();
    if !matches!(f.first(), Some(&"s") | Some(&"d")) {
        return None;
    }
    parse_req(&f).map(|r| r.dom)
}

/// `exec` of the harness protocol: supervise the worker
pub fn exec(line: &str) -> String {
    use std::io::Write;
    let Some(dom) = dom_of(line) else { return "bad-op".into() };
    let (hangs, aborts) = *INCIDENTS.lock().unwrap();
    if hangs + aborts >= MAX_INCIDENTS {
        return format!("dom={} skipped=1", dom as u8);
    }
    let mut guard = CHILD.lock().unwrap();
    // a child that dies is given a second chance on the same request (a kill from outside - memory pressure on a
    // shared machine - must not be charged to the request); only a request that kills two fresh children is reported
    let mut last_status = String::new();
    for attempt in 0..2 {
        if guard.is_none() {
            *guard = spawn_child();
        }
        let Some(child) = guard.as_mut() else {
            // no child process available: run in this process (no watchdog)
            return exec_inner(line);
        };
        let sent = writeln!(child.stdin, "{}", line).and_then(|_| child.stdin.flush());
        let t = timeout_s(hangs);
        let got = if sent.is_ok() { child.replies.recv_timeout(Duration::from_secs(t)) } else { Err(mpsc::RecvTimeoutError::Disconnected) };
        match got {
            Ok(reply) => return reply,
            Err(mpsc::RecvTimeoutError::Timeout) => {
                let _ = child.proc.kill();
                let _ = child.proc.wait();
                *guard = None;
                INCIDENTS.lock().unwrap().0 += 1;
                let mut out = format!("dom={} hang=1", dom as u8);
                if dom {
                    out += &format!(" FAIL.hang={}s", t);
                }
                return out;
            }
            Err(mpsc::RecvTimeoutError::Disconnected) => {
                last_status = child.proc.wait().map(|s| s.to_string()).unwrap_or_default();
                *guard = None;
                if attempt == 0 {
                    continue;
                }
            }
        }
    }
    INCIDENTS.lock().unwrap().1 += 1;
    let mut out = format!("dom={} abort=1", dom as u8);
    if dom {
        out += &format!(" FAIL.abort={}", hex(&last_status));
    }
    out
}

/// `vh-c12 worker`: one reply line per request line, the real code runs here
fn worker_loop() {
    use std::io::{BufRead, Write};
    std::panic::set_hook(Box::new(|_| {}));
    let stdin = std::io::stdin();
    let mut out = std::io::stdout();
    for line in stdin.lock().lines() {
        let Ok(line) = line else { return };
        let r = match catch(std::panic::AssertUnwindSafe(|| exec_inner(&line))) {
            Ok(r) => r,
            Err(m) => format!("panic={}", hex(&m)),
        };
        if writeln!(out, "{}", r).and_then(|_| out.flush()).is_err() {
            return;
        }
    }
}

fn short(s: &str, n: usize) -> String {
    hex(&s.chars().take(n).collect::<String>())
}

/// everything for one request, in this process
pub fn exec_inner(line: &str) -> String {
    let f: Vec<&str> = line.split_whitespace().collect();
    if !matches!(f.first(), Some(&"s") | Some(&"d")) {
        return "bad-op".into();
    }
    let Some(req) = parse_req(&f) else { return "bad-op".into() };
    let dom = req.dom;
    let debug = req.debug;
    let kept: BTreeSet<Q> = req.quads.iter().filter(|q| expressible(q)).cloned().collect();
    let mut out = format!("dom={}", dom as u8);
    let real = run_real(&req);
    match &real.ser {
        Err(msg) => {
            out += " panic=1";
            if dom {
                out += &format!(" FAIL.panic={}", short(msg, 120));
            }
            return out;
        }
        Ok(Err(e)) => {
            if debug {
                eprintln!("serializer error: {}", e);
            }
            out += " panic=0 err=1";
            if dom {
                out += &format!(" FAIL.error={}", short(e, 120));
            }
            return out;
        }
        Ok(Ok(_)) => {}
    }
    out += " panic=0 err=0";
    out += &format!(" json={}", real.json.as_deref().unwrap_or("unparsable"));
    out += &format!(" kept={}", kept.len());
    // the other implementation of the trait
    let verdict = |back: &Outcome<BTreeSet<Q>>, what: &str, out: &mut String| -> Option<bool> {
        match back {
            Err(msg) => {
                *out += &format!(" {}=parser-panic:{}", what, short(msg, 80));
                Some(false)
            }
            Ok(Err(e)) => {
                *out += &format!(" {}=parser-error:{}", what, short(e, 80));
                Some(false)
            }
            Ok(Ok(got)) => match isomorphic(&kept, got) {
                Some(true) => Some(true),
                Some(false) => {
                    let (lost, extra) = lost_extra(&kept, got);
                    *out += &format!(" {}=L{}.X{}", what, hex(&lost.join(";")), hex(&extra.join(";")));
                    Some(false)
                }
                None => None,
            },
        }
    };
    match &real.jfy {
        Some(Ok(Ok((c, t)))) => {
            if Some(c) == real.json.as_ref() {
                out += " jfy=same";
            } else if let Some(jb) = &real.jback {
                if debug {
                    eprintln!("jsonifier: {}", t);
                }
                let mut detail = String::new();
                match verdict(jb, "FAIL.jsonifier", &mut detail) {
                    Some(true) => out += " jfy=iso",
                    Some(false) => out += &format!(" jfy=lossy{}", detail),
                    None => out += " jfy=unknown",
                }
            } else {
                out += " jfy=diff";
            }
        }
        Some(Ok(Err(e))) => {
            out += " jfy=err";
            if dom {
                out += &format!(" FAIL.jsonifier=error:{}", short(e, 80));
            }
        }
        Some(Err(m)) => {
            out += " jfy=panic";
            if dom {
                out += &format!(" FAIL.jsonifier=panic:{}", short(m, 80));
            }
        }
        None => {}
    }
    if !dom {
        return out;
    }
    if let Some(back) = &real.back {
        if let Ok(Ok(got)) = back {
            if debug {
                for q in got {
                    eprintln!("  back: {:?}", q);
                }
            }
            out += &format!(" rtn={}", got.len());
        }
        let mut detail = String::new();
        match verdict(back, "FAIL.roundtrip", &mut detail) {
            Some(true) => out += " rt=1",
            Some(false) => out += &format!(" rt=0{}", detail),
            None => out += " rt=unknown",
        }
    }
    out
}

fn main() {
    if std::env::args().nth(1).as_deref() == Some("worker") {
        worker_loop();
        return;
    }
    vhcore::main_loop(generate, exec);
}
