//! C14 — ORDER BY sorts by a consistent order that respects SPARQL's `<`.
//!
//! `sparql_order_by` / `cmp_bindings_with` are crate-private: the comparator is observed through
//! real `SELECT … ORDER BY` queries run by `SparqlWrapper(&dataset).query(..)`.  Every row lives in
//! its own UNION branch (`{ <x:sI> <x:q> ?r . <x:sI> <x:pJ> ?kJ … }`), so the order in which rows
//! reach `sort_unstable_by` is chosen by the harness (`union` = `left.chain(right)`), unbound keys
//! are keys the branch does not mention, and `?r` tells which row is which.
//!
//! Observable for an ordered pair (x, y): feed the rows as [y, x]; a two-element `sort_unstable_by`
//! swaps them iff `is_less(x, y)`, i.e. iff `cmp(x, y) == Less` (trusted: std's small-sort; if it
//! were otherwise the `x` outcome below shows up).  Running the query with the given ASC/DESC flags
//! and with all flags flipped yields
//!     l = swapped only with the given flags     (cmp(x,y) = Less)
//!     g = swapped only with the flipped flags   (cmp(x,y) = Greater, provided DESC reverses)
//!     e = never swapped                         (Equal)
//!     x = swapped both times                    (ASC and DESC do not mirror each other)
//! The Lean model predicts the same letters from `cmpBindingsWith` on the same rows.
//!
//! requests (terms in `T::render` prefix notation, `-` = unbound):
//!   T <n> <term>*n                     one key, n rows: n×n outcome matrix, value probes, triple laws
//!   K <dirs> <nrows> <nkeys> <cell>*   dirs = string of A|D (ascending/descending); rows×rows outcome matrix
//!   S <A|D> <n> <term>*n               one big sort in store order: no panic, permutation, adjacent order
use sophia_api::dataset::MutableDataset;
use sophia_api::prelude::*;
use sophia_api::sparql::{Query, SparqlDataset};
use sophia_api::term::{FromTerm, SimpleTerm};
use sophia_inmem::dataset::LightDataset;
use sophia_sparql::{ResultTerm, SparqlQuery, SparqlWrapper};
use sophia_term::ArcTerm;
use std::cmp::Ordering;
use vhcore::tgen::{to_simple, XSD};
use vhcore::util::*;
use vhcore::GenCtx;

// ------------------------------------------------------------------ value table

fn xsd(l: &str, d: &str) -> T {
    T::Lit(l.to_string(), format!("{}{}", XSD, d))
}

struct Table {
    /// (class label, term)
    v: Vec<(&'static str, T)>,
}

fn table() -> Table {
    let mut v: Vec<(&'static str, T)> = vec![];
    let mut add = |c: &'static str, t: T| v.push((c, t));
    for l in [
        "9", "10", "-1", "0", "+5", "007", "-0", "9223372036854775807", "9223372036854775808",
        "-9223372036854775808", "-9223372036854775809", "123456789012345678901234567890",
        "9007199254740992", "9007199254740993", "16777217", "1_0", "+1_000",
    ] {
        add("integer", xsd(l, "integer"));
    }
    for l in ["1a", "", " 1", "1.0", "1e2", "--1", "+", "_1", "0x10", "٩"] {
        add("integer.ill", xsd(l, "integer"));
    }
    for (l, d) in [
        ("127", "byte"), ("-128", "byte"), ("32767", "short"), ("2147483647", "int"), ("9", "int"), ("10", "long"),
        ("9223372036854775807", "long"), ("255", "unsignedByte"), ("5", "unsignedByte"), ("65535", "unsignedShort"),
        ("4294967295", "unsignedInt"), ("18446744073709551615", "unsignedLong"), ("+7", "unsignedInt"),
        ("0", "nonPositiveInteger"), ("-3", "nonPositiveInteger"), ("-3", "negativeInteger"),
        ("0", "nonNegativeInteger"), ("12", "nonNegativeInteger"), ("1", "positiveInteger"),
        ("123456789012345678901234567890", "positiveInteger"), ("7", "byte"), ("-0", "nonNegativeInteger"),
    ] {
        add("derived", xsd(l, d));
    }
    for (l, d) in [
        ("128", "byte"), ("-129", "byte"), ("32768", "short"), ("2147483648", "int"), ("9223372036854775808", "long"),
        ("256", "unsignedByte"), ("-1", "unsignedInt"), ("-0", "unsignedInt"), ("18446744073709551616", "unsignedLong"),
        ("1", "nonPositiveInteger"), ("0", "negativeInteger"), ("-1", "nonNegativeInteger"), ("0", "positiveInteger"),
        ("1_0", "int"), ("x", "short"), ("1.5", "long"),
    ] {
        add("derived.ill", xsd(l, d));
    }
    for l in [
        "9.5", "10", "10.0", "0.1", "-0.0", ".5", "5.", "+2.50", "1.5e1", "123456789012345678901234567890.5",
        "123456789012345678901234567890.25", "0.1000000000000000055511151231257827021181583404541015625",
        "9007199254740993", "9007199254740992.5", "1_0.5", "16777217", "0.10000000149011612", "-9.5", "100e-1",
        "340282356779733661637539395458142568448", "0.3", "1e-5",
    ] {
        add("decimal", xsd(l, "decimal"));
    }
    for l in ["abc", "", ".", "1.2.3", "--1", "1e", " 1.0", "1,5", "NaN", "INF"] {
        add("decimal.ill", xsd(l, "decimal"));
    }
    for l in [
        "9", "1e1", "0.1", "NaN", "INF", "-INF", "inf", "+inf", "infinity", "nan", "-0.0", "0", "16777217", "16777216",
        "3.4028236e38", "3.4028235e38", "1e-46", "1.", ".5", "1e-45", "9.5", "-1E0", "0.3", "1.17549435e-38",
    ] {
        add("float", xsd(l, "float"));
    }
    for l in ["1e", "e5", "0x10", " 1", ".", "", "1_0", "+-1", "Infinit", "1e+"] {
        add("float.ill", xsd(l, "float"));
    }
    for l in [
        "9", "10", "1e1", "0.1", "NaN", "INF", "-INF", "-inf", "Infinity", "-0.0", "0", "9007199254740993",
        "9007199254740992", "1e309", "-1e309", "4.9e-324", "2e-324", "2.5e-324", "1e23", "9.5", "1.7976931348623157e308",
        "1.7976931348623159e308", "0.3", "123456789012345678901234567890", "0.1000000000000000055511151231257827",
        "16777217", "0.10000000149011612", "1E400", "-NaN", "+9",
    ] {
        add("double", xsd(l, "double"));
    }
    for l in ["1e", "abc", "", "1 ", "1d", "1e1.5", "++1"] {
        add("double.ill", xsd(l, "double"));
    }
    for l in ["true", "false"] {
        add("boolean", xsd(l, "boolean"));
    }
    for l in ["1", "0", "TRUE", " true", ""] {
        add("boolean.ill", xsd(l, "boolean"));
    }
    for l in ["a", "B", "", "9", "10", "é", "ab", "a\"b", "\u{10000}"] {
        add("string", xsd(l, "string"));
    }
    for (l, t) in [("a", "en"), ("a", "EN"), ("b", "en"), ("a", "fr"), ("9", "en"), ("10", "en"), ("", "en-GB"), ("Z", "de")] {
        add("langstring", T::Lang(l.to_string(), t.to_string()));
    }
    for l in [
        "2024-01-01T12:00:00", "2024-01-01T12:00:00Z", "2024-01-01T11:00:00Z", "2024-01-02T00:00:00+14:00",
        "2024-01-01T12:00:00-05:00", "2024-01-01T24:00:00", "2024-01-02T00:00:00", "2024-01-01T12:00:00.5",
        "2024-01-01T12:00:00.123456789123", "12345-01-01T00:00:00", "-0002-03-04T05:06:07", "0000-01-01T00:00:00Z",
        "2024-02-29T23:59:59Z", "2023-12-31T12:00:00", "2024-01-03T12:00:00", "2024-01-01T12:00:00+15:00",
        "2024-01-01T12:00:00.50", "1999-12-31T23:59:59.999999999Z", "2024-01-01T02:00:00+14:00", "2024-06-01T00:00:00-14:00",
    ] {
        add("dateTime", xsd(l, "dateTime"));
    }
    for l in [
        "2024-02-30T00:00:00", "2023-02-29T00:00:00", "2024-01-01 12:00:00", "2024-1-1T00:00:00", "2024-01-01T25:00:00",
        "2024-01-01T12:00:00+24:00", "2024-01-01T24:00:01", "2024-13-01T00:00:00", "999-01-01T00:00:00", "2024-01-01",
        "2024-01-01T12:00:60", "", "2024-01-01T12:00:00z", "+2024-01-01T12:00:00",
    ] {
        add("dateTime.ill", xsd(l, "dateTime"));
    }
    // the ends of chrono's range (NaiveDate::MIN = -262143-01-01, MAX = 262142-12-31): `naive_to_fixed(d, ±14)` overflows
    // within 14 h of them, a timezoned value must have a representable UTC instant, 24:00:00 must have a next day
    for l in [
        "-262143-01-01T00:00:00", "-262143-01-01T13:59:59.999999999", "-262143-01-01T14:00:00", "-262143-01-02T00:00:00",
        "-262143-01-01T00:00:00Z", "-262143-01-01T00:00:00-14:00", "-262143-01-01T10:00:00+10:00", "-262143-01-01T05:00:00Z",
        "262142-12-31T23:59:59.999999999", "262142-12-31T10:00:00", "262142-12-31T09:59:59.999999999", "262142-12-30T12:00:00",
        "262142-12-31T23:59:59Z", "262142-12-31T23:59:59+14:00", "262142-12-31T20:00:00-03:59", "262142-12-31T23:30:00Z",
        "-262000-06-15T12:00:00Z", "262000-06-15T12:00:00", "-100000-01-01T00:00:00", "100000-01-01T00:00:00Z",
    ] {
        add("dateTime.edge", xsd(l, "dateTime"));
    }
    for l in [
        "-262144-12-31T23:59:59", "262143-01-01T00:00:00", "262142-12-31T24:00:00", "-262143-01-01T00:00:00+00:01",
        "262142-12-31T23:59:59-00:01", "-262144-01-01T00:00:00Z", "2147483647-01-01T00:00:00", "-2147483648-01-01T00:00:00Z",
    ] {
        add("dateTime.edgeill", xsd(l, "dateTime"));
    }
    for (l, d) in [
        ("9", "http://ex.org/dt"), ("10", "http://ex.org/dt"), ("2024-01-01", "http://www.w3.org/2001/XMLSchema#date"),
        ("9", "http://www.w3.org/2001/XMLSchema#foo"), ("x", "http://www.w3.org/2001/XMLSchema#anyURI"),
        ("9", "http://www.w3.org/2001/XMLSchema#Integer"), ("9", "http://www.w3.org/2001/XMLSchema"),
        ("9", "a:b"), ("9", "zz:zz"),
    ] {
        add("unknown", T::Lit(l.to_string(), d.to_string()));
    }
    for i in ["http://ex.org/a", "http://ex.org/b", "x:9", "x:10", "http://www.w3.org/2001/XMLSchema#integer", "a:", "zz:zz"] {
        add("iri", T::Iri(i.to_string()));
    }
    for b in ["b9", "b10", "a", "zz", "0"] {
        add("bnode", T::Bnode(b.to_string()));
    }
    // quoted triples (Term::cmp compares them component-wise; they have no value and no kind rank in the property)
    let ir = |s: &str| T::Iri(s.to_string());
    for (a, b, c) in [
        (ir("x:a"), ir("x:p"), xsd("9", "integer")), (ir("x:a"), ir("x:p"), xsd("10", "integer")),
        (ir("x:a"), ir("x:q"), xsd("1", "integer")), (ir("x:b"), ir("x:p"), ir("x:a")),
        (T::Bnode("b1".into()), ir("x:p"), T::Lang("a".into(), "en".into())),
    ] {
        add("triple", T::Triple(Box::new([a, b, c])));
    }
    add("triple", T::Triple(Box::new([
        T::Triple(Box::new([ir("x:a"), ir("x:p"), xsd("9", "integer")])), ir("x:p"), ir("x:a"),
    ])));
    Table { v }
}

impl Table {
    fn class(&self, c: &str) -> Vec<T> {
        self.v.iter().filter(|(k, _)| k.starts_with(c)).map(|(_, t)| t.clone()).collect()
    }
    /// exactly the classes named (no prefix matching)
    fn exact(&self, cs: &[&str]) -> Vec<T> {
        self.v.iter().filter(|(k, _)| cs.contains(k)).map(|(_, t)| t.clone()).collect()
    }
    fn all(&self) -> Vec<T> {
        self.v.iter().map(|(_, t)| t.clone()).collect()
    }
}

/// fresh variations around the table (random numerics / strings / dateTimes in protocol-safe ASCII)
fn random_value(r: &mut Rng, tab: &Table) -> T {
    let digits = |r: &mut Rng, n: usize| -> String {
        (0..n).map(|_| char::from(b'0' + r.below(10) as u8)).collect()
    };
    match r.below(12) {
        0 => {
            let n = r.range(1, 4);
            let s = digits(r, n);
            let sign = *r.pick(&["", "", "-", "+"]);
            let dt = *r.pick(&["integer", "integer", "int", "long", "byte", "unsignedByte", "short", "nonNegativeInteger", "decimal", "double", "float"]);
            xsd(&format!("{}{}", sign, s), dt)
        }
        1 => {
            let a = r.range(0, 3);
            let b = r.range(1, 3);
            let s = format!("{}{}.{}", r.pick(&["", "-"]), digits(r, a), digits(r, b));
            xsd(&s, *r.pick(&["decimal", "decimal", "double", "float"]))
        }
        2 => {
            let a = r.range(1, 3);
            let dt = *r.pick(&["double", "float", "double", "decimal"]);
            let esign = if dt == "decimal" { "-" } else { *r.pick(&["", "-", "+"]) };
            let s = format!("{}{}e{}{}", r.pick(&["", "-"]), digits(r, a), esign, r.range(0, 3));
            xsd(&s, dt)
        }
        3 => {
            // near 2^53 / 2^24: distinct exact values that collapse after rounding
            let base: u64 = *r.pick(&[9007199254740992u64, 16777216, 9007199254740992 * 4, 1u64 << 62]);
            let v = base + r.below(6) as u64;
            xsd(&v.to_string(), *r.pick(&["integer", "decimal", "double", "float", "long", "unsignedLong"]))
        }
        4 => {
            let n = r.range(20, 38);
            let mut s = digits(r, n);
            if r.chance(1, 2) {
                s.push('.');
                let k = r.range(1, 4);
                s.push_str(&digits(r, k));
            }
            xsd(&s, *r.pick(&["decimal", "integer", "double"]))
        }
        5 => random_date_time(r),
        6 => {
            let l: String = (0..r.below(3)).map(|_| *r.pick(&['a', 'b', 'A', '9', '1', '0', 'é'])).collect();
            match r.below(3) {
                0 => xsd(&l, "string"),
                1 => T::Lang(l, r.pick(&["en", "EN", "fr", "en-GB"]).to_string()),
                _ => T::Lit(l, r.pick(&["http://ex.org/dt", "a:b", "zz:zz"]).to_string()),
            }
        }
        7 => {
            // ill-typed look-alikes
            let l = r.pick(&["1a", "9x", "", "1 ", "ten", "1e", "--5", "1_0", "0x1", "NaN", "INF", "true", "1.", ".5"]).to_string();
            xsd(&l, *r.pick(&["integer", "decimal", "double", "float", "boolean", "dateTime", "int", "unsignedByte", "positiveInteger"]))
        }
        _ => tab.v[r.below(tab.v.len())].1.clone(),
    }
}

/// a dateTime anywhere in (and slightly beyond) chrono's range: recent years, year 0 / negative years, 5-6 digit years,
/// and the last/first days of the range where ±14:00 overflows
fn random_date_time(r: &mut Rng) -> T {
    let tz = *r.pick(&["", "", "", "Z", "Z", "+14:00", "-14:00", "+05:30", "-08:00", "+00:01", "-13:59"]);
    let frac = *r.pick(&["", "", "", ".5", ".25", ".999999999", ".0000000001"]);
    let (year, month, day): (i64, usize, usize) = match r.below(8) {
        0..=2 => (2020 + r.below(6) as i64, r.range(1, 12), r.range(1, 28)),
        3 => (r.below(3) as i64 - 1, r.range(1, 12), r.range(1, 28)),
        4 => (*r.pick(&[-1i64, 1]) * r.range(9990, 262142) as i64, r.range(1, 12), r.range(1, 31)),
        5 => (-262143, 1, r.range(1, 2)),
        6 => (262142, 12, r.range(30, 31)),
        _ => (*r.pick(&[-262144i64, -262143, 262142, 262143, 2147483647, 2147483648]), *r.pick(&[1, 12]), *r.pick(&[1, 31])),
    };
    let (h, mi, sec) = match r.below(6) {
        0 => (24, 0, 0),
        1 => (*r.pick(&[9, 10, 13, 14]), *r.pick(&[0, 59]), *r.pick(&[0, 59])),
        _ => (r.below(24), r.below(60), r.below(60)),
    };
    let frac = if h == 24 { "" } else { frac };
    let ys = if year < 0 { format!("-{:04}", -year) } else { format!("{:04}", year) };
    xsd(&format!("{}-{:02}-{:02}T{:02}:{:02}:{:02}{}{}", ys, month, day, h, mi, sec, frac, tz), "dateTime")
}

// ------------------------------------------------------------------ generator

fn emit_t(ctx: &mut GenCtx, tag: &str, ts: &[T]) {
    let mut s = format!("T {}", ts.len());
    for t in ts {
        s.push(' ');
        s.push_str(&t.render());
    }
    ctx.stats.bump(&format!("T.{}", tag));
    ctx.stats.add("T.pairs", (ts.len() * ts.len()) as u64);
    count_values(ctx, ts);
    ctx.emit(&s);
}

/// distribution counters over the values of a request (which regions of the value space are reached)
fn count_values(ctx: &mut GenCtx, ts: &[T]) {
    let mut edge_naive = false;
    let mut zoned = false;
    for t in ts {
        match t {
            T::Lit(l, d) if d.ends_with("#dateTime") => {
                let neg = l.starts_with('-');
                let body = l.trim_start_matches('-');
                let year: i64 = body.split('-').next().and_then(|y| y.parse().ok()).unwrap_or(0);
                let tz = l.ends_with('Z') || l.rfind(['+', '-']).map(|i| i > l.find('T').unwrap_or(usize::MAX)).unwrap_or(false);
                ctx.stats.bump(if tz { "val.dateTime.zoned" } else { "val.dateTime.naive" });
                if year > 12345 || (neg && year > 2) {
                    ctx.stats.bump("val.dateTime.year_beyond_tests");
                }
                if (neg && year == 262143) || (!neg && year == 262142) {
                    ctx.stats.bump("val.dateTime.range_end_year");
                    edge_naive |= !tz;
                }
                if year > 262143 {
                    ctx.stats.bump("val.dateTime.year_out_of_range");
                }
                zoned |= tz;
            }
            T::Triple(_) => ctx.stats.bump("val.quoted_triple"),
            _ => {}
        }
    }
    if edge_naive && zoned {
        ctx.stats.bump("req.range_end_naive_with_zoned");
    }
}

/// a non-timezoned dateTime in the first / last year of chrono's range (its comparison with a timezoned one may panic)
fn range_end_naive(t: &T) -> bool {
    match t {
        T::Lit(l, d) if d.ends_with("#dateTime") => {
            (l.starts_with("-262143-") || l.starts_with("262142-")) && !(l.ends_with('Z') || l[l.find('T').unwrap_or(0)..].contains(['+', '-']))
        }
        _ => false,
    }
}

/// pools inside ONE comparison class each (`OneClass` of Props/C14.lean): the comparator is a total preorder there
fn clean_pools(tab: &Table) -> Vec<(&'static str, Vec<T>)> {
    let lex = |t: &T| match t {
        T::Lit(l, _) => l.clone(),
        _ => String::new(),
    };
    let has_tz = |l: &str| l.ends_with('Z') || l.rfind(['+', '-']).map(|i| i > l.find('T').unwrap_or(usize::MAX)).unwrap_or(false);
    let dts = tab.exact(&["dateTime", "dateTime.edge"]);
    vec![
        ("exact", tab.exact(&["integer", "derived", "decimal"])),
        ("float", tab.exact(&["float", "double"]).into_iter().filter(|t| !lex(t).to_lowercase().contains("nan")).collect()),
        ("term", tab.exact(&[
            "string", "langstring", "unknown", "iri", "bnode", "boolean", "triple", "integer.ill", "derived.ill", "decimal.ill",
            "float.ill", "double.ill", "boolean.ill", "dateTime.ill", "dateTime.edgeill",
        ])),
        ("naive", dts.iter().filter(|t| !has_tz(&lex(t))).cloned().collect()),
        ("zoned", dts.iter().filter(|t| has_tz(&lex(t))).cloned().collect()),
    ]
}

pub fn generate(ctx: &mut GenCtx) {
    let tab = table();
    let thorough = ctx.thorough;
    // 0. the documented witnesses
    let i = |l: &str| xsd(l, "integer");
    emit_t(ctx, "corpus", &[i("9"), i("10"), i("1a")]);
    emit_t(ctx, "corpus", &[xsd("5", "unsignedByte"), xsd("7", "byte"), xsd("x", "string")]);
    emit_t(ctx, "corpus", &[i("5"), xsd("7", "double"), xsd("NaN", "double")]);
    emit_t(ctx, "corpus", &[i("9007199254740992"), i("9007199254740993"), xsd("9007199254740992", "double")]);
    emit_t(ctx, "corpus", &[
        xsd("2024-01-02T00:00:00+14:00", "dateTime"), xsd("2024-01-01T11:00:00Z", "dateTime"), xsd("2024-01-01T12:00:00", "dateTime"),
    ]);
    // dateTime lexical forms on which `XsdDateTime::new` used to unwrap a failed integer parse (fixed in 9f7e0fe:
    // they are now ill-formed dateTimes, compared by term order); a regression shows up as FAIL.panic
    emit_t(ctx, "corpus", &[xsd("99999999999-01-01T00:00:00", "dateTime"), xsd("2024-01-01T00:00:00", "dateTime")]);
    emit_t(ctx, "corpus", &[xsd("2147483648-01-01T00:00:00Z", "dateTime"), xsd("2147483647-01-01T00:00:00Z", "dateTime"), i("1")]);
    emit_t(ctx, "corpus", &[xsd("\u{0662}\u{0660}\u{0662}\u{0664}-01-01T00:00:00", "dateTime"), xsd("2024-01-01T00:00:00", "dateTime")]);
    // the ends of chrono's range: `naive_to_fixed(d, ±14)` was `unreachable!()` when d∓14:00 is not representable (fixed in
    // c9027e0; a regression shows up as FAIL.panic), next to the nearest values that were fine
    let d = |l: &str| xsd(l, "dateTime");
    emit_t(ctx, "corpus", &[d("-262143-01-01T00:00:00"), d("2024-01-01T00:00:00Z")]);
    emit_t(ctx, "corpus", &[d("262142-12-31T23:00:00"), d("262142-12-31T23:30:00Z")]);
    emit_t(ctx, "corpus", &[d("-262143-01-01T14:00:00"), d("2024-01-01T00:00:00Z"), d("262142-12-31T09:59:59")]);
    emit_t(ctx, "corpus", &[d("262142-12-31T10:00:00"), d("2024-01-01T00:00:00Z"), d("262142-12-31T23:59:59Z")]);
    // decimals written with an exponent (outside the model's domain when next to a float/double)
    emit_t(ctx, "corpus", &[xsd("1e3", "decimal"), xsd("1000", "double"), xsd("999", "integer")]);
    emit_t(ctx, "corpus", &[xsd("1e3", "decimal"), xsd("1000", "integer"), xsd("999.5", "decimal")]);
    // 1. per class tables (every pair inside a class, and each class against a few outsiders)
    for c in ["integer", "derived", "decimal", "float", "double", "boolean", "string", "langstring", "dateTime", "unknown", "iri", "bnode", "triple"] {
        let mut ts = tab.class(c);
        for _ in 0..4 {
            ts.push(tab.v[ctx.rng.below(tab.v.len())].1.clone());
        }
        emit_t(ctx, "class", &ts);
    }
    // 2. mixed tables
    let all = tab.all();
    let ntab = if thorough { 60 } else { 8 };
    let tsize = if thorough { 30 } else { 22 };
    for _ in 0..ntab {
        let mut ts = vec![];
        for _ in 0..tsize {
            if ctx.rng.chance(2, 3) {
                ts.push(ctx.rng.pick(&all).clone());
            } else {
                ts.push(random_value(&mut ctx.rng, &tab));
            }
        }
        emit_t(ctx, "mixed", &ts);
    }
    // dateTimes over the whole range of chrono (and just beyond), with and without timezone
    for _ in 0..(if thorough { 60 } else { 8 }) {
        let ts: Vec<T> = (0..12).map(|_| random_date_time(&mut ctx.rng)).collect();
        emit_t(ctx, "dtrange", &ts);
    }
    // numerics only (cross-type promotion)
    let nums: Vec<T> = ["integer", "derived", "decimal", "float", "double"].iter().flat_map(|c| tab.class(c)).collect();
    for _ in 0..(if thorough { 40 } else { 6 }) {
        let ts: Vec<T> = (0..tsize)
            .map(|_| if ctx.rng.chance(3, 4) { ctx.rng.pick(&nums).clone() } else { random_value(&mut ctx.rng, &tab) })
            .collect();
        emit_t(ctx, "numeric", &ts);
    }
    // 3. triples (three-row sorts in all input orders on top of the pair matrix)
    for _ in 0..(if thorough { 3000 } else { 250 }) {
        let ts: Vec<T> = (0..3)
            .map(|_| if ctx.rng.chance(1, 2) { ctx.rng.pick(&all).clone() } else { random_value(&mut ctx.rng, &tab) })
            .collect();
        emit_t(ctx, "triple", &ts);
    }
    // pairs with a repeated value (reflexivity through two distinct rows)
    for _ in 0..(if thorough { 300 } else { 40 }) {
        let a = ctx.rng.pick(&all).clone();
        let b = ctx.rng.pick(&all).clone();
        emit_t(ctx, "pair", &[a, b]);
    }
    // 4. multi-key rows with unbound cells
    for _ in 0..(if thorough { 3000 } else { 300 }) {
        let nkeys = ctx.rng.range(1, 3);
        // three rows: also sorted together in all six input orders
        let nrows = if ctx.rng.chance(1, 4) { 3 } else { 2 };
        let dirs: String = (0..nkeys).map(|_| if ctx.rng.chance(1, 2) { 'A' } else { 'D' }).collect();
        // small column pools so that ties on the leading keys are frequent
        let pools: Vec<Vec<T>> = (0..nkeys)
            .map(|_| (0..2).map(|_| if ctx.rng.chance(2, 3) { ctx.rng.pick(&all).clone() } else { random_value(&mut ctx.rng, &tab) }).collect())
            .collect();
        let mut s = format!("K {} {} {}", dirs, nrows, nkeys);
        let mut unbound = 0;
        for _ in 0..nrows {
            for k in 0..nkeys {
                if ctx.rng.chance(1, 5) {
                    s.push_str(" -");
                    unbound += 1;
                } else {
                    s.push(' ');
                    s.push_str(&ctx.rng.pick(&pools[k]).render());
                }
            }
        }
        ctx.stats.bump(&format!("K.keys{}", nkeys));
        ctx.stats.bump(&format!("K.rows{}", nrows));
        if unbound > 0 {
            ctx.stats.bump("K.with_unbound");
        }
        if dirs.contains('D') {
            ctx.stats.bump("K.with_desc");
        }
        ctx.emit(&s);
    }
    // 5a. big sorts dense in 3-cycles: integers next to ill-typed xsd:integer literals that interleave lexically
    for _ in 0..(if thorough { 40 } else { 6 }) {
        let n = ctx.rng.range(21, 120);
        let mut s = format!("S {} {}", if ctx.rng.chance(1, 2) { "A" } else { "D" }, n);
        for _ in 0..n {
            let t = if ctx.rng.chance(3, 10) {
                xsd(&format!("{}{}", ctx.rng.range(1, 99), ctx.rng.pick(&["a", "x"])), "integer")
            } else {
                xsd(&ctx.rng.range(1, 120).to_string(), *ctx.rng.pick(&["integer", "integer", "byte", "unsignedByte", "double"]))
            };
            s.push(' ');
            s.push_str(&t.render());
        }
        ctx.stats.bump("S.cyclic");
        ctx.emit(&s);
    }
    // 5. big sorts (50–200 mixed values) — the standard sort may panic on an inconsistent comparator
    for k in 0..(if thorough { 60 } else { 8 }) {
        let n = ctx.rng.range(50, 200);
        let homogeneous = k % 4 == 3;
        let pool: Vec<T> = if homogeneous { tab.class(*ctx.rng.pick(&["integer", "string", "iri", "double"])) } else { all.clone() };
        let mut s = format!("S {} {}", if ctx.rng.chance(1, 2) { "A" } else { "D" }, n);
        for _ in 0..n {
            let mut t = if !homogeneous && ctx.rng.chance(1, 3) { random_value(&mut ctx.rng, &tab) } else { ctx.rng.pick(&pool).clone() };
            // keep these sorts clear of the range-end panic (it would end the sort before anything else is observed);
            // S.dtrange below is where it is looked for
            while range_end_naive(&t) {
                t = ctx.rng.pick(&pool).clone();
            }
            s.push(' ');
            s.push_str(&t.render());
        }
        ctx.stats.bump(if homogeneous { "S.homogeneous" } else { "S.mixed" });
        ctx.emit(&s);
    }
    // 5b. big sorts of dateTimes over the whole range, with and without timezone
    for _ in 0..(if thorough { 12 } else { 2 }) {
        let n = ctx.rng.range(21, 60);
        let mut s = format!("S {} {}", if ctx.rng.chance(1, 2) { "A" } else { "D" }, n);
        for _ in 0..n {
            s.push(' ');
            s.push_str(&random_date_time(&mut ctx.rng).render());
        }
        ctx.stats.bump("S.dtrange");
        ctx.emit(&s);
    }
    // 5c. clean big sorts: all values inside one comparison class, where the comparator is proved to be a total preorder
    // (no known defect can explain a mis-ordered output here)
    let pools = clean_pools(&tab);
    for k in 0..(if thorough { 30 } else { 5 }) {
        let (name, pool) = &pools[k % pools.len()];
        let n = ctx.rng.range(30, 200);
        let mut s = format!("S {} {}", if ctx.rng.chance(1, 2) { "A" } else { "D" }, n);
        for _ in 0..n {
            s.push(' ');
            s.push_str(&ctx.rng.pick(pool).render());
        }
        ctx.stats.bump(&format!("S.clean.{}", name));
        ctx.emit(&s);
    }
    // 6. several keys, many rows, unbound cells, ASC/DESC, LIMIT/OFFSET; every column inside one comparison class
    for _ in 0..(if thorough { 60 } else { 8 }) {
        let nkeys = ctx.rng.range(2, 3);
        let nrows = ctx.rng.range(21, if thorough { 90 } else { 50 });
        let dirs: String = (0..nkeys).map(|_| if ctx.rng.chance(1, 2) { 'A' } else { 'D' }).collect();
        // few distinct values per column: ties on the leading keys are the rule
        let cols: Vec<Vec<T>> = (0..nkeys)
            .map(|_| {
                let pool = &pools[ctx.rng.below(pools.len())].1;
                let k = ctx.rng.range(2, 6);
                (0..k).map(|_| ctx.rng.pick(pool).clone()).collect()
            })
            .collect();
        let slice = if ctx.rng.chance(1, 2) { format!("{} {}", ctx.rng.below(nrows + 3), ctx.rng.below(nrows / 2 + 1)) } else { "- 0".to_string() };
        let mut s = format!("M {} {} {} {}", dirs, nrows, nkeys, slice);
        for _ in 0..nrows {
            for col in cols.iter() {
                if ctx.rng.chance(1, 6) {
                    s.push_str(" -");
                } else {
                    s.push(' ');
                    s.push_str(&ctx.rng.pick(col).render());
                }
            }
        }
        ctx.stats.bump(&format!("M.keys{}", nkeys));
        ctx.stats.bump(if slice.starts_with('-') { "M.full" } else { "M.limit_offset" });
        if dirs.contains('D') {
            ctx.stats.bump("M.with_desc");
        }
        ctx.emit(&s);
    }
    // 8. small sorts (2..20 rows, 1-3 keys, ANY values, unbound cells): the exact output order against the model of std's
    // insertion sort; small column pools so that ties (where the algorithm shows) are frequent
    for _ in 0..(if thorough { 600 } else { 80 }) {
        let nkeys = ctx.rng.range(1, 3);
        let nrows = ctx.rng.range(2, 20);
        let dirs: String = (0..nkeys).map(|_| if ctx.rng.chance(1, 2) { 'A' } else { 'D' }).collect();
        let cols: Vec<Vec<T>> = (0..nkeys)
            .map(|_| {
                let k = ctx.rng.range(2, 7);
                (0..k).map(|_| if ctx.rng.chance(2, 3) { ctx.rng.pick(&all).clone() } else { random_value(&mut ctx.rng, &tab) }).collect()
            })
            .collect();
        let mut s = format!("Q {} {} {}", dirs, nrows, nkeys);
        for _ in 0..nrows {
            for col in cols.iter() {
                if ctx.rng.chance(1, 7) {
                    s.push_str(" -");
                } else {
                    s.push(' ');
                    s.push_str(&ctx.rng.pick(col).render());
                }
            }
        }
        ctx.stats.bump(&format!("Q.keys{}", nkeys));
        ctx.stats.add("Q.rows", nrows as u64);
        ctx.emit(&s);
    }
    // 7. keys that are not plain variables: `?k + 0` (EvalResult::Value), BIND(?k * 1 AS ?b) (ResultTerm with a pre-computed
    // value and a generated lexical form), STR(?k)
    for k in 0..(if thorough { 240 } else { 36 }) {
        let mode = ["P", "B", "S"][k % 3];
        let n = ctx.rng.range(4, 10);
        let ts: Vec<T> = (0..n)
            .map(|_| {
                if mode != "S" && ctx.rng.chance(2, 3) {
                    if ctx.rng.chance(2, 3) { ctx.rng.pick(&nums).clone() } else { random_value(&mut ctx.rng, &tab) }
                } else if ctx.rng.chance(2, 3) {
                    ctx.rng.pick(&all).clone()
                } else {
                    random_value(&mut ctx.rng, &tab)
                }
            })
            .collect();
        let mut s = format!("X {} {}", mode, n);
        for t in &ts {
            s.push(' ');
            s.push_str(&t.render());
        }
        ctx.stats.bump(&format!("X.{}", mode));
        ctx.stats.add("X.pairs", (n * n) as u64);
        ctx.emit(&s);
    }
}

// ------------------------------------------------------------------ executor

type Row = Vec<Option<T>>;

/// every row twice (subjects x:sI and x:tI) so that a row can be compared with itself
fn build(rows: &[Row], copies: bool) -> LightDataset {
    let mut ds = LightDataset::new();
    let iri = |s: String| SimpleTerm::Iri(sophia_api::term::IriRef::new_unchecked(s.into()));
    for (i, row) in rows.iter().enumerate() {
        for pre in if copies { &["s", "t"][..] } else { &["s"][..] } {
            let subj = iri(format!("x:{}{}", pre, i));
            let marker = SimpleTerm::LiteralDatatype(format!("{}{}", pre, i).into(), sophia_api::term::IriRef::new_unchecked("x:m".into()));
            ds.insert(&subj, iri("x:q".into()), marker, None::<SimpleTerm>).unwrap();
            for (k, cell) in row.iter().enumerate() {
                if let Some(t) = cell {
                    ds.insert(&subj, iri(format!("x:p{}", k)), to_simple(t), None::<SimpleTerm>).unwrap();
                }
            }
        }
    }
    ds
}

/// what the ORDER BY key is: the stored term itself (`EvalResult::Term`), a computed value (`EvalResult::Value`), a
/// BIND-produced term (a `ResultTerm` built by `value_to_term` with a pre-computed value), or `STR(..)`
#[derive(Clone, Copy, PartialEq)]
enum KeyMode {
    Var,
    Plus0,
    BindMul1,
    Str,
}

fn branch(subj: &str, row: &Row) -> String {
    branch_m(subj, row, KeyMode::Var)
}

fn branch_m(subj: &str, row: &Row, mode: KeyMode) -> String {
    let mut s = format!("{{ <x:{}> <x:q> ?r . ", subj);
    for (k, cell) in row.iter().enumerate() {
        if cell.is_some() {
            s.push_str(&format!("<x:{}> <x:p{}> ?k{} . ", subj, k, k));
        }
    }
    if mode == KeyMode::BindMul1 {
        for (k, cell) in row.iter().enumerate() {
            if cell.is_some() {
                s.push_str(&format!("BIND(?k{} * 1 AS ?b{}) ", k, k));
            }
        }
    }
    s.push('}');
    s
}

fn order_clause(dirs: &[bool]) -> String {
    order_clause_m(dirs, KeyMode::Var)
}

fn order_clause_m(dirs: &[bool], mode: KeyMode) -> String {
    let mut s = String::from("ORDER BY");
    for (k, d) in dirs.iter().enumerate() {
        let key = match mode {
            KeyMode::Var => format!("?k{}", k),
            KeyMode::Plus0 => format!("?k{} + 0", k),
            KeyMode::BindMul1 => format!("?b{}", k),
            KeyMode::Str => format!("STR(?k{})", k),
        };
        s.push_str(&format!(" {}({})", if *d { "DESC" } else { "ASC" }, key));
    }
    s
}

/// run `SELECT ?r … WHERE { b0 UNION b1 … } <order>`; the markers in output order
fn run(ds: &LightDataset, branches: &[String], nkeys: usize, order: &str) -> Result<Vec<String>, String> {
    let mut q = String::from("SELECT ?r");
    for k in 0..nkeys {
        q.push_str(&format!(" ?k{}", k));
    }
    q.push_str(" WHERE { ");
    q.push_str(&branches.join(" UNION "));
    q.push_str(" } ");
    q.push_str(order);
    run_query(ds, &q)
}

fn run_query(ds: &LightDataset, q: &str) -> Result<Vec<String>, String> {
    let r = catch(std::panic::AssertUnwindSafe(|| -> Result<Vec<String>, String> {
        let w = SparqlWrapper(ds);
        let pq = SparqlQuery::parse(q).map_err(|e| format!("parse:{}", e))?;
        let b = w.query(&pq).map_err(|e| format!("query:{}", e))?.into_bindings();
        let mut out = vec![];
        for row in b {
            let row = row.map_err(|e| format!("row:{}", e))?;
            let m = row[0].as_ref().ok_or("nomarker")?;
            out.push(m.lexical_form().unwrap().to_string());
        }
        Ok(out)
    }));
    match r {
        Ok(x) => x,
        Err(p) => Err(format!("panic:{}", p)),
    }
}

struct Obs<'a> {
    ds: &'a LightDataset,
    rows: &'a [Row],
    dirs: Vec<bool>,
    mode: KeyMode,
    fails: Vec<String>,
}

impl Obs<'_> {
    /// outcome letter for cmp(x, y) where x, y are subject names ("s3", "t3")
    fn pair(&mut self, x: (&str, usize), y: (&str, usize)) -> char {
        let sx = format!("{}{}", x.0, x.1);
        let sy = format!("{}{}", y.0, y.1);
        let br = [branch_m(&sy, &self.rows[y.1], self.mode), branch_m(&sx, &self.rows[x.1], self.mode)];
        let nkeys = self.dirs.len();
        let flipped: Vec<bool> = self.dirs.iter().map(|d| !d).collect();
        let mut sw = [false, false];
        for (i, d) in [self.dirs.clone(), flipped].iter().enumerate() {
            match run(self.ds, &br, nkeys, &order_clause_m(d, self.mode)) {
                Ok(out) => {
                    if out == [sy.clone(), sx.clone()] {
                        sw[i] = false;
                    } else if out == [sx.clone(), sy.clone()] {
                        sw[i] = true;
                    } else {
                        self.fails.push(format!("FAIL.perm={}", hex(&format!("{}<{}:{:?}", sx, sy, out))));
                        return '?';
                    }
                }
                Err(e) => {
                    self.fails.push(format!("FAIL.{}={}", if e.starts_with("panic") { "panic" } else { "error" }, hex(&e)));
                    return '?';
                }
            }
        }
        match sw {
            [true, false] => 'l',
            [false, true] => 'g',
            [false, false] => 'e',
            [true, true] => 'x',
        }
    }
}

fn swap_letter(c: char) -> char {
    match c {
        'l' => 'g',
        'g' => 'l',
        c => c,
    }
}

fn le(c: char) -> bool {
    c == 'l' || c == 'e'
}

/// laws on an observed matrix; pushes FAIL.* (first witness + count)
fn matrix_laws(m: &[Vec<char>], fails: &mut Vec<String>) -> bool {
    matrix_laws_sel(m, fails, true)
}

fn matrix_laws_sel(m: &[Vec<char>], fails: &mut Vec<String>, triples: bool) -> bool {
    let n = m.len();
    let mut ok = true;
    let mut refl = vec![];
    let mut anti = vec![];
    let mut mirror = vec![];
    for i in 0..n {
        if m[i][i] != 'e' && m[i][i] != '?' {
            refl.push(format!("{}", i));
        }
        for j in 0..n {
            if m[i][j] == 'x' {
                mirror.push(format!("{},{}", i, j));
            }
            if i < j && m[i][j] != '?' && m[j][i] != '?' && m[i][j] != 'x' && m[j][i] != 'x' && m[j][i] != swap_letter(m[i][j]) {
                anti.push(format!("{},{}", i, j));
            }
        }
    }
    let mut cyc = vec![];
    let mut tr = vec![];
    for i in 0..(if triples { n } else { 0 }) {
        for j in 0..n {
            for k in 0..n {
                if i == j || j == k || i == k {
                    continue;
                }
                let (a, b, c) = (m[i][j], m[j][k], m[i][k]);
                if a == 'l' && b == 'l' && m[k][i] == 'l' {
                    if i < j && i < k {
                        cyc.push(format!("{},{},{}", i, j, k));
                    }
                } else if le(a) && le(b) && (c == 'g' || (c == 'e' && (a == 'l' || b == 'l'))) {
                    // i ≤ j ≤ k but not (i ≤ k with the right strictness)
                    tr.push(format!("{},{},{}", i, j, k));
                }
            }
        }
    }
    for (name, v) in [("reflexive", &refl), ("antisym", &anti), ("mirror", &mirror), ("cycle", &cyc), ("preorder", &tr)] {
        if !v.is_empty() {
            ok = false;
            fails.push(format!("FAIL.{}={}:{}", name, v.len(), v[0]));
        }
    }
    ok
}

fn parse_cells<'a>(toks: &mut std::iter::Peekable<impl Iterator<Item = &'a str>>, n: usize) -> Option<Vec<Option<T>>> {
    let mut out = vec![];
    for _ in 0..n {
        if toks.peek() == Some(&"-") {
            toks.next();
            out.push(None);
        } else {
            out.push(Some(T::parse(toks)?));
        }
    }
    Some(out)
}

/// value probes through the public API: `ResultTerm::value()` (= `SparqlValue::try_from_term`) and
/// `PartialOrd` on the returned values
fn probes(ts: &[T]) -> (String, String) {
    let rts: Vec<ResultTerm> = ts.iter().map(|t| ResultTerm::from(ArcTerm::from_term(to_simple(t)))).collect();
    let hv: String = rts
        .iter()
        .map(|r| match catch(std::panic::AssertUnwindSafe(|| r.value().is_some())) {
            Ok(true) => '1',
            Ok(false) => '0',
            Err(_) => 'P',
        })
        .collect();
    let mut vc = String::new();
    for a in &rts {
        for b in &rts {
            let c = catch(std::panic::AssertUnwindSafe(|| match (a.value(), b.value()) {
                (Some(x), Some(y)) => match x.partial_cmp(y) {
                    Some(Ordering::Less) => 'l',
                    Some(Ordering::Equal) => 'e',
                    Some(Ordering::Greater) => 'g',
                    None => 'n',
                },
                _ => '-',
            }));
            vc.push(c.unwrap_or('P'));
        }
    }
    (hv, vc)
}

fn perm_str(out: &[String]) -> String {
    out.iter().map(|s| s[1..].to_string()).collect::<Vec<_>>().join(",")
}

fn exec_matrix(rows: &[Row], dirs: Vec<bool>, with_probes: bool) -> String {
    let n = rows.len();
    let ds = build(rows, true);
    let mut obs = Obs { ds: &ds, rows, dirs: dirs.clone(), mode: KeyMode::Var, fails: vec![] };
    let mut m = vec![vec!['?'; n]; n];
    for i in 0..n {
        for j in 0..n {
            m[i][j] = if i == j { obs.pair(("s", i), ("t", i)) } else { obs.pair(("s", i), ("s", j)) };
        }
    }
    let mut fails = std::mem::take(&mut obs.fails);
    fails.sort();
    fails.dedup();
    let consistent = matrix_laws(&m, &mut fails);
    let ms: String = m.iter().flat_map(|r| r.iter()).collect();
    let mut out = format!("n={} m={}", n, ms);
    // kind order on the first key: unbound < blank node < IRI < literal (what was observed where the ranks differ)
    let rank = |r: &Row| match &r[0] {
        None => 0,
        Some(T::Bnode(_)) => 1,
        Some(T::Iri(_)) => 2,
        Some(T::Lit(..)) | Some(T::Lang(..)) => 3,
        _ => 9,
    };
    let mut ko = String::new();
    for i in 0..n {
        for j in 0..n {
            let (a, b) = (rank(&rows[i]), rank(&rows[j]));
            ko.push(if a < b && b != 9 { m[i][j] } else { '.' });
        }
    }
    out += &format!(" ko={}", ko);
    if with_probes {
        let ts: Vec<T> = rows.iter().map(|r| r[0].clone().unwrap()).collect();
        let (hv, vc) = probes(&ts);
        // where SPARQL's `<` / `>` holds between the two values, the outcome ORDER BY used (the property does not say how
        // values that are `=` are arranged: those cells are compared with the model only, through `m=`)
        let mv: String = vc.chars().zip(ms.chars()).map(|(v, o)| if matches!(v, 'l' | 'g') { o } else { '.' }).collect();
        out += &format!(" hv={} vc={} mv={}", hv, vc, mv);
    }
    // full sorts of all rows, every input order (n = 3) or the two extreme ones
    if n >= 3 && n <= 3 {
        let perms: Vec<Vec<usize>> = vec![vec![0, 1, 2], vec![0, 2, 1], vec![1, 0, 2], vec![1, 2, 0], vec![2, 0, 1], vec![2, 1, 0]];
        let flipped: Vec<bool> = dirs.iter().map(|d| !d).collect();
        for (pi, p) in perms.iter().enumerate() {
            let br: Vec<String> = p.iter().map(|&i| branch(&format!("s{}", i), &rows[i])).collect();
            for (which, d) in [("asc", &dirs), ("desc", &flipped)] {
                match run(&ds, &br, dirs.len(), &order_clause(d)) {
                    Ok(o) => {
                        let idx: Vec<usize> = o.iter().filter_map(|s| s[1..].parse().ok()).collect();
                        let mut sorted = idx.clone();
                        sorted.sort();
                        if sorted != [0, 1, 2] || o.iter().any(|s| !s.starts_with('s')) {
                            fails.push(format!("FAIL.perm={}", hex(&format!("{:?}", o))));
                            continue;
                        }
                        if pi == 0 {
                            out += &format!(" {}={}", which, perm_str(&o));
                        }
                        if consistent {
                            for a in 0..3 {
                                for b in (a + 1)..3 {
                                    let c = m[idx[a]][idx[b]];
                                    let bad = if which == "asc" { c == 'g' } else { c == 'l' };
                                    if bad {
                                        fails.push(format!("FAIL.unsorted={}:in{:?}out{:?}", which, p, idx).replace(' ', ""));
                                    }
                                }
                            }
                        }
                    }
                    Err(e) => fails.push(format!("FAIL.{}={}", if e.starts_with("panic") { "panic" } else { "error" }, hex(&e))),
                }
            }
        }
    }
    fails.sort();
    fails.dedup();
    for f in fails {
        out.push(' ');
        out.push_str(&f);
    }
    out
}

fn exec_sort(desc: bool, ts: &[T]) -> String {
    let n = ts.len();
    let rows: Vec<Row> = ts.iter().map(|t| vec![Some(t.clone())]).collect();
    let ds = build(&rows, false);
    let q0 = "SELECT ?r ?k0 WHERE { ?s <x:q> ?r . ?s <x:p0> ?k0 }";
    let q = format!("{} ORDER BY {}(?k0)", q0, if desc { "DESC" } else { "ASC" });
    let mut fails: Vec<String> = vec![];
    let mut out = format!("n={}", n);
    let unordered = run_query(&ds, q0);
    match run_query(&ds, &q) {
        Err(e) => {
            let total = e.contains("total order");
            fails.push(format!("FAIL.{}={}", if e.starts_with("panic") { if total { "panic_total_order" } else { "panic" } } else { "error" }, hex(&e)));
        }
        Ok(o) => {
            let mut a = o.clone();
            a.sort();
            let mut b = unordered.clone().unwrap_or_default();
            b.sort();
            if a != b || o.len() != n {
                fails.push(format!("FAIL.perm={}", o.len()));
            } else {
                out += " perm=1";
                // adjacent rows must not be strictly out of order (observed by two-row sorts)
                let mut obs = Obs { ds: &ds, rows: &rows, dirs: vec![desc], mode: KeyMode::Var, fails: vec![] };
                let mut bad = vec![];
                for w in o.windows(2) {
                    let (i, j): (usize, usize) = (w[0][1..].parse().unwrap(), w[1][1..].parse().unwrap());
                    // cmp(second, first) must not be Less
                    if obs.pair(("s", j), ("s", i)) == 'l' {
                        bad.push(format!("{},{}", i, j));
                    }
                }
                if !bad.is_empty() {
                    fails.push(format!("FAIL.unsorted={}:{}", bad.len(), bad[0]));
                }
                // a deterministic sample of non-adjacent output pairs (full sortedness needs transitivity)
                let idx: Vec<usize> = o.iter().map(|s| s[1..].parse().unwrap()).collect();
                let mut far = vec![];
                let mut st: u64 = 0x9E3779B97F4A7C15 ^ (n as u64);
                for _ in 0..(2 * n).min(150) {
                    st = st.wrapping_mul(6364136223846793005).wrapping_add(1442695040888963407);
                    let a = (st >> 33) as usize % n;
                    st = st.wrapping_mul(6364136223846793005).wrapping_add(1442695040888963407);
                    let b = (st >> 33) as usize % n;
                    let (a, b) = (a.min(b), a.max(b));
                    if b - a < 2 {
                        continue;
                    }
                    if obs.pair(("s", idx[b]), ("s", idx[a])) == 'l' {
                        far.push(format!("{},{}", idx[a], idx[b]));
                    }
                }
                if !far.is_empty() {
                    fails.push(format!("FAIL.misordered={}:{}", far.len(), far[0]));
                }
                fails.append(&mut obs.fails);
            }
        }
    }
    fails.sort();
    fails.dedup();
    for f in fails {
        out.push(' ');
        out.push_str(&f);
    }
    out
}

/// X requests: one key that is NOT a plain variable.  The outcome matrix is observed as for T requests; the oracle
/// (`o.xv` of the model) is the order SPARQL's `<` gives the key values: rows whose key expression is an error are
/// unbound (first, all equal), numbers by value (NaN cells masked: unspecified), STR(..) by code-point order.
fn exec_x(mode: KeyMode, ts: &[T]) -> String {
    let n = ts.len();
    let rows: Vec<Row> = ts.iter().map(|t| vec![Some(t.clone())]).collect();
    let ds = build(&rows, true);
    let mut obs = Obs { ds: &ds, rows: &rows, dirs: vec![false], mode, fails: vec![] };
    let mut m = vec![vec!['?'; n]; n];
    for i in 0..n {
        for j in 0..n {
            m[i][j] = if i == j { obs.pair(("s", i), ("t", i)) } else { obs.pair(("s", i), ("s", j)) };
        }
    }
    let mut fails = std::mem::take(&mut obs.fails);
    matrix_laws_sel(&m, &mut fails, false);
    let rts: Vec<ResultTerm> = ts.iter().map(|t| ResultTerm::from(ArcTerm::from_term(to_simple(t)))).collect();
    let numeric: Vec<bool> = rts
        .iter()
        .map(|r| catch(std::panic::AssertUnwindSafe(|| r.value().map(|v| format!("{:?}", v).starts_with("Number(")).unwrap_or(false))).unwrap_or(false))
        .collect();
    let mut xv = String::new();
    for i in 0..n {
        for j in 0..n {
            let unspecified = mode != KeyMode::Str
                && numeric[i]
                && numeric[j]
                && catch(std::panic::AssertUnwindSafe(|| match (rts[i].value(), rts[j].value()) {
                    (Some(x), Some(y)) => x.partial_cmp(y).is_none(),
                    _ => false,
                }))
                .unwrap_or(false);
            xv.push(if unspecified { '.' } else { m[i][j] });
        }
    }
    let ms: String = m.iter().flat_map(|r| r.iter()).collect();
    let mut out = format!("n={} xm={} xv={}", n, ms, xv);
    fails.sort();
    fails.dedup();
    for f in fails {
        out.push(' ');
        out.push_str(&f);
    }
    out
}

/// Q requests: 2..20 rows (any values, also ones on which the comparator is inconsistent) sorted together in the given
/// input order, with the given flags and with all flags flipped.  The exact output order is compared with the model's
/// `stdSmallSort` (std's insertion sort for <= 20 elements driven by `cmpBindingsWith`); a permutation in any case.
fn exec_small(dirs: Vec<bool>, rows: &[Row]) -> String {
    let n = rows.len();
    let ds = build(rows, false);
    let br: Vec<String> = (0..n).map(|i| branch(&format!("s{}", i), &rows[i])).collect();
    let flipped: Vec<bool> = dirs.iter().map(|d| !d).collect();
    let mut out = format!("n={}", n);
    let mut fails: Vec<String> = vec![];
    for (name, d) in [("out", &dirs), ("outd", &flipped)] {
        match run(&ds, &br, dirs.len(), &order_clause(d)) {
            Err(e) => fails.push(format!("FAIL.{}={}", if e.starts_with("panic") { "panic" } else { "error" }, hex(&e))),
            Ok(o) => {
                let idx: Option<Vec<usize>> = o.iter().map(|s| s.strip_prefix('s').and_then(|x| x.parse().ok())).collect();
                let idx = idx.unwrap_or_default();
                let mut sorted = idx.clone();
                sorted.sort();
                if sorted != (0..n).collect::<Vec<_>>() {
                    fails.push(format!("FAIL.perm={}", hex(&format!("{:?}", o))));
                } else {
                    out += &format!(" {}={}", name, idx.iter().map(|i| i.to_string()).collect::<Vec<_>>().join(","));
                }
            }
        }
    }
    fails.sort();
    fails.dedup();
    for f in fails {
        out.push(' ');
        out.push_str(&f);
    }
    out
}

/// M requests: one sort of many rows with several keys, unbound cells, ASC/DESC and optionally LIMIT/OFFSET.  Every key
/// column is drawn from ONE comparison class (the generator's clean pools), where the comparator is proved to be a total
/// preorder (`sorted_perm`): the output must be a permutation, sorted (adjacent and sampled pairs, observed by two-row
/// sorts), reproducible, and a slice of it must agree with the full result up to ties.
fn exec_multi(dirs: Vec<bool>, rows: &[Row], slice: Option<(usize, usize)>) -> String {
    let n = rows.len();
    let ds = build(rows, false);
    let br: Vec<String> = (0..n).map(|i| branch(&format!("s{}", i), &rows[i])).collect();
    let oc = order_clause(&dirs);
    let mut fails: Vec<String> = vec![];
    let mut out = format!("n={}", n);
    let parse_idx = |o: &[String]| -> Option<Vec<usize>> { o.iter().map(|s| s.strip_prefix('s').and_then(|x| x.parse().ok())).collect() };
    match run(&ds, &br, dirs.len(), &oc) {
        Err(e) => fails.push(format!("FAIL.{}={}", if e.starts_with("panic") { "panic" } else { "error" }, hex(&e))),
        Ok(o) => {
            let idx = parse_idx(&o).unwrap_or_default();
            let mut sorted = idx.clone();
            sorted.sort();
            if sorted != (0..n).collect::<Vec<_>>() {
                fails.push(format!("FAIL.perm={}", o.len()));
            } else {
                out += " perm=1";
                if run(&ds, &br, dirs.len(), &oc).ok().as_ref() != Some(&o) {
                    fails.push("FAIL.unstable=1".into());
                }
                let mut obs = Obs { ds: &ds, rows, dirs: dirs.clone(), mode: KeyMode::Var, fails: vec![] };
                let mut bad = vec![];
                for w in idx.windows(2) {
                    // cmp(second, first) must not be Less
                    if obs.pair(("s", w[1]), ("s", w[0])) == 'l' {
                        bad.push(format!("{},{}", w[0], w[1]));
                    }
                }
                if !bad.is_empty() {
                    fails.push(format!("FAIL.unsorted={}:{}", bad.len(), bad[0]));
                }
                let mut far = vec![];
                let mut st: u64 = 0x9E3779B97F4A7C15 ^ (n as u64);
                for _ in 0..n.min(60) {
                    st = st.wrapping_mul(6364136223846793005).wrapping_add(1442695040888963407);
                    let a = (st >> 33) as usize % n;
                    st = st.wrapping_mul(6364136223846793005).wrapping_add(1442695040888963407);
                    let b = (st >> 33) as usize % n;
                    let (a, b) = (a.min(b), a.max(b));
                    if b - a < 2 {
                        continue;
                    }
                    if obs.pair(("s", idx[b]), ("s", idx[a])) == 'l' {
                        far.push(format!("{},{}", idx[a], idx[b]));
                    }
                }
                if !far.is_empty() {
                    fails.push(format!("FAIL.misordered={}:{}", far.len(), far[0]));
                }
                if let Some((limit, offset)) = slice {
                    match run(&ds, &br, dirs.len(), &format!("{} LIMIT {} OFFSET {}", oc, limit, offset)) {
                        Err(e) => fails.push(format!("FAIL.{}={}", if e.starts_with("panic") { "panic" } else { "error" }, hex(&e))),
                        Ok(l) => {
                            let want = limit.min(n.saturating_sub(offset));
                            match parse_idx(&l) {
                                Some(li) if li.len() == want => {
                                    for (p, &r) in li.iter().enumerate() {
                                        let full = idx[offset + p];
                                        // the same row, or one that ties with it (a slice may break ties differently)
                                        if r != full && (r >= n || obs.pair(("s", r), ("s", full)) != 'e') {
                                            fails.push(format!("FAIL.slice=pos{}:{}vs{}", p, r, full));
                                            break;
                                        }
                                    }
                                    out += " slice=1";
                                }
                                _ => fails.push(format!("FAIL.slice=len{}want{}", l.len(), want)),
                            }
                        }
                    }
                }
                fails.append(&mut obs.fails);
            }
        }
    }
    fails.sort();
    fails.dedup();
    for f in fails {
        out.push(' ');
        out.push_str(&f);
    }
    out
}

pub fn exec(line: &str) -> String {
    let mut toks = line.split_whitespace().peekable();
    match toks.next() {
        Some("T") => {
            let Some(n) = toks.next().and_then(|s| s.parse::<usize>().ok()) else { return "bad-op".into() };
            let Some(cells) = parse_cells(&mut toks, n) else { return "bad-hex".into() };
            if cells.iter().any(|c| c.is_none()) || n < 2 {
                return "bad-op".into();
            }
            let rows: Vec<Row> = cells.into_iter().map(|c| vec![c]).collect();
            exec_matrix(&rows, vec![false], true)
        }
        Some("K") => {
            let Some(dirs) = toks.next() else { return "bad-op".into() };
            let (Some(nr), Some(nk)) = (toks.next().and_then(|s| s.parse::<usize>().ok()), toks.next().and_then(|s| s.parse::<usize>().ok())) else {
                return "bad-op".into();
            };
            if dirs.len() != nk || nk == 0 || nr < 2 || !dirs.chars().all(|c| c == 'A' || c == 'D') {
                return "bad-op".into();
            }
            let mut rows = vec![];
            for _ in 0..nr {
                let Some(r) = parse_cells(&mut toks, nk) else { return "bad-hex".into() };
                rows.push(r);
            }
            exec_matrix(&rows, dirs.chars().map(|c| c == 'D').collect(), false)
        }
        Some("X") => {
            let mode = match toks.next() {
                Some("P") => KeyMode::Plus0,
                Some("B") => KeyMode::BindMul1,
                Some("S") => KeyMode::Str,
                _ => return "bad-op".into(),
            };
            let Some(n) = toks.next().and_then(|s| s.parse::<usize>().ok()) else { return "bad-op".into() };
            let Some(cells) = parse_cells(&mut toks, n) else { return "bad-hex".into() };
            let ts: Vec<T> = cells.into_iter().flatten().collect();
            if ts.len() != n || n < 2 {
                return "bad-op".into();
            }
            exec_x(mode, &ts)
        }
        Some("Q") => {
            let Some(dirs) = toks.next() else { return "bad-op".into() };
            let (Some(nr), Some(nk)) = (toks.next().and_then(|s| s.parse::<usize>().ok()), toks.next().and_then(|s| s.parse::<usize>().ok())) else {
                return "bad-op".into();
            };
            if dirs.len() != nk || nk == 0 || nr < 2 || nr > 20 || !dirs.chars().all(|c| c == 'A' || c == 'D') {
                return "bad-op".into();
            }
            let mut rows = vec![];
            for _ in 0..nr {
                let Some(r) = parse_cells(&mut toks, nk) else { return "bad-hex".into() };
                rows.push(r);
            }
            exec_small(dirs.chars().map(|c| c == 'D').collect(), &rows)
        }
        Some("M") => {
            let Some(dirs) = toks.next() else { return "bad-op".into() };
            let (Some(nr), Some(nk)) = (toks.next().and_then(|s| s.parse::<usize>().ok()), toks.next().and_then(|s| s.parse::<usize>().ok())) else {
                return "bad-op".into();
            };
            let (Some(lim), Some(off)) = (toks.next(), toks.next().and_then(|s| s.parse::<usize>().ok())) else { return "bad-op".into() };
            let slice = if lim == "-" { None } else { match lim.parse::<usize>() { Ok(l) => Some((l, off)), Err(_) => return "bad-op".into() } };
            if dirs.len() != nk || nk == 0 || nr < 2 || !dirs.chars().all(|c| c == 'A' || c == 'D') {
                return "bad-op".into();
            }
            let mut rows = vec![];
            for _ in 0..nr {
                let Some(r) = parse_cells(&mut toks, nk) else { return "bad-hex".into() };
                rows.push(r);
            }
            exec_multi(dirs.chars().map(|c| c == 'D').collect(), &rows, slice)
        }
        Some("S") => {
            let desc = match toks.next() {
                Some("A") => false,
                Some("D") => true,
                _ => return "bad-op".into(),
            };
            let Some(n) = toks.next().and_then(|s| s.parse::<usize>().ok()) else { return "bad-op".into() };
            let Some(cells) = parse_cells(&mut toks, n) else { return "bad-hex".into() };
            let ts: Vec<T> = cells.into_iter().flatten().collect();
            if ts.len() != n {
                return "bad-op".into();
            }
            exec_sort(desc, &ts)
        }
        _ => "bad-op".into(),
    }
}

fn main() {
    vhcore::main_loop(generate, exec);
}
