//! C09 — IRI validation vs RFC 3987; accepted values usable as base; resolution.
//!
//! requests:
//!   m <hex>            membership / classification / as_base of one string
//!   r <hexbase> <hexref>   resolution of an accepted reference against an accepted base
use vhcore::rxgen;
use vhcore::util::*;
use vhcore::GenCtx;
use sophia_iri::{Iri, IriRef};

const PUNCT: &[char] = &[
    ':', '/', '?', '#', '[', ']', '@', '%', '.', '-', '0', '9', 'a', 'f', 'g', 'z', 'A', 'F', 'G', '1', '2', '5',
    '6', ' ', '\n', '<', '>', '"', '{', '}', '|', '\\', '^', '`', 'é', '\u{E000}', '\u{10FFFD}', '!', '$', '&', '\'', '(',
    ')', '*', '+', ',', ';', '=', '~', '_', 'v',
];

pub fn generate(ctx: &mut GenCtx) {
    let abs = rxgen::parse(sophia_iri::IRI_REGEX_SRC);
    let rel = rxgen::parse(sophia_iri::IRELATIVE_REF_REGEX_SRC);
    let mut alphabet: Vec<char> = PUNCT.to_vec();
    rxgen::boundaries(&abs, &mut alphabet);
    alphabet.sort();
    alphabet.dedup();
    let n = if ctx.thorough { 40000 } else { 4000 };
    let mut pool_abs: Vec<String> = vec![];
    let mut pool_ref: Vec<String> = vec![];
    // corpus first: shapes the shipped table lacks
    for s in [
        "http://[1:2::3:4:5:6:7]/", "http://[1::2::3:4:5:6:7]/", "http://a:80junk", "A://:!", "//:!",
        "http://[::1]", "http://[v7.a:b]/", "http://[1:2:3:4:5:6:1.2.3.4]", "http://[::ffff:256.1.1.1]/",
        "http://a@b:1/c?d#e", "a:", "a:/", "a://", "a:b", "a:/b//c", "", "#", "?", "/", "//", "///", ".",
        "..", "a/b:c", "a:b/c", "./a:b", "%41", "%4", "%zz", "http://ex.org/%E9", "http://é.org/é?é#é",
        "http://a/\u{E000}", "http://a/?\u{E000}", "http://a/#\u{E000}", "http://a/\u{FFFE}", "x:\u{D7FF}",
    ] {
        ctx.emit(&format!("m {}", hex(s)));
        ctx.stats.bump("corpus");
    }
    for i in 0..n {
        let (h, which) = if i % 2 == 0 { (&abs, "abs") } else { (&rel, "rel") };
        let mut s = String::new();
        rxgen::sample(h, &mut ctx.rng, &mut s, 3);
        ctx.stats.bump(&format!("member.{}", which));
        if s.contains('[') {
            ctx.stats.bump("member.ip_literal");
        }
        if s.contains('%') {
            ctx.stats.bump("member.pct");
        }
        if !s.is_ascii() {
            ctx.stats.bump("member.non_ascii");
        }
        ctx.emit(&format!("m {}", hex(&s)));
        if i < 3 {
            ctx.stats.sample(format!("m {:?}", s));
        }
        if which == "abs" && pool_abs.len() < 400 {
            pool_abs.push(s.clone());
        }
        if pool_ref.len() < 400 {
            pool_ref.push(s.clone());
        }
        // single-edit mutants
        for _ in 0..2 {
            let m = rxgen::mutate(&s, &mut ctx.rng, &alphabet);
            ctx.stats.bump("mutant");
            ctx.emit(&format!("m {}", hex(&m)));
        }
    }
    // resolution pairs
    let rel_corpus = [
        "g:h", "g", "./g", "g/", "/g", "//g", "?y", "g?y", "#s", "g#s", "g?y#s", ";x", "g;x", "g;x?y#s", "", ".", "./",
        "..", "../", "../g", "../..", "../../", "../../g", "../../../g", "../../../../g", "/./g", "/../g", "g.",
        ".g", "g..", "..g", "./../g", "./g/.", "g/./h", "g/../h", "g;x=1/./y", "g;x=1/../y", "g?y/./x", "g?y/../x",
        "g#s/./x", "g#s/../x", "http:g", "a/b/../../../c", "a//b", ".//g", "a/./", "a/../", "%2e%2e/g", "x:y",
    ];
    let base_corpus = [
        "http://a/b/c/d;p?q", "http://a", "http://a/", "x:", "x:a", "x:a/b", "x:/a", "x://", "x:///a", "http://a/b/c/d;p?q#f",
        "http://a/b/../c", "http://a/.", "http://a/b/", "x:a/b/c", "http://[::1]/a/b", "http://a?q", "x:?q", "x:#f",
    ];
    for b in base_corpus {
        for r in rel_corpus {
            ctx.emit(&format!("r {} {}", hex(b), hex(r)));
            ctx.stats.bump("resolve.corpus");
        }
    }
    let npairs = if ctx.thorough { 20000 } else { 2000 };
    for _ in 0..npairs {
        if pool_abs.is_empty() || pool_ref.is_empty() {
            break;
        }
        let b = ctx.rng.pick(&pool_abs).clone();
        let r = if ctx.rng.chance(1, 2) {
            ctx.rng.pick(&pool_ref).clone()
        } else {
            // dotted relative paths
            let segs = ["..", ".", "a", "", "b:c", "é", "%2e"];
            let mut s = String::new();
            if ctx.rng.chance(1, 4) {
                s.push('/');
            }
            for k in 0..ctx.rng.range(0, 4) {
                if k > 0 {
                    s.push('/');
                }
                let sg: &str = *ctx.rng.pick(&segs[..]); s.push_str(sg);
            }
            if s.split('/').next().map(|x| x.contains(':')).unwrap_or(false) {
                s = format!("./{}", s);
            }
            if ctx.rng.chance(1, 4) {
                s.push_str("?q");
            }
            if ctx.rng.chance(1, 4) {
                s.push_str("#f");
            }
            s
        };
        ctx.stats.bump("resolve.random");
        ctx.emit(&format!("r {} {}", hex(&b), hex(&r)));
    }
}

fn b(x: bool) -> &'static str {
    if x { "1" } else { "0" }
}

pub fn exec(line: &str) -> String {
    let f: Vec<&str> = line.split_whitespace().collect();
    match f.as_slice() {
        ["m", h] => {
            let Some(s) = unhex(h) else { return "bad-hex".into() };
            let abs = sophia_iri::is_absolute_iri_ref(&s);
            let rel = sophia_iri::is_relative_iri_ref(&s);
            let rf = sophia_iri::is_valid_iri_ref(&s);
            let new_abs = Iri::new(s.as_str()).is_ok();
            let new_ref = IriRef::new(s.as_str()).is_ok();
            let mut out = format!("abs={} rel={} ref={} new_abs={} new_ref={}", b(abs), b(rel), b(rf), b(new_abs), b(new_ref));
            // every accepted value must be usable as a base without panicking
            if new_abs {
                let r = catch(|| {
                    let i = Iri::new(s.as_str()).unwrap();
                    let base = i.as_base();
                    base.to_string() == s
                });
                out += &format!(" base={}", match r { Ok(true) => "ok", Ok(false) => "changed", Err(_) => "panic" });
            }
            if new_ref {
                let r = catch(|| {
                    let i = IriRef::new(s.as_str()).unwrap();
                    let base = i.as_base();
                    base.to_string() == s
                });
                out += &format!(" refbase={}", match r { Ok(true) => "ok", Ok(false) => "changed", Err(_) => "panic" });
            }
            out
        }
        ["r", hb, hr] => {
            let (Some(bs), Some(rs)) = (unhex(hb), unhex(hr)) else { return "bad-hex".into() };
            let (Ok(base), Ok(rf)) = (Iri::new(bs.as_str()), IriRef::new(rs.as_str())) else {
                return "skip=1".into();
            };
            let r = catch(|| base.resolve(rf).to_string());
            match r {
                Ok(s) => {
                    let valid = sophia_iri::is_absolute_iri_ref(&s);
                    // the two other resolution paths must agree
                    let r2 = catch(|| base.as_base().resolve(rf).to_string());
                    let r3 = catch(|| {
                        let mut buf = String::new();
                        base.as_base().resolve_into(rf, &mut buf).to_string()
                    });
                    let same = r2.as_deref() == Ok(s.as_str()) && r3.as_deref() == Ok(s.as_str());
                    format!("res={} valid={} paths_agree={}", hex(&s), b(valid), b(same))
                }
                Err(_) => "res=panic".into(),
            }
        }
        _ => "bad-op".into(),
    }
}

fn main() {
    vhcore::main_loop(generate, exec);
}
