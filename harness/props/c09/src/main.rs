//! C09 — IRI validation vs RFC 3987; accepted values usable as base; resolution; namespaces.
//!
//! requests:
//!   m  <hex>               membership / classification / typed constructors / as_base,to_base of one string
//!   ml <kind> <n>          the same for a long string both sides build from (kind, n)
//!   r  <hexbase> <hexref>  resolution of an accepted reference against an accepted ABSOLUTE base, all entry points
//!   rl <kind> <n>          the same for a long pair
//!   rr <hexbase> <hexref>  resolution against ANY accepted reference as base (IriRef::resolve, BaseIriRef)
//!   ns <hexns> <hexsfx>    Namespace::new / get, is_valid_suffixed_iri_ref
use sophia_api::ns::Namespace;
use sophia_api::term::Term;
use sophia_iri::resolve::{BaseIri, BaseIriRef};
use sophia_iri::{Iri, IriRef};
use vhcore::rxgen;
use vhcore::util::*;
use vhcore::GenCtx;

const PUNCT: &[char] = &[
    ':', '/', '?', '#', '[', ']', '@', '%', '.', '-', '0', '9', 'a', 'f', 'g', 'z', 'A', 'F', 'G', '1', '2', '5',
    '6', ' ', '\n', '<', '>', '"', '{', '}', '|', '\\', '^', '`', 'é', '\u{E000}', '\u{10FFFD}', '!', '$', '&', '\'', '(',
    ')', '*', '+', ',', ';', '=', '~', '_', 'v', 'V', '\t', '\u{0}', '\u{7F}', '\u{A0}', '\u{9F}', '\u{FFFE}', '\u{FFFD}',
];

fn rep(n: usize, s: &str) -> String {
    s.repeat(n)
}

/// long inputs are described, not transmitted (Driver/C09.lean `longStr` builds the same string)
fn long_str(kind: usize, n: usize) -> Option<String> {
    Some(match kind {
        0 => format!("http://a/{}", rep(n, "ab/")),
        1 => format!("http://a/?{}", rep(n, "q=1&")),
        2 => format!("x:{}", rep(n, "%4a")),
        3 => format!("http://{}/", rep(n, "a")),
        4 => format!("{}g", rep(n, "../")),
        5 => format!("http://a/{}", rep(n, "é")),
        6 => format!("http://a/{} ", rep(n, "a")),
        7 => format!("http://[{}]/", rep(n, "1:")),
        8 => format!("//u@h:1/{}#{}", rep(n, "a/"), rep(n, "f")),
        9 => format!("{}:b", rep(n, "a")),
        10 => format!("http://a/{}%4", rep(n, "b/")),
        11 => format!("?{}", rep(n, "\u{E000}")),
        _ => return None,
    })
}
const LONG_KINDS: usize = 12;

fn long_pair(kind: usize, n: usize) -> Option<(String, String)> {
    Some(match kind {
        0 => (format!("http://a/{}c", rep(n, "b/")), format!("{}g", rep(n / 2, "../"))),
        1 => ("http://a/b".to_string(), format!("{}{}g", rep(n, "x/"), rep(n, "../"))),
        2 => (format!("x:/{}", rep(n, "b/")), format!("{}g?{}", rep(n, "./"), rep(n, "q"))),
        3 => (format!("http://a/{}", rep(n, "b")), format!("{}#{}", rep(n, "c"), rep(n, "f"))),
        _ => return None,
    })
}
const LONG_PAIR_KINDS: usize = 4;

/// shape counters for one generated member (evidence that every production is hit)
fn member_stats(ctx: &mut GenCtx, which: &str, s: &str) {
    ctx.stats.bump(&format!("member.{}", which));
    if s.contains('%') {
        ctx.stats.bump("member.pct");
    }
    if !s.is_ascii() {
        ctx.stats.bump("member.non_ascii");
    }
    let n = s.chars().count();
    ctx.stats.bump(match n {
        0..=15 => "member.len.0-15",
        16..=63 => "member.len.16-63",
        64..=255 => "member.len.64-255",
        _ => "member.len.256+",
    });
    // authority
    let after = if which == "abs" { s.split_once(':').map(|x| x.1).unwrap_or("") } else { s };
    if let Some(rest) = after.strip_prefix("//") {
        ctx.stats.bump("member.authority");
        let auth = rest.split(['/', '?', '#']).next().unwrap_or("");
        if auth.contains('@') {
            ctx.stats.bump("member.userinfo");
        }
        let host = auth.rsplit('@').next().unwrap_or("");
        if let Some(lit) = host.strip_prefix('[') {
            let ip = lit.split(']').next().unwrap_or("");
            if ip.starts_with('v') || ip.starts_with('V') {
                ctx.stats.bump("member.ipvfuture");
            } else {
                match ip.find("::") {
                    Some(i) => {
                        let pre = if i == 0 { 0 } else { ip[..i].split(':').count() };
                        ctx.stats.bump(&format!("member.ipv6.groups_before_dc.{}", pre));
                    }
                    None => ctx.stats.bump("member.ipv6.full"),
                }
                if ip.contains('.') {
                    ctx.stats.bump("member.ipv6.v4tail");
                }
            }
            if lit.contains("]:") {
                ctx.stats.bump("member.port");
            }
        } else {
            if host.contains(':') {
                ctx.stats.bump("member.port");
            }
            let h = host.split(':').next().unwrap_or("");
            if !h.is_empty() && h.split('.').count() == 4 && h.chars().all(|c| c.is_ascii_digit() || c == '.') {
                ctx.stats.bump("member.ipv4_host");
            }
            if h.is_empty() {
                ctx.stats.bump("member.empty_host");
            }
        }
    } else {
        ctx.stats.bump("member.no_authority");
    }
    let hier = after.split(['?', '#']).next().unwrap_or("");
    let path = match hier.strip_prefix("//") {
        Some(rest) => rest.find('/').map(|i| &rest[i..]).unwrap_or(""),
        None => hier,
    };
    if path.contains("//") {
        ctx.stats.bump("member.empty_segment");
    }
    if path.is_empty() {
        ctx.stats.bump("member.empty_path");
    }
    if s.contains('?') {
        ctx.stats.bump("member.query");
    }
    if s.contains('#') {
        ctx.stats.bump("member.fragment");
    }
}

fn has_dot_segment(p: &str) -> bool {
    p.split(['?', '#']).next().unwrap_or("").split('/').any(|s| s == "." || s == "..")
}

fn scheme_of(s: &str) -> Option<&str> {
    let i = s.find([':', '/', '?', '#'])?;
    if i > 0 && s.as_bytes()[i] == b':' { Some(&s[..i]) } else { None }
}

/// syntactic shape counters of a (base, reference) pair: which branch of RFC 3986 5.2.2 it exercises
fn pair_stats(ctx: &mut GenCtx, tag: &str, b: &str, r: &str) {
    let kind = if r.is_empty() {
        "empty"
    } else if scheme_of(r).is_some() {
        "has_scheme"
    } else if r.starts_with("//") {
        "net_path"
    } else if r.starts_with('/') {
        "abs_path"
    } else if r.starts_with('?') {
        "query_only"
    } else if r.starts_with('#') {
        "fragment_only"
    } else {
        "rel_path"
    };
    ctx.stats.bump(&format!("{}.ref.{}", tag, kind));
    if has_dot_segment(r) {
        ctx.stats.bump(&format!("{}.ref.dot_segments", tag));
    }
    let after = match scheme_of(b) {
        Some(s) => &b[s.len() + 1..],
        None => b,
    };
    if scheme_of(b).is_none() {
        ctx.stats.bump(&format!("{}.base.relative", tag));
    }
    if after.starts_with("//") {
        ctx.stats.bump(&format!("{}.base.authority", tag));
        let rest = &after[2..];
        let path = rest.find(['/', '?', '#']).map(|i| &rest[i..]).unwrap_or("");
        if path.is_empty() || path.starts_with(['?', '#']) {
            ctx.stats.bump(&format!("{}.base.authority_empty_path", tag));
        }
    } else {
        ctx.stats.bump(&format!("{}.base.no_authority", tag));
    }
    if has_dot_segment(after) {
        ctx.stats.bump(&format!("{}.base.dot_segments", tag));
    }
    if b.contains('#') {
        ctx.stats.bump(&format!("{}.base.fragment", tag));
        if r.is_empty() {
            ctx.stats.bump(&format!("{}.empty_ref_on_fragment_base", tag));
        }
    }
    if b.contains('?') {
        ctx.stats.bump(&format!("{}.base.query", tag));
    }
}

fn dotted_ref(rng: &mut Rng) -> String {
    let segs = ["..", ".", "a", "", "b:c", "é", "%2e", "...", ".a", "a.", "..a"];
    let mut s = String::new();
    match rng.below(8) {
        0 | 1 => s.push('/'),
        2 => s.push_str("//h"),
        3 => s.push_str("x:"),
        4 => s.push_str("x://h/"),
        _ => {}
    }
    let lead = s.len();
    for k in 0..rng.range(0, 5) {
        if k > 0 || lead == 3 {
            s.push('/');
        }
        let sg: &str = *rng.pick(&segs[..]);
        s.push_str(sg);
    }
    if rng.chance(1, 4) {
        s.push('/');
    }
    if lead == 0 && s.split('/').next().map(|x| x.contains(':')).unwrap_or(false) {
        s = format!("./{}", s);
    }
    if rng.chance(1, 4) {
        s.push_str("?q/../r");
    }
    if rng.chance(1, 4) {
        s.push_str("#f/./g");
    }
    s
}

/// an absolute base whose own path has dot / empty segments (with and without authority)
fn dotted_base(rng: &mut Rng) -> String {
    let segs = ["..", ".", "a", "", "b", "é", "...", "c:d"];
    let mut s = String::from(*rng.pick(&["x:", "x:/", "x://h", "x://h/", "http://u@h:1/", "x:a", "x://"][..]));
    for k in 0..rng.range(0, 5) {
        if k > 0 || s.ends_with('h') || s.ends_with('a') {
            s.push('/');
        }
        let sg: &str = *rng.pick(&segs[..]);
        s.push_str(sg);
    }
    // keep it an IRI: an authority-less path must not begin with "//"
    if let Some(rest) = s.strip_prefix("x:") {
        if !rest.starts_with("//h") && rest != "//" && !rest.starts_with("///") && rest.starts_with("//") {
            s = format!("x:/.{}", &rest[1..]);
        }
    }
    if rng.chance(1, 4) {
        s.push_str("?q");
    }
    if rng.chance(1, 4) {
        s.push_str("#f");
    }
    s
}

fn hexgroup(rng: &mut Rng) -> String {
    let digits = b"0123456789abcdefABCDEF";
    let n = rng.range(1, 4);
    (0..n).map(|_| digits[rng.below(digits.len())] as char).collect()
}

/// every (groups before "::", groups after, with/without "::", IPv4 tail) combination, valid or not,
/// in an absolute IRI and in a network-path reference
fn ipv6_enumeration(ctx: &mut GenCtx) {
    let reps = if ctx.thorough { 4 } else { 1 };
    for _ in 0..reps {
        for pre in 0..=8usize {
            for post in 0..=8usize {
                for dc in [true, false] {
                    for v4 in [false, true] {
                        if !dc && pre + post == 0 {
                            continue;
                        }
                        let mut groups_pre: Vec<String> = (0..pre).map(|_| hexgroup(&mut ctx.rng)).collect();
                        let mut groups_post: Vec<String> = (0..post).map(|_| hexgroup(&mut ctx.rng)).collect();
                        if v4 {
                            let quad = "1.2.3.4".to_string();
                            if post > 0 {
                                *groups_post.last_mut().unwrap() = quad;
                            } else if !dc && pre > 0 {
                                *groups_pre.last_mut().unwrap() = quad;
                            } else {
                                groups_post.push(quad);
                            }
                        }
                        let ip = if dc {
                            format!("{}::{}", groups_pre.join(":"), groups_post.join(":"))
                        } else {
                            let mut all = groups_pre.clone();
                            all.extend(groups_post.clone());
                            all.join(":")
                        };
                        let forms = [
                            format!("http://[{}]/", ip),
                            format!("//[{}]", ip),
                            format!("s://u:p@[{}]:80/p?q#f", ip),
                            format!("//u@[{}]:/", ip),
                        ];
                        let f = &forms[ctx.rng.below(forms.len())];
                        ctx.emit(&format!("m {}", hex(f)));
                        ctx.emit(&format!("m {}", hex(&forms[if f.starts_with("//") { 0 } else { 1 }])));
                        ctx.stats.add("ipv6enum", 2);
                        ctx.stats.bump(if dc { "ipv6enum.with_dc" } else { "ipv6enum.no_dc" });
                    }
                }
            }
        }
    }
    // dec-octet boundaries in the IPv4 tail and in host position; IPvFuture shapes
    for o in ["0", "9", "10", "99", "100", "199", "200", "249", "250", "255", "256", "260", "300", "00", "01", "1000", ""] {
        for pos in 0..4 {
            let mut q = ["1", "2", "3", "4"];
            q[pos] = o;
            let quad = q.join(".");
            for f in [format!("http://[::{}]/", quad), format!("//[1:2:3:4:5:6:{}]", quad), format!("http://{}/", quad), format!("//{}:8", quad)] {
                ctx.emit(&format!("m {}", hex(&f)));
                ctx.stats.bump("dec_octet_enum");
            }
        }
    }
    for lit in ["v1.a", "V1.a", "vF.:", "v.a", "v1.", "v1a", "vg.a", "v1.a/b", "v1.é", "v1.%41", "v12AB.a:b!$&'()*+,;=-._~", "1.2.3.4", "", "::", ":::", "::1::", "1", "v"] {
        for f in [format!("http://[{}]/", lit), format!("//[{}]:1", lit), format!("x://[{}]", lit)] {
            ctx.emit(&format!("m {}", hex(&f)));
            ctx.stats.bump("ip_literal_enum");
        }
    }
}

pub fn generate(ctx: &mut GenCtx) {
    let abs = rxgen::parse(sophia_iri::IRI_REGEX_SRC);
    let rel = rxgen::parse(sophia_iri::IRELATIVE_REF_REGEX_SRC);
    let mut alphabet: Vec<char> = PUNCT.to_vec();
    rxgen::boundaries(&abs, &mut alphabet);
    rxgen::boundaries(&rel, &mut alphabet);
    alphabet.sort();
    alphabet.dedup();
    let n = if ctx.thorough { 60000 } else { 6000 };
    let mut pool_abs: Vec<String> = vec![];
    let mut pool_rel: Vec<String> = vec![];
    let mut pool_mut: Vec<String> = vec![];
    // corpus first: shapes the shipped table lacks
    for s in [
        "http://[1:2::3:4:5:6:7]/", "http://[1::2::3:4:5:6:7]/", "http://a:80junk", "A://:!", "//:!",
        "http://[::1]", "http://[v7.a:b]/", "http://[1:2:3:4:5:6:1.2.3.4]", "http://[::ffff:256.1.1.1]/",
        "http://a@b:1/c?d#e", "a:", "a:/", "a://", "a:b", "a:/b//c", "", "#", "?", "/", "//", "///", ".",
        "..", "a/b:c", "a:b/c", "./a:b", "%41", "%4", "%zz", "http://ex.org/%E9", "http://é.org/é?é#é",
        "http://a/\u{E000}", "http://a/?\u{E000}", "http://a/#\u{E000}", "http://a/\u{FFFE}", "x:\u{D7FF}",
        "http://[V7.a]/", "//[1:2:3:4:5::6:7:8]", "http://a/b#c#d", "http://a/b?c?d", "http://a b/", "http://a/\n",
        "\nhttp://a/", "1a:b", "+a:b", "a+-.1:b", "http://a:/", "http://a:65536999/", "http://@/", "http://:@:/",
        "http://a/%", "http://a/%4", "http://a/%4G", "http://a/%aF", ":a", "a::", "//a//", "//@", "//:", "http://[::1]a/",
        "http://[::1]:a/", "http://a]/", "http://[/", "http://a/[", "http://a/]", "?[", "#]", "http://a/?#?#",
    ] {
        ctx.emit(&format!("m {}", hex(s)));
        ctx.stats.bump("corpus");
    }
    ipv6_enumeration(ctx);
    for i in 0..n {
        let (h, which) = if i % 2 == 0 { (&abs, "abs") } else { (&rel, "rel") };
        let mut s = String::new();
        // repetition bound: mostly short, sometimes long tokens
        let star_max = match ctx.rng.below(16) {
            0 => 40,
            1 | 2 => 12,
            3 | 4 | 5 => 1,
            _ => 3,
        };
        rxgen::sample(h, &mut ctx.rng, &mut s, star_max);
        member_stats(ctx, which, &s);
        ctx.emit(&format!("m {}", hex(&s)));
        if i < 3 {
            ctx.stats.sample(format!("m {:?}", s));
        }
        if s.chars().count() <= 80 {
            if which == "abs" && pool_abs.len() < 600 {
                pool_abs.push(s.clone());
            }
            if which == "rel" && pool_rel.len() < 600 {
                pool_rel.push(s.clone());
            }
        }
        // single-edit mutants
        for _ in 0..2 {
            let m = rxgen::mutate(&s, &mut ctx.rng, &alphabet);
            ctx.stats.bump("mutant");
            ctx.emit(&format!("m {}", hex(&m)));
            if pool_mut.len() < 600 && m.chars().count() <= 80 {
                pool_mut.push(m);
            }
        }
    }
    // long tokens
    let sizes: &[usize] = if ctx.thorough { &[300, 5000, 50000] } else { &[300, 5000] };
    for k in 0..LONG_KINDS {
        for &sz in sizes {
            ctx.emit(&format!("ml {} {}", k, sz));
            ctx.stats.bump("long.member");
            ctx.stats.add("long.member.max_chars", 0);
            let len = long_str(k, sz).map(|s| s.chars().count() as u64).unwrap_or(0);
            let cur = ctx.stats.counters.get("long.member.max_chars").copied().unwrap_or(0);
            if len > cur {
                ctx.stats.counters.insert("long.member.max_chars".into(), len);
            }
        }
    }
    let psizes: &[usize] = if ctx.thorough { &[100, 2000, 10000] } else { &[100, 2000] };
    for k in 0..LONG_PAIR_KINDS {
        for &sz in psizes {
            ctx.emit(&format!("rl {} {}", k, sz));
            ctx.stats.bump("long.pair");
        }
    }
    // resolution pairs
    let rel_corpus = [
        "g:h", "g", "./g", "g/", "/g", "//g", "?y", "g?y", "#s", "g#s", "g?y#s", ";x", "g;x", "g;x?y#s", "", ".", "./",
        "..", "../", "../g", "../..", "../../", "../../g", "../../../g", "../../../../g", "/./g", "/../g", "g.",
        ".g", "g..", "..g", "./../g", "./g/.", "g/./h", "g/../h", "g;x=1/./y", "g;x=1/../y", "g?y/./x", "g?y/../x",
        "g#s/./x", "g#s/../x", "http:g", "a/b/../../../c", "a//b", ".//g", "a/./", "a/../", "%2e%2e/g", "x:y",
        "//h/a/../b?q#f", "x://h/a/./b?q", "//h", "//h?q", "//u@[::1]:8/p", "?", "#", "?#", "/", "//", "/.", "/..", "/a/b/../..",
        "...", ".../g", "a/...", "./.", "./..", "../.", "x:", "x:/", "x:/../a", "x:a/../b", "X:a",
    ];
    let base_corpus = [
        "http://a/b/c/d;p?q", "http://a", "http://a/", "x:", "x:a", "x:a/b", "x:/a", "x://", "x:///a", "http://a/b/c/d;p?q#f",
        "http://a/b/../c", "http://a/.", "http://a/b/", "x:a/b/c", "http://[::1]/a/b", "http://a?q", "x:?q", "x:#f",
        "http://example.org/doc#", "urn:x:y#z", "http://a/b?q#", "http://a/b#f?g/h", "x:/", "x:/a/b/", "http://u@h:80/a/b/c",
        "http://a/b/c/..", "http://a/b/c/.", "x:..", "x:.", "x:a/../b", "http://a//b//c", "x://h",
    ];
    for b in base_corpus {
        for r in rel_corpus {
            ctx.emit(&format!("r {} {}", hex(b), hex(r)));
            ctx.stats.bump("resolve.corpus");
            pair_stats(ctx, "resolve", b, r);
        }
    }
    let npairs = if ctx.thorough { 30000 } else { 3000 };
    for _ in 0..npairs {
        if pool_abs.is_empty() || pool_rel.is_empty() {
            break;
        }
        let b = if ctx.rng.chance(1, 4) {
            ctx.stats.bump("resolve.dotted_base");
            dotted_base(&mut ctx.rng)
        } else {
            ctx.rng.pick(&pool_abs).clone()
        };
        let r = match ctx.rng.below(10) {
            0 | 1 | 2 => ctx.rng.pick(&pool_rel).clone(),
            3 => ctx.rng.pick(&pool_abs).clone(),
            4 => {
                ctx.stats.bump("resolve.mutant_ref");
                ctx.rng.pick(&pool_mut).clone()
            }
            5 => String::new(),
            _ => dotted_ref(&mut ctx.rng),
        };
        ctx.stats.bump("resolve.random");
        pair_stats(ctx, "resolve", &b, &r);
        ctx.emit(&format!("r {} {}", hex(&b), hex(&r)));
    }
    // relative (and absolute) references as the base: IriRef::resolve / BaseIriRef
    let relbase_corpus = [
        "", "a", "a/b", "a/b/", "/a/b", "/", "//h", "//h/", "//h/a/b", "?q", "#f", "a?q#f", "../x", "./x", ".", "..", "a/../b",
        "./a:b", "//u@[::1]:8/p/q", "a//b", "//", "///a", "http://a/b/c/d;p?q",
    ];
    for b in relbase_corpus {
        for r in rel_corpus {
            ctx.emit(&format!("rr {} {}", hex(b), hex(r)));
            ctx.stats.bump("resolve_ref.corpus");
            pair_stats(ctx, "resolve_ref", b, r);
        }
    }
    let nrr = if ctx.thorough { 15000 } else { 1500 };
    for _ in 0..nrr {
        if pool_abs.is_empty() || pool_rel.is_empty() {
            break;
        }
        let b = if ctx.rng.chance(1, 5) { ctx.rng.pick(&pool_abs).clone() } else { ctx.rng.pick(&pool_rel).clone() };
        let r = match ctx.rng.below(6) {
            0 | 1 => ctx.rng.pick(&pool_rel).clone(),
            2 => ctx.rng.pick(&pool_abs).clone(),
            3 => ctx.rng.pick(&pool_mut).clone(),
            _ => dotted_ref(&mut ctx.rng),
        };
        ctx.stats.bump("resolve_ref.random");
        pair_stats(ctx, "resolve_ref", &b, &r);
        ctx.emit(&format!("rr {} {}", hex(&b), hex(&r)));
    }
    // namespaces
    let ns_corpus = ["http://ex.org/ns#", "http://ex.org/a/", "x:", "a", "", "#", "http://ex.org/ns#a", "http://[::1", "a b", "http://a/%4", "//h/"];
    let sfx_corpus = ["foo", "a/b", "", " ", "a b", "#x", "é", "%41", "%4", "1", ":", ":b", "//", "[", "]", "?q#f", "\n", "::1]/", "../x"];
    for nsv in ns_corpus {
        for sfx in sfx_corpus {
            ctx.emit(&format!("ns {} {}", hex(nsv), hex(sfx)));
            ctx.stats.bump("ns.corpus");
        }
    }
    let nns = if ctx.thorough { 8000 } else { 800 };
    for _ in 0..nns {
        let src = match ctx.rng.below(4) {
            0 => ctx.rng.pick(&pool_rel).clone(),
            1 => ctx.rng.pick(&pool_mut).clone(),
            _ => ctx.rng.pick(&pool_abs).clone(),
        };
        let cs: Vec<char> = src.chars().collect();
        let cut = ctx.rng.below(cs.len() + 1);
        let (a, b): (String, String) = (cs[..cut].iter().collect(), cs[cut..].iter().collect());
        // both orders: a wrong concatenation order shows where ns+suffix and suffix+ns differ
        if ctx.rng.chance(1, 3) {
            ctx.stats.bump("ns.split_swapped");
            ctx.emit(&format!("ns {} {}", hex(&b), hex(&a)));
        } else {
            ctx.stats.bump("ns.split");
            ctx.emit(&format!("ns {} {}", hex(&a), hex(&b)));
        }
    }
}

fn b(x: bool) -> &'static str {
    if x { "1" } else { "0" }
}

fn tri(r: Result<bool, String>) -> &'static str {
    match r {
        Ok(true) => "ok",
        Ok(false) => "changed",
        Err(_) => "panic",
    }
}

fn membership(s: &str) -> String {
    let abs = sophia_iri::is_absolute_iri_ref(s);
    let rel = sophia_iri::is_relative_iri_ref(s);
    let rf = sophia_iri::is_valid_iri_ref(s);
    let new_abs = Iri::new(s).is_ok();
    let new_ref = IriRef::new(s).is_ok();
    let sfx_none = sophia_iri::is_valid_suffixed_iri_ref(s, None);
    let bnew = BaseIri::new(s).is_ok();
    let brnew = BaseIriRef::new(s).is_ok();
    let mut out = format!(
        "abs={} rel={} ref={} new_abs={} new_ref={} sfx_none={} bnew={} brnew={}",
        b(abs), b(rel), b(rf), b(new_abs), b(new_ref), b(sfx_none), b(bnew), b(brnew)
    );
    // every accepted value must be usable as a base without panicking
    if new_abs {
        let r = catch(|| Iri::new(s).unwrap().as_base().to_string() == s);
        out += &format!(" base={}", tri(r));
        let r = catch(|| Iri::new(s.to_string()).unwrap().to_base().to_string() == s);
        out += &format!(" tobase={}", tri(r));
    }
    if new_ref {
        let r = catch(|| IriRef::new(s).unwrap().as_base().to_string() == s);
        out += &format!(" refbase={}", tri(r));
        let r = catch(|| IriRef::new(s.to_string()).unwrap().to_base().to_string() == s);
        out += &format!(" reftobase={}", tri(r));
    }
    out
}

type Path<'a> = (&'static str, Box<dyn FnOnce() -> Option<String> + std::panic::UnwindSafe + 'a>);

/// run every other entry point; names of those whose result differs from `expected`
fn disagreeing(paths: Vec<Path<'_>>, expected: &str) -> Vec<&'static str> {
    let mut bad = vec![];
    for (name, f) in paths {
        match catch(f) {
            Ok(Some(x)) if x == expected => {}
            _ => bad.push(name),
        }
    }
    bad
}

fn resolve_abs(bs: &str, rs: &str) -> String {
    let (Ok(base), Ok(rf)) = (Iri::new(bs), IriRef::new(rs)) else {
        return "skip=1".into();
    };
    let r = catch(|| base.resolve(rf).to_string());
    match r {
        Ok(s) => {
            let valid = sophia_iri::is_absolute_iri_ref(&s);
            // every other resolution entry point must agree with Iri::resolve
            let paths: Vec<Path> = vec![
                ("BaseIri::resolve", Box::new(|| Some(base.as_base().resolve(rf).to_string()))),
                ("BaseIri::resolve_into", Box::new(|| {
                    let mut buf = String::new();
                    Some(base.as_base().resolve_into(rf, &mut buf).to_string())
                })),
                ("BaseIri::resolve(&str)", Box::new(|| base.as_base().resolve(rs).ok().map(|x| x.to_string()))),
                ("BaseIri::resolve_into(&str)", Box::new(|| {
                    let mut buf = String::new();
                    base.as_base().resolve_into(rs, &mut buf).ok().map(|x| x.to_string())
                })),
                ("Iri::to_base.resolve", Box::new(|| Some(Iri::new(bs.to_string()).unwrap().to_base().resolve(rf).to_string()))),
                ("IriRef::resolve", Box::new(|| Some(IriRef::new(bs).unwrap().resolve(rf).to_string()))),
                ("BaseIriRef::resolve", Box::new(|| Some(IriRef::new(bs).unwrap().as_base().resolve(rf).to_string()))),
                ("BaseIriRef::resolve_into", Box::new(|| {
                    let mut buf = String::new();
                    Some(IriRef::new(bs).unwrap().as_base().resolve_into(rf, &mut buf).to_string())
                })),
                ("BaseIriRef::to_base_iri.resolve", Box::new(|| Some(IriRef::new(bs).unwrap().to_base().to_base_iri().resolve(rf).to_string()))),
                ("Iri::resolve(Iri)", Box::new(|| match Iri::new(rs) {
                    Ok(a) => Some(base.resolve(a).to_string()),
                    Err(_) => Some(s.clone()),
                })),
            ];
            let bad = disagreeing(paths, &s);
            let mut out = format!("skip=0 res={} valid={} paths_agree={}", hex(&s), b(valid), b(bad.is_empty()));
            if !bad.is_empty() {
                out += &format!(" paths_bad={}", bad.join(",").replace(' ', ""));
            }
            out
        }
        Err(_) => {
            // the &str entry point reports the resolver's error instead of unwrapping it
            let viastr = match catch(|| base.as_base().resolve(rs).map(|x| x.to_string())) {
                Ok(Ok(x)) => hex(&x),
                Ok(Err(_)) => "err".to_string(),
                Err(_) => "panic".to_string(),
            };
            format!("skip=0 res=panic viastr={}", viastr)
        }
    }
}

fn resolve_ref(bs: &str, rs: &str) -> String {
    let (Ok(base), Ok(rf)) = (IriRef::new(bs), IriRef::new(rs)) else {
        return "skip=1".into();
    };
    let r = catch(|| base.resolve(rf).to_string());
    match r {
        Ok(s) => {
            let valid = sophia_iri::is_valid_iri_ref(&s);
            let isabs = sophia_iri::is_absolute_iri_ref(&s);
            let paths: Vec<Path> = vec![
                ("BaseIriRef::resolve", Box::new(|| Some(base.as_base().resolve(rf).to_string()))),
                ("BaseIriRef::resolve_into", Box::new(|| {
                    let mut buf = String::new();
                    Some(base.as_base().resolve_into(rf, &mut buf).to_string())
                })),
                ("BaseIriRef::resolve(&str)", Box::new(|| base.as_base().resolve(rs).ok().map(|x| x.to_string()))),
                ("BaseIriRef::resolve_into(&str)", Box::new(|| {
                    let mut buf = String::new();
                    base.as_base().resolve_into(rs, &mut buf).ok().map(|x| x.to_string())
                })),
                ("IriRef::to_base.resolve", Box::new(|| Some(IriRef::new(bs.to_string()).unwrap().to_base().resolve(rf).to_string()))),
            ];
            let bad = disagreeing(paths, &s);
            let mut out = format!(
                "skip=0 rpanic=0 rres={} rvalid={} rabs={} rpaths_agree={}",
                hex(&s), b(valid), b(isabs), b(bad.is_empty())
            );
            if !bad.is_empty() {
                out += &format!(" rpaths_bad={}", bad.join(",").replace(' ', ""));
            }
            out
        }
        Err(_) => "skip=0 rpanic=1 rres=panic".into(),
    }
}

fn namespace_req(ns: &str, sfx: &str) -> String {
    let n = Namespace::new(ns);
    let sfx_some = sophia_iri::is_valid_suffixed_iri_ref(ns, Some(sfx));
    let sfx_none = sophia_iri::is_valid_suffixed_iri_ref(ns, None);
    let mut out = format!("ns_new={}", b(n.is_ok()));
    match &n {
        Err(_) => out += " get=na",
        Ok(n) => match n.get(sfx) {
            Err(_) => out += " get=err",
            Ok(t) => {
                let shown = t.to_string();
                // the term's IRI (built with new_unchecked: validated again in a dev build)
                let iri = catch(|| t.iri().map(|i| i.as_str().to_string()));
                let term_iri = match iri {
                    Ok(Some(x)) if x == shown => "ok",
                    Ok(_) => "changed",
                    Err(_) => "panic",
                };
                out += &format!(" get=ok term={} term_iri={}", hex(&shown), term_iri);
            }
        },
    }
    out += &format!(" sfx={} sfx_none={}", b(sfx_some), b(sfx_none));
    out
}

pub fn exec(line: &str) -> String {
    let f: Vec<&str> = line.split_whitespace().collect();
    match f.as_slice() {
        ["m", h] => {
            let Some(s) = unhex(h) else { return "bad-hex".into() };
            membership(&s)
        }
        ["ml", k, n] => {
            let (Ok(k), Ok(n)) = (k.parse::<usize>(), n.parse::<usize>()) else { return "bad-op".into() };
            match long_str(k, n) {
                Some(s) => membership(&s),
                None => "bad-op".into(),
            }
        }
        ["r", hb, hr] => {
            let (Some(bs), Some(rs)) = (unhex(hb), unhex(hr)) else { return "bad-hex".into() };
            resolve_abs(&bs, &rs)
        }
        ["rl", k, n] => {
            let (Ok(k), Ok(n)) = (k.parse::<usize>(), n.parse::<usize>()) else { return "bad-op".into() };
            match long_pair(k, n) {
                Some((bs, rs)) => resolve_abs(&bs, &rs),
                None => "bad-op".into(),
            }
        }
        ["rr", hb, hr] => {
            let (Some(bs), Some(rs)) = (unhex(hb), unhex(hr)) else { return "bad-hex".into() };
            resolve_ref(&bs, &rs)
        }
        ["ns", hn, hs] => {
            let (Some(ns), Some(sfx)) = (unhex(hn), unhex(hs)) else { return "bad-hex".into() };
            namespace_req(&ns, &sfx)
        }
        _ => "bad-op".into(),
    }
}

fn main() {
    vhcore::main_loop(generate, exec);
}
