//! every shipped `Term` implementation that can hold a given abstract term
use rdf_types::BlankIdVocabulary;
use rio_api::model as rio;
use sophia_api::ns::Namespace;
use sophia_api::term::{BnodeId, CmpTerm, FromTerm, IriRef, LanguageTag, SimpleTerm, Term, VarName};
use sophia_jsonld::RdfTerm;
use sophia_jsonld::vocabulary::{ArcBnode, ArcIri, ArcTag, ArcVoc};
use sophia_rio::model::Trusted;
use sophia_sparql::ResultTerm;
use sophia_term::{ArcStrStash, ArcTerm, GenericLiteral, RcTerm};
use std::sync::Arc;
use vhcore::tgen;
use vhcore::util::T;

pub const XSD_STRING: &str = "http://www.w3.org/2001/XMLSchema#string";
pub const XSD_INTEGER: &str = "http://www.w3.org/2001/XMLSchema#integer";
pub const XSD_BOOLEAN: &str = "http://www.w3.org/2001/XMLSchema#boolean";
pub const XSD_DOUBLE: &str = "http://www.w3.org/2001/XMLSchema#double";
pub const RDF_LANGSTRING: &str = "http://www.w3.org/1999/02/22-rdf-syntax-ns#langString";

pub trait Visitor {
    fn visit<X: Term + std::fmt::Debug>(&mut self, name: &'static str, x: X);
}

/// Every component satisfies the grammar its wrapper type promises (the `new_unchecked` constructors and
/// Rio's `Trusted` carry `debug_assert!`s: a component outside the grammar is not a term at all and would only
/// produce a bogus panic) and datatypes are absolute.
pub fn grammar_ok(t: &T) -> bool {
    match t {
        T::Iri(s) => IriRef::new(s.as_str()).is_ok(),
        T::Bnode(s) => BnodeId::new(s.as_str()).is_ok(),
        T::Var(s) => VarName::new(s.as_str()).is_ok(),
        T::Lit(_, d) => sophia_iri::Iri::new(d.as_str()).is_ok(),
        T::Lang(_, tag) => LanguageTag::new(tag.as_str()).is_ok(),
        T::Triple(b) => b.iter().all(grammar_ok),
    }
}

/// the `WF` guard of the theorems (RDF 1.1): no untagged literal has datatype `rdf:langString`
pub fn rdf_wf(t: &T) -> bool {
    match t {
        T::Lit(_, d) => d != RDF_LANGSTRING,
        T::Triple(b) => b.iter().all(rdf_wf),
        _ => true,
    }
}

pub fn well_formed(t: &T) -> bool {
    grammar_ok(t) && rdf_wf(t)
}

/// strict RDF-star shape (what `rio_api::model::Term` can hold)
pub fn is_strict(t: &T) -> bool {
    match t {
        T::Iri(_) | T::Bnode(_) | T::Lit(..) | T::Lang(..) => true,
        T::Var(_) => false,
        T::Triple(b) => {
            matches!(&b[0], T::Iri(_) | T::Bnode(_) | T::Triple(_)) && is_strict(&b[0]) && matches!(&b[1], T::Iri(_)) && is_strict(&b[2])
        }
    }
}

fn rio_lit(t: &T) -> Option<rio::Literal<'_>> {
    match t {
        // both spellings of a plain string exist in Rio; alternate deterministically
        T::Lit(l, d) if d == XSD_STRING && l.len() % 2 == 0 => Some(rio::Literal::Simple { value: l }),
        T::Lit(l, d) => Some(rio::Literal::Typed { value: l, datatype: rio::NamedNode { iri: d } }),
        T::Lang(l, tag) => Some(rio::Literal::LanguageTaggedString { value: l, language: tag }),
        _ => None,
    }
}

/// build the borrowed `GeneralizedTerm` tree on the stack and hand it to `k`
pub fn with_gen(t: &T, k: &mut dyn for<'x> FnMut(rio::GeneralizedTerm<'x>)) {
    use rio::GeneralizedTerm as G;
    match t {
        T::Iri(s) => k(G::NamedNode(rio::NamedNode { iri: s })),
        T::Bnode(s) => k(G::BlankNode(rio::BlankNode { id: s })),
        T::Var(s) => k(G::Variable(rio::Variable { name: s })),
        T::Lit(..) | T::Lang(..) => k(G::Literal(rio_lit(t).unwrap())),
        T::Triple(b) => with_gen(&b[0], &mut |s| {
            with_gen(&b[1], &mut |p| {
                with_gen(&b[2], &mut |o| {
                    let arr = [s, p, o];
                    k(G::Triple(&arr))
                })
            })
        }),
    }
}

fn with_rio_triple(b: &[T; 3], k: &mut dyn for<'x> FnMut(&'x rio::Triple<'x>)) {
    let T::Iri(p) = &b[1] else { return };
    with_rio_subject(&b[0], &mut |s| {
        with_rio_term(&b[2], &mut |o| {
            let tr = rio::Triple { subject: s, predicate: rio::NamedNode { iri: p }, object: o };
            k(&tr)
        })
    })
}

fn with_rio_subject(t: &T, k: &mut dyn for<'x> FnMut(rio::Subject<'x>)) {
    match t {
        T::Iri(s) => k(rio::Subject::NamedNode(rio::NamedNode { iri: s })),
        T::Bnode(s) => k(rio::Subject::BlankNode(rio::BlankNode { id: s })),
        T::Triple(b) => with_rio_triple(b, &mut |tr| k(rio::Subject::Triple(tr))),
        _ => {}
    }
}

/// precondition: `is_strict(t)`
pub fn with_rio_term(t: &T, k: &mut dyn for<'x> FnMut(rio::Term<'x>)) {
    match t {
        T::Iri(s) => k(rio::Term::NamedNode(rio::NamedNode { iri: s })),
        T::Bnode(s) => k(rio::Term::BlankNode(rio::BlankNode { id: s })),
        T::Lit(..) | T::Lang(..) => k(rio::Term::Literal(rio_lit(t).unwrap())),
        T::Triple(b) => with_rio_triple(b, &mut |tr| k(rio::Term::Triple(tr))),
        T::Var(_) => {}
    }
}

type RdfS = rdf_types::Id<ArcIri, ArcBnode>;
type RdfLit = rdf_types::Literal<rdf_types::literal::Type<ArcIri, ArcTag>, String>;
type RdfO = rdf_types::Term<RdfS, RdfLit>;

fn arc_iri(s: &str) -> Option<ArcIri> {
    sophia_iri::is_absolute_iri_ref(s).then(|| ArcIri::new_unchecked(Arc::from(s)))
}

/// the JSON-LD parser's term type (`jsonld/src/parser/adapter.rs`), built through its public `From` impl
pub fn jsonld_term(t: &T) -> Option<RdfTerm> {
    let o: RdfO = match t {
        T::Iri(s) => rdf_types::Term::Id(rdf_types::Id::Iri(arc_iri(s)?)),
        T::Bnode(s) => rdf_types::Term::Id(rdf_types::Id::Blank(jsonld_bnode(s)?)),
        T::Lit(l, d) => rdf_types::Term::Literal(RdfLit::new(l.clone(), rdf_types::literal::Type::Any(arc_iri(d)?))),
        T::Lang(l, tag) => rdf_types::Term::Literal(RdfLit::new(
            l.clone(),
            rdf_types::literal::Type::LangString(ArcTag::new_unchecked(Arc::from(tag.as_str()))),
        )),
        _ => return None,
    };
    Some(RdfTerm::from(o))
}

pub fn jsonld_bnode(label: &str) -> Option<ArcBnode> {
    let full = format!("_:{}", label);
    let id = rdf_types::BlankId::new(&full).ok()?;
    ArcVoc::default().get_blank_id(id)
}

/// the value an `f64` must have so that its lexical form is exactly `l`
pub fn f64_of(l: &str) -> Option<f64> {
    let x = match l {
        "NaN" => f64::NAN,
        "INF" => f64::INFINITY,
        "-INF" => f64::NEG_INFINITY,
        _ => l.parse::<f64>().ok().filter(|x| x.is_finite())?,
    };
    (x.lexical_form().unwrap().as_ref() == l).then_some(x)
}

/// call `v` with every representation of `t` that can hold it. Precondition: `well_formed(t)`.
pub fn with_reprs<V: Visitor>(t: &T, v: &mut V) {
    let owned: SimpleTerm<'static> = tgen::to_simple(t);
    v.visit("simple_owned", owned.clone());
    v.visit("simple_ref", &owned);
    v.visit("simple_borrowed", SimpleTerm::from_term_ref(&owned));
    v.visit("as_simple", owned.as_simple());
    v.visit("cmp_term", CmpTerm(owned.clone()));
    v.visit("cmp_ref", CmpTerm(&owned));
    let arc = ArcTerm::from_term(owned.borrow_term());
    v.visit("arc_ref", &arc);
    v.visit("cmp_arc", CmpTerm(arc.clone()));
    v.visit("arc_term", arc);
    let rc = RcTerm::from_term(owned.borrow_term());
    v.visit("rc_ref", &rc);
    v.visit("rc_term", rc);
    let mut stash = ArcStrStash::new();
    v.visit("stash_copy", stash.copy_term(owned.borrow_term()));
    v.visit("result_term", ResultTerm::from(ArcTerm::from_term(owned.borrow_term())));
    v.visit("option_some", &owned); // graph-name position is Option<T>; the term inside is the same impl
    with_gen(t, &mut |g| v.visit("rio_generalized", Trusted(g)));
    if is_strict(t) {
        with_rio_term(t, &mut |x| v.visit("rio_term", Trusted(x)));
    }
    if let Some(j) = jsonld_term(t) {
        v.visit("jsonld_rdfterm_ref", &j);
        v.visit("jsonld_rdfterm", j);
    }
    match t {
        T::Iri(s) => {
            v.visit("iriref_str", IriRef::new_unchecked(s.as_str()));
            v.visit("iriref_string", IriRef::new_unchecked(s.clone()));
            v.visit("iriref_arc", IriRef::new_unchecked(Arc::<str>::from(s.as_str())));
            if sophia_iri::is_absolute_iri_ref(s) {
                v.visit("iri_str", sophia_iri::Iri::new_unchecked(s.as_str()));
                v.visit("iri_box", sophia_iri::Iri::new_unchecked(Box::<str>::from(s.as_str())));
            }
            // every split point at a char boundary gives an NsTerm
            let cuts: Vec<usize> = s.char_indices().map(|(i, _)| i).chain([s.len()]).collect();
            for &c in [cuts[0], cuts[cuts.len() / 2], cuts[cuts.len() - 1]].iter() {
                // a prefix of an IRI need not be an IRI reference (cut inside "%61", "[::1]" ...)
                if IriRef::new(&s[..c]).is_ok() {
                    let ns = Namespace::new_unchecked(&s[..c]);
                    v.visit("ns_term", ns.get_unchecked(&s[c..]));
                }
            }
            v.visit("rio_named", Trusted(rio::NamedNode { iri: s.as_str() }));
            v.visit("rio_graphname", Trusted(rio::GraphName::NamedNode(rio::NamedNode { iri: s.as_str() })));
        }
        T::Bnode(s) => {
            v.visit("bnode_id", BnodeId::new_unchecked(s.as_str()));
            v.visit("bnode_box", BnodeId::new_unchecked(Box::<str>::from(s.as_str())));
            v.visit("rio_blank", Trusted(rio::BlankNode { id: s.as_str() }));
            v.visit("rio_graphname", Trusted(rio::GraphName::BlankNode(rio::BlankNode { id: s.as_str() })));
            if let Some(b) = jsonld_bnode(s) {
                v.visit("jsonld_arcbnode", b);
            }
        }
        T::Var(s) => {
            v.visit("var_name", VarName::new_unchecked(s.as_str()));
            v.visit("var_string", VarName::new_unchecked(s.clone()));
            v.visit("rio_var", Trusted(rio::Variable { name: s.as_str() }));
        }
        T::Lit(l, d) => {
            v.visit("generic_literal", GenericLiteral::Typed(l.as_str(), IriRef::new_unchecked(d.as_str())));
            v.visit("generic_literal_box", GenericLiteral::<Box<str>>::Typed(l.as_str().into(), IriRef::new_unchecked(d.as_str().into())));
            // `"lex" * ns::term`
            let cut = d.rfind(['#', '/']).map(|i| i + 1).unwrap_or(0);
            if IriRef::new(&d[..cut]).is_ok() {
                let ns = Namespace::new_unchecked(&d[..cut]);
                v.visit("str_times_ns", l.as_str() * ns.get_unchecked(&d[cut..]));
            }
            if d == XSD_STRING {
                v.visit("native_str", l.as_str());
                v.visit("rio_simple", Trusted(rio::Literal::Simple { value: l.as_str() }));
            }
            v.visit("rio_typed", Trusted(rio::Literal::Typed { value: l.as_str(), datatype: rio::NamedNode { iri: d.as_str() } }));
            if d == XSD_INTEGER {
                if let Ok(n) = l.parse::<i32>() {
                    if n.to_string() == *l {
                        v.visit("native_i32", n);
                        v.visit("native_isize", n as isize);
                        if n >= 0 {
                            v.visit("native_usize", n as usize);
                        }
                    }
                }
            }
            if d == XSD_BOOLEAN && (l == "true" || l == "false") {
                v.visit("native_bool", l == "true");
            }
            if d == XSD_DOUBLE {
                if let Some(x) = f64_of(l) {
                    v.visit("native_f64", x);
                }
            }
        }
        T::Lang(l, tag) => {
            v.visit("generic_lang", GenericLiteral::LanguageString(l.as_str(), LanguageTag::new_unchecked(tag.as_str())));
            v.visit("str_times_tag", l.as_str() * LanguageTag::new_unchecked(tag.as_str()));
            v.visit("rio_lang", Trusted(rio::Literal::LanguageTaggedString { value: l.as_str(), language: tag.as_str() }));
        }
        T::Triple(_) => {
            let [s, p, o] = owned.to_triple().unwrap();
            v.visit("array3", SimpleTerm::Triple(Box::new([s, p, o])));
        }
    }
}

/// names of the representations `with_reprs` builds for `t` (generator statistics)
pub struct Names(pub Vec<&'static str>);
impl Visitor for Names {
    fn visit<X: Term + std::fmt::Debug>(&mut self, name: &'static str, _x: X) {
        self.0.push(name);
    }
}
