//! C02 — term equality / hashing / ordering across every shipped `Term` implementation.
//!
//! requests:
//!   p <A> | <B>          eq / cmp / hash over ALL ordered pairs of representations (Term::eq/cmp/hash), and the
//!                        std PartialEq / PartialOrd / Ord / Hash impls of every type that has them (same-type
//!                        and cross-type)
//!   c <A>                every conversion path preserves the term (view through accessors)
//!   t <A> | <B> | <C>    3x3 eq/cmp/hash matrices (each entry over all representation pairs) + the laws on them
//!   ns <hexns> <hexsuffix> | <B>   NsTerm's hand-written eq vs the default
//!   w <iri|bnode|var|tag> <hexA> <hexB>   std impls of the string wrappers (iri/src/_wrap_macro.rs, LanguageTag)
//!   g <A|-> | <B|->      graph_name_eq on optional terms
//! a request containing a component outside its wrapper's grammar is answered `skip=...` (no oracle)
mod reprs;

use reprs::*;
use sophia_api::ns::Namespace;
use sophia_api::term::{
    BnodeId, CmpTerm, FromTerm, IriRef, LanguageTag, SimpleTerm, Term, TermKind, TryFromTerm, VarName, graph_name_eq,
};
use sophia_sparql::ResultTerm;
use sophia_term::{ArcStrStash, ArcTerm, GenericLiteral, RcTerm};
use std::cmp::Ordering;
use std::hash::{DefaultHasher, Hash, Hasher};
use vhcore::tgen::{self, TermGen};
use vhcore::util::*;
use vhcore::GenCtx;

fn h<X: Term>(x: &X) -> u64 {
    let mut s = DefaultHasher::new();
    Term::hash(x, &mut s);
    s.finish()
}
/// a `Hasher` that records every call it receives (the model's `termHash` is exactly this sequence):
/// `is<n>` write_isize, `w<hex>` write(bytes), `u8_<n>` write_u8, `u32_<n>` write_u32, ...
#[derive(Default)]
struct Rec(Vec<String>);
impl Hasher for Rec {
    fn finish(&self) -> u64 {
        0
    }
    fn write(&mut self, bytes: &[u8]) {
        self.0.push(format!("w{}", hex_bytes(bytes)));
    }
    fn write_u8(&mut self, i: u8) {
        self.0.push(format!("u8_{}", i));
    }
    fn write_u16(&mut self, i: u16) {
        self.0.push(format!("u16_{}", i));
    }
    fn write_u32(&mut self, i: u32) {
        self.0.push(format!("u32_{}", i));
    }
    fn write_u64(&mut self, i: u64) {
        self.0.push(format!("u64_{}", i));
    }
    fn write_u128(&mut self, i: u128) {
        self.0.push(format!("u128_{}", i));
    }
    fn write_usize(&mut self, i: usize) {
        self.0.push(format!("us{}", i));
    }
    fn write_i8(&mut self, i: i8) {
        self.0.push(format!("i8_{}", i));
    }
    fn write_i16(&mut self, i: i16) {
        self.0.push(format!("i16_{}", i));
    }
    fn write_i32(&mut self, i: i32) {
        self.0.push(format!("i32_{}", i));
    }
    fn write_i64(&mut self, i: i64) {
        self.0.push(format!("i64_{}", i));
    }
    fn write_i128(&mut self, i: i128) {
        self.0.push(format!("i128_{}", i));
    }
    fn write_isize(&mut self, i: isize) {
        self.0.push(format!("is{}", i));
    }
}
/// the call sequence `Term::hash` feeds to a hasher
fn rec<X: Term>(x: &X) -> String {
    let mut s = Rec::default();
    Term::hash(x, &mut s);
    s.0.join(".")
}
/// the call sequence the std `Hash` impl feeds
fn srec<X: Hash>(x: &X) -> String {
    let mut s = Rec::default();
    Hash::hash(x, &mut s);
    s.0.join(".")
}
/// a hasher that is NOT byte-streaming (Fx style: one multiply-rotate round per call / per word): two call
/// sequences carrying the same bytes in different pieces hash differently
#[derive(Default)]
struct Fx(u64);
impl Fx {
    fn add(&mut self, w: u64) {
        self.0 = (self.0.rotate_left(5) ^ w).wrapping_mul(0x51_7c_c1_b7_27_22_0a_95);
    }
}
impl Hasher for Fx {
    fn finish(&self) -> u64 {
        self.0
    }
    fn write(&mut self, mut bytes: &[u8]) {
        while bytes.len() >= 8 {
            self.add(u64::from_le_bytes(bytes[..8].try_into().unwrap()));
            bytes = &bytes[8..];
        }
        if bytes.len() >= 4 {
            self.add(u32::from_le_bytes(bytes[..4].try_into().unwrap()) as u64);
            bytes = &bytes[4..];
        }
        for b in bytes {
            self.add(*b as u64);
        }
    }
    fn write_u8(&mut self, i: u8) {
        self.add(i as u64);
    }
    fn write_u32(&mut self, i: u32) {
        self.add(i as u64);
    }
    fn write_u64(&mut self, i: u64) {
        self.add(i);
    }
    fn write_usize(&mut self, i: usize) {
        self.add(i as u64);
    }
}
fn fx<X: Term>(x: &X) -> u64 {
    let mut s = Fx::default();
    Term::hash(x, &mut s);
    s.finish()
}
fn sh<X: Hash>(x: &X) -> u64 {
    let mut s = DefaultHasher::new();
    Hash::hash(x, &mut s);
    s.finish()
}
fn ord(o: Ordering) -> &'static str {
    match o {
        Ordering::Less => "lt",
        Ordering::Equal => "eq",
        Ordering::Greater => "gt",
    }
}
fn pord(o: Option<Ordering>) -> &'static str {
    o.map(ord).unwrap_or("none")
}
fn b2s(b: bool) -> &'static str {
    if b { "1" } else { "0" }
}

#[derive(Default)]
struct Agg {
    vals: std::collections::BTreeSet<String>,
    who: Vec<String>,
}
impl Agg {
    fn add(&mut self, v: &str, who: &dyn Fn() -> String) {
        if !self.vals.contains(v) {
            self.vals.insert(v.to_string());
            self.who.push(format!("{}:{}", who(), v));
        }
    }
    fn mixed(&self) -> bool {
        self.vals.len() > 1
    }
    fn get(&self) -> String {
        match self.vals.len() {
            0 => "-".into(),
            1 => self.vals.iter().next().unwrap().clone(),
            _ => format!("MIXED({})", self.who.join(",")),
        }
    }
    /// one character for the 3x3 matrices
    fn ch(&self) -> char {
        if self.vals.len() != 1 {
            return 'M';
        }
        match self.vals.iter().next().unwrap().as_str() {
            "1" => '1',
            "0" => '0',
            "lt" => 'l',
            "eq" => 'e',
            "gt" => 'g',
            _ => '?',
        }
    }
    /// "is the comparison Equal": 1 / 0 / MIXED
    fn is_eq(&self) -> String {
        if self.vals.iter().all(|v| v == "eq") {
            "1".into()
        } else if self.vals.iter().all(|v| v != "eq") {
            "0".into()
        } else {
            self.get()
        }
    }
}

struct Inner<'a, X> {
    x: &'a X,
    hx: u64,
    fxx: u64,
    recx: String,
    xname: &'static str,
    m: &'a mut Matrix,
}
impl<X: Term> Visitor for Inner<'_, X> {
    fn visit<Y: Term + std::fmt::Debug>(&mut self, name: &'static str, y: Y) {
        let xname = self.xname;
        let who = || format!("{}/{}", xname, name);
        self.m.pairs += 1;
        let e = Term::eq(self.x, y.borrow_term());
        let c = Term::cmp(self.x, y.borrow_term());
        self.m.eq.add(b2s(e), &who);
        self.m.cmp.add(ord(c), &who);
        self.m.heq.add(b2s(self.hx == h(&y)), &who);
        self.m.hfx.add(b2s(self.fxx == fx(&y)), &who);
        self.m.hseq.add(b2s(self.recx == rec(&y)), &who);
        // the same two values with the roles exchanged: eq symmetric, cmp antisymmetric
        self.m.sym.add(b2s(Term::eq(&y, self.x.borrow_term()) == e), &who);
        self.m.swap.add(b2s(Term::cmp(&y, self.x.borrow_term()) == c.reverse()), &who);
    }
}
#[derive(Default)]
struct Matrix {
    eq: Agg,
    cmp: Agg,
    heq: Agg,
    sym: Agg,
    swap: Agg,
    hfx: Agg,
    hseq: Agg,
    pairs: u64,
}
struct Outer<'a> {
    b: &'a T,
    m: Matrix,
}
impl Visitor for Outer<'_> {
    fn visit<X: Term + std::fmt::Debug>(&mut self, name: &'static str, x: X) {
        let mut inner = Inner { x: &x, hx: h(&x), fxx: fx(&x), recx: rec(&x), xname: name, m: &mut self.m };
        with_reprs(self.b, &mut inner);
    }
}
/// Term::eq / cmp / hash-equality of `a` against `b` over all ordered pairs of representations
fn matrix(a: &T, b: &T) -> Matrix {
    let mut o = Outer { b, m: Matrix::default() };
    with_reprs(a, &mut o);
    o.m
}

#[derive(Default)]
struct StdRes {
    seq: Agg,
    scmp: Agg,
    sheq: Agg,
    shx: Agg,
    n: u64,
}

/// the std trait impls (PartialEq<T>, Eq, PartialOrd<T>, Ord, Hash) of every type that has them
fn std_traits(a: &T, b: &T) -> StdRes {
    let mut r = StdRes::default();
    let (sa, sb) = (tgen::to_simple(a), tgen::to_simple(b));
    let (ha, hb) = (rec(&sa), rec(&sb));
    // same type on both sides: ==, !=, Ord::cmp, partial_cmp, Hash (+ std Hash == Term::hash)
    macro_rules! fam {
        ($name:expr, $fa:expr, $fb:expr) => {{
            let (fa, fb) = (&$fa, &$fb);
            let who = || $name.to_string();
            r.n += 1;
            r.seq.add(b2s(*fa == *fb), &who);
            r.seq.add(b2s(!(*fa != *fb)), &who);
            r.scmp.add(ord(Ord::cmp(fa, fb)), &who);
            r.scmp.add(pord(PartialOrd::partial_cmp(fa, fb)), &who);
            r.scmp.add(ord(Ord::cmp(fb, fa).reverse()), &who);
            r.sheq.add(b2s(sh(fa) == sh(fb)), &who);
            r.shx.add(b2s(srec(fa) == ha && srec(fb) == hb), &who);
        }};
    }
    // different types: ==, partial_cmp
    macro_rules! cross {
        ($name:expr, $x:expr, $y:expr) => {{
            let who = || $name.to_string();
            r.n += 1;
            r.seq.add(b2s($x == $y), &who);
            r.scmp.add(pord(PartialOrd::partial_cmp(&$x, &$y)), &who);
        }};
    }
    fam!("SimpleTerm", sa, sb);
    let (ba, bb) = (SimpleTerm::from_term_ref(&sa), SimpleTerm::from_term_ref(&sb));
    fam!("SimpleTerm(borrowed)", ba, bb);
    let (ca, cb) = (CmpTerm(sa.clone()), CmpTerm(sb.clone()));
    fam!("CmpTerm<SimpleTerm>", ca, cb);
    let (aa, ab) = (ArcTerm::from_term(sa.borrow_term()), ArcTerm::from_term(sb.borrow_term()));
    fam!("ArcTerm", aa, ab);
    let (cra, crb) = (CmpTerm(&aa), CmpTerm(&ab));
    fam!("CmpTerm<&ArcTerm>", cra, crb);
    let (ra, rb) = (RcTerm::from_term(sa.borrow_term()), RcTerm::from_term(sb.borrow_term()));
    fam!("RcTerm", ra, rb);
    let (qa, qb) = (ResultTerm::from(aa.clone()), ResultTerm::from(ab.clone()));
    fam!("ResultTerm", qa, qb);
    cross!("SimpleTerm/ArcTerm", sa, ab);
    cross!("ArcTerm/SimpleTerm", aa, sb);
    cross!("CmpTerm/SimpleTerm", ca, sb);
    cross!("CmpTerm/RcTerm", ca, rb);
    cross!("RcTerm/ResultTerm", ra, qb);
    cross!("ResultTerm/ArcTerm", qa, ab);
    cross!("ResultTerm/CmpTerm", qa, cb);
    cross!("SimpleTerm(borrowed)/RcTerm", ba, rb);
    let ga = GenericLiteral::<Box<str>>::try_from_term(sa.borrow_term()).ok();
    let gb = GenericLiteral::<Box<str>>::try_from_term(sb.borrow_term()).ok();
    if let Some(ga) = &ga {
        cross!("GenericLiteral/SimpleTerm", *ga, sb);
        cross!("GenericLiteral/ArcTerm", *ga, ab);
        if let Some(gb) = &gb {
            fam!("GenericLiteral", *ga, *gb);
            let (cga, cgb) = (CmpTerm(ga.clone()), CmpTerm(gb.clone()));
            fam!("CmpTerm<GenericLiteral>", cga, cgb);
        }
    }
    if let Some(gb) = &gb {
        cross!("SimpleTerm/GenericLiteral", sa, *gb);
    }
    if let T::Iri(s) = a {
        let cuts: Vec<usize> = s.char_indices().map(|(i, _)| i).chain([s.len()]).collect();
        for &c in [cuts[0], cuts[cuts.len() / 2], cuts[cuts.len() - 1]].iter() {
            if IriRef::new(&s[..c]).is_ok() {
                let ns = Namespace::new_unchecked(&s[..c]);
                let nt = ns.get_unchecked(&s[c..]);
                let who = || "NsTerm/SimpleTerm".to_string();
                r.n += 1;
                r.seq.add(b2s(nt == sb), &who);
                r.seq.add(b2s(nt == ab), &who);
            }
        }
    }
    r
}

struct Conv<'a> {
    seqs: Agg,
    t: &'a T,
    bad: Vec<String>,
    inexact: Vec<String>,
    n: u64,
}
impl Visitor for Conv<'_> {
    fn visit<X: Term + std::fmt::Debug>(&mut self, name: &'static str, x: X) {
        let src = tgen::to_simple(self.t);
        let mut wrong_kind = false;
        let mut chk = |path: &str, got: T| {
            self.n += 1;
            // the property demands an *equal* term; every shipped conversion is moreover exact
            if !Term::eq(&tgen::to_simple(&got), src.borrow_term()) {
                self.bad.push(format!("{}.{}", name, path));
            } else if got != *self.t {
                self.inexact.push(format!("{}.{}", name, path));
            }
        };
        self.seqs.add(&rec(&x), &|| name.to_string());
        chk("view", tgen::view(x.borrow_term()));
        chk("into_term<SimpleTerm>", tgen::view(x.borrow_term().into_term::<SimpleTerm>()));
        chk("from_term_ref", tgen::view(SimpleTerm::from_term_ref(&x)));
        chk("as_simple", tgen::view(x.as_simple()));
        chk("ArcTerm::from_term", tgen::view(ArcTerm::from_term(x.borrow_term())));
        chk("into_term<RcTerm>", tgen::view(x.borrow_term().into_term::<RcTerm>()));
        chk("try_into_term<SimpleTerm>", tgen::view(x.borrow_term().try_into_term::<SimpleTerm>().unwrap()));
        chk("CmpTerm<SimpleTerm>::from_term", tgen::view(CmpTerm::<SimpleTerm>::from_term(x.borrow_term())));
        chk("into_term<CmpTerm<ArcTerm>>", tgen::view(x.borrow_term().into_term::<CmpTerm<ArcTerm>>()));
        chk("CmpTerm<SimpleTerm>::try_from_term", tgen::view(CmpTerm::<SimpleTerm>::try_from_term(x.borrow_term()).unwrap()));
        chk("ResultTerm::from", tgen::view(ResultTerm::from(ArcTerm::from_term(x.borrow_term()))));
        chk("ResultTerm::borrow_term", tgen::view(ResultTerm::from(ArcTerm::from_term(x.borrow_term())).borrow_term()));
        let mut st = ArcStrStash::new();
        chk("stash.copy_term", tgen::view(st.copy_term(x.borrow_term())));
        chk("stash.copy_term(2nd)", tgen::view(st.copy_term(x.borrow_term())));
        let lit = GenericLiteral::<Box<str>>::try_from_term(x.borrow_term());
        let lit_arc = CmpTerm::<GenericLiteral<std::sync::Arc<str>>>::try_from_term(x.borrow_term());
        match x.kind() {
            TermKind::Iri => chk("iri()", T::Iri(x.iri().unwrap().as_str().to_string())),
            TermKind::BlankNode => chk("bnode_id()", T::Bnode(x.bnode_id().unwrap().as_str().to_string())),
            TermKind::Variable => chk("variable()", T::Var(x.variable().unwrap().as_str().to_string())),
            TermKind::Literal => {}
            TermKind::Triple => {
                let [s, p, o] = x.triple().unwrap();
                chk("triple()", T::Triple(Box::new([tgen::view(s), tgen::view(p), tgen::view(o)])));
                chk("from_triple", tgen::view(SimpleTerm::from_triple([s, p, o])));
                let [s, p, o] = x.borrow_term().to_triple().unwrap();
                chk("to_triple()", T::Triple(Box::new([tgen::view(s), tgen::view(p), tgen::view(o)])));
            }
        }
        // TryFromTerm of the literal-only type: Ok exactly for literals, and then an equal term
        match (x.kind() == TermKind::Literal, lit, lit_arc) {
            (true, Ok(l), Ok(la)) => {
                chk("GenericLiteral::try_from_term", tgen::view(l));
                chk("CmpTerm<GenericLiteral<Arc>>::try_from_term", tgen::view(la));
            }
            (false, Err(_), Err(_)) => {}
            _ => wrong_kind = true,
        }
        if wrong_kind {
            self.bad.push(format!("{}.GenericLiteral::try_from_term:wrong-result-kind", name));
        }
    }
}

const TAGS: &[&str] = &["x-a-b9", "X-A-B9", "zh-Hant-TW", "zh-hant-tw", "ZH-HANT-TW", "de-CH-1996", "DE-ch-1996", "fr-FR", "FR-fr", "i-klingon", "e", "en-US", "en-us"];

fn randcase(r: &mut Rng, s: &str) -> String {
    s.chars().map(|c| if r.chance(1, 2) { c.to_ascii_uppercase() } else { c.to_ascii_lowercase() }).collect()
}

/// `a` with every language tag (at any depth) re-cased at random: an equal term
fn recase(r: &mut Rng, a: &T) -> T {
    match a {
        T::Lang(l, t) => T::Lang(l.clone(), randcase(r, t)),
        T::Triple(b) => T::Triple(Box::new([recase(r, &b[0]), recase(r, &b[1]), recase(r, &b[2])])),
        o => o.clone(),
    }
}

/// a term differing from `a` in exactly one component (tag case, datatype, kind with the same string, one
/// nested atom at any depth) — or equal to it up to tag case
fn near(g: &TermGen, r: &mut Rng, a: &T) -> T {
    match a {
        T::Lang(l, t) => match r.below(6) {
            0 | 1 => T::Lang(l.clone(), randcase(r, t)),
            // one tag a proper prefix of the other (up to case)
            4 => T::Lang(l.clone(), randcase(r, &format!("{}-x1", t))),
            5 => T::Lang(l.clone(), t.split('-').next().unwrap().to_string()),
            2 => T::Lang(r.pick(&g.lexicals).clone(), t.clone()),
            _ => T::Lit(l.clone(), r.pick(&g.datatypes).clone()),
        },
        T::Lit(l, d) => match r.below(4) {
            0 => T::Lit(l.clone(), r.pick(&g.datatypes).clone()),
            1 => T::Lit(r.pick(&g.lexicals).clone(), d.clone()),
            2 => T::Lit(l.clone(), format!("{}x", d)),
            _ => T::Lang(l.clone(), r.pick(&g.tags).clone()),
        },
        T::Triple(b) => {
            let mut c = b.clone();
            let i = r.below(3);
            c[i] = if r.chance(2, 3) { near(g, r, &b[i]) } else { g.term(r, 1) };
            T::Triple(c)
        }
        T::Iri(s) => match r.below(4) {
            0 => T::Bnode(s.clone()),
            1 => T::Var(s.clone()),
            2 => T::Lit(s.clone(), XSD_STRING.into()),
            _ => T::Iri(format!("{}x", s)),
        },
        T::Bnode(s) => match r.below(3) {
            0 => T::Var(s.clone()),
            1 => T::Iri(s.clone()),
            _ => T::Bnode(r.pick(&g.bnodes).clone()),
        },
        T::Var(s) => match r.below(3) {
            0 => T::Bnode(s.clone()),
            1 => T::Iri(s.clone()),
            _ => T::Var(r.pick(&g.vars).clone()),
        },
    }
}

fn term_gen(ctx: &mut GenCtx) -> TermGen {
    let mut g = TermGen::default();
    g.datatypes.extend([XSD_BOOLEAN.to_string(), XSD_DOUBLE.to_string()]);
    g.datatypes.extend(tgen::NEAR_MISS_DATATYPES.iter().take(6).map(|s| s.to_string()));
    g.datatypes.push(format!("{}x", RDF_LANGSTRING));
    // datatypes on both sides of rdf:langString in IRI order (a tagged literal is ordered by that datatype)
    g.datatypes.extend(["HTML", "XMLLiteral", "JSON", "langStrin", "zzz"].map(|n| format!("http://www.w3.org/1999/02/22-rdf-syntax-ns#{}", n)));
    g.lexicals.extend(
        ["true", "-7", "\u{7f}", "\u{80}", "\u{7ff}", "\u{800}", "\u{ffff}", "1.5", "NaN", "INF", "-INF", "-0", "v", "en", "é\u{301}", "e\u{301}"]
            .map(String::from),
    );
    g.lexicals.push("long ".repeat(60));
    g.iris.extend(["http://ex.org/\u{7ff}", "http://ex.org/\u{800}", "http://ex.org/\u{10000}", "http://ex.org/\u{ffef}", "v", "b0", "http://ex.org/A", "HTTP://ex.org/a", "http://ex.org/a/../a", "http://ex.org/%61"].map(String::from));
    g.iris.extend(tgen::NEAR_MISS_VOCAB.iter().take(3).map(|s| s.to_string()));
    g.iris.push(format!("http://ex.org/{}", "seg/".repeat(50)));
    g.bnodes.extend(["v", "b0x", "B0"].map(String::from));
    g.vars.extend(["b0", "V"].map(String::from));
    g.tags.extend(TAGS.iter().map(|s| s.to_string()));
    // an alphabet entry outside the grammar of its wrapper would only trip a debug assertion: drop it here
    let mut dropped = 0;
    let mut keep = |v: &mut Vec<String>, ok: &dyn Fn(&str) -> bool| {
        let n = v.len();
        v.retain(|s| ok(s));
        dropped += n - v.len();
    };
    keep(&mut g.iris, &|s| IriRef::new(s).is_ok());
    keep(&mut g.datatypes, &|s| sophia_iri::Iri::new(s).is_ok() && s != RDF_LANGSTRING);
    keep(&mut g.bnodes, &|s| BnodeId::new(s).is_ok());
    keep(&mut g.vars, &|s| VarName::new(s).is_ok());
    keep(&mut g.tags, &|s| LanguageTag::new(s).is_ok());
    ctx.stats.add("gen.alphabet_entries_dropped_invalid", dropped as u64);
    g
}

fn count_shape(ctx: &mut GenCtx, a: &T) {
    ctx.stats.bump(&format!("kindA.{}", kind_name(a)));
    ctx.stats.bump(&format!("depthA.{}", a.depth()));
    if is_strict(a) && a.depth() > 0 {
        ctx.stats.bump("shapeA.strict_triple");
    }
    let mut names = Names(vec![]);
    with_reprs(a, &mut names);
    ctx.stats.add("reprs_of_A.total", names.0.len() as u64);
    names.0.sort();
    names.0.dedup();
    for n in names.0 {
        ctx.stats.bump(&format!("repr.{}", n));
    }
}

pub fn generate(ctx: &mut GenCtx) {
    let g = term_gen(ctx);
    let n = if ctx.thorough { 20000 } else { 2400 };
    // literals a native Rust value can hold (i32/isize/usize/bool/f64/str): (lexical, datatype)
    let native: Vec<(&str, &str)> = vec![
        ("42", XSD_INTEGER), ("-7", XSD_INTEGER), ("0", XSD_INTEGER), ("2147483647", XSD_INTEGER), ("1", XSD_INTEGER),
        ("true", XSD_BOOLEAN), ("false", XSD_BOOLEAN),
        ("1.5", XSD_DOUBLE), ("NaN", XSD_DOUBLE), ("INF", XSD_DOUBLE), ("-INF", XSD_DOUBLE), ("-0", XSD_DOUBLE), ("1", XSD_DOUBLE),
        ("chat", XSD_STRING), ("", XSD_STRING), ("1", XSD_STRING), ("true", XSD_STRING),
    ];
    let any = |g: &TermGen, r: &mut Rng| -> T {
        let depth = match r.below(10) {
            0..=5 => 2,
            6..=7 => 1,
            _ => 3,
        };
        match r.below(12) {
            0..=3 => g.term(r, depth),
            4..=5 => g.object(r, depth),
            6 => g.literal(r),
            7 => {
                let (l, d) = r.pick(&native);
                T::Lit(l.to_string(), d.to_string())
            }
            8..=9 => g.strict_triple(r, depth - 1),
            _ => T::Triple(Box::new([g.term(r, depth - 1), g.term(r, depth - 1), g.term(r, depth - 1)])),
        }
    };
    for i in 0..n {
        let a = any(&g, &mut ctx.rng);
        let b = match ctx.rng.below(10) {
            0 => a.clone(),
            1 => recase(&mut ctx.rng, &a),
            2..=5 => (0..6).map(|_| near(&g, &mut ctx.rng, &a)).find(well_formed).unwrap_or_else(|| a.clone()),
            _ => any(&g, &mut ctx.rng),
        };
        if !(well_formed(&a) && well_formed(&b)) {
            ctx.stats.bump("gen.skipped_not_well_formed");
            continue;
        }
        count_shape(ctx, &a);
        if a == b {
            ctx.stats.bump("pair.identical");
        } else if Term::eq(&tgen::to_simple(&a), tgen::to_simple(&b)) {
            ctx.stats.bump("pair.equal_up_to_tag_case");
        } else if kind_name(&a) == kind_name(&b) {
            ctx.stats.bump("pair.same_kind_different");
        } else {
            ctx.stats.bump("pair.cross_kind");
        }
        ctx.emit(&format!("p {} | {}", a.render(), b.render()));
        if i < 3 {
            ctx.stats.sample(format!("p {:?} | {:?}", a, b));
        }
        if i % 3 == 0 {
            ctx.emit(&format!("c {}", a.render()));
            ctx.stats.bump("req.c");
        }
        if i % 3 == 1 {
            let c = match ctx.rng.below(3) {
                0 => near(&g, &mut ctx.rng, &b),
                1 => near(&g, &mut ctx.rng, &a),
                _ => any(&g, &mut ctx.rng),
            };
            if well_formed(&c) {
                ctx.emit(&format!("t {} | {} | {}", a.render(), b.render(), c.render()));
                ctx.stats.bump("req.t");
            }
        }
        if i % 5 == 2 {
            let opt = |r: &mut Rng, t: &T| if r.chance(1, 4) { "-".to_string() } else { t.render() };
            let (x, y) = (opt(&mut ctx.rng, &a), opt(&mut ctx.rng, &b));
            ctx.emit(&format!("g {} | {}", x, y));
            ctx.stats.bump("req.g");
        }
        if let T::Iri(s) = &a {
            let cuts: Vec<usize> = s.char_indices().map(|(i, _)| i).chain([s.len()]).collect();
            let c = cuts[ctx.rng.below(cuts.len())];
            let (ns, local) = (&s[..c], &s[c..]);
            // the NsTerm denotes `a`, or `a` + "x", or has a suffix that is only a *suffix* of the other IRI's
            // remainder (ns + junk + suffix), or an empty suffix
            let (suf, other) = match ctx.rng.below(6) {
                0 => (format!("{}x", local), a.clone()),
                1 => (local.to_string(), T::Iri(format!("{}junk/{}", ns, local))),
                2 => (String::new(), a.clone()),
                3 => (local.to_string(), T::Iri(format!("{}{}{}", ns, local, local))),
                _ => (local.to_string(), a.clone()),
            };
            if well_formed(&other) && IriRef::new(ns).is_ok() && IriRef::new(format!("{}{}", ns, suf)).is_ok() {
                ctx.emit(&format!("ns {} {} | {}", hex(ns), hex(&suf), other.render()));
                ctx.emit(&format!("ns {} {} | {}", hex(ns), hex(&suf), b.render()));
                ctx.stats.add("req.ns", 2);
                if suf.is_empty() {
                    ctx.stats.bump("ns.empty_suffix");
                }
                if let T::Iri(o) = &other {
                    if o.starts_with(ns) && o.ends_with(suf.as_str()) && o.len() > ns.len() + suf.len() {
                        ctx.stats.bump("ns.prefix_and_suffix_match_but_longer");
                    }
                }
            }
        }
        // wrappers of strings
        if i % 4 == 3 {
            let (kind, pool): (&str, &Vec<String>) = match ctx.rng.below(4) {
                0 => ("iri", &g.iris),
                1 => ("bnode", &g.bnodes),
                2 => ("var", &g.vars),
                _ => ("tag", &g.tags),
            };
            let x = ctx.rng.pick(pool).clone();
            let y = match ctx.rng.below(4) {
                0 => x.clone(),
                1 => randcase(&mut ctx.rng, &x),
                2 => format!("{}x", x),
                _ => ctx.rng.pick(pool).clone(),
            };
            let ok = |s: &str| match kind {
                "iri" => IriRef::new(s).is_ok(),
                "bnode" => BnodeId::new(s).is_ok(),
                "var" => VarName::new(s).is_ok(),
                _ => LanguageTag::new(s).is_ok(),
            };
            if ok(&x) && ok(&y) {
                ctx.emit(&format!("w {} {} {}", kind, hex(&x), hex(&y)));
                ctx.stats.bump(&format!("req.w.{}", kind));
            }
        }
    }
}

fn kind_name(t: &T) -> &'static str {
    match t {
        T::Iri(_) => "iri",
        T::Bnode(_) => "bnode",
        T::Lit(..) => "lit",
        T::Lang(..) => "lang",
        T::Triple(_) => "triple",
        T::Var(_) => "var",
    }
}
fn tkind(t: &T) -> u8 {
    match t {
        T::Bnode(_) => 0,
        T::Iri(_) => 1,
        T::Lit(..) | T::Lang(..) => 2,
        T::Triple(_) => 3,
        T::Var(_) => 4,
    }
}

fn parse_terms(s: &str) -> Option<Vec<T>> {
    s.split('|').map(|part| T::parse(&mut part.split_whitespace())).collect()
}
fn parse_opt_terms(s: &str) -> Option<Vec<Option<T>>> {
    s.split('|').map(|part| if part.trim() == "-" { Some(None) } else { T::parse(&mut part.split_whitespace()).map(Some) }).collect()
}

/// the laws, on 3x3 matrices whose entries already aggregate every pair of representations
fn laws(eq: &[[char; 3]; 3], cmp: &[[char; 3]; 3], heq: &[[char; 3]; 3]) -> Vec<&'static str> {
    let mut fails = vec![];
    let rev = |c: char| match c {
        'l' => 'g',
        'g' => 'l',
        o => o,
    };
    for i in 0..3 {
        if eq[i][i] != '1' || cmp[i][i] != 'e' || heq[i][i] != '1' {
            fails.push("refl");
        }
        for j in 0..3 {
            if eq[i][j] == 'M' || cmp[i][j] == 'M' || (eq[i][j] == '1' && heq[i][j] == 'M') {
                fails.push("representation-dependent");
            }
            if eq[i][j] != eq[j][i] {
                fails.push("eq_symm");
            }
            if cmp[i][j] != rev(cmp[j][i]) {
                fails.push("cmp_swap");
            }
            if (cmp[i][j] == 'e') != (eq[i][j] == '1') {
                fails.push("cmp_eq_iff");
            }
            if eq[i][j] == '1' && heq[i][j] != '1' {
                fails.push("eq_hash");
            }
            for k in 0..3 {
                if eq[i][j] == '1' && eq[j][k] == '1' && eq[i][k] != '1' {
                    fails.push("eq_trans");
                }
                if cmp[i][j] != 'g' && cmp[j][k] != 'g' && cmp[i][k] == 'g' {
                    fails.push("cmp_trans");
                }
                if cmp[i][j] == 'l' && cmp[j][k] == 'l' && cmp[i][k] != 'l' {
                    fails.push("cmp_trans_lt");
                }
            }
        }
    }
    fails.sort();
    fails.dedup();
    fails
}

/// std impls of one string wrapper family; `$mk_ref` / `$mk_own` build the borrowed and the owning flavour
macro_rules! wrapper_family {
    ($r:expr, $a:expr, $b:expr, $ty:ident) => {{
        let (xa, xb) = ($ty::new_unchecked($a.as_str()), $ty::new_unchecked($b.as_str()));
        let (oa, ob) = ($ty::new_unchecked($a.clone()), $ty::new_unchecked($b.clone()));
        let (ba, bb) = ($ty::new_unchecked(Box::<str>::from($a.as_str())), $ty::new_unchecked(Box::<str>::from($b.as_str())));
        let who = || stringify!($ty).to_string();
        $r.weq.add(b2s(xa == xb), &who);
        $r.weq.add(b2s(oa == ob), &who);
        $r.weq.add(b2s(ba == bb), &who);
        $r.weq.add(b2s(!(xa != xb)), &who);
        $r.weq.add(b2s(xa == *$b.as_str()), &who);
        $r.weq.add(b2s(oa == *$b.as_str()), &who);
        $r.wcmp.add(ord(Ord::cmp(&xa, &xb)), &who);
        $r.wcmp.add(ord(Ord::cmp(&oa, &ob)), &who);
        $r.wcmp.add(ord(Ord::cmp(&ob, &oa).reverse()), &who);
        $r.wcmp.add(pord(PartialOrd::partial_cmp(&xa, &xb)), &who);
        $r.wcmp.add(pord(PartialOrd::partial_cmp(&ba, &bb)), &who);
        $r.wcmp.add(pord(PartialOrd::partial_cmp(&xa, $b.as_str())), &who);
        $r.wheq.add(b2s(sh(&xa) == sh(&xb)), &who);
        $r.wheq.add(b2s(sh(&oa) == sh(&ob)), &who);
        $r.wheq.add(b2s(sh(&xa) == sh(&ob)), &who);
        $r.wheq.add(b2s(sh(&ba) == sh(&xb)), &who);
        // Borrow<str> contract: the wrapper hashes like the string it wraps
        $r.wborrow.add(b2s(sh(&xa) == sh(&$a.as_str()) && sh(&ob) == sh(&$b.as_str())), &who);
    }};
}
#[derive(Default)]
struct WRes {
    weq: Agg,
    wcmp: Agg,
    wheq: Agg,
    wborrow: Agg,
}

pub fn exec(line: &str) -> String {
    let (op, rest) = line.split_once(' ').unwrap_or((line, ""));
    match op {
        "p" => {
            let Some(ts) = parse_terms(rest) else { return "bad-op".into() };
            if ts.len() != 2 {
                return "bad-op".into();
            }
            let (a, b) = (&ts[0], &ts[1]);
            if !(grammar_ok(a) && grammar_ok(b)) {
                return "skip=not-well-formed".into();
            }
            // an untagged rdf:langString literal is outside the property's quantifier (the theorems' `WF` guard):
            // the values are still reported and compared with the model, but nothing is demanded of them
            let wf = rdf_wf(a) && rdf_wf(b);
            let m = matrix(a, b);
            let s = std_traits(a, b);
            let xk = if tkind(a) != tkind(b) { m.cmp.get() } else { "-".into() };
            let mut out = format!(
                "eq={} cmp={} heq={} hfx={} hseq={} cmpeq={} xk={} sym={} swap={} pairs={} seq={} scmp={} scmpeq={} sheq={} shx={} spairs={}",
                m.eq.get(),
                m.cmp.get(),
                m.heq.get(),
                m.hfx.get(),
                m.hseq.get(),
                m.cmp.is_eq(),
                xk,
                m.sym.get(),
                m.swap.get(),
                m.pairs,
                s.seq.get(),
                s.scmp.get(),
                s.scmp.is_eq(),
                s.sheq.get(),
                s.shx.get(),
                s.n
            );
            if !wf {
                return out + " nonwf=1";
            }
            // "never on the Rust type holding it": the answers must not depend on the representation
            let mixed: Vec<&str> = [("eq", &m.eq), ("cmp", &m.cmp), ("seq", &s.seq), ("scmp", &s.scmp)]
                .iter()
                .filter(|(_, a)| a.mixed())
                .map(|(n, _)| *n)
                .collect();
            if !mixed.is_empty() {
                out += &format!(" FAIL.representation_dependent={}", mixed.join(","));
            }
            if m.eq.get() == "1" && m.heq.get() != "1" {
                out += " FAIL.eq_not_hash=1";
            }
            if s.seq.get() == "1" && s.sheq.get() != "1" {
                out += " FAIL.std_eq_not_hash=1";
            }
            // equal terms must feed the SAME call sequence to any hasher (the model's `eq_hash`), whatever
            // the representations: otherwise a hasher that is not byte-streaming tells them apart
            if m.eq.get() == "1" && m.hseq.get() != "1" {
                out += &format!(" FAIL.hash_sequence_differs={}", m.hseq.get());
            }
            if m.eq.get() == "1" && m.hfx.get() != "1" {
                out += " FAIL.eq_not_hash_fx=1";
            }
            if m.sym.get() != "1" {
                out += " FAIL.eq_not_symmetric=1";
            }
            if m.swap.get() != "1" {
                out += " FAIL.cmp_not_antisymmetric=1";
            }
            out
        }
        "c" => {
            let Some(ts) = parse_terms(rest) else { return "bad-op".into() };
            if ts.len() != 1 {
                return "bad-op".into();
            }
            if !well_formed(&ts[0]) {
                return "skip=not-well-formed".into();
            }
            let mut c = Conv { seqs: Agg::default(), t: &ts[0], bad: vec![], inexact: vec![], n: 0 };
            with_reprs(&ts[0], &mut c);
            let exact = if c.inexact.is_empty() { "1".to_string() } else { format!("0({})", c.inexact.join(",")) };
            let mut out = if c.bad.is_empty() {
                format!("conv=ok exact={} paths={}", exact, c.n)
            } else {
                format!("conv=bad exact={} FAIL.conversion={}", exact, c.bad.join(","))
            };
            // the call sequence every representation of this one term feeds to a hasher (= the model's termHash)
            out += &format!(" hashseq={}", c.seqs.get());
            if c.seqs.mixed() {
                out += " FAIL.hash_sequence_differs=1";
            }
            out
        }
        "t" => {
            let Some(ts) = parse_terms(rest) else { return "bad-op".into() };
            if ts.len() != 3 {
                return "bad-op".into();
            }
            if !ts.iter().all(grammar_ok) {
                return "skip=not-well-formed".into();
            }
            let wf = ts.iter().all(rdf_wf);
            let mut eq = [['?'; 3]; 3];
            let mut cmp = [['?'; 3]; 3];
            let mut heq = [['?'; 3]; 3];
            let mut detail = vec![];
            for i in 0..3 {
                for j in 0..3 {
                    let m = matrix(&ts[i], &ts[j]);
                    eq[i][j] = m.eq.ch();
                    cmp[i][j] = m.cmp.ch();
                    heq[i][j] = m.heq.ch();
                    for (n, a) in [("eq", &m.eq), ("cmp", &m.cmp)] {
                        if a.mixed() {
                            detail.push(format!("{}[{}][{}]={}", n, i, j, a.get()));
                        }
                    }
                }
            }
            let flat = |m: &[[char; 3]; 3]| m.iter().flat_map(|r| r.iter()).collect::<String>();
            let fails = laws(&eq, &cmp, &heq);
            let mut out = format!("meq={} mcmp={} mheq={}", flat(&eq), flat(&cmp), flat(&heq));
            if !wf {
                // outside the quantifier: which laws the ill-formed terms break is reported, not demanded
                out += &format!(" laws=nonwf broken={}", if fails.is_empty() { "-".to_string() } else { fails.join(",") });
            } else if fails.is_empty() {
                out += " laws=ok";
            } else {
                out += &format!(" laws=bad FAIL.laws={}", fails.join(","));
                if !detail.is_empty() {
                    out += &format!(" detail={}", detail.join(";"));
                }
            }
            out
        }
        "ns" => {
            let Some((head, tail)) = rest.split_once('|') else { return "bad-op".into() };
            let hs: Vec<&str> = head.split_whitespace().collect();
            if hs.len() != 2 {
                return "bad-op".into();
            }
            let (Some(ns), Some(suf)) = (unhex(hs[0]), unhex(hs[1])) else { return "bad-hex".into() };
            let Some(b) = T::parse(&mut tail.split_whitespace()) else { return "bad-op".into() };
            if !well_formed(&b) || IriRef::new(ns.as_str()).is_err() || IriRef::new(format!("{}{}", ns, suf)).is_err() {
                return "skip=not-well-formed".into();
            }
            let nsp = Namespace::new_unchecked(ns.as_str());
            let t = nsp.get_unchecked(&suf);
            // the hand-written override, called on the NsTerm as receiver, against every representation of b
            struct NsV<'a> {
                t: sophia_api::ns::NsTerm<'a>,
                eq: Agg,
                rev: Agg,
                cmp: Agg,
                heq: Agg,
                hseq: Agg,
            }
            impl Visitor for NsV<'_> {
                fn visit<Y: Term + std::fmt::Debug>(&mut self, name: &'static str, y: Y) {
                    let who = || name.to_string();
                    self.eq.add(b2s(Term::eq(&self.t, y.borrow_term())), &who);
                    self.eq.add(b2s(self.t == y), &who);
                    self.rev.add(b2s(Term::eq(&y, self.t)), &who);
                    self.cmp.add(ord(Term::cmp(&self.t, y.borrow_term())), &who);
                    self.heq.add(b2s(h(&self.t) == h(&y)), &who);
                    self.hseq.add(b2s(rec(&self.t) == rec(&y) && fx(&self.t) == fx(&y)), &who);
                }
            }
            let mut v = NsV { t, eq: Agg::default(), rev: Agg::default(), cmp: Agg::default(), heq: Agg::default(), hseq: Agg::default() };
            with_reprs(&b, &mut v);
            let mut out = format!("nseq={} nseq_rev={} nscmp={} nsheq={} nshseq={}", v.eq.get(), v.rev.get(), v.cmp.get(), v.heq.get(), v.hseq.get());
            if v.eq.get() == "1" && v.hseq.get() != "1" {
                out += " FAIL.hash_sequence_differs=1";
            }
            if v.eq.get() == "1" && v.heq.get() != "1" {
                out += " FAIL.eq_not_hash=1";
            }
            if v.eq.get() != v.rev.get() {
                out += " FAIL.eq_symm=1";
            }
            out
        }
        "w" => {
            let f: Vec<&str> = rest.split_whitespace().collect();
            if f.len() != 3 {
                return "bad-op".into();
            }
            let (Some(a), Some(b)) = (unhex(f[1]), unhex(f[2])) else { return "bad-hex".into() };
            let mut r = WRes::default();
            match f[0] {
                "iri" => {
                    if IriRef::new(a.as_str()).is_err() || IriRef::new(b.as_str()).is_err() {
                        return "skip=not-well-formed".into();
                    }
                    wrapper_family!(r, a, b, IriRef);
                    if sophia_iri::is_absolute_iri_ref(&a) && sophia_iri::is_absolute_iri_ref(&b) {
                        use sophia_iri::Iri;
                        wrapper_family!(r, a, b, Iri);
                    }
                }
                "bnode" => {
                    if BnodeId::new(a.as_str()).is_err() || BnodeId::new(b.as_str()).is_err() {
                        return "skip=not-well-formed".into();
                    }
                    wrapper_family!(r, a, b, BnodeId);
                }
                "var" => {
                    if VarName::new(a.as_str()).is_err() || VarName::new(b.as_str()).is_err() {
                        return "skip=not-well-formed".into();
                    }
                    wrapper_family!(r, a, b, VarName);
                }
                "tag" => {
                    if LanguageTag::new(a.as_str()).is_err() || LanguageTag::new(b.as_str()).is_err() {
                        return "skip=not-well-formed".into();
                    }
                    let (xa, xb) = (LanguageTag::new_unchecked(a.as_str()), LanguageTag::new_unchecked(b.as_str()));
                    let (oa, ob) = (LanguageTag::new_unchecked(a.clone()), LanguageTag::new_unchecked(b.clone()));
                    let who = || "LanguageTag".to_string();
                    r.weq.add(b2s(xa == xb), &who);
                    r.weq.add(b2s(oa == ob), &who);
                    r.weq.add(b2s(xa == ob), &who);
                    r.weq.add(b2s(!(oa != xb)), &who);
                    r.weq.add(b2s(xa == *b.as_str()), &who);
                    r.wcmp.add(ord(Ord::cmp(&xa, &xb)), &who);
                    r.wcmp.add(ord(Ord::cmp(&oa, &ob)), &who);
                    r.wcmp.add(ord(Ord::cmp(&ob, &oa).reverse()), &who);
                    r.wcmp.add(pord(PartialOrd::partial_cmp(&xa, &xb)), &who);
                    r.wcmp.add(pord(PartialOrd::partial_cmp(&oa, b.as_str())), &who);
                    r.wheq.add(b2s(sh(&xa) == sh(&xb)), &who);
                    r.wheq.add(b2s(sh(&oa) == sh(&ob)), &who);
                    r.wheq.add(b2s(sh(&xa) == sh(&ob)), &who);
                }
                _ => return "bad-op".into(),
            }
            let mut out = format!("weq={} wcmp={} wcmpeq={} wheq={} wborrow={}", r.weq.get(), r.wcmp.get(), r.wcmp.is_eq(), r.wheq.get(), r.wborrow.get());
            if r.weq.get() == "1" && r.wheq.get() != "1" {
                out += " FAIL.eq_not_hash=1";
            }
            out
        }
        "g" => {
            let Some(ts) = parse_opt_terms(rest) else { return "bad-op".into() };
            if ts.len() != 2 {
                return "bad-op".into();
            }
            if !ts.iter().flatten().all(well_formed) {
                return "skip=not-well-formed".into();
            }
            let sa = ts[0].as_ref().map(tgen::to_simple);
            let sb = ts[1].as_ref().map(tgen::to_simple);
            let aa = sa.as_ref().map(|t| ArcTerm::from_term(t.borrow_term()));
            let ab = sb.as_ref().map(|t| ArcTerm::from_term(t.borrow_term()));
            let mut r = Agg::default();
            let who = || "graph_name_eq".to_string();
            r.add(b2s(graph_name_eq(sa.as_ref(), sb.as_ref())), &who);
            r.add(b2s(graph_name_eq(sb.as_ref(), sa.as_ref())), &who);
            r.add(b2s(graph_name_eq(aa.as_ref(), sb.as_ref())), &who);
            r.add(b2s(graph_name_eq(sa.as_ref(), ab.clone())), &who);
            r.add(b2s(graph_name_eq(aa.as_ref().map(CmpTerm), ab.as_ref())), &who);
            format!("gneq={}", r.get())
        }
        _ => "bad-op".into(),
    }
}

fn main() {
    vhcore::main_loop(generate, exec);
}
