//! C02 — term equality / hashing / ordering across every shipped `Term` implementation.
//!
//! requests:
//!   p <A> | <B>          eq / cmp / hash agreement over all ordered pairs of representations
//!   c <A>                every conversion path preserves the term (view through accessors)
//!   t <A> | <B> | <C>    law check on a triple of terms (implementation-side oracle)
//!   ns <hexns> <hexsuffix> | <B>   NsTerm's hand-written eq vs the default
use sophia_api::ns::Namespace;
use sophia_api::term::{
    BnodeId, CmpTerm, FromTerm, IriRef, LanguageTag, SimpleTerm, Term, TermKind, TryFromTerm, VarName,
};
use sophia_rio::model::Trusted;
use sophia_sparql::ResultTerm;
use sophia_term::{ArcStrStash, ArcTerm, GenericLiteral, RcTerm};
use std::cmp::Ordering;
use std::hash::{DefaultHasher, Hasher};
use vhcore::tgen::{self, TermGen};
use vhcore::util::*;
use vhcore::GenCtx;

trait Visitor {
    fn visit<X: Term + std::fmt::Debug>(&mut self, name: &'static str, x: X);
}

/// call `v` with every representation of `t` that can hold it
fn with_reprs<V: Visitor>(t: &T, v: &mut V) {
    let owned: SimpleTerm<'static> = tgen::to_simple(t);
    v.visit("simple_owned", owned.clone());
    v.visit("simple_ref", &owned);
    v.visit("simple_borrowed", SimpleTerm::from_term_ref(&owned));
    v.visit("as_simple", owned.as_simple());
    v.visit("cmp_term", CmpTerm(owned.clone()));
    v.visit("arc_term", ArcTerm::from_term(owned.borrow_term()));
    v.visit("rc_term", RcTerm::from_term(owned.borrow_term()));
    let mut stash = ArcStrStash::new();
    v.visit("stash_copy", stash.copy_term(owned.borrow_term()));
    v.visit("result_term", ResultTerm::from(ArcTerm::from_term(owned.borrow_term())));
    v.visit("option_some", &owned); // graph-name position is Option<T>; the term inside is the same impl
    match t {
        T::Iri(s) => {
            v.visit("iriref_str", IriRef::new_unchecked(s.as_str()));
            v.visit("iriref_string", IriRef::new_unchecked(s.clone()));
            if sophia_iri::is_absolute_iri_ref(s) {
                v.visit("iri_str", sophia_iri::Iri::new_unchecked(s.as_str()));
            }
            // every split point at a char boundary gives an NsTerm
            let cuts: Vec<usize> = s.char_indices().map(|(i, _)| i).chain([s.len()]).collect();
            for &c in [cuts[0], cuts[cuts.len() / 2], cuts[cuts.len() - 1]].iter() {
                let ns = Namespace::new_unchecked(&s[..c]);
                v.visit("ns_term", ns.get_unchecked(&s[c..]));
            }
            v.visit("rio_named", Trusted(rio_api::model::NamedNode { iri: s.as_str() }));
        }
        T::Bnode(s) => {
            v.visit("bnode_id", BnodeId::new_unchecked(s.as_str()));
            v.visit("rio_blank", Trusted(rio_api::model::BlankNode { id: s.as_str() }));
        }
        T::Var(s) => {
            v.visit("var_name", VarName::new_unchecked(s.as_str()));
            v.visit("rio_var", Trusted(rio_api::model::Variable { name: s.as_str() }));
        }
        T::Lit(l, d) => {
            v.visit("generic_literal", GenericLiteral::Typed(l.as_str(), IriRef::new_unchecked(d.as_str())));
            if d == "http://www.w3.org/2001/XMLSchema#string" {
                v.visit("native_str", l.as_str());
                v.visit("rio_simple", Trusted(rio_api::model::Literal::Simple { value: l.as_str() }));
            }
            v.visit(
                "rio_typed",
                Trusted(rio_api::model::Literal::Typed { value: l.as_str(), datatype: rio_api::model::NamedNode { iri: d.as_str() } }),
            );
            if d == "http://www.w3.org/2001/XMLSchema#integer" {
                if let Ok(n) = l.parse::<i32>() {
                    if n.to_string() == *l {
                        v.visit("native_i32", n);
                        v.visit("native_isize", n as isize);
                        if n >= 0 {
                            v.visit("native_usize", n as usize);
                        }
                    }
                }
            }
            if d == "http://www.w3.org/2001/XMLSchema#boolean" && (l == "true" || l == "false") {
                v.visit("native_bool", l == "true");
            }
        }
        T::Lang(l, tag) => {
            v.visit(
                "generic_lang",
                GenericLiteral::LanguageString(l.as_str(), LanguageTag::new_unchecked(tag.as_str())),
            );
            v.visit("str_times_tag", l.as_str() * LanguageTag::new_unchecked(tag.as_str()));
            v.visit(
                "rio_lang",
                Trusted(rio_api::model::Literal::LanguageTaggedString { value: l.as_str(), language: tag.as_str() }),
            );
        }
        T::Triple(_) => {
            let [s, p, o] = owned.to_triple().unwrap();
            v.visit("array3", SimpleTerm::Triple(Box::new([s, p, o])));
        }
    }
}

fn h<X: Term>(x: &X) -> u64 {
    let mut s = DefaultHasher::new();
    Term::hash(x, &mut s);
    s.finish()
}

#[derive(Default)]
struct Agg {
    vals: std::collections::BTreeSet<String>,
    who: Vec<String>,
}
impl Agg {
    fn add(&mut self, v: String, who: String) {
        if self.vals.insert(v.clone()) {
            self.who.push(format!("{}:{}", who, v));
        }
    }
    fn get(&self) -> String {
        if self.vals.len() == 1 { self.vals.iter().next().unwrap().clone() } else { format!("MIXED({})", self.who.join(",")) }
    }
}

struct Inner<'a, X> {
    x: &'a X,
    xname: &'static str,
    eq: &'a mut Agg,
    cmp: &'a mut Agg,
    heq: &'a mut Agg,
    pairs: &'a mut u64,
}
impl<X: Term> Visitor for Inner<'_, X> {
    fn visit<Y: Term + std::fmt::Debug>(&mut self, name: &'static str, y: Y) {
        let who = format!("{}/{}", self.xname, name);
        *self.pairs += 1;
        self.eq.add((Term::eq(self.x, y.borrow_term()) as u8).to_string(), who.clone());
        let c = match Term::cmp(self.x, y.borrow_term()) {
            Ordering::Less => "lt",
            Ordering::Equal => "eq",
            Ordering::Greater => "gt",
        };
        self.cmp.add(c.to_string(), who.clone());
        self.heq.add(((h(self.x) == h(&y)) as u8).to_string(), who);
    }
}
struct Outer<'a> {
    b: &'a T,
    eq: Agg,
    cmp: Agg,
    heq: Agg,
    pairs: u64,
}
impl Visitor for Outer<'_> {
    fn visit<X: Term + std::fmt::Debug>(&mut self, name: &'static str, x: X) {
        let mut inner = Inner { x: &x, xname: name, eq: &mut self.eq, cmp: &mut self.cmp, heq: &mut self.heq, pairs: &mut self.pairs };
        with_reprs(self.b, &mut inner);
    }
}

/// std trait impls that re-implement eq/ord/hash by hand
fn std_traits(a: &T, b: &T) -> Vec<String> {
    let mut fails = vec![];
    let (sa, sb) = (tgen::to_simple(a), tgen::to_simple(b));
    let e = Term::eq(&sa, &sb);
    let c = Term::cmp(&sa, &sb);
    if (sa == sb) != e {
        fails.push("SimpleTerm::PartialEq".to_string());
    }
    let (ca, cb) = (CmpTerm(sa.clone()), CmpTerm(sb.clone()));
    if (ca == cb) != e || Ord::cmp(&ca, &cb) != c || ca.partial_cmp(&cb) != Some(c) {
        fails.push("CmpTerm::Eq/Ord".to_string());
    }
    let (aa, ab) = (ArcTerm::from_term(sa.borrow_term()), ArcTerm::from_term(sb.borrow_term()));
    if (aa == ab) != e || Ord::cmp(&aa, &ab) != c {
        fails.push("ArcTerm::Eq/Ord".to_string());
    }
    let (ra, rb) = (RcTerm::from_term(sa.borrow_term()), RcTerm::from_term(sb.borrow_term()));
    if (ra == rb) != e || Ord::cmp(&ra, &rb) != c {
        fails.push("RcTerm::Eq/Ord".to_string());
    }
    let hh = |x: &dyn Fn(&mut DefaultHasher)| {
        let mut s = DefaultHasher::new();
        x(&mut s);
        s.finish()
    };
    use std::hash::Hash;
    if e {
        if hh(&|s| Hash::hash(&sa, s)) != hh(&|s| Hash::hash(&sb, s)) {
            fails.push("SimpleTerm::Hash".to_string());
        }
        if hh(&|s| Hash::hash(&ca, s)) != hh(&|s| Hash::hash(&cb, s)) {
            fails.push("CmpTerm::Hash".to_string());
        }
        if hh(&|s| Hash::hash(&aa, s)) != hh(&|s| Hash::hash(&ab, s)) {
            fails.push("ArcTerm::Hash".to_string());
        }
    }
    let (qa, qb) = (ResultTerm::from(aa.clone()), ResultTerm::from(ab.clone()));
    if (qa == qb) != e {
        fails.push("ResultTerm::PartialEq".to_string());
    }
    fails
}

struct Conv<'a> {
    t: &'a T,
    bad: Vec<String>,
    n: u64,
}
impl Visitor for Conv<'_> {
    fn visit<X: Term + std::fmt::Debug>(&mut self, name: &'static str, x: X) {
        let mut chk = |path: &str, got: T| {
            self.n += 1;
            // conversions must yield an *equal* term: compare up to tag case
            let same = Term::eq(&tgen::to_simple(&got), tgen::to_simple(self.t));
            if !same {
                self.bad.push(format!("{}.{}", name, path));
            }
        };
        chk("view", tgen::view(x.borrow_term()));
        chk("into_term<SimpleTerm>", tgen::view(x.borrow_term().into_term::<SimpleTerm>()));
        chk("from_term_ref", tgen::view(SimpleTerm::from_term_ref(&x)));
        chk("as_simple", tgen::view(x.as_simple()));
        chk("ArcTerm::from_term", tgen::view(ArcTerm::from_term(x.borrow_term())));
        chk("RcTerm::from_term", tgen::view(RcTerm::from_term(x.borrow_term())));
        chk("try_into_term<SimpleTerm>", tgen::view(x.borrow_term().try_into_term::<SimpleTerm>().unwrap()));
        let mut st = ArcStrStash::new();
        chk("stash.copy_term", tgen::view(st.copy_term(x.borrow_term())));
        match x.kind() {
            TermKind::Iri => chk("iri()", T::Iri(x.iri().unwrap().as_str().to_string())),
            TermKind::BlankNode => chk("bnode_id()", T::Bnode(x.bnode_id().unwrap().as_str().to_string())),
            TermKind::Variable => chk("variable()", T::Var(x.variable().unwrap().as_str().to_string())),
            TermKind::Literal => {
                if let Ok(i) = GenericLiteral::<Box<str>>::try_from_term(x.borrow_term()) {
                    chk("GenericLiteral::try_from_term", tgen::view(i));
                } else {
                    self.bad.push(format!("{}.GenericLiteral::try_from_term:err", name));
                }
            }
            TermKind::Triple => {}
        }
    }
}

pub fn generate(ctx: &mut GenCtx) {
    let mut g = TermGen::default();
    g.datatypes.push("http://www.w3.org/2001/XMLSchema#boolean".into());
    g.lexicals.extend(["true".to_string(), "-7".to_string(), "\u{7f}".into(), "\u{80}".into(), "\u{7ff}".into(), "\u{800}".into(), "\u{ffff}".into()]);
    g.iris.extend(["http://ex.org/\u{7ff}".to_string(), "http://ex.org/\u{800}".to_string(), "http://ex.org/\u{10000}".to_string(), "http://ex.org/\u{ffef}".to_string()]);
    let n = if ctx.thorough { 30000 } else { 3000 };
    let near = |g: &TermGen, r: &mut Rng, a: &T| -> T {
        // differ in exactly one component (tag case, datatype, one nested atom) or be equal
        match a {
            T::Lang(l, t) => match r.below(3) {
                0 => T::Lang(l.clone(), if r.chance(1, 2) { t.to_uppercase() } else { t.to_lowercase() }),
                1 => T::Lang(r.pick(&g.lexicals).clone(), t.clone()),
                _ => T::Lit(l.clone(), r.pick(&g.datatypes).clone()),
            },
            T::Lit(l, d) => match r.below(3) {
                0 => T::Lit(l.clone(), r.pick(&g.datatypes).clone()),
                1 => T::Lit(r.pick(&g.lexicals).clone(), d.clone()),
                _ => T::Lang(l.clone(), r.pick(&g.tags).clone()),
            },
            T::Triple(b) => {
                let mut c = b.clone();
                let i = r.below(3);
                c[i] = g.term(r, 1);
                T::Triple(c)
            }
            T::Iri(s) => match r.below(3) {
                0 => T::Bnode("b0".into()),
                1 => T::Var("v".into()),
                _ => T::Iri(format!("{}x", s)),
            },
            other => other.clone(),
        }
    };
    for i in 0..n {
        let a = g.term(&mut ctx.rng, 2);
        let b = match ctx.rng.below(10) {
            0..=1 => a.clone(),
            2..=4 => near(&g, &mut ctx.rng, &a),
            _ => g.term(&mut ctx.rng, 2),
        };
        ctx.stats.bump(&format!("kindA.{}", kind_name(&a)));
        if a == b {
            ctx.stats.bump("pair.identical");
        }
        ctx.emit(&format!("p {} | {}", a.render(), b.render()));
        if i < 3 {
            ctx.stats.sample(format!("p {:?} | {:?}", a, b));
        }
        if i % 3 == 0 {
            ctx.emit(&format!("c {}", a.render()));
        }
        if i % 3 == 1 {
            let c = if ctx.rng.chance(1, 2) { near(&g, &mut ctx.rng, &b) } else { g.term(&mut ctx.rng, 2) };
            ctx.emit(&format!("t {} | {} | {}", a.render(), b.render(), c.render()));
        }
        if let T::Iri(s) = &a {
            if i % 2 == 0 {
                let cuts: Vec<usize> = s.char_indices().map(|(i, _)| i).chain([s.len()]).collect();
                let c = cuts[ctx.rng.below(cuts.len())];
                // suffix may also be a *different* one
                let suf = if ctx.rng.chance(1, 3) { format!("{}x", &s[c..]) } else { s[c..].to_string() };
                ctx.emit(&format!("ns {} {} | {}", hex(&s[..c]), hex(&suf), b.render()));
                ctx.emit(&format!("ns {} {} | {}", hex(&s[..c]), hex(&suf), a.render()));
            }
        }
    }
}

fn kind_name(t: &T) -> &'static str {
    match t {
        T::Iri(_) => "iri",
        T::Bnode(_) => "bnode",
        T::Lit(..) => "lit",
        T::Lang(..) => "lang",
        T::Triple(_) => "triple",
        T::Var(_) => "var",
    }
}

fn parse_terms(s: &str) -> Option<Vec<T>> {
    s.split('|').map(|part| T::parse(&mut part.split_whitespace())).collect()
}

pub fn exec(line: &str) -> String {
    let (op, rest) = line.split_once(' ').unwrap_or((line, ""));
    match op {
        "p" => {
            let Some(ts) = parse_terms(rest) else { return "bad-op".into() };
            let (a, b) = (&ts[0], &ts[1]);
            let mut o = Outer { b, eq: Agg::default(), cmp: Agg::default(), heq: Agg::default(), pairs: 0 };
            with_reprs(a, &mut o);
            let fails = std_traits(a, b);
            let mut out = format!("eq={} cmp={} heq={} pairs={}", o.eq.get(), o.cmp.get(), o.heq.get(), o.pairs);
            if !fails.is_empty() {
                out += &format!(" FAIL.std_traits={}", fails.join(","));
            }
            if o.eq.get() == "1" && o.heq.get() != "1" {
                out += " FAIL.eq_not_hash=1";
            }
            out
        }
        "c" => {
            let Some(ts) = parse_terms(rest) else { return "bad-op".into() };
            let mut c = Conv { t: &ts[0], bad: vec![], n: 0 };
            with_reprs(&ts[0], &mut c);
            if c.bad.is_empty() { format!("conv=ok paths={}", c.n) } else { format!("conv=bad FAIL.conversion={}", c.bad.join(",")) }
        }
        "t" => {
            let Some(ts) = parse_terms(rest) else { return "bad-op".into() };
            let s: Vec<SimpleTerm> = ts.iter().map(tgen::to_simple).collect();
            let mut fails = vec![];
            let e = |i: usize, j: usize| Term::eq(&s[i], &s[j]);
            let c = |i: usize, j: usize| Term::cmp(&s[i], &s[j]);
            for i in 0..3 {
                if !e(i, i) || c(i, i) != Ordering::Equal {
                    fails.push("refl");
                }
                for j in 0..3 {
                    if e(i, j) != e(j, i) {
                        fails.push("eq_symm");
                    }
                    if c(i, j) != c(j, i).reverse() {
                        fails.push("cmp_swap");
                    }
                    if (c(i, j) == Ordering::Equal) != e(i, j) {
                        fails.push("cmp_eq_iff");
                    }
                    for k in 0..3 {
                        if e(i, j) && e(j, k) && !e(i, k) {
                            fails.push("eq_trans");
                        }
                        if c(i, j) != Ordering::Greater && c(j, k) != Ordering::Greater && c(i, k) == Ordering::Greater {
                            fails.push("cmp_trans");
                        }
                    }
                }
            }
            fails.sort();
            fails.dedup();
            if fails.is_empty() { "laws=ok".into() } else { format!("laws=bad FAIL.laws={}", fails.join(",")) }
        }
        "ns" => {
            let Some((head, tail)) = rest.split_once('|') else { return "bad-op".into() };
            let hs: Vec<&str> = head.split_whitespace().collect();
            let (Some(ns), Some(suf)) = (unhex(hs[0]), unhex(hs[1])) else { return "bad-hex".into() };
            let Some(b) = T::parse(&mut tail.split_whitespace()) else { return "bad-op".into() };
            let nsp = Namespace::new_unchecked(ns.as_str());
            let t = nsp.get_unchecked(&suf);
            let sb = tgen::to_simple(&b);
            let mut out = format!("nseq={}", Term::eq(&t, &sb) as u8);
            // symmetric call goes through the default impl
            out += &format!(" nseq_rev={}", Term::eq(&sb, &t) as u8);
            out += &format!(" nscmp={}", match Term::cmp(&t, &sb) { Ordering::Less => "lt", Ordering::Equal => "eq", Ordering::Greater => "gt" });
            out
        }
        _ => "bad-op".into(),
    }
}

fn main() {
    vhcore::main_loop(generate, exec);
}
