//! Shared by vh-c05 and vh-c06 (the file is kept identical in both crates: harness/props/c06/src/common.rs
//! is a copy).  Request format (one line):
//!
//!   n <sha256|sha384> <depth factor as f32 bits, 8 hex digits> <permutation limit> <container> <seed> <quad> | <quad> | ...
//!   h <sha256|sha384> <hex data>
//!
//! `exec` runs the REAL `rdfc10::normalize* / relabel*` on the dataset built in the requested container.
use sophia_api::dataset::{DResult, Dataset, MutableDataset, SetDataset};
use sophia_api::quad::{Quad, Spog};
use sophia_api::source::QuadSource;
use sophia_api::term::SimpleTerm;
use sophia_api::parser::QuadParser;
use sophia_c14n::hash::{HashFunction, Sha256, Sha384};
use sophia_c14n::rdfc10;
use sophia_c14n::C14nError;
use std::collections::{BTreeMap, BTreeSet, HashSet};
use vhcore::tgen::{q_to_simple, view_quad};
use vhcore::util::*;

pub type SQ = Spog<SimpleTerm<'static>>;

/// a `SetDataset` whose iteration order is exactly the order given (user-defined dataset implementation)
pub struct OrdDs(pub Vec<SQ>);

impl Dataset for OrdDs {
    type Quad<'x> = <Vec<SQ> as Dataset>::Quad<'x>;
    type Error = <Vec<SQ> as Dataset>::Error;
    fn quads(&self) -> impl Iterator<Item = DResult<Self, Self::Quad<'_>>> + '_ {
        self.0.quads()
    }
}
impl SetDataset for OrdDs {}

pub const CONTAINERS: &[&str] = &["ord", "ord", "ord", "hashset", "btreeset", "light", "fast"];

#[derive(Clone, Debug)]
pub struct Req {
    pub hash: String,
    pub df: f32,
    pub pl: usize,
    pub cont: String,
    pub seed: u64,
    pub quads: Vec<Q>,
}

impl Req {
    pub fn render(&self) -> String {
        let qs: Vec<String> = self.quads.iter().map(|q| q.render()).collect();
        format!("n {} {:08x} {} {} {} {}", self.hash, self.df.to_bits(), self.pl, self.cont, self.seed, qs.join(" | "))
    }
    pub fn parse(line: &str) -> Option<Req> {
        let mut it = line.split_whitespace();
        if it.next()? != "n" {
            return None;
        }
        let hash = it.next()?.to_string();
        let df = f32::from_bits(u32::from_str_radix(it.next()?, 16).ok()?);
        let pl = it.next()?.parse().ok()?;
        let cont = it.next()?.to_string();
        let seed = it.next()?.parse().ok()?;
        let rest: Vec<&str> = it.collect();
        let mut quads = vec![];
        if !rest.is_empty() {
            for grp in rest.split(|t| *t == "|") {
                let mut pk = grp.iter().copied().peekable();
                let q = Q::parse(&mut pk)?;
                if pk.next().is_some() {
                    return None;
                }
                quads.push(q);
            }
        }
        Some(Req { hash, df, pl, cont, seed, quads })
    }
}

#[derive(Clone, Debug, Default, PartialEq, Eq)]
pub struct Outcome {
    pub out: Option<String>,
    pub err: Option<String>,
    /// original label -> canonical label
    pub map: BTreeMap<String, String>,
    /// quads returned by relabel*, as abstract quads
    pub rq: Vec<Q>,
    pub fails: Vec<(String, String)>,
}

fn err_kind<E: std::error::Error + Send + Sync + 'static>(e: &C14nError<E>) -> String {
    match e {
        C14nError::ToxicGraph(m) if m.starts_with("too many recursions") => "toxic.depth".into(),
        C14nError::ToxicGraph(m) if m.starts_with("Too many permutations") => "toxic.perms".into(),
        C14nError::ToxicGraph(_) => "toxic.other".into(),
        C14nError::Unsupported(_) => "unsupported".into(),
        C14nError::Dataset(_) => "dataset".into(),
        C14nError::Io(_) => "io".into(),
    }
}

fn run_h<H: HashFunction, D: SetDataset>(d: &D, df: f32, pl: usize, defaults: Option<bool>) -> Outcome {
    let mut o = Outcome::default();
    let mut buf = Vec::<u8>::new();
    let r = rdfc10::normalize_with::<H, _, _>(d, &mut buf, df, pl);
    match r {
        Ok(()) => o.out = Some(String::from_utf8(buf).unwrap_or_else(|_| "<invalid utf-8>".into())),
        Err(e) => o.err = Some(err_kind(&e)),
    }
    match rdfc10::relabel_with::<H, D>(d, df, pl) {
        Ok((quads, map)) => {
            if o.err.is_some() {
                o.fails.push(("inconsistent_err".into(), "relabel_ok".into()));
            }
            for (k, v) in map.iter() {
                o.map.insert(k.to_string(), v.as_str().to_string());
            }
            o.rq = quads.iter().map(|q| view_quad(q.spog())).collect();
        }
        Err(e) => {
            let k = err_kind(&e);
            if o.err.as_deref() != Some(k.as_str()) {
                o.fails.push(("inconsistent_err".into(), k));
            }
        }
    }
    // the convenience entry points must be the same function at the default parameters
    if let Some(is384) = defaults {
        let mut b2 = Vec::<u8>::new();
        let r2 = if is384 { rdfc10::normalize_sha384(d, &mut b2) } else { rdfc10::normalize(d, &mut b2) };
        let same = match (&r2, &o.out) {
            (Ok(()), Some(s)) => s.as_bytes() == &b2[..],
            (Err(e), None) => Some(err_kind(e)) == o.err,
            _ => false,
        };
        if !same {
            o.fails.push(("default_entry_point".into(), "normalize".into()));
        }
        let m2 = if is384 { rdfc10::relabel_sha384(d).map(|x| x.1) } else { rdfc10::relabel(d).map(|x| x.1) };
        let same = match (&m2, &o.err) {
            (Ok(m), None) => m.iter().map(|(k, v)| (k.to_string(), v.as_str().to_string())).collect::<BTreeMap<_, _>>() == o.map,
            (Err(e), Some(k)) => &err_kind(e) == k,
            _ => false,
        };
        if !same {
            o.fails.push(("default_entry_point".into(), "relabel".into()));
        }
    }
    o
}

fn run_d<D: SetDataset>(d: &D, hash: &str, df: f32, pl: usize) -> Outcome {
    let defaults = df == rdfc10::DEFAULT_DEPTH_FACTOR && pl == rdfc10::DEFAULT_PERMUTATION_LIMIT;
    match hash {
        "sha384" => run_h::<Sha384, D>(d, df, pl, defaults.then_some(true)),
        _ => run_h::<Sha256, D>(d, df, pl, defaults.then_some(false)),
    }
}

/// run the implementation on `quads` held in container `cont`; a panic is an outcome (`err=panic`)
pub fn run_impl(quads: &[Q], hash: &str, df: f32, pl: usize, cont: &str) -> Outcome {
    let sq: Vec<SQ> = quads.iter().map(q_to_simple).collect();
    let hash = hash.to_string();
    let cont = cont.to_string();
    let r = catch(std::panic::AssertUnwindSafe(move || match cont.as_str() {
        "hashset" => run_d(&sq.into_iter().collect::<HashSet<SQ>>(), &hash, df, pl),
        "btreeset" => run_d(&sq.into_iter().collect::<BTreeSet<SQ>>(), &hash, df, pl),
        "light" => {
            let mut d = sophia_inmem::dataset::LightDataset::new();
            for q in &sq {
                d.insert_quad(q.spog()).unwrap();
            }
            run_d(&d, &hash, df, pl)
        }
        "fast" => {
            let mut d = sophia_inmem::dataset::FastDataset::new();
            for q in &sq {
                d.insert_quad(q.spog()).unwrap();
            }
            run_d(&d, &hash, df, pl)
        }
        _ => run_d(&OrdDs(sq), &hash, df, pl),
    }));
    match r {
        Ok(o) => o,
        Err(m) => Outcome { err: Some("panic".into()), fails: vec![("panic".into(), hex(&m))], ..Default::default() },
    }
}

pub fn digest_hex(hash: &str, data: &[u8]) -> String {
    fn go<H: HashFunction>(data: &[u8]) -> String {
        let mut h = H::initialize();
        h.update(data);
        hex_bytes(h.finalize().as_ref())
    }
    match hash {
        "sha384" => go::<Sha384>(data),
        _ => go::<Sha256>(data),
    }
}

pub fn bnode_labels(quads: &[Q]) -> BTreeSet<String> {
    fn walk(t: &T, acc: &mut BTreeSet<String>) {
        match t {
            T::Bnode(b) => {
                acc.insert(b.clone());
            }
            T::Triple(x) => x.iter().for_each(|t| walk(t, acc)),
            _ => {}
        }
    }
    let mut acc = BTreeSet::new();
    for q in quads {
        walk(&q.s, &mut acc);
        walk(&q.p, &mut acc);
        walk(&q.o, &mut acc);
        if let Some(g) = &q.g {
            walk(g, &mut acc);
        }
    }
    acc
}

pub fn map_term(t: &T, f: &dyn Fn(&str) -> String) -> T {
    match t {
        T::Bnode(b) => T::Bnode(f(b)),
        T::Triple(x) => T::Triple(Box::new([map_term(&x[0], f), map_term(&x[1], f), map_term(&x[2], f)])),
        t => t.clone(),
    }
}

pub fn map_quad(q: &Q, f: &dyn Fn(&str) -> String) -> Q {
    Q { s: map_term(&q.s, f), p: map_term(&q.p, f), o: map_term(&q.o, f), g: q.g.as_ref().map(|g| map_term(g, f)) }
}

fn fold_tag_term(t: &T) -> T {
    match t {
        T::Lang(l, tag) => T::Lang(l.clone(), tag.to_ascii_lowercase()),
        t => t.clone(),
    }
}

pub fn fold_tags(q: &Q) -> Q {
    Q { s: fold_tag_term(&q.s), p: fold_tag_term(&q.p), o: fold_tag_term(&q.o), g: q.g.as_ref().map(fold_tag_term) }
}

pub fn map_field(m: &BTreeMap<String, String>) -> String {
    if m.is_empty() {
        return "_".into();
    }
    let mut v: Vec<String> = vec![];
    for (k, c) in m {
        let n = c.strip_prefix("c14n").map(|s| s.to_string()).unwrap_or_else(|| format!("!{}", hex(c)));
        v.push(format!("{}:{}", hex(k), n));
    }
    v.join(",")
}

/// checks on one successful outcome that need no second run:
/// the id map is a bijection onto c14n0..c14n(n-1); applying it to the input gives the returned
/// quads; the output is strictly sorted; parsing the output back gives exactly the returned quads,
/// and a dataset that `sophia_isomorphism` accepts as isomorphic to the input
pub fn self_checks(quads: &[Q], o: &mut Outcome) {
    let Some(out) = o.out.clone() else { return };
    let labels = bnode_labels(quads);
    let n = labels.len();
    let range: BTreeSet<String> = o.map.values().cloned().collect();
    let want: BTreeSet<String> = (0..n).map(|i| format!("c14n{}", i)).collect();
    if o.map.keys().cloned().collect::<BTreeSet<_>>() != labels || range != want || o.map.len() != n {
        o.fails.push(("map_not_bijection".into(), format!("{}", o.map.len())));
    }
    let m = o.map.clone();
    let f = move |b: &str| m.get(b).cloned().unwrap_or_else(|| format!("?{}", b));
    let applied: BTreeSet<Q> = quads.iter().map(|q| map_quad(q, &f)).collect();
    let returned: BTreeSet<Q> = o.rq.iter().cloned().collect();
    if applied != returned || o.rq.len() != quads.len() {
        o.fails.push(("relabel_mismatch".into(), format!("{}", o.rq.len())));
    }
    let lines: Vec<&str> = out.split_inclusive('\n').collect();
    // (a literal as graph name — generalized RDF, not an RDF dataset — is the one case where the term-wise sort of
    // normalize_with is not the code-point order of the lines: `"` < `.`; see SophiaProofs.C05.sorted_is_line_order)
    let literal_graph = quads.iter().any(|q| matches!(q.g, Some(T::Lit(..)) | Some(T::Lang(..))));
    if (!literal_graph && lines.windows(2).any(|w| w[0].as_bytes() >= w[1].as_bytes())) || lines.len() != quads.len() {
        o.fails.push(("unsorted_or_dup".into(), format!("{}", lines.len())));
    }
    // generalized RDF (literal subject / non-IRI predicate) has no N-Quads syntax to parse back
    if quads.iter().any(|q| !matches!(q.p, T::Iri(_)) || matches!(q.s, T::Lit(..) | T::Lang(..)) || matches!(q.g, Some(T::Lit(..)) | Some(T::Lang(..)))) {
        return;
    }
    let parsed: Result<Vec<SQ>, _> = sophia_turtle::parser::nq::NQuadsParser {}.parse_str(&out).collect_quads();
    match parsed {
        Err(e) => o.fails.push(("parse_back".into(), hex(&format!("{}", e)))),
        Ok(p) => {
            // the N-Quads parser normalises the case of language tags (C03's business): compare modulo that
            let back: BTreeSet<Q> = p.iter().map(|q| fold_tags(&view_quad(q.spog()))).collect();
            let returned: BTreeSet<Q> = returned.iter().map(fold_tags).collect();
            if back != returned {
                let d = back.symmetric_difference(&returned).next().map(|q| q.render()).unwrap_or_default();
                o.fails.push(("parse_back".into(), hex(&d)));
            }
            // (isomorphism of the parsed document with the input follows from the two exact comparisons above;
            // sophia_isomorphism is C07's business and is not consulted)
        }
    }
}

/// independent isomorphism test on abstract quads (backtracking over blank node bijections);
/// `None` = step budget exhausted
pub fn brute_iso(a: &[Q], b: &[Q], budget: &mut usize) -> Option<bool> {
    let sa: BTreeSet<Q> = a.iter().cloned().collect();
    let sb: BTreeSet<Q> = b.iter().cloned().collect();
    if sa.len() != sb.len() {
        return Some(false);
    }
    let la: Vec<String> = bnode_labels(a).into_iter().collect();
    let lb: Vec<String> = bnode_labels(b).into_iter().collect();
    if la.len() != lb.len() {
        return Some(false);
    }
    // quads of `a` indexed by the last (in `la` order) blank node they mention
    let idx: BTreeMap<&str, usize> = la.iter().enumerate().map(|(i, s)| (s.as_str(), i)).collect();
    let mut by_last: Vec<Vec<&Q>> = vec![vec![]; la.len() + 1];
    for q in &sa {
        let ls = bnode_labels(std::slice::from_ref(q));
        let k = ls.iter().map(|l| idx[l.as_str()] + 1).max().unwrap_or(0);
        by_last[k].push(q);
    }
    let ident = |b: &str| b.to_string();
    if by_last[0].iter().any(|q| !sb.contains(&map_quad(q, &ident))) {
        return Some(false);
    }
    fn rec(
        k: usize, la: &[String], lb: &[String], used: &mut Vec<bool>, asg: &mut Vec<usize>, by_last: &[Vec<&Q>],
        sb: &BTreeSet<Q>, budget: &mut usize,
    ) -> Option<bool> {
        if k == la.len() {
            return Some(true);
        }
        for j in 0..lb.len() {
            if used[j] {
                continue;
            }
            if *budget == 0 {
                return None;
            }
            *budget -= 1;
            used[j] = true;
            asg.push(j);
            let f = |b: &str| {
                let i = la.iter().position(|x| x == b).unwrap();
                lb[asg[i]].clone()
            };
            let ok = by_last[k + 1].iter().all(|q| sb.contains(&map_quad(q, &f)));
            if ok {
                match rec(k + 1, la, lb, used, asg, by_last, sb, budget) {
                    Some(true) => return Some(true),
                    None => return None,
                    Some(false) => {}
                }
            }
            asg.pop();
            used[j] = false;
        }
        Some(false)
    }
    let mut used = vec![false; lb.len()];
    let mut asg = vec![];
    rec(0, &la, &lb, &mut used, &mut asg, &by_last, &sb, budget)
}

// ------------------------------------------------------------------ generator pieces

pub fn bn(i: usize) -> T {
    T::Bnode(format!("n{}", i))
}
pub fn iri(s: &str) -> T {
    T::Iri(s.to_string())
}
pub fn quad(s: T, p: T, o: T, g: Option<T>) -> Q {
    Q { s, p, o, g }
}

pub const P0: &str = "x:p0";
pub const P1: &str = "x:q0";
pub const G0: &str = "x:g0";

/// labels that sort in ways unrelated to the structure (digits vs letters, lengths 1/2, non-ASCII,
/// dots and dashes inside, all valid BLANK_NODE_LABELs)
pub fn label_pool(rng: &mut Rng, n: usize) -> Vec<String> {
    let alpha = ["a", "b", "z", "A", "Z", "0", "9", "_", "é", "e", "c14n", "b1", "b10", "b9", "x.y", "x-y", "\u{10000}"];
    let mut seen = HashSet::new();
    let mut v = vec![];
    while v.len() < n {
        let mut s = rng.pick(&alpha[..]).to_string();
        if rng.chance(1, 2) {
            s.push_str(&format!("{}", rng.below(12)));
        }
        if rng.chance(1, 4) {
            let x: &str = *rng.pick(&alpha[..]); s.push_str(x);
        }
        if s.ends_with('.') || s.ends_with('-') {
            s.push('0');
        }
        if seen.insert(s.clone()) {
            v.push(s);
        }
    }
    v
}

pub fn relabel_random(quads: &[Q], rng: &mut Rng) -> Vec<Q> {
    let labels: Vec<String> = bnode_labels(quads).into_iter().collect();
    let pool = label_pool(rng, labels.len());
    let m: BTreeMap<String, String> = labels.into_iter().zip(pool).collect();
    let f = move |b: &str| m[b].clone();
    quads.iter().map(|q| map_quad(q, &f)).collect()
}

pub fn shuffle<X>(v: &mut Vec<X>, rng: &mut Rng) {
    for i in (1..v.len()).rev() {
        let j = rng.below(i + 1);
        v.swap(i, j);
    }
}

pub fn dedup(v: Vec<Q>) -> Vec<Q> {
    let mut seen = BTreeSet::new();
    v.into_iter().filter(|q| seen.insert(q.clone())).collect()
}

pub fn cycle(n: usize, p: &str) -> Vec<Q> {
    (0..n).map(|i| quad(bn(i), iri(p), bn((i + 1) % n), None)).collect()
}
pub fn chain(n: usize, p: &str) -> Vec<Q> {
    (0..n.saturating_sub(1)).map(|i| quad(bn(i), iri(p), bn(i + 1), None)).collect()
}
pub fn clique(n: usize, p: &str) -> Vec<Q> {
    let mut v = vec![];
    for i in 0..n {
        for j in 0..n {
            if i != j {
                v.push(quad(bn(i), iri(p), bn(j), None));
            }
        }
    }
    v
}
pub fn star(n: usize, p: &str, hub_blank: bool, outward: bool) -> Vec<Q> {
    let hub = if hub_blank { bn(0) } else { iri("x:hub") };
    (1..=n)
        .map(|i| if outward { quad(hub.clone(), iri(p), bn(i), None) } else { quad(bn(i), iri(p), hub.clone(), None) })
        .collect()
}
pub fn bipartite(a: usize, b: usize, p: &str) -> Vec<Q> {
    let mut v = vec![];
    for i in 0..a {
        for j in 0..b {
            v.push(quad(bn(i), iri(p), bn(a + j), None));
        }
    }
    v
}
/// `k` disjoint copies (labels shifted)
pub fn copies(base: &[Q], k: usize) -> Vec<Q> {
    let n = bnode_labels(base).len().max(1);
    let width = base.iter().flat_map(|q| bnode_labels(std::slice::from_ref(q))).filter_map(|l| l[1..].parse::<usize>().ok()).max().unwrap_or(0) + 1;
    let _ = n;
    let mut v = vec![];
    for c in 0..k {
        let f = move |b: &str| format!("n{}", b[1..].parse::<usize>().unwrap() + c * width);
        v.extend(base.iter().map(|q| map_quad(q, &f)));
    }
    v
}

/// the 24-quad dataset of DESIGN.md §7 (and its generalisation): `copies` disjoint copies of a chain
/// a0 -p-> ... -> a(len-1), whose last node links x in two graphs and y once; m links y in the named graph
pub fn smaller_path_family(len: usize, ncopies: usize, extra: usize) -> Vec<Q> {
    let mut v = vec![];
    for c in 0..ncopies {
        let pre = ["k", "l", "m", "o"][c % 4];
        let a = |i: usize| T::Bnode(format!("{}a{}", pre, i));
        let x = T::Bnode(format!("{}x", pre));
        let y = T::Bnode(format!("{}y", pre));
        let m = T::Bnode(format!("{}m", pre));
        for i in 0..len - 1 {
            v.push(quad(a(i), iri(P0), a(i + 1), None));
        }
        let hub = a(len - 1);
        v.push(quad(hub.clone(), iri(P1), x.clone(), None));
        v.push(quad(hub.clone(), iri(P1), x.clone(), Some(iri(G0))));
        v.push(quad(hub.clone(), iri(P1), y.clone(), None));
        v.push(quad(m.clone(), iri(P1), y.clone(), Some(iri(G0))));
        for e in 0..extra {
            v.push(quad(a(e % len), iri("x:r0"), T::Bnode(format!("{}w{}", pre, e)), None));
        }
    }
    v
}

/// Hub x linked (same predicate, same position) to `k` indistinguishable siblings, EVERY edge asserted
/// in each of the `graphs` graph names (related lists like [b, b, c, c]); plus a near-twin component
/// y with the same shape whose siblings differ from x's only at distance 2 (`twist`): x and y share
/// their first-degree hash without being exchanged by an automorphism, so that step 5.3 must order
/// them by n-degree hash.
///   twist 0: exact twin (automorphic);  1: one sibling of y carries a literal;
///   2: one sibling of y has an extra outgoing edge to an IRI;  3: siblings of y are linked to each other
pub fn multi_edge_twins(k: usize, graphs: &[Option<&str>], twist: usize, outward: bool, p: &str) -> Vec<Q> {
    let mut v = vec![];
    for (c, pre) in ["x", "y"].iter().enumerate() {
        let hub = T::Bnode(format!("{}h", pre));
        for i in 0..k {
            let sib = T::Bnode(format!("{}s{}", pre, i));
            for g in graphs {
                let g = g.map(iri);
                v.push(if outward { quad(hub.clone(), iri(p), sib.clone(), g) } else { quad(sib.clone(), iri(p), hub.clone(), g) });
            }
        }
        if c == 1 {
            let s0 = T::Bnode(format!("{}s0", pre));
            match twist {
                1 => v.push(quad(s0, iri("x:r0"), T::Lit("1".into(), "http://www.w3.org/2001/XMLSchema#integer".into()), None)),
                2 => v.push(quad(s0, iri("x:r0"), iri("x:o"), Some(iri(G0)))),
                3 => v.push(quad(s0, iri("x:r0"), T::Bnode(format!("{}s1", pre)), None)),
                _ => {}
            }
        } else if twist == 3 {
            // keep the first-degree hashes of the x siblings equal to those of the y siblings
            v.push(quad(T::Bnode("xs1".into()), iri("x:r0"), T::Bnode("xs0".into()), None));
        }
    }
    v
}

/// enumeration orders of one and the same quad set: duplicates of an edge (same s p o, other graph)
/// adjacent / interleaved / reversed / shuffled
pub fn enumeration_orders(quads: &[Q], rng: &mut Rng, shuffles: usize) -> Vec<(&'static str, Vec<Q>)> {
    let mut out = vec![];
    let mut grouped = quads.to_vec();
    grouped.sort();
    let mut by_graph = quads.to_vec();
    by_graph.sort_by(|a, b| (&a.g, &a.s, &a.p, &a.o).cmp(&(&b.g, &b.s, &b.p, &b.o)));
    let mut by_object = quads.to_vec();
    by_object.sort_by(|a, b| (&a.p, &a.g, &b.o, &a.s).cmp(&(&b.p, &b.g, &a.o, &b.s)));
    let mut rev = grouped.clone();
    rev.reverse();
    // "c b b c": first and last duplicate group swapped around the middle ones
    let mut mixed = grouped.clone();
    let n = mixed.len();
    if n >= 4 {
        mixed.swap(0, n / 2);
        mixed.swap(1, n - 1);
    }
    out.push(("grouped", grouped));
    out.push(("by_graph", by_graph));
    out.push(("by_object", by_object));
    out.push(("reversed", rev));
    out.push(("mixed", mixed));
    for _ in 0..shuffles {
        let mut v = quads.to_vec();
        shuffle(&mut v, rng);
        out.push(("shuffled", v));
    }
    out
}

/// `copies` (1 or 2) of: hub -p-> k siblings, sibling i -r-> tail i, tail i carries the literal "i".
/// The siblings share their first-degree hash and are PAIRWISE distinguishable (distance-2 twist), so the
/// related list of the hub has k distinct non-automorphic nodes: which permutation is chosen decides the
/// labelling.  With two copies the hubs are ambiguous too (Hash N-Degree Quads is entered on the hub);
/// `near_twin` gives one tail of the second copy a second literal.
pub fn hub_siblings(k: usize, ncopies: usize, near_twin: bool, outward: bool) -> Vec<Q> {
    let mut v = vec![];
    for c in 0..ncopies {
        let pre = ["u", "w"][c % 2];
        let hub = T::Bnode(format!("{}h", pre));
        for i in 0..k {
            let sib = T::Bnode(format!("{}s{}", pre, i));
            let tail = T::Bnode(format!("{}t{}", pre, i));
            v.push(if outward { quad(hub.clone(), iri(P0), sib.clone(), None) } else { quad(sib.clone(), iri(P0), hub.clone(), None) });
            v.push(quad(sib, iri("x:r0"), tail.clone(), None));
            v.push(quad(tail.clone(), iri(P1), T::Lit(format!("{}", i), "http://www.w3.org/2001/XMLSchema#string".into()), None));
            if near_twin && c == 1 && i == 0 {
                v.push(quad(tail, iri(P1), T::Lit("twist".into(), "http://www.w3.org/2001/XMLSchema#string".into()), None));
            }
        }
    }
    v
}

/// variants of `smaller_path_family` (>= 10 temporary identifiers in a component that is not vertex-transitive):
///   1: x linked in three graphs (related list [x, x, x, y]);  2: x and y both doubly linked, y also from m ([x, x, y, y])
pub fn smaller_path_family2(len: usize, ncopies: usize, variant: usize) -> Vec<Q> {
    let mut v = vec![];
    for c in 0..ncopies {
        let pre = ["k", "l"][c % 2];
        let a = |i: usize| T::Bnode(format!("{}a{}", pre, i));
        let x = T::Bnode(format!("{}x", pre));
        let y = T::Bnode(format!("{}y", pre));
        let m = T::Bnode(format!("{}m", pre));
        for i in 0..len - 1 {
            v.push(quad(a(i), iri(P0), a(i + 1), None));
        }
        let hub = a(len - 1);
        v.push(quad(hub.clone(), iri(P1), x.clone(), None));
        v.push(quad(hub.clone(), iri(P1), x.clone(), Some(iri(G0))));
        v.push(quad(hub.clone(), iri(P1), y.clone(), None));
        v.push(quad(m.clone(), iri(P1), y.clone(), Some(iri(G0))));
        if variant == 1 {
            v.push(quad(hub.clone(), iri(P1), x.clone(), Some(iri("x:g1"))));
            v.push(quad(m.clone(), iri(P1), y.clone(), Some(iri("x:g1"))));
        } else {
            v.push(quad(hub.clone(), iri(P1), y.clone(), Some(iri("x:g1"))));
            v.push(quad(m.clone(), iri(P1), x.clone(), Some(iri("x:g1"))));
            v.push(quad(m.clone(), iri("x:r0"), iri("x:o"), None));
        }
    }
    v
}

/// `n` (>= 11) blank nodes told apart by a literal each — canonical identifiers c14n0..c14n(n-1) are issued in
/// step 4, two-digit ones included — all linked to two near-twins t0, t1 that can only be told apart two steps
/// away: the paths of Hash N-Degree Quads contain `_:c14n10`, `_:c14n11` next to `_:c14n9`
pub fn canonical_ids_then_twins(n: usize) -> Vec<Q> {
    let xs = "http://www.w3.org/2001/XMLSchema#string";
    let mut v = vec![];
    let t = |i: usize| T::Bnode(format!("t{}", i));
    for i in 0..n {
        let c = T::Bnode(format!("c{}", i));
        v.push(quad(c.clone(), iri(P1), T::Lit(format!("{}", i), xs.into()), None));
        v.push(quad(c.clone(), iri(P0), t(0), None));
        v.push(quad(c, iri(P0), t(1), None));
    }
    for i in 0..2 {
        let u = T::Bnode(format!("u{}", i));
        let w = T::Bnode(format!("w{}", i));
        v.push(quad(t(i), iri("x:r0"), u.clone(), None));
        v.push(quad(u, iri("x:r0"), w.clone(), None));
        v.push(quad(w, iri(P1), T::Lit(["a", "b"][i].into(), xs.into()), None));
    }
    v
}

/// a quad mentions one blank node in two positions
pub fn has_self_ref(quads: &[Q]) -> bool {
    quads.iter().any(|q| {
        let mut ls: Vec<&T> = [Some(&q.s), Some(&q.o), q.g.as_ref()].into_iter().flatten().filter(|t| matches!(t, T::Bnode(_))).collect();
        let n = ls.len();
        ls.sort();
        ls.dedup();
        ls.len() != n
    })
}

/// One small connected piece over blank nodes `{pre}0..`: kinds 0 path, 1 cycle, 2 out-star, 3 in-star, 4 path ending in an IRI,
/// 5 single node pointing to an IRI, 6 "Y" (two sources, one sink)
pub fn small_component(kind: usize, n: usize, pre: &str, p: &str) -> Vec<Q> {
    let b = |i: usize| T::Bnode(format!("{}{}", pre, i));
    let n = n.max(1);
    match kind % 7 {
        0 => (0..n).map(|i| quad(b(i), iri(p), b(i + 1), None)).collect(),
        1 => (0..n.max(2)).map(|i| quad(b(i), iri(p), b((i + 1) % n.max(2)), None)).collect(),
        2 => (1..=n).map(|i| quad(b(0), iri(p), b(i), None)).collect(),
        3 => (1..=n).map(|i| quad(b(i), iri(p), b(0), None)).collect(),
        4 => {
            let mut v: Vec<Q> = (0..n).map(|i| quad(b(i), iri(p), b(i + 1), None)).collect();
            v.push(quad(b(n), iri(p), iri("x:o"), None));
            v
        }
        5 => vec![quad(b(0), iri(p), iri("x:o"), None)],
        _ => vec![quad(b(0), iri(p), b(2), None), quad(b(1), iri(p), b(2), None), quad(b(2), iri(p), b(3), None)],
    }
}

/// union of several disconnected pieces that share end shapes (so that first-degree hashes are shared ACROSS pieces
/// while some hash lists get their canonical ids through recursion started in another list)
pub fn component_union(parts: &[(usize, usize)], p: &str) -> Vec<Q> {
    let mut v = vec![];
    for (i, (kind, n)) in parts.iter().enumerate() {
        let pre = ["ca", "cb", "cc", "cd"][i % 4];
        v.extend(small_component(*kind, *n, pre, p));
    }
    dedup(v)
}

/// relabel so that the sort order of the labels is a given permutation pattern of the original order:
/// 0 identity, 1 reversed, 2 interleaved across components (round robin), 3 random
pub fn relabel_pattern(quads: &[Q], pattern: usize, rng: &mut Rng) -> Vec<Q> {
    let labels: Vec<String> = bnode_labels(quads).into_iter().collect();
    let n = labels.len();
    let mut order: Vec<usize> = (0..n).collect();
    match pattern % 4 {
        1 => order.reverse(),
        2 => {
            // labels are "c<piece><index>": sort by index first, then piece
            order.sort_by_key(|&i| (labels[i][2..].to_string(), labels[i][..2].to_string()));
        }
        3 => shuffle(&mut order, rng),
        _ => {}
    }
    // the k-th label in `order` gets the k-th smallest new label
    let mut m = BTreeMap::new();
    for (k, &i) in order.iter().enumerate() {
        m.insert(labels[i].clone(), format!("v{:02}", k));
    }
    let f = move |b: &str| m[b].clone();
    quads.iter().map(|q| map_quad(q, &f)).collect()
}

/// `k` blank nodes a_i with the SAME first-degree hash, each related to a blank node used as GRAPH NAME (position g
/// of Hash Related Blank Node); the graph-name nodes are what tells the a_i apart.
///   0: a_i p <o> g_i . g_i q <x_i>            1: g_i told apart two steps away (g_i q t_i . t_i q "i")
///   2: graph names shared by some of the tied nodes (a_0, a_1 in g_0, the rest in g_1)
///   3: several quads per blank graph, the graph node also object of a quad      4: a_i p g_i g_i (node twice in a quad)
pub fn blank_graph_ties(k: usize, variant: usize) -> Vec<Q> {
    let xs = "http://www.w3.org/2001/XMLSchema#string";
    let a = |i: usize| T::Bnode(format!("ta{}", i));
    let g = |i: usize| T::Bnode(format!("tg{}", i));
    let mut v = vec![];
    for i in 0..k {
        let gi = if variant == 2 { g(if i < 2 { 0 } else { 1 }) } else { g(i) };
        match variant {
            4 => v.push(quad(a(i), iri(P0), gi.clone(), Some(gi.clone()))),
            _ => v.push(quad(a(i), iri(P0), iri("x:o"), Some(gi.clone()))),
        }
        if variant == 3 {
            v.push(quad(a(i), iri(P1), iri("x:o2"), Some(gi.clone())));
            v.push(quad(iri("x:s"), iri("x:r0"), gi.clone(), None));
        }
        match variant {
            1 => {
                let t = T::Bnode(format!("tt{}", i));
                v.push(quad(gi.clone(), iri(P1), t.clone(), None));
                v.push(quad(t, iri(P1), T::Lit(format!("{}", i), xs.into()), None));
            }
            _ => v.push(quad(gi.clone(), iri(P1), iri(&format!("x:x{}", if variant == 2 { i.min(2).max(1) - 1 + (i >= 2) as usize } else { i })), None)),
        }
    }
    dedup(v)
}

pub fn random_graph(rng: &mut Rng, nb: usize, nq: usize) -> Vec<Q> {
    let preds = [P0, P1];
    let mut v = vec![];
    for _ in 0..nq {
        let s = if rng.chance(5, 6) { bn(rng.below(nb)) } else { iri("x:s") };
        let o = match rng.below(8) {
            0 => iri("x:o"),
            1 => T::Lit("v".into(), "http://www.w3.org/2001/XMLSchema#string".into()),
            _ => bn(rng.below(nb)),
        };
        let g = match rng.below(6) {
            0 => Some(iri(G0)),
            1 => Some(bn(rng.below(nb))),
            _ => None,
        };
        let p: &str = *rng.pick(&preds[..]); v.push(quad(s, iri(p), o, g));
    }
    dedup(v)
}

pub fn f32_pool() -> Vec<f32> {
    vec![1.0, 1.0, 1.0, 0.0, 0.5, 0.99, 0.34, 2.0, 1000.0, -1.0, f32::NAN, f32::INFINITY, 1.0000001, 0.2]
}

/// the reply of the implementation for one `n` request (without the metamorphic part)
pub fn base_reply(req: &Req, o: &Outcome) -> String {
    let mut s = String::new();
    match (&o.out, &o.err) {
        (Some(out), _) => {
            // WHICH of several automorphic nodes gets which identifier is not part of the property (it depends on
            // the dataset's iteration order, the permutation enumeration, the tie order of an unstable sort):
            // the id map is printed for information (`map_info`, never compared with the model's `map`); what IS
            // demanded of it is checked in `self_checks`: a bijection onto c14n0..n-1 that maps the input onto the
            // returned quads, whose serialisation is `out` (compared byte for byte with the model)
            let _ = &req.cont;
            s += &format!("st=ok out={} map_info={} dg={}", hex(out), map_field(&o.map), digest_hex(&req.hash, out.as_bytes()));
        }
        (None, Some(e)) => s += &format!("st={}", e),
        _ => s += "st=none",
    }
    s
}

pub fn fails(o: &Outcome) -> String {
    let mut seen = BTreeSet::new();
    let mut s = String::new();
    for (k, v) in &o.fails {
        if seen.insert(k.clone()) {
            s += &format!(" FAIL.{}={}", k, if v.is_empty() { "1" } else { v });
        }
    }
    s
}

pub fn exec_digest(line: &str) -> Option<String> {
    let f: Vec<&str> = line.split_whitespace().collect();
    match f.as_slice() {
        ["h", hn, hx] => {
            let data = unhex_bytes(hx)?;
            // the same bytes fed through `HashFunction::update` in uneven chunks must give the same digest
            fn chunked<H: HashFunction>(data: &[u8]) -> String {
                let mut h = H::initialize();
                let mut i = 0;
                let mut step = 1;
                while i < data.len() {
                    let j = (i + step).min(data.len());
                    h.update(&data[i..j]);
                    i = j;
                    step = step * 3 + 1;
                }
                hex_bytes(h.finalize().as_ref())
            }
            let whole = digest_hex(hn, &data);
            let parts = if *hn == "sha384" { chunked::<Sha384>(&data) } else { chunked::<Sha256>(&data) };
            let fail = if whole != parts { " FAIL.update_chunking=1" } else { "" };
            Some(format!("h={}{}", whole, fail))
        }
        _ => None,
    }
}
