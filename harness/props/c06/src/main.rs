//! C06 — the output of `rdfc10::normalize*` is what W3C RDFC-1.0 specifies; failures are explicit errors.
//!
//! `exec` runs the real implementation (reply `out`, `map`, `err`, `dg`); the Lean driver answers
//! the same request with the model of the implementation (`out`, `map`, `err`, `dg`) AND with the
//! transcription of the Recommendation (`o.out`), so that check.py compares the implementation's
//! bytes with the specification's on every case.  Rust-side oracle: an uncaught panic is never an
//! acceptable outcome (`FAIL.panic`), plus the self-consistency checks shared with C05.
mod common;
use common::*;
use vhcore::util::*;
use vhcore::GenCtx;

const XSD_STRING: &str = "http://www.w3.org/2001/XMLSchema#string";

fn emit(ctx: &mut GenCtx, family: &str, quads: &[Q], hash: &str, df: f32, pl: usize) {
    if quads.is_empty() {
        return;
    }
    let cont = ctx.rng.pick(CONTAINERS).to_string();
    let r = Req { hash: hash.into(), df, pl, cont: cont.clone(), seed: 0, quads: quads.to_vec() };
    ctx.stats.bump(&format!("family.{}", family));
    ctx.stats.bump(&format!("container.{}", cont));
    ctx.stats.bump(&format!("hash.{}", hash));
    if has_self_ref(quads) {
        ctx.stats.bump("shape.self_ref_quad");
    }
    if df != 1.0 || pl != 6 {
        ctx.stats.bump("limits.non_default");
    }
    ctx.emit(&r.render());
}

fn emit_variants(ctx: &mut GenCtx, family: &str, base: &[Q], k: usize) {
    for i in 0..k {
        let mut q = if i == 0 { base.to_vec() } else { relabel_random(base, &mut ctx.rng) };
        if i > 0 {
            shuffle(&mut q, &mut ctx.rng);
        }
        let hash = if ctx.rng.chance(1, 3) { "sha384" } else { "sha256" };
        emit(ctx, family, &q, hash, 1.0, 6);
    }
}

/// all datasets with at most `k` quads over a small universe (3 blank nodes, one IRI, one literal,
/// default / IRI-named / blank-named graph)
fn exhaustive(ctx: &mut GenCtx, k: usize) {
    let subj = [bn(0), bn(1), bn(2), iri("x:a")];
    let obj = [bn(0), bn(1), bn(2), iri("x:a"), T::Lit("v".into(), XSD_STRING.into())];
    let gr = [None, Some(iri(G0)), Some(bn(0))];
    let mut universe = vec![];
    for s in &subj {
        for o in &obj {
            for g in &gr {
                universe.push(quad(s.clone(), iri(P0), o.clone(), g.clone()));
            }
        }
    }
    let n = universe.len();
    fn rec(ctx: &mut GenCtx, u: &[Q], start: usize, cur: &mut Vec<Q>, k: usize) {
        if !cur.is_empty() && !bnode_labels(cur).is_empty() {
            let hash = if ctx.rng.chance(1, 6) { "sha384" } else { "sha256" };
            let c = cur.clone();
            emit(ctx, &format!("exhaustive.{}", c.len()), &c, hash, 1.0, 6);
        }
        if cur.len() == k {
            return;
        }
        for i in start..u.len() {
            cur.push(u[i].clone());
            rec(ctx, u, i + 1, cur, k);
            cur.pop();
        }
    }
    let _ = n;
    rec(ctx, &universe, 0, &mut vec![], k);
}

pub fn generate(ctx: &mut GenCtx) {
    let th = ctx.thorough;
    for len in [0usize, 55, 56, 64, 111, 112, 128, 129] {
        let s: String = std::iter::repeat('x').take(len).collect();
        for h in ["sha256", "sha384"] {
            ctx.emit(&format!("h {} {}", h, hex(&s)));
            ctx.stats.bump("digest");
        }
    }
    // the shipped examples
    let ex = |s: &str| iri(&format!("http://example.com/#{}", s));
    let lit = |s: &str| T::Lit(s.into(), XSD_STRING.into());
    let shipped: Vec<Vec<Q>> = vec![
        vec![quad(ex("p"), ex("q"), bn(0), None), quad(ex("p"), ex("r"), bn(1), None), quad(bn(0), ex("s"), ex("u"), None), quad(bn(1), ex("t"), ex("u"), None)],
        vec![quad(ex("p"), ex("q"), bn(0), None), quad(ex("p"), ex("q"), bn(1), None), quad(bn(0), ex("p"), bn(2), None), quad(bn(1), ex("p"), bn(3), None), quad(bn(2), ex("r"), bn(3), None)],
        cycle(5, "http://example.com/#p"),
        clique(5, "http://example.com/#p"),
        { let mut v = cycle(2, "http://example.com/#p"); v.extend(copies(&cycle(3, "http://example.com/#p"), 2).into_iter().skip(3)); v },
        vec![quad(iri("tag:a"), iri("tag:p"), bn(0), None), quad(iri("tag:a"), iri("tag:p"), iri("tag:a"), None), quad(iri("tag:a"), iri("tag:p"), lit("a"), None),
             quad(iri("tag:a"), iri("tag:p"), lit("a!"), None), quad(iri("tag:a9"), iri("tag:p"), lit("a!"), None)],
    ];
    for (i, d) in shipped.iter().enumerate() {
        for h in ["sha256", "sha384"] {
            emit(ctx, "shipped", d, h, 1.0, 6);
        }
        if i != 3 {
            emit_variants(ctx, "shipped", d, 2);
        }
    }
    // the divergence family of DESIGN.md §7 (the 24-quad witness itself is corpus/C06/witness.req)
    if th {
        for len in 7..=11 {
            for nc in [1usize, 2] {
                for extra in 0..=1 {
                    let d = smaller_path_family(len, nc, extra);
                    emit(ctx, "smaller_path_family", &d, "sha256", 1.0, 6);
                    let mut v = relabel_random(&d, &mut ctx.rng);
                    shuffle(&mut v, &mut ctx.rng);
                    emit(ctx, "smaller_path_family", &v, if extra == 0 { "sha384" } else { "sha256" }, 1.0, 6);
                }
            }
        }
    } else {
        for len in 8..=10 {
            emit(ctx, "smaller_path_family", &smaller_path_family(len, 2, 0), "sha256", 1.0, 6);
        }
    }
    // symmetric structures
    let var_n = if th { 3 } else { 1 };
    for n in 1..=(if th { 9 } else { 6 }) {
        emit_variants(ctx, "cycle", &cycle(n, P0), var_n);
        emit_variants(ctx, "chain", &chain(n + 1, P0), var_n);
    }
    for n in 2..=4 {
        emit_variants(ctx, "clique", &clique(n, P0), var_n);
    }
    for n in [2usize, 3, 6, 7] {
        emit_variants(ctx, "star", &star(n, P0, true, n % 2 == 0), var_n);
        emit_variants(ctx, "star.double", &copies(&star(n, P0, true, true), 2), var_n);
    }
    for (a, b) in [(2, 2), (2, 3), (3, 3)] {
        emit_variants(ctx, "bipartite", &bipartite(a, b, P0), var_n);
    }
    for (base, k) in [(cycle(2, P0), 2), (cycle(3, P0), 3), (chain(3, P0), 2), (clique(3, P0), 2)] {
        emit_variants(ctx, "copies", &copies(&base, k), var_n);
    }
    let mut g2 = cycle(4, P0);
    g2.extend(cycle(4, P0).into_iter().map(|mut q| { q.g = Some(bn(9)); q }));
    emit_variants(ctx, "blank_graph", &g2, var_n + 1);
    let mut me = cycle(3, P0);
    me.extend(cycle(3, P0).into_iter().map(|mut q| { q.g = Some(iri(G0)); q }));
    emit_variants(ctx, "multi_graph_edges", &me, var_n + 1);
    // multi-edges across graphs towards equal-hash siblings + near-twin component, under several enumeration orders
    {
        let gsets: [&[Option<&str>]; 2] = [&[Some("tag:g1"), Some("tag:g2")], &[None, Some(G0)]];
        for k in 2..=(if th { 3 } else { 2 }) {
            for gs in gsets.iter() {
                for twist in 0..=3 {
                    let base = multi_edge_twins(k, gs, twist, twist % 2 == 0, P0);
                    for (name, v) in enumeration_orders(&base, &mut ctx.rng, if th { 2 } else { 0 }) {
                        let r = Req { hash: "sha256".into(), df: 1.0, pl: 6, cont: "ord".into(), seed: 0, quads: v };
                        ctx.stats.bump("family.multi_edge_twins");
                        ctx.stats.bump(&format!("enumeration.{}", name));
                        ctx.emit(&r.render());
                    }
                }
            }
        }
    }
    // --- shapes the audit found missing ---------------------------------------------------------------
    // empty dataset, datasets without blank nodes, a literal as graph name (generalized RDF: `"` sorts before `.`)
    {
        let lit = |s: &str| T::Lit(s.into(), XSD_STRING.into());
        let raw: Vec<(&str, Vec<Q>)> = vec![
            ("empty", vec![]),
            ("bnode_free", vec![quad(iri("x:s"), iri(P0), iri("x:o"), None)]),
            ("bnode_free", vec![quad(iri("x:s"), iri(P0), lit("a b"), Some(iri(G0))), quad(iri("x:s"), iri(P0), lit("a b"), None),
                                quad(iri("x:s"), iri(P0), iri("x:o"), None), quad(iri("x:s2"), iri(P1), T::Lang("a".into(), "en".into()), None)]),
            ("literal_graph", vec![quad(bn(0), iri(P0), bn(1), Some(lit("g"))), quad(bn(0), iri(P0), bn(1), None),
                                   quad(bn(1), iri(P0), bn(0), Some(iri(G0)))]),
        ];
        for (name, d) in raw {
            for cont in ["ord", "hashset", "light"] {
                for hash in ["sha256", "sha384"] {
                    let r = Req { hash: hash.into(), df: 1.0, pl: 6, cont: cont.into(), seed: 0, quads: d.clone() };
                    ctx.stats.bump(&format!("shape.{}", name));
                    ctx.emit(&r.render());
                }
            }
        }
    }
    // related lists of 3-6 pairwise distinguishable (non-automorphic) nodes: which permutation wins decides the labels
    for k in 3..=(if th { 6 } else { 4 }) {
        for (ncopies, near_twin) in [(2usize, false), (2, true), (1, false)] {
            if k >= 5 && !(ncopies == 2 && near_twin) {
                continue;
            }
            let base = hub_siblings(k, ncopies, near_twin, k % 2 == 1);
            ctx.stats.bump(&format!("shape.distinct_related_{}", k));
            emit_variants(ctx, "hub_siblings", &base, if k <= 4 { var_n + 1 } else { 1 });
        }
    }
    // unions of 2-4 small disconnected pieces sharing end shapes: first-degree hashes shared ACROSS pieces, some hash
    // lists labelled through recursion started from another list; label order permuted against the structure
    {
        let mut unions: Vec<Vec<(usize, usize)>> = vec![
            vec![(0, 1), (0, 2)], vec![(0, 1), (0, 3)], vec![(0, 2), (0, 3)], vec![(0, 1), (0, 1), (0, 2)], vec![(0, 1), (0, 2), (0, 3)],
            vec![(0, 2), (0, 2), (0, 3)], vec![(0, 1), (6, 0)], vec![(0, 2), (6, 0)], vec![(0, 1), (2, 2)], vec![(0, 1), (3, 2)],
            vec![(2, 2), (2, 3)], vec![(3, 2), (0, 2)], vec![(1, 2), (1, 3)], vec![(1, 3), (0, 3)], vec![(4, 1), (4, 2)], vec![(4, 1), (0, 1), (5, 0)],
            vec![(0, 1), (0, 2), (1, 2), (5, 0)], vec![(2, 2), (3, 2), (0, 2)], vec![(0, 3), (0, 4)], vec![(0, 1), (0, 4), (0, 2)],
        ];
        let extra = if th { 300 } else { 40 };
        for _ in 0..extra {
            let k = ctx.rng.range(2, 4);
            unions.push((0..k).map(|_| (ctx.rng.below(7), ctx.rng.range(1, 3))).collect());
        }
        for (ui, u) in unions.iter().enumerate() {
            let base = component_union(u, P1);
            let patterns: &[usize] = if ui < 20 { &[0, 1, 2, 3] } else { &[3] };
            for &pat in patterns {
                let mut v = relabel_pattern(&base, pat, &mut ctx.rng);
                if pat == 3 {
                    shuffle(&mut v, &mut ctx.rng);
                }
                ctx.stats.bump("shape.component_union");
                ctx.stats.bump(&format!("union.pieces_{}", u.len()));
                let hash = if ctx.rng.chance(1, 5) { "sha384" } else { "sha256" };
                emit(ctx, "component_union", &v, hash, 1.0, 6);
            }
        }
    }
    // blank nodes used as GRAPH NAMES related to nodes with a shared first-degree hash (position g in Hash Related)
    for k in 2..=(if th { 4 } else { 3 }) {
        for variant in 0..=4 {
            let base = blank_graph_ties(k, variant);
            ctx.stats.bump("shape.blank_graph_tie");
            emit_variants(ctx, "blank_graph_ties", &base, var_n + 1);
            // several predicates / IRIs so that the hash order of the tied nodes is not always the same
            for alt in ["x:p1", "x:p2", "http://example.com/#p"] {
                let f = |t: &T| if *t == iri(P0) { iri(alt) } else { t.clone() };
                let v: Vec<Q> = base.iter().map(|q| Q { s: q.s.clone(), p: f(&q.p), o: q.o.clone(), g: q.g.clone() }).collect();
                emit_variants(ctx, "blank_graph_ties", &v, 1);
            }
        }
    }
    // blank nodes told apart only by WHICH IRI-named graph links them to which neighbour (finding
    // C05-rdfc10-ambiguous-tie: RDFC-1.0 itself does not determine the output there)
    {
        let d = vec![quad(bn(0), iri(P1), bn(2), Some(iri(G0))), quad(bn(0), iri(P1), bn(3), Some(iri("x:g1"))),
                     quad(bn(1), iri(P1), bn(2), Some(iri("x:g1"))), quad(bn(1), iri(P1), bn(3), Some(iri(G0))),
                     quad(bn(1), iri("x:r0"), iri("x:o"), None)];
        ctx.stats.bump("shape.graph_iri_tie");
        emit_variants(ctx, "graph_iri_tie", &d, 2);
    }
    // >= 10 temporary identifiers in a component that is not vertex-transitive (b9 / b10: path lengths differ)
    for (len, variant) in [(9usize, 0usize), (9, 1), (10, 2), (8, 1)] {
        if !th && len != 9 {
            continue;
        }
        let base = if variant == 0 { smaller_path_family(len, 2, 0) } else { smaller_path_family2(len, 2, variant) };
        ctx.stats.bump("shape.temp_ids_ge_10");
        emit_variants(ctx, "two_digit_temp_ids", &base, 2);
    }
    // >= 11 canonical identifiers issued before an ambiguous pair is processed (c14n9 / c14n10 inside paths)
    for n in [12usize, 11] {
        if !th && n != 12 {
            continue;
        }
        ctx.stats.bump("shape.canonical_ids_ge_11");
        emit_variants(ctx, "two_digit_canonical_ids", &canonical_ids_then_twins(n), 2);
    }
    // nodes reached by recursion from an earlier hash group: two cycles joined through distinguishable tails
    let mut two = cycle(3, P0);
    two.extend(copies(&cycle(3, P1), 2).into_iter().skip(3));
    two.push(quad(bn(0), iri("x:r0"), bn(3), None));
    two.push(quad(bn(1), iri("x:r0"), bn(4), None));
    two.push(quad(bn(2), iri("x:r0"), bn(5), None));
    emit_variants(ctx, "cross_group", &two, var_n + 1);
    // literals
    let mut lits: Vec<T> = vec![];
    for c in (0u32..=0x20).chain([0x22, 0x5c, 0x7f, 0x80, 0xfffe, 0xffff, 0x10000]) {
        lits.push(T::Lit(format!("{}", char::from_u32(c).unwrap()), XSD_STRING.into()));
    }
    lits.push(T::Lit("1".into(), "http://www.w3.org/2001/XMLSchema#integer".into()));
    lits.push(T::Lang("chat".into(), "fr-BE".into()));
    for chunk in lits.chunks(8) {
        let v: Vec<Q> = chunk.iter().enumerate().map(|(i, l)| quad(bn(i % 3), iri(P0), l.clone(), None)).collect();
        emit(ctx, "literals", &v, "sha256", 1.0, 6);
    }
    // unsupported input and generalized RDF
    let tr = T::Triple(Box::new([iri("x:s"), iri(P0), bn(1)]));
    for q in [quad(bn(0), bn(1), iri("x:o"), None), quad(tr.clone(), iri(P0), bn(0), None), quad(bn(0), iri(P0), tr.clone(), None),
              quad(bn(0), iri(P0), bn(1), Some(tr.clone())), quad(T::Var("v".into()), iri(P0), bn(0), None), quad(bn(0), T::Var("v".into()), bn(1), None)] {
        let mut v = cycle(3, P0);
        v.push(q);
        emit(ctx, "unsupported", &v, "sha256", 1.0, 6);
    }
    // a literal as predicate (generalized RDF, accepted by step 2): alone, and where a node must be disambiguated
    emit(ctx, "generalized", &[quad(bn(0), lit("p"), iri("x:o"), None)], "sha256", 1.0, 6);
    emit(ctx, "generalized", &[quad(bn(0), lit("p"), bn(1), None), quad(bn(2), lit("p"), bn(3), None)], "sha256", 1.0, 6);
    emit(ctx, "generalized", &[quad(lit("s"), iri(P0), bn(0), None), quad(lit("s"), iri(P0), bn(1), None)], "sha256", 1.0, 6);
    // complexity limits
    let dfs = f32_pool();
    let bases = [cycle(5, P0), clique(4, P0), copies(&star(3, P0, true, true), 2), copies(&cycle(3, P0), 2), bipartite(2, 3, P0), chain(4, P0), copies(&star(7, P0, true, true), 2)];
    for _ in 0..(if th { 150 } else { 40 }) {
        let b = ctx.rng.pick(&bases[..]).clone();
        let df = *ctx.rng.pick(&dfs);
        let pl = *ctx.rng.pick(&[0usize, 1, 2, 3, 4, 6, 7, 12]);
        let q = relabel_random(&b, &mut ctx.rng);
        emit(ctx, "limits", &q, "sha256", df, pl);
    }
    // exhaustive small datasets
    exhaustive(ctx, if th { 3 } else { 2 });
    // random small graphs
    for _ in 0..(if th { 3000 } else { 300 }) {
        let nb = ctx.rng.range(1, 6);
        let nq = ctx.rng.range(1, 8);
        let g = random_graph(&mut ctx.rng, nb, nq);
        let q = relabel_random(&g, &mut ctx.rng);
        let hash = if ctx.rng.chance(1, 5) { "sha384" } else { "sha256" };
        emit(ctx, "random", &q, hash, 1.0, 6);
    }
}

pub fn exec(line: &str) -> String {
    if let Some(r) = exec_digest(line) {
        return r;
    }
    let Some(req) = Req::parse(line) else { return "bad-op".into() };
    let mut o = run_impl(&req.quads, &req.hash, req.df, req.pl, &req.cont);
    self_checks(&req.quads, &mut o);
    base_reply(&req, &o) + &fails(&o)
}

fn main() {
    vhcore::main_loop(generate, exec)
}
