//! datasets and queries for C13
use crate::codec;
use crate::measure;
use sophia_api::prelude::*;
use sophia_inmem::dataset::LightDataset;
use vhcore::tgen::q_to_simple;
use vhcore::util::*;
use vhcore::GenCtx;

const XSD: &str = "http://www.w3.org/2001/XMLSchema#";

fn iri(s: &str) -> T {
    T::Iri(s.to_string())
}
fn lit(l: &str, dt: &str) -> T {
    T::Lit(l.to_string(), format!("{}{}", XSD, dt))
}
fn tr(s: T, p: T, o: T) -> T {
    T::Triple(Box::new([s, p, o]))
}

pub struct Pools {
    pub nodes: Vec<T>,
    pub preds: Vec<T>,
    pub lits_core: Vec<T>,
    pub lits_other: Vec<T>,
    pub quoted: Vec<T>,
    pub graphs: Vec<Option<T>>,
}

pub fn pools() -> Pools {
    let nodes = vec![iri("x:a"), iri("x:b"), iri("x:c"), iri("x:g1"), T::Bnode("n0".into()), T::Bnode("n1".into())];
    let preds = vec![iri("x:p"), iri("x:q"), iri("x:a")];
    // value classes the expression model covers: integer (valid, equal values with different lexical
    // forms, ill-typed), string (also empty), language string (case variants), boolean, unknown datatype
    let lits_core = vec![
        lit("1", "integer"),
        lit("01", "integer"),
        lit("2", "integer"),
        lit("-3", "integer"),
        lit("0", "integer"),
        lit("9223372036854775807", "integer"),
        lit("-9223372036854775808", "integer"),
        lit("9223372036854775808", "integer"),
        lit("+5", "integer"),
        lit("18446744073709551616", "integer"),
        lit("-9223372036854775809", "integer"),
        lit("100000000000000000000", "integer"),
        lit("-100000000000000000000", "integer"),
        lit("1a", "integer"),
        lit("a", "string"),
        lit("b", "string"),
        lit("", "string"),
        lit("1", "string"),
        T::Lang("a".into(), "en".into()),
        T::Lang("a".into(), "EN".into()),
        T::Lang("a".into(), "fr".into()),
        T::Lang("".into(), "en".into()),
        lit("true", "boolean"),
        lit("false", "boolean"),
        T::Lit("x".into(), "x:dt".into()),
        T::Lit("y".into(), "x:dt".into()),
    ];
    // value classes outside the expression model (pattern matching only; the driver skips them when
    // the query has an expression)
    let lits_other = vec![
        lit("1.5", "decimal"),
        lit("1.0E0", "double"),
        lit("1", "float"),
        lit("2020-01-01T00:00:00Z", "dateTime"),
        lit("1", "int"),
        lit("7", "unsignedByte"),
    ];
    let quoted = vec![
        tr(iri("x:a"), iri("x:p"), iri("x:b")),
        tr(iri("x:a"), iri("x:p"), lit("1", "integer")),
        tr(T::Bnode("n0".into()), iri("x:q"), iri("x:c")),
        tr(iri("x:a"), iri("x:p"), iri("x:a")),
        tr(tr(iri("x:a"), iri("x:p"), iri("x:b")), iri("x:q"), iri("x:c")),
    ];
    let graphs = vec![None, Some(iri("x:g1")), Some(iri("x:g2")), Some(T::Bnode("g".into()))];
    Pools { nodes, preds, lits_core, lits_other, quoted, graphs }
}

/// ≤ 12 quads; default graph + named graphs sharing triples
pub fn gen_dataset(rng: &mut Rng, pl: &Pools, with_other: bool, stats: &mut Stats) -> Vec<Q> {
    let n_triples = match rng.below(10) {
        0 => 0,
        1 => 1,
        _ => rng.range(2, 7),
    };
    let mut quads: Vec<Q> = vec![];
    let ngraphs = if rng.chance(1, 6) { 4 } else { 3 };
    for _ in 0..n_triples {
        let s = if rng.chance(1, 6) { rng.pick(&pl.quoted).clone() } else { rng.pick(&pl.nodes).clone() };
        let p = rng.pick(&pl.preds).clone();
        let o = match rng.below(10) {
            0..=3 => rng.pick(&pl.nodes).clone(),
            4..=7 => rng.pick(&pl.lits_core).clone(),
            8 => {
                if with_other {
                    rng.pick(&pl.lits_other).clone()
                } else {
                    rng.pick(&pl.lits_core).clone()
                }
            }
            _ => rng.pick(&pl.quoted).clone(),
        };
        // 1..3 graphs for the same triple (sharing)
        let copies = match rng.below(6) {
            0..=2 => 1,
            3..=4 => 2,
            _ => 3,
        };
        for c in 0..copies {
            if quads.len() >= 12 {
                break;
            }
            // the default graph is what top-level patterns see: keep it populated
            let g = if c == 0 && rng.chance(1, 2) { None } else { pl.graphs[rng.below(ngraphs)].clone() };
            let q = Q { s: s.clone(), p: p.clone(), o: o.clone(), g };
            if !quads.contains(&q) {
                if q.g.is_some() && quads.iter().any(|x| x.s == q.s && x.p == q.p && x.o == q.o) {
                    stats.bump("data.shared_triple");
                }
                quads.push(q);
            }
        }
    }
    stats.bump(&format!("data.quads.{}", match quads.len() { 0 => "0", 1..=3 => "1-3", 4..=8 => "4-8", _ => "9-12" }));
    quads
}

/// few terms, each occurring as subject *and* object (and `x:a` also as predicate), spread over the
/// default graph and two named graphs: rows that differ only in WHICH variable is bound exist
pub fn gen_dataset_compact(rng: &mut Rng, pl: &Pools, stats: &mut Stats) -> Vec<Q> {
    let n = rng.range(2, 7);
    let mut quads: Vec<Q> = vec![];
    for _ in 0..n {
        let s = rng.pick(&pl.nodes[..3]).clone();
        let p = rng.pick(&pl.preds).clone();
        let o = match rng.below(10) {
            0..=6 => rng.pick(&pl.nodes[..3]).clone(),
            7 => rng.pick(&pl.nodes).clone(),
            _ => rng.pick(&pl.lits_core[..8]).clone(),
        };
        let copies = if rng.chance(1, 3) { 2 } else { 1 };
        for c in 0..copies {
            let g = if c == 0 && rng.chance(1, 2) { None } else { pl.graphs[rng.below(3)].clone() };
            let q = Q { s: s.clone(), p: p.clone(), o: o.clone(), g };
            if !quads.contains(&q) && quads.len() < 12 {
                quads.push(q);
            }
        }
    }
    stats.bump("data.compact");
    quads
}

pub fn render_dataset(quads: &[Q]) -> String {
    let mut s = String::new();
    for q in quads {
        s += &q.render();
        s += " | ";
    }
    s += ";";
    s
}

// ---------------------------------------------------------------- SPARQL text

fn sparql_term(t: &T) -> String {
    match t {
        T::Iri(s) => format!("<{}>", s),
        T::Bnode(s) => format!("_:{}", s),
        T::Var(s) => format!("?{}", s),
        T::Lit(l, d) => format!("\"{}\"^^<{}>", l, d),
        T::Lang(l, t) => format!("\"{}\"@{}", l, t),
        T::Triple(b) => format!("<< {} {} {} >>", sparql_term(&b[0]), sparql_term(&b[1]), sparql_term(&b[2])),
    }
}

const VARS: &[&str] = &["s", "p", "o", "x", "g"];

/// integers around the machine-size boundaries and far beyond, for both sides of comparisons / arithmetic
const BIGS: &[&str] = &[
    "5", "-7", "9223372036854775807", "9223372036854775808", "-9223372036854775808", "-9223372036854775809",
    "18446744073709551615", "18446744073709551616", "100000000000000000000", "-100000000000000000000",
];

#[derive(Clone)]
enum Ctx {
    Default,
    Named(T),
    AnyNamed,
}

struct QG<'a> {
    /// which graph(s) the BGP being generated will be matched against
    ctx_graph: Ctx,
    /// variables that occur in the patterns generated so far: expressions mostly read these
    scope_vars: Vec<String>,
    rng: &'a mut Rng,
    pl: &'a Pools,
    /// the dataset the query will run on: most triple patterns are generalisations of one of its
    /// triples, so that each step has no / one / many matches with comparable frequency
    data: &'a [Q],
    /// blank-node labels may not be reused across BGPs: a fresh prefix per BGP
    bgp_no: usize,
    tp_budget: usize,
}

impl QG<'_> {
    fn var(&mut self) -> String {
        format!("?{}", self.rng.pick(VARS))
    }

    fn node(&mut self, depth: usize, object: bool) -> String {
        match self.rng.below(20) {
            0..=8 => self.var(),
            9..=11 => sparql_term(&self.rng.pick(&self.pl.nodes[..4]).clone()),
            12 if self.bgp_no == 1 => format!("_:{}", self.rng.pick(VARS)),
            12..=13 => format!("_:l{}_{}", self.bgp_no, self.rng.below(2)),
            14 => "[]".to_string(),
            15..=16 if depth == 0 => {
                let s = self.node(1, false);
                let p = self.pred();
                let o = self.node(1, true);
                format!("<< {} {} {} >>", s, p, o)
            }
            17 if object || depth > 0 => sparql_term(&self.rng.pick(&self.pl.quoted).clone()),
            _ if object => sparql_term(&self.rng.pick(&self.pl.lits_core).clone()),
            _ => self.var(),
        }
    }

    fn pred(&mut self) -> String {
        if self.rng.chance(2, 5) { self.var() } else { sparql_term(&self.rng.pick(&self.pl.preds).clone()) }
    }

    /// the quads a BGP generated *here* can match: the default graph at the top level, one named
    /// graph under `GRAPH <iri>`, any named graph under `GRAPH ?g`
    fn candidates(&self) -> Vec<Q> {
        self.data
            .iter()
            .filter(|q| match &self.ctx_graph {
                Ctx::Default => q.g.is_none(),
                Ctx::Named(n) => q.g.as_ref() == Some(n),
                Ctx::AnyNamed => q.g.is_some(),
            })
            .cloned()
            .collect()
    }

    fn triples(&mut self, max: usize) -> String {
        self.bgp_no += 1;
        let n = match self.rng.below(10) {
            0 => 0,
            1..=4 => 1,
            5..=7 => 2,
            8 => 3,
            _ => 4,
        }
        .min(max)
        .min(self.tp_budget);
        self.tp_budget -= n;
        let mut s = String::new();
        // most BGPs are *consistent generalisations* of triples of one graph of the data: the same
        // data term becomes the same variable, and later patterns prefer triples that share a term
        // with the earlier ones, so that the join of 2..4 patterns has no / one / many solutions
        let mut cand = self.candidates();
        if let Ctx::AnyNamed = self.ctx_graph {
            if let Some(q0) = cand.first().cloned() {
                let g0 = self.rng.pick(&cand).g.clone().or(q0.g);
                cand.retain(|q| q.g == g0);
            }
        }
        let anchored = !cand.is_empty() && self.rng.chance(4, 5);
        let mut map: Vec<(T, String)> = vec![];
        let mut used: Vec<Q> = vec![];
        for _ in 0..n {
            if anchored && self.rng.chance(9, 10) {
                let linked: Vec<Q> = cand
                    .iter()
                    .filter(|q| used.iter().any(|u| u.s == q.s || u.o == q.o || u.s == q.o || u.o == q.s))
                    .cloned()
                    .collect();
                let q = if !linked.is_empty() && self.rng.chance(4, 5) { self.rng.pick(&linked).clone() } else { self.rng.pick(&cand).clone() };
                let a = self.generalise(&q.s, 0, &mut map);
                let b = if self.rng.chance(1, 2) { sparql_term(&q.p) } else { self.generalise(&q.p, 1, &mut map) };
                let c = self.generalise(&q.o, 0, &mut map);
                used.push(q);
                s += &format!("{} {} {} . ", a, b, c);
                continue;
            }
            let a = self.node(0, false);
            let b = self.pred();
            let c = self.node(0, true);
            s += &format!("{} {} {} . ", a, b, c);
        }
        s
    }

    /// a pattern term that matches the data term `t`: the term itself, a variable (the same one for
    /// the same term within the BGP, mostly), a placeholder, or — for a quoted triple — a quoted
    /// pattern generalising its components
    fn generalise(&mut self, t: &T, depth: usize, map: &mut Vec<(T, String)>) -> String {
        if let Some((_, v)) = map.iter().find(|(k, _)| k == t) {
            if self.rng.chance(4, 5) {
                return v.clone();
            }
        }
        let mut fresh = |me: &mut Self, map: &mut Vec<(T, String)>| -> String {
            // a variable not yet standing for another term (if one is left)
            let free: Vec<&&str> = VARS.iter().filter(|v| !map.iter().any(|(_, u)| u[1..] == ***v)).collect();
            let v = if !free.is_empty() && me.rng.chance(9, 10) { format!("?{}", me.rng.pick(&free)) } else { me.var() };
            map.push((t.clone(), v.clone()));
            if !me.scope_vars.contains(&v) {
                me.scope_vars.push(v.clone());
            }
            v
        };
        match t {
            T::Triple(b) if depth == 0 && self.rng.chance(1, 2) => {
                let s = self.generalise(&b[0], 1, map);
                let p = if self.rng.chance(1, 2) { sparql_term(&b[1]) } else { self.generalise(&b[1], 1, map) };
                let o = self.generalise(&b[2], 1, map);
                format!("<< {} {} {} >>", s, p, o)
            }
            // a blank node of the data cannot be written as a constant (it would be a placeholder)
            T::Bnode(_) => {
                if depth == 0 && self.rng.chance(1, 4) {
                    let v = if self.bgp_no == 1 && self.rng.chance(1, 2) {
                        // a label spelled like a variable of the query
                        format!("_:{}", self.rng.pick(VARS))
                    } else {
                        format!("_:l{}_{}", self.bgp_no, self.rng.below(2))
                    };
                    if !map.iter().any(|(_, u)| *u == v) {
                        map.push((t.clone(), v.clone()));
                        return v;
                    }
                }
                fresh(self, map)
            }
            T::Triple(b) if b.iter().any(|x| matches!(x, T::Bnode(_)) || x.depth() > 0) => fresh(self, map),
            _ => match self.rng.below(20) {
                0..=4 => sparql_term(t),
                5..=16 => fresh(self, map),
                17..=18 if depth == 0 => {
                    let v = format!("_:l{}_{}", self.bgp_no, self.rng.below(2));
                    if map.iter().any(|(_, u)| *u == v) {
                        fresh(self, map)
                    } else {
                        map.push((t.clone(), v.clone()));
                        v
                    }
                }
                _ if depth == 0 => "[]".to_string(),
                _ => fresh(self, map),
            },
        }
    }

    fn constant(&mut self) -> String {
        if self.rng.chance(1, 8) {
            return self.rng.pick(BIGS).to_string();
        }
        // mostly a term of the data, so that comparisons hold for some rows and fail for others
        if !self.data.is_empty() && self.rng.chance(3, 5) {
            let q = self.rng.pick(self.data).clone();
            let t = if self.rng.chance(2, 3) { q.o } else { q.s };
            if !matches!(t, T::Bnode(_)) && t.depth() == 0 {
                return sparql_term(&t);
            }
        }
        match self.rng.below(6) {
            0 => sparql_term(&self.rng.pick(&self.pl.nodes[..4]).clone()),
            1 => "1".into(),
            2 => "true".into(),
            _ => sparql_term(&self.rng.pick(&self.pl.lits_core).clone()),
        }
    }

    /// expressions of the modelled core (and, rarely, outside it)
    /// a variable for an expression: mostly one that the patterns bind
    fn evar(&mut self) -> String {
        if !self.scope_vars.is_empty() && self.rng.chance(17, 20) {
            let vs = self.scope_vars.clone();
            self.rng.pick(&vs).clone()
        } else {
            self.var()
        }
    }

    fn expr(&mut self, depth: usize) -> String {
        if depth == 0 {
            return if self.rng.chance(2, 3) { self.evar() } else { self.constant() };
        }
        let d = depth - 1;
        match self.rng.below(40) {
            0..=2 => self.evar(),
            3 => self.constant(),
            4..=5 => format!("BOUND({})", self.evar()),
            6..=8 => format!("({} = {})", self.expr(d), self.expr(d)),
            9 => format!("sameTerm({}, {})", self.expr(d), self.expr(d)),
            10..=11 => format!("({} < {})", self.expr(d), self.expr(d)),
            12..=13 => format!("({} && {})", self.expr(d), self.expr(d)),
            14..=15 => format!("({} || {})", self.expr(d), self.expr(d)),
            16..=17 => format!("(!{})", self.expr(d)),
            18 => format!("isIRI({})", self.expr(d)),
            19 => format!("isBlank({})", self.expr(d)),
            20 => format!("isLiteral({})", self.expr(d)),
            21 => format!("STR({})", self.expr(d)),
            22 => format!("LANG({})", self.expr(d)),
            23 => format!("DATATYPE({})", self.expr(d)),
            24 => format!("({} != {})", self.expr(d), self.expr(d)),
            25 => format!("({} > {})", self.expr(d), self.expr(d)),
            26 => format!("({} <= {})", self.expr(d), self.expr(d)),
            27 => format!("({} >= {})", self.expr(d), self.expr(d)),
            28 => format!("({} + {})", self.expr(d), self.expr(d)),
            29 => format!("({} - {})", self.expr(d), self.expr(d)),
            30 => format!("({} * {})", self.expr(d), self.expr(d)),
            31 => format!("(-{})", self.expr(d)),
            32 => format!("(+{})", self.expr(d)),
            33..=34 => format!("IF({}, {}, {})", self.expr(d), self.expr(d), self.expr(d)),
            35 => format!("COALESCE({}, {})", self.expr(d), self.expr(d)),
            36 => format!("COALESCE({}, {}, {})", self.expr(d), self.expr(d), self.expr(d)),
            37 => format!("({} IN ({}, {}))", self.expr(d), self.expr(d), self.expr(d)),
            38 => format!("({} NOT IN ({}, {}, {}))", self.expr(d), self.expr(d), self.expr(d), self.expr(d)),
            _ => {
                // outside the core: shipped as `raw` (no-panic only)
                match self.rng.below(4) {
                    0 => format!("({} / 2)", self.expr(d)),
                    1 => format!("CONCAT(STR({}), \"a\")", self.expr(d)),
                    2 => format!("REGEX(STR({}), \"a\")", self.expr(d)),
                    _ => format!("STRLEN(STR({}))", self.expr(d)),
                }
            }
        }
    }

    fn graph_name(&mut self) -> (String, Ctx) {
        let named: Vec<T> = {
            let mut v: Vec<T> = self.data.iter().filter_map(|q| q.g.clone()).filter(|g| matches!(g, T::Iri(_))).collect();
            v.dedup();
            v
        };
        match self.rng.below(20) {
            0..=6 => ("?g".to_string(), Ctx::AnyNamed),
            7 => (self.var(), Ctx::AnyNamed),
            8..=9 if !named.is_empty() => {
                let g = self.rng.pick(&named).clone();
                (sparql_term(&g), Ctx::Named(g))
            }
            8..=9 => ("?g".to_string(), Ctx::AnyNamed),
            10..=16 if !named.is_empty() => {
                let g = self.rng.pick(&named).clone();
                (sparql_term(&g), Ctx::Named(g))
            }
            10..=17 => {
                let g = iri(if self.rng.chance(1, 2) { "x:g1" } else { "x:g2" });
                (sparql_term(&g), Ctx::Named(g))
            }
            _ => ("<x:nosuch>".into(), Ctx::Named(iri("x:nosuch"))),
        }
    }

    fn tail(&mut self) -> String {
        let mut s = String::new();
        if !self.scope_vars.is_empty() && self.rng.chance(1, 12) {
            let v = self.evar();
            let op = *self.rng.pick(&["+", "-", "*"][..]);
            let big = *self.rng.pick(BIGS);
            let e = if self.rng.chance(1, 2) { format!("{} {} {}", v, op, big) } else { format!("{} {} {}", big, op, v) };
            s += &format!("BIND({} AS ?w) ", e);
        }
        if self.rng.chance(1, 4) {
            let e = self.expr(2);
            let v = ["z", "y", "x"][self.rng.below(3)];
            s += &format!("BIND({} AS ?{}) ", e, v);
        }
        if self.rng.chance(2, 5) {
            if !self.scope_vars.is_empty() && self.rng.chance(1, 2) {
                // a test on a bound variable that typically holds for some rows and fails for others
                let v = self.evar();
                let c = self.constant();
                let t = match self.rng.below(21) {
                    17 => format!("{} {} {}", v, self.rng.pick(&["<", "<=", ">", ">=", "="][..]), self.rng.pick(BIGS)),
                    18 => format!("{} {} {}", self.rng.pick(BIGS), self.rng.pick(&["<", "<=", ">", ">=", "="][..]), v),
                    19 => format!("({} {} {}) {} {}", v, self.rng.pick(&["+", "-", "*"][..]), self.rng.pick(BIGS), self.rng.pick(&["<", ">=", "="][..]), self.rng.pick(BIGS)),
                    20 => format!("({} {} {}) {} 0", self.rng.pick(BIGS), self.rng.pick(&["+", "-", "*"][..]), v, self.rng.pick(&["<", ">", "<=", ">="][..])),
                    9 => format!("{} >= 1", v),
                    10 => format!("{} <= {}", v, c),
                    11 => format!("{} + 1 > 2", v),
                    12 => format!("{} IN ({}, 1, \"a\")", v, c),
                    13 => format!("{} NOT IN ({}, ?nosuch)", v, c),
                    15 => format!("{} IN (?nosuch, {})", v, c),
                    16 => format!("{} IN ({} < 1, {})", v, v, c),
                    14 => format!("IF(isLiteral({}), {} * 2 > 2, isIRI({}))", v, v, v),
                    0 => format!("isIRI({})", v),
                    1 => format!("isLiteral({})", v),
                    2 => format!("isBlank({})", v),
                    3 => format!("{} = {}", v, c),
                    4 => format!("!sameTerm({}, {})", v, c),
                    5 => format!("{} < 2", v),
                    6 => format!("LANG({}) = \"en\"", v),
                    7 => format!("DATATYPE({}) = <http://www.w3.org/2001/XMLSchema#integer>", v),
                    _ => format!("!({} = {})", v, c),
                };
                s += &format!("FILTER({}) ", t);
            } else {
                let d = self.rng.range(1, 3);
                s += &format!("FILTER({}) ", self.expr(d));
            }
        }
        if self.rng.chance(1, 8) {
            // FILTER [NOT] EXISTS { .. } correlated with the group through its variables; now and then
            // with an operator the engine refuses (must be refused, not answered `false`) or a BIND
            // (outside the oracle: skipped)
            let saved_budget = self.tp_budget;
            self.tp_budget = 2;
            let t = self.triples(2);
            self.tp_budget = saved_budget;
            let inner = match self.rng.below(12) {
                0 => format!("{} OPTIONAL {{ ?s ?p ?x }}", t),
                1 => format!("{} MINUS {{ ?s ?p ?x }}", t),
                2 => format!("{} BIND(1 AS ?w)", t),
                3 => format!("{{ {} }} UNION {{ ?o ?p ?s }}", t),
                4 => format!("{} FILTER(isIRI({}))", t, self.evar()),
                5 => format!("GRAPH ?g {{ {} }}", t),
                6 => format!("{} FILTER NOT EXISTS {{ ?o ?p ?s }}", t),
                _ => t,
            };
            let n = if self.rng.chance(1, 2) { "NOT " } else { "" };
            s += &format!("FILTER {}EXISTS {{ {} }} ", n, inner);
        }
        s
    }

    fn group(&mut self, depth: usize) -> String {
        let k = if depth == 0 { self.rng.below(12) } else { self.rng.below(20) };
        match k {
            0..=11 => {
                let t = self.triples(4);
                format!("{{ {}{}}}", t, self.tail())
            }
            12..=14 => {
                let a = self.group(depth - 1);
                let b = self.group(depth - 1);
                format!("{{ {} UNION {} {}}}", a, b, self.tail())
            }
            15..=17 => {
                let (n, c) = self.graph_name();
                let saved = std::mem::replace(&mut self.ctx_graph, c);
                let g = self.group(depth - 1);
                self.ctx_graph = saved;
                format!("{{ GRAPH {} {} {}}}", n, g, self.tail())
            }
            18 => {
                // sub-select
                let g = self.group(depth - 1);
                let vs = self.proj();
                let d = if self.rng.chance(1, 3) { "DISTINCT " } else { "" };
                format!("{{ {{ SELECT {}{} WHERE {} }} {}}}", d, vs, g, self.tail())
            }
            _ => {
                // join of groups (unsupported)
                let t = self.triples(2);
                let g = self.group(depth - 1);
                format!("{{ {}{} }}", t, g)
            }
        }
    }

    fn proj(&mut self) -> String {
        if self.rng.chance(1, 2) {
            return "*".into();
        }
        let n = self.rng.range(1, 3);
        let mut vs: Vec<&str> = vec![];
        for _ in 0..n {
            let v = *self.rng.pick(&["s", "p", "o", "x", "g", "z", "nosuch"][..]);
            if !vs.contains(&v) {
                vs.push(v);
            }
        }
        vs.iter().map(|v| format!("?{}", v)).collect::<Vec<_>>().join(" ")
    }

    /// one branch `S P O` over the variables `?x ?y ?z`, anchored in the data
    fn hbranch(&mut self, p: &str, o_const: &str, shape: usize) -> String {
        match shape {
            0 => format!("?x {} {}", p, o_const),
            1 => format!("?y {} {}", p, o_const),
            2 => format!("?x {} ?y", p),
            3 => format!("?x {} ?z", p),
            4 => format!("?z {} ?y", p),
            5 => format!("?y {} ?x", p),
            6 => format!("?y {} ?z", p),
            _ => format!("?z {} {}", p, o_const),
        }
    }

    /// queries whose rows bind DIFFERENT sets of variables (UNION branches over different variables
    /// sharing terms, BIND that errs on some rows, GRAPH ?g next to the default graph), under
    /// DISTINCT / projection / ORDER BY / OFFSET-LIMIT
    fn hetero_query(&mut self) -> String {
        self.bgp_no = 0;
        let (p, o_const) = if !self.data.is_empty() {
            let q = self.rng.pick(self.data).clone();
            let o = if matches!(q.o, T::Bnode(_)) || q.o.depth() > 0 { "<x:a>".to_string() } else { sparql_term(&q.o) };
            (if self.rng.chance(1, 5) { "?p".to_string() } else { sparql_term(&q.p) }, o)
        } else {
            ("<x:p>".to_string(), "<x:a>".to_string())
        };
        let p2 = if self.rng.chance(1, 2) { p.clone() } else { sparql_term(&self.rng.pick(&self.pl.preds).clone()) };
        let body = match self.rng.below(10) {
            0..=4 => {
                // UNION of 2..3 branches over different variables
                let n = if self.rng.chance(1, 4) { 3 } else { 2 };
                let mut bs = vec![];
                let dup = self.rng.chance(3, 20);
                let sh0 = self.rng.below(8);
                for i in 0..n {
                    let sh = if dup { sh0 } else { self.rng.below(8) };
                    let pp = if i == 0 || dup { &p } else { &p2 };
                    let b = self.hbranch(pp, &o_const, sh);
                    bs.push(if self.rng.chance(1, 5) {
                        format!("{{ GRAPH ?g {{ {} }} }}", b)
                    } else if self.rng.chance(1, 6) {
                        let gs: Vec<T> = self.data.iter().filter_map(|q| q.g.clone()).filter(|g| matches!(g, T::Iri(_))).collect();
                        let g = if gs.is_empty() { iri("x:g1") } else { self.rng.pick(&gs).clone() };
                        format!("{{ GRAPH {} {{ {} }} }}", sparql_term(&g), b)
                    } else {
                        format!("{{ {} }}", b)
                    });
                }
                let f = match self.rng.below(8) {
                    0 => " FILTER(BOUND(?x))",
                    1 => " FILTER(!BOUND(?y))",
                    _ => "",
                };
                format!("{{ {}{} }}", bs.join(" UNION "), f)
            }
            5..=7 => {
                // BIND that errs on some rows
                let e = *self.rng.pick(&["?y < 2", "STR(?y)", "LANG(?y)", "DATATYPE(?y)", "?y = 1", "?nosuch", "!?y", "?y = ?x"][..]);
                let v = *self.rng.pick(&["z", "g"][..]);
                format!("{{ ?x {} ?y BIND({} AS ?{}) }}", p, e, v)
            }
            _ => {
                // GRAPH ?g next to the default graph
                let sh = self.rng.below(8);
                let b = self.hbranch(&p, &o_const, sh);
                let sh2 = self.rng.below(8);
                let b2 = self.hbranch(&p2, &o_const, sh2);
                format!("{{ {{ GRAPH ?g {{ {} }} }} UNION {{ {} }} }}", b, b2)
            }
        };
        if self.rng.chance(1, 20) {
            return format!("ASK {}", body);
        }
        let vs = if self.rng.chance(3, 10) {
            "*".to_string()
        } else {
            let mut pool = vec!["x", "y", "z", "g"];
            let k = self.rng.range(2, 3);
            let mut out = vec![];
            for _ in 0..k {
                let i = self.rng.below(pool.len());
                out.push(format!("?{}", pool.remove(i)));
            }
            out.join(" ")
        };
        let d = if self.rng.chance(7, 10) { "DISTINCT " } else { "" };
        let mut q = format!("SELECT {}{} WHERE {}", d, vs, body);
        if self.rng.chance(3, 20) {
            q += " ORDER BY ?x ?y";
        }
        if self.rng.chance(3, 20) {
            if self.rng.chance(1, 2) {
                q += &format!(" OFFSET {}", self.rng.below(3));
            }
            q += &format!(" LIMIT {}", self.rng.range(1, 4));
        }
        q
    }

    fn query(&mut self) -> String {
        self.ctx_graph = Ctx::Default;
        self.scope_vars.clear();
        self.tp_budget = 4;
        self.bgp_no = 0;
        let depth = match self.rng.below(10) {
            0..=3 => 0,
            4..=7 => 1,
            _ => 2,
        };
        let g = self.group(depth);
        if self.rng.chance(1, 6) {
            return format!("ASK {}", g);
        }
        let mut vs = self.proj();
        if vs != "*" && self.rng.chance(1, 5) {
            let e = self.expr(2);
            vs += &format!(" ({} AS ?w)", e);
        }
        let d = if self.rng.chance(1, 3) { "DISTINCT " } else { "" };
        if !d.is_empty() && !self.scope_vars.is_empty() && self.rng.chance(3, 5) {
            // DISTINCT over one or two of the pattern's variables: duplicates to remove
            let k = self.rng.range(1, 2).min(self.scope_vars.len());
            let mut pool = self.scope_vars.clone();
            let mut out = vec![];
            for _ in 0..k {
                let i = self.rng.below(pool.len());
                out.push(pool.remove(i));
            }
            vs = out.join(" ");
        }
        let mut q = format!("SELECT {}{} WHERE {}", d, vs, g);
        if self.rng.chance(1, 10) {
            q += " ORDER BY ?s DESC(?o)";
        }
        if self.rng.chance(1, 6) {
            if self.rng.chance(1, 2) {
                q += &format!(" OFFSET {}", self.rng.below(4));
            }
            if self.rng.chance(3, 4) {
                q += &format!(" LIMIT {}", self.rng.below(5));
            }
        }
        q
    }
}

/// every unsupported operator at least once, plus shapes worth pinning
const FIXED: &[&str] = &[
    "SELECT * WHERE { ?s ?p ?o OPTIONAL { ?o ?p ?x } }",
    "SELECT * WHERE { ?s ?p ?o MINUS { ?s <x:p> ?x } }",
    "SELECT * WHERE { VALUES ?s { <x:a> } ?s ?p ?o }",
    "SELECT * WHERE { VALUES ?s { <x:a> <x:b> } }",
    "SELECT (COUNT(*) AS ?c) WHERE { ?s ?p ?o }",
    "SELECT ?s (COUNT(?o) AS ?c) WHERE { ?s ?p ?o } GROUP BY ?s",
    "SELECT ?s WHERE { ?s ?p ?o } GROUP BY ?s HAVING (COUNT(?o) > 1)",
    "SELECT * WHERE { ?s <x:p>/<x:q> ?o }",
    "SELECT * WHERE { ?s <x:p>* ?o }",
    "SELECT * WHERE { ?s <x:p>|<x:q> ?o }",
    "SELECT * WHERE { ?s ^<x:p> ?o }",
    "SELECT * FROM <x:g1> WHERE { ?s ?p ?o }",
    "SELECT * FROM NAMED <x:g1> WHERE { GRAPH ?g { ?s ?p ?o } }",
    "SELECT * FROM <x:g1> FROM <x:g2> FROM NAMED <x:g1> WHERE { ?s ?p ?o }",
    "ASK FROM <x:g1> { ?s ?p ?o }",
    "SELECT * WHERE { { ?s ?p ?o } { ?o ?p ?x } }",
    "SELECT * WHERE { ?s ?p ?o { ?o <x:p> ?x } UNION { ?o <x:q> ?x } }",
    "SELECT * WHERE { ?s ?p ?o GRAPH ?g { ?s ?p ?o } }",
    "SELECT * WHERE { ?s <x:p> ?o BIND(1 AS ?z) ?s <x:q> ?x }",
    "SELECT * WHERE { SERVICE <x:service> { ?s ?p ?o } }",
    "SELECT REDUCED ?s WHERE { ?s ?p ?o }",
    "SELECT * WHERE { { SELECT ?s WHERE { ?s ?p ?o } } }",
    "SELECT * WHERE { { SELECT ?s WHERE { ?s ?p ?o } } FILTER(BOUND(?p)) }",
    "SELECT * WHERE { { SELECT ?s WHERE { ?s ?p ?o } } BIND(?o AS ?z) }",
    "SELECT * WHERE { { SELECT ?s WHERE { ?s ?p ?o } LIMIT 1 } }",
    "CONSTRUCT { ?s ?p ?o } WHERE { ?s ?p ?o }",
    "DESCRIBE <x:a>",
    "DESCRIBE ?s WHERE { ?s ?p ?o }",
    "SELECT * WHERE { ?s ?p ?o FILTER EXISTS { ?o ?p ?x } }",
    "SELECT * WHERE { ?s ?p ?o FILTER NOT EXISTS { ?o ?p ?x } }",
    // pinned supported shapes
    "SELECT * WHERE { }",
    "ASK { }",
    "SELECT * WHERE { ?s ?p ?o }",
    "SELECT * WHERE { ?x ?p ?x }",
    "SELECT * WHERE { ?x ?x ?x }",
    "SELECT * WHERE { _:a ?p _:a }",
    "SELECT ?p WHERE { _:a ?p _:b }",
    "SELECT ?p WHERE { [] ?p [] }",
    "SELECT ?p WHERE { ?s ?p ?o . _:a ?p _:b }",
    "SELECT ?p WHERE { _:a ?p ?o . ?o ?p _:a }",
    "SELECT * WHERE { << ?s ?p ?o >> ?q ?x }",
    "SELECT * WHERE { ?x ?q << ?s ?p ?o >> }",
    "SELECT * WHERE { << ?s ?p ?s >> ?q ?x }",
    "SELECT * WHERE { << _:a ?p _:a >> ?q ?x }",
    "SELECT * WHERE { << ?s ?p ?o >> ?q ?x . ?s ?p ?o }",
    "SELECT * WHERE { ?s ?p ?o . << ?s ?p ?o >> ?q ?x }",
    "SELECT * WHERE { << <x:a> <x:p> <x:b> >> ?q ?x }",
    "SELECT * WHERE { << << ?a ?b ?c >> ?p ?o >> ?q ?x }",
    "SELECT * WHERE { <x:a> <x:p> <x:b> . ?s ?p ?o }",
    "SELECT * WHERE { <x:a> <x:p> <x:nosuch> . ?s ?p ?o }",
    "SELECT * WHERE { GRAPH ?g { ?s ?p ?o } }",
    "SELECT * WHERE { GRAPH ?g { } }",
    "SELECT * WHERE { GRAPH <x:g1> { } }",
    "SELECT * WHERE { GRAPH <x:nosuch> { } }",
    "SELECT ?g WHERE { GRAPH ?g { ?s ?p ?o } }",
    "SELECT DISTINCT ?g WHERE { GRAPH ?g { ?s ?p ?o } }",
    "SELECT * WHERE { GRAPH ?g { ?g ?p ?o } }",
    "SELECT * WHERE { GRAPH ?g { ?s ?p ?g } }",
    "SELECT * WHERE { GRAPH ?g { GRAPH ?g { ?s ?p ?o } } }",
    "SELECT * WHERE { GRAPH ?g { GRAPH ?x { ?s ?p ?o } } }",
    "SELECT * WHERE { GRAPH ?g { GRAPH <x:g1> { ?s ?p ?o } } }",
    "SELECT * WHERE { GRAPH <x:g1> { GRAPH ?g { ?s ?p ?o } } }",
    "SELECT * WHERE { { GRAPH ?g { ?s ?p ?o } } UNION { ?s ?p ?o } }",
    "SELECT * WHERE { GRAPH ?g { { ?s <x:p> ?o } UNION { ?s <x:q> ?o } } }",
    "SELECT * WHERE { GRAPH ?g { ?s ?p ?o FILTER(?g = <x:g1>) } }",
    "SELECT * WHERE { GRAPH ?g { ?s ?p ?o FILTER(BOUND(?g)) } }",
    "SELECT * WHERE { GRAPH ?g { ?s ?p ?o BIND(?g AS ?z) } }",
    "SELECT * WHERE { GRAPH ?g { ?s ?p ?o BIND(<x:g1> AS ?g) } }",
    "SELECT * WHERE { GRAPH ?g { ?s ?p ?o } FILTER(?g = <x:g1>) }",
    "SELECT * WHERE { ?s ?p ?o FILTER(?o) }",
    "SELECT * WHERE { ?s ?p ?o FILTER(!?o) }",
    "SELECT * WHERE { ?s ?p ?o FILTER(?nosuch || true) }",
    "SELECT * WHERE { ?s ?p ?o FILTER(true || ?nosuch) }",
    "SELECT * WHERE { ?s ?p ?o FILTER(!(?nosuch && false)) }",
    "SELECT * WHERE { ?s ?p ?o FILTER(?o = 1) }",
    "SELECT * WHERE { ?s ?p ?o FILTER(?o < 2) }",
    "SELECT * WHERE { ?s ?p ?o FILTER(?o = ?s) }",
    "ASK { FILTER(5 < 100000000000000000000) }",
    "ASK { FILTER(100000000000000000000 < 5) }",
    "ASK { FILTER(5 <= 9223372036854775808) }",
    "ASK { FILTER(5 > -9223372036854775809) }",
    "ASK { FILTER(-9223372036854775809 >= 5) }",
    "ASK { FILTER(18446744073709551616 > 9223372036854775807) }",
    "ASK { FILTER(9223372036854775807 = 9223372036854775808 - 1) }",
    "SELECT * WHERE { BIND(5 - 100000000000000000000 AS ?d) BIND(100000000000000000000 - 5 AS ?e) BIND(5 + 100000000000000000000 AS ?f) }",
    "SELECT * WHERE { BIND(9223372036854775807 + 1 AS ?d) BIND(-9223372036854775808 - 1 AS ?e) BIND(9223372036854775807 * 2 AS ?f) BIND(3 * 100000000000000000000 AS ?g) }",
    "SELECT * WHERE { ?s ?p ?o FILTER(?o < 200000000000000000000) }",
    "SELECT * WHERE { ?s ?p ?o FILTER(200000000000000000000 > ?o) }",
    "SELECT * WHERE { ?s ?p ?o FILTER(?o <= 9223372036854775808) }",
    "SELECT * WHERE { ?s ?p ?o FILTER(?o >= -9223372036854775809) }",
    "SELECT * WHERE { ?s ?p ?o BIND(?o - 100000000000000000000 AS ?d) BIND(100000000000000000000 - ?o AS ?e) }",
    "SELECT * WHERE { ?s ?p ?o . ?x ?p ?y FILTER(?o < ?y) }",
    "SELECT * WHERE { ?s ?p ?o . ?x ?p ?y BIND(?o - ?y AS ?d) FILTER(?o >= ?y) }",
    "SELECT * WHERE { ?s ?p ?o BIND(!(?o < ?o) AS ?z) }",
    "SELECT * WHERE { ?s ?p ?o . ?s ?p ?x FILTER(!(?o < ?x)) }",
    "SELECT * WHERE { ?s ?p ?o . ?s ?p ?x FILTER(!(?o = ?x)) }",
    "SELECT * WHERE { ?s ?p ?o . ?x ?p ?o BIND((?s = ?x) AS ?z) }",
    "SELECT * WHERE { ?s ?p ?o BIND(STR(?o) = STR(?s) AS ?z) }",
    "SELECT * WHERE { ?s ?p ?o BIND(LANG(?o) AS ?z) BIND(DATATYPE(?o) AS ?y) }",
    "SELECT * WHERE { ?s ?p ?o FILTER(?o = \"a\"@en) }",
    "SELECT * WHERE { ?s ?p ?o FILTER(sameTerm(?o, \"a\"@en)) }",
    "SELECT * WHERE { ?s ?p ?o FILTER(LANG(?o) = \"en\") }",
    "SELECT * WHERE { ?s ?p ?o FILTER(DATATYPE(?o) = <http://www.w3.org/2001/XMLSchema#integer>) }",
    "SELECT * WHERE { ?s ?p ?o BIND(STR(?o) AS ?z) }",
    "SELECT * WHERE { ?s ?p ?o BIND(?nosuch AS ?z) }",
    "SELECT * WHERE { ?s ?p ?o BIND(?o < 2 AS ?z) }",
    "SELECT ?s (?o AS ?z) WHERE { ?s ?p ?o }",
    "SELECT DISTINCT ?o WHERE { ?s ?p ?o }",
    "SELECT DISTINCT ?nosuch WHERE { ?s ?p ?o }",
    "SELECT DISTINCT * WHERE { { ?s ?p ?o } UNION { ?s ?p ?o } }",
    "SELECT * WHERE { { ?s ?p ?o } UNION { ?s ?p ?o } }",
    "SELECT * WHERE { { ?s <x:p> ?o } UNION { ?x <x:q> ?o } }",
    "SELECT * WHERE { ?s ?p ?o } LIMIT 0",
    "SELECT * WHERE { ?s ?p ?o } LIMIT 2",
    "SELECT * WHERE { ?s ?p ?o } OFFSET 1",
    "SELECT * WHERE { ?s ?p ?o } OFFSET 100",
    "SELECT * WHERE { ?s ?p ?o } OFFSET 1 LIMIT 1",
    "SELECT * WHERE { ?s ?p ?o } ORDER BY ?o",
    "ASK { ?s ?p ?o }",
    "ASK { ?s <x:nosuch> ?o }",
    "ASK { GRAPH ?g { ?s ?p ?o } }",
];

/// algebra that the text parser cannot produce (built directly; reachable through
/// `SparqlQuery::from(spargebra::Query)`)
const DIRECT: &[&str] = &[
    // Extend on a variable already in scope
    "select nods project extend bgp 1 v 73 v 70 v 6f 73 c l 31 687474703a2f2f7777772e77332e6f72672f323030312f584d4c536368656d6123696e7465676572 1 73",
    "ask nods extend bgp 1 v 73 v 70 v 6f 6f var 73",
    // Distinct / Slice directly over a BGP (ASK: no variable list observed)
    "ask nods distinct bgp 1 v 73 v 70 v 6f",
    "ask nods slice bgp 1 v 73 v 70 v 6f 1 -",
    "ask nods slice bgp 1 v 73 v 70 v 6f 0 0",
    // a blank-node placeholder shared between two BGPs (the text parser rejects it)
    "select nods project union bgp 1 b 61 v 70 v 6f bgp 1 v 73 v 70 b 61 3 73 70 6f",
    // a dataset clause without `named` list (only constructible programmatically; the parser always
    // produces `named: Some(..)`, which is refused): FROM <x:g1>; FROM <x:g1> FROM <x:g2> over graphs
    // sharing a triple (RDF merge: once); GRAPH ?g under FROM (no named graph in that dataset); no FROM
    "select ds 1 783a6731 nonamed project bgp 1 v 73 v 70 v 6f 3 73 70 6f",
    "select ds 2 783a6731 783a6732 nonamed project bgp 1 v 73 v 70 v 6f 3 73 70 6f",
    "select ds 2 783a6731 783a6732 nonamed distinct project bgp 1 v 73 v 70 v 6f 3 73 70 6f",
    "select ds 2 783a6731 783a6732 nonamed project bgp 2 v 73 v 70 v 6f i 783a61 i 783a70 i 783a62 3 73 70 6f",
    "ask ds 1 783a6731 nonamed graph v 67 bgp 1 v 73 v 70 v 6f",
    "select ds 1 783a6e6f73756368 nonamed project bgp 1 v 73 v 70 v 6f 3 73 70 6f",
    "select ds 0 nonamed project bgp 1 v 73 v 70 v 6f 3 73 70 6f",
    "select ds 1 783a6731 nonamed project leftjoin bgp 1 v 73 v 70 v 6f bgp 1 v 6f v 70 v 78 3 73 70 6f",
    // projecting the same variable twice
    "select nods project bgp 1 v 73 v 70 v 6f 2 73 73",
];

pub fn generate(ctx: &mut GenCtx) {
    let pl = pools();
    // fixed datasets for the fixed queries
    let fixed_sets: Vec<Vec<Q>> = {
        let mut v = vec![];
        v.push(vec![]);
        let a = iri("x:a");
        let b = iri("x:b");
        let p = iri("x:p");
        let q = iri("x:q");
        let g1 = Some(iri("x:g1"));
        let g2 = Some(iri("x:g2"));
        let qd = tr(a.clone(), p.clone(), b.clone());
        v.push(vec![
            Q { s: a.clone(), p: p.clone(), o: b.clone(), g: None },
            Q { s: a.clone(), p: p.clone(), o: b.clone(), g: g1.clone() },
            Q { s: a.clone(), p: p.clone(), o: b.clone(), g: g2.clone() },
            Q { s: b.clone(), p: p.clone(), o: a.clone(), g: None },
            Q { s: a.clone(), p: q.clone(), o: lit("1", "integer"), g: None },
            Q { s: a.clone(), p: q.clone(), o: lit("01", "integer"), g: g1.clone() },
            Q { s: b.clone(), p: q.clone(), o: lit("1a", "integer"), g: None },
            Q { s: b.clone(), p: q.clone(), o: T::Lang("a".into(), "en".into()), g: None },
            Q { s: a.clone(), p: a.clone(), o: a.clone(), g: None },
            Q { s: qd.clone(), p: q.clone(), o: T::Bnode("n0".into()), g: None },
            Q { s: T::Bnode("n0".into()), p: p.clone(), o: qd.clone(), g: Some(T::Bnode("g".into())) },
            Q { s: iri("x:g1"), p: p.clone(), o: iri("x:g1"), g: g1.clone() },
        ]);
        v.push(vec![
            Q { s: a.clone(), p: p.clone(), o: lit("5", "integer"), g: None },
            Q { s: a.clone(), p: p.clone(), o: lit("-7", "integer"), g: None },
            Q { s: b.clone(), p: p.clone(), o: lit("9223372036854775807", "integer"), g: None },
            Q { s: b.clone(), p: p.clone(), o: lit("9223372036854775808", "integer"), g: None },
            Q { s: b.clone(), p: p.clone(), o: lit("-9223372036854775808", "integer"), g: None },
            Q { s: a.clone(), p: p.clone(), o: lit("-9223372036854775809", "integer"), g: None },
            Q { s: a.clone(), p: p.clone(), o: lit("100000000000000000000", "integer"), g: None },
            Q { s: b.clone(), p: p.clone(), o: lit("18446744073709551616", "integer"), g: g1.clone() },
        ]);
        v.push(vec![
            Q { s: a.clone(), p: p.clone(), o: lit("true", "boolean"), g: None },
            Q { s: a.clone(), p: p.clone(), o: lit("false", "boolean"), g: None },
            Q { s: a.clone(), p: p.clone(), o: lit("", "string"), g: None },
            Q { s: a.clone(), p: p.clone(), o: lit("0", "integer"), g: g1.clone() },
            Q { s: a.clone(), p: p.clone(), o: T::Lang("a".into(), "EN".into()), g: g1.clone() },
            Q { s: b.clone(), p: p.clone(), o: T::Lang("a".into(), "en".into()), g: g1.clone() },
            Q { s: a.clone(), p: p.clone(), o: T::Lit("x".into(), "x:dt".into()), g: None },
            Q { s: a.clone(), p: p.clone(), o: lit("1.5", "decimal"), g: g2.clone() },
        ]);
        v
    };
    for text in FIXED {
        for ds in &fixed_sets {
            emit_text(ctx, ds, text, "fixed", None);
        }
    }
    for d in DIRECT {
        for ds in &fixed_sets {
            ctx.stats.bump("direct");
            ctx.emit(&format!("q {} {}", render_dataset(ds), d));
        }
    }
    let n = if ctx.thorough { 30000 } else { 2500 };
    // effectiveness is measured (on the real engine) for the first queries only: it costs a few
    // evaluations per query
    let mut measure_budget = 3000usize;
    let mut i = 0;
    let mut attempts = 0;
    while i < n && attempts < 20 * n {
        attempts += 1;
        let compact = ctx.rng.chance(1, 3);
        let ds = if compact {
            gen_dataset_compact(&mut ctx.rng, &pl, &mut ctx.stats)
        } else {
            let with_other = ctx.rng.chance(1, 4);
            gen_dataset(&mut ctx.rng, &pl, with_other, &mut ctx.stats)
        };
        let light = light_of(&ds);
        // several queries per dataset
        for _ in 0..3 {
            let hetero = compact || ctx.rng.chance(1, 5);
            let text = {
                let mut g = QG { ctx_graph: Ctx::Default, scope_vars: vec![], rng: &mut ctx.rng, pl: &pl, data: &ds, bgp_no: 0, tp_budget: 4 };
                if hetero { g.hetero_query() } else { g.query() }
            };
            let meas = if measure_budget > 0 { Some(&light) } else { None };
            if emit_text(ctx, &ds, &text, if hetero { "gen.hetero" } else { "gen" }, meas) {
                measure_budget = measure_budget.saturating_sub(1);
                i += 1;
                if i <= 3 {
                    ctx.stats.sample(text.clone());
                }
            }
        }
    }
}

fn shape_stats(stats: &mut Stats, alg: &str, text: &str) {
    for k in [
        "bgp 0", "bgp 1", "bgp 2", "bgp 3", "bgp 4", "union", "graph i", "graph v", "filter", "extend", "distinct", "project",
        "slice", "orderby", "join", "leftjoin", "minus", "values", "group", "service", "path", "reduced", "ask", "construct",
        "describe", "ds ",
    ] {
        if alg.starts_with(k) || alg.contains(&format!(" {}", k)) {
            stats.bump(&format!("alg.{}", k.trim().replace(' ', "_")));
        }
    }
    for k in ["gt", "le", "ge", "lt", "eq", "add", "sub", "mul", "neg", "pos", "if", "in", "coalesce", "or", "and", "not", "same", "fexists 0", "fexists 1"] {
        if alg.contains(&format!(" {} ", k)) {
            stats.bump(&format!("expr.{}", k.replace(' ', "_")));
        }
    }
    if alg.contains(" nonamed ") {
        stats.bump("alg.ds_nonamed");
    }
    if text.contains("<<") {
        stats.bump("alg.quoted_pattern");
    }
    if text.contains("_:") || text.contains("[]") {
        stats.bump("alg.blank_placeholder");
    }
}

fn light_of(ds: &[Q]) -> LightDataset {
    let mut l = LightDataset::new();
    for q in ds {
        let (spo, g) = q_to_simple(q);
        let _ = l.insert(&spo[0], &spo[1], &spo[2], g.as_ref()).unwrap();
    }
    l
}

fn emit_text(ctx: &mut GenCtx, ds: &[Q], text: &str, tag: &str, meas: Option<&LightDataset>) -> bool {
    let q = match spargebra::Query::parse(text, None) {
        Ok(q) => q,
        Err(_) => {
            ctx.stats.bump(&format!("{}.parse_error", tag));
            return false;
        }
    };
    match codec::ser_query(&q) {
        Ok(alg) => {
            if let Some(l) = meas {
                measure::measure(&mut ctx.stats, l, &q);
            }
            shape_stats(&mut ctx.stats, &alg, text);
            ctx.stats.bump(&format!("{}.q", tag));
            ctx.emit(&format!("q {} {}", render_dataset(ds), alg));
        }
        Err(_) => {
            ctx.stats.bump(&format!("{}.raw", tag));
            ctx.emit(&format!("raw {} {}", render_dataset(ds), hex(text)));
        }
    }
    true
}
