//! spargebra algebra <-> prefix-notation request tokens (the grammar read by `parseGP` / `parseExpr`
//! of lean/SophiaModel/Driver/C13.lean).  Payload that the engine never reads before refusing
//! (paths, VALUES tables, aggregates, SERVICE names, OPTIONAL conditions, ORDER BY keys' direction)
//! is dropped by `ser_*` and replaced by a fixed dummy in `de_*`.
use spargebra::algebra::*;
use spargebra::term::*;
use spargebra::Query;
use std::collections::HashMap;
use vhcore::util::{hex, unhex, T};

pub const XSD_STRING: &str = "http://www.w3.org/2001/XMLSchema#string";

#[derive(Default)]
pub struct Ser {
    /// blank-node placeholders renamed in order of appearance (spargebra draws `[]` ids at random)
    bn: HashMap<String, String>,
}

#[derive(Debug)]
pub struct OutOfCore(pub String);

impl Ser {
    fn bnode(&mut self, id: &str) -> String {
        // labels written in the query (`_:s`) are kept — a label may be spelled like a variable —;
        // the ids spargebra draws at random for `[]` (32 hex digits) are renamed in order of appearance
        if !(id.len() == 32 && id.bytes().all(|b| b.is_ascii_hexdigit())) {
            return id.to_string();
        }
        let n = self.bn.len();
        self.bn.entry(id.to_string()).or_insert_with(|| format!("anon{}", n)).clone()
    }

    fn lit(&self, l: &Literal) -> T {
        match l.language() {
            Some(tag) => T::Lang(l.value().to_string(), tag.to_string()),
            None => T::Lit(l.value().to_string(), l.datatype().as_str().to_string()),
        }
    }

    fn term(&mut self, t: &TermPattern) -> T {
        match t {
            TermPattern::NamedNode(n) => T::Iri(n.as_str().to_string()),
            TermPattern::BlankNode(b) => T::Bnode(self.bnode(b.as_str())),
            TermPattern::Literal(l) => self.lit(l),
            TermPattern::Variable(v) => T::Var(v.as_str().to_string()),
            TermPattern::Triple(tp) => {
                let s = self.term(&tp.subject);
                let p = self.named(&tp.predicate);
                let o = self.term(&tp.object);
                T::Triple(Box::new([s, p, o]))
            }
        }
    }

    fn named(&mut self, n: &NamedNodePattern) -> T {
        match n {
            NamedNodePattern::NamedNode(n) => T::Iri(n.as_str().to_string()),
            NamedNodePattern::Variable(v) => T::Var(v.as_str().to_string()),
        }
    }

    pub fn expr(&mut self, e: &Expression) -> Result<String, OutOfCore> {
        use Expression::*;
        let mut bin = |s: &mut Self, k: &str, a: &Expression, b: &Expression| -> Result<String, OutOfCore> {
            Ok(format!("{} {} {}", k, s.expr(a)?, s.expr(b)?))
        };
        Ok(match e {
            NamedNode(n) => format!("c {}", T::Iri(n.as_str().to_string()).render()),
            Literal(l) => format!("c {}", self.lit(l).render()),
            Variable(v) => format!("var {}", hex(v.as_str())),
            Or(a, b) => bin(self, "or", a, b)?,
            And(a, b) => bin(self, "and", a, b)?,
            Equal(a, b) => bin(self, "eq", a, b)?,
            SameTerm(a, b) => bin(self, "same", a, b)?,
            Less(a, b) => bin(self, "lt", a, b)?,
            Greater(a, b) => bin(self, "gt", a, b)?,
            LessOrEqual(a, b) => bin(self, "le", a, b)?,
            GreaterOrEqual(a, b) => bin(self, "ge", a, b)?,
            Add(a, b) => bin(self, "add", a, b)?,
            Subtract(a, b) => bin(self, "sub", a, b)?,
            Multiply(a, b) => bin(self, "mul", a, b)?,
            UnaryMinus(a) => format!("neg {}", self.expr(a)?),
            UnaryPlus(a) => format!("pos {}", self.expr(a)?),
            If(c, t, e) => format!("if {} {} {}", self.expr(c)?, self.expr(t)?, self.expr(e)?),
            In(a, l) if !l.is_empty() => {
                let mut s = format!("in {} {}", self.expr(a)?, l.len());
                for e in l {
                    s += &format!(" {}", self.expr(e)?);
                }
                s
            }
            Coalesce(l) => {
                let mut s = format!("coalesce {}", l.len());
                for e in l {
                    s += &format!(" {}", self.expr(e)?);
                }
                s
            }
            Not(a) => format!("not {}", self.expr(a)?),
            Bound(v) => format!("bound {}", hex(v.as_str())),
            FunctionCall(f, args) if args.len() == 1 => {
                let k = match f {
                    Function::Str => "str",
                    Function::Lang => "lang",
                    Function::Datatype => "dt",
                    Function::IsIri => "isiri",
                    Function::IsBlank => "isblank",
                    Function::IsLiteral => "islit",
                    other => return Err(OutOfCore(format!("function {}", other))),
                };
                format!("{} {}", k, self.expr(&args[0])?)
            }
            other => return Err(OutOfCore(format!("expression {}", other.to_string().chars().take(30).collect::<String>()))),
        })
    }

    pub fn gp(&mut self, p: &GraphPattern) -> Result<String, OutOfCore> {
        use GraphPattern::*;
        Ok(match p {
            Bgp { patterns } => {
                let mut s = format!("bgp {}", patterns.len());
                for tp in patterns {
                    let a = self.term(&tp.subject);
                    let b = self.named(&tp.predicate);
                    let c = self.term(&tp.object);
                    s += &format!(" {} {} {}", a.render(), b.render(), c.render());
                }
                s
            }
            Path { .. } => "path".into(),
            Values { .. } => "values".into(),
            Join { left, right } => format!("join {} {}", self.gp(left)?, self.gp(right)?),
            LeftJoin { left, right, .. } => format!("leftjoin {} {}", self.gp(left)?, self.gp(right)?),
            Minus { left, right } => format!("minus {} {}", self.gp(left)?, self.gp(right)?),
            Union { left, right } => format!("union {} {}", self.gp(left)?, self.gp(right)?),
            // FILTER [NOT] EXISTS { pat }: a pattern-level node of the model
            Filter { expr: Expression::Exists(pat), inner } => format!("fexists 0 {} {}", self.gp(pat)?, self.gp(inner)?),
            Filter { expr: Expression::Not(e), inner } if matches!(**e, Expression::Exists(_)) => {
                let Expression::Exists(pat) = &**e else { unreachable!() };
                format!("fexists 1 {} {}", self.gp(pat)?, self.gp(inner)?)
            }
            Filter { expr, inner } => format!("filter {} {}", self.expr(expr)?, self.gp(inner)?),
            Graph { name, inner } => {
                let n = self.named(name);
                format!("graph {} {}", n.render(), self.gp(inner)?)
            }
            Extend { inner, variable, expression } => {
                format!("extend {} {} {}", self.gp(inner)?, hex(variable.as_str()), self.expr(expression)?)
            }
            OrderBy { inner, .. } => format!("orderby {}", self.gp(inner)?),
            Distinct { inner } => format!("distinct {}", self.gp(inner)?),
            Reduced { inner } => format!("reduced {}", self.gp(inner)?),
            Group { inner, .. } => format!("group {}", self.gp(inner)?),
            Service { inner, .. } => format!("service {}", self.gp(inner)?),
            Project { inner, variables } => {
                let mut s = format!("project {} {}", self.gp(inner)?, variables.len());
                for v in variables {
                    s += &format!(" {}", hex(v.as_str()));
                }
                s
            }
            Slice { inner, start, length } => format!(
                "slice {} {} {}",
                self.gp(inner)?,
                start,
                match length {
                    Some(n) => n.to_string(),
                    None => "-".into(),
                }
            ),
        })
    }

    fn ds(&self, d: &Option<QueryDataset>) -> String {
        match d {
            None => "nods".into(),
            Some(qd) => {
                let mut s = format!("ds {}", qd.default.len());
                for n in &qd.default {
                    s += &format!(" {}", hex(n.as_str()));
                }
                match &qd.named {
                    None => s += " nonamed",
                    Some(ns) => {
                        s += &format!(" named {}", ns.len());
                        for n in ns {
                            s += &format!(" {}", hex(n.as_str()));
                        }
                    }
                }
                s
            }
        }
    }

    pub fn query(&mut self, q: &Query) -> Result<String, OutOfCore> {
        Ok(match q {
            Query::Select { dataset, pattern, .. } => format!("select {} {}", self.ds(dataset), self.gp(pattern)?),
            Query::Ask { dataset, pattern, .. } => format!("ask {} {}", self.ds(dataset), self.gp(pattern)?),
            Query::Construct { .. } => "construct".into(),
            Query::Describe { .. } => "describe".into(),
        })
    }
}

pub fn ser_query(q: &Query) -> Result<String, OutOfCore> {
    Ser::default().query(q)
}

// ---------------------------------------------------------------- decoding

struct De<'a> {
    toks: std::iter::Peekable<std::slice::Iter<'a, &'a str>>,
}

fn lit_of(t: &T) -> Option<Literal> {
    match t {
        T::Lit(l, d) if d == XSD_STRING => Some(Literal::new_simple_literal(l.clone())),
        T::Lit(l, d) => Some(Literal::new_typed_literal(l.clone(), NamedNode::new_unchecked(d.clone()))),
        T::Lang(l, tag) => Some(Literal::new_language_tagged_literal_unchecked(l.clone(), tag.clone())),
        _ => None,
    }
}

fn term_pattern(t: &T) -> Option<TermPattern> {
    Some(match t {
        T::Iri(s) => TermPattern::NamedNode(NamedNode::new_unchecked(s.clone())),
        T::Bnode(s) => TermPattern::BlankNode(BlankNode::new_unchecked(s.clone())),
        T::Var(s) => TermPattern::Variable(Variable::new_unchecked(s.clone())),
        T::Lit(..) | T::Lang(..) => TermPattern::Literal(lit_of(t)?),
        T::Triple(b) => TermPattern::Triple(Box::new(TriplePattern {
            subject: term_pattern(&b[0])?,
            predicate: named_pattern(&b[1])?,
            object: term_pattern(&b[2])?,
        })),
    })
}

fn named_pattern(t: &T) -> Option<NamedNodePattern> {
    Some(match t {
        T::Iri(s) => NamedNodePattern::NamedNode(NamedNode::new_unchecked(s.clone())),
        T::Var(s) => NamedNodePattern::Variable(Variable::new_unchecked(s.clone())),
        _ => return None,
    })
}

impl<'a> De<'a> {
    fn next(&mut self) -> Option<&'a str> {
        self.toks.next().copied()
    }
    fn term(&mut self) -> Option<T> {
        let mut it = std::iter::from_fn(|| self.toks.next().copied());
        T::parse(&mut it)
    }
    fn var(&mut self) -> Option<Variable> {
        Some(Variable::new_unchecked(unhex(self.next()?)?))
    }
    fn expr(&mut self) -> Option<Expression> {
        use Expression::*;
        let k = self.next()?;
        Some(match k {
            "c" => match self.term()? {
                T::Iri(s) => NamedNode(spargebra::term::NamedNode::new_unchecked(s)),
                t => Literal(lit_of(&t)?),
            },
            "var" => Variable(self.var()?),
            "bound" => Bound(self.var()?),
            "or" => Or(Box::new(self.expr()?), Box::new(self.expr()?)),
            "and" => And(Box::new(self.expr()?), Box::new(self.expr()?)),
            "eq" => Equal(Box::new(self.expr()?), Box::new(self.expr()?)),
            "same" => SameTerm(Box::new(self.expr()?), Box::new(self.expr()?)),
            "lt" => Less(Box::new(self.expr()?), Box::new(self.expr()?)),
            "gt" => Greater(Box::new(self.expr()?), Box::new(self.expr()?)),
            "le" => LessOrEqual(Box::new(self.expr()?), Box::new(self.expr()?)),
            "ge" => GreaterOrEqual(Box::new(self.expr()?), Box::new(self.expr()?)),
            "add" => Add(Box::new(self.expr()?), Box::new(self.expr()?)),
            "sub" => Subtract(Box::new(self.expr()?), Box::new(self.expr()?)),
            "mul" => Multiply(Box::new(self.expr()?), Box::new(self.expr()?)),
            "neg" => UnaryMinus(Box::new(self.expr()?)),
            "pos" => UnaryPlus(Box::new(self.expr()?)),
            "if" => If(Box::new(self.expr()?), Box::new(self.expr()?), Box::new(self.expr()?)),
            "in" => {
                let a = self.expr()?;
                let n: usize = self.next()?.parse().ok()?;
                let mut l = vec![];
                for _ in 0..n {
                    l.push(self.expr()?);
                }
                In(Box::new(a), l)
            }
            "coalesce" => {
                let n: usize = self.next()?.parse().ok()?;
                let mut l = vec![];
                for _ in 0..n {
                    l.push(self.expr()?);
                }
                Coalesce(l)
            }
            "not" => Not(Box::new(self.expr()?)),
            "str" => FunctionCall(Function::Str, vec![self.expr()?]),
            "lang" => FunctionCall(Function::Lang, vec![self.expr()?]),
            "dt" => FunctionCall(Function::Datatype, vec![self.expr()?]),
            "isiri" => FunctionCall(Function::IsIri, vec![self.expr()?]),
            "isblank" => FunctionCall(Function::IsBlank, vec![self.expr()?]),
            "islit" => FunctionCall(Function::IsLiteral, vec![self.expr()?]),
            _ => return None,
        })
    }
    fn gp(&mut self) -> Option<GraphPattern> {
        use GraphPattern::*;
        let k = self.next()?;
        let dummy_var = || spargebra::term::Variable::new_unchecked("dummy");
        Some(match k {
            "bgp" => {
                let n: usize = self.next()?.parse().ok()?;
                let mut patterns = vec![];
                for _ in 0..n {
                    let s = self.term()?;
                    let p = self.term()?;
                    let o = self.term()?;
                    patterns.push(TriplePattern { subject: term_pattern(&s)?, predicate: named_pattern(&p)?, object: term_pattern(&o)? });
                }
                Bgp { patterns }
            }
            "path" => Path {
                subject: TermPattern::Variable(dummy_var()),
                path: PropertyPathExpression::ZeroOrMore(Box::new(PropertyPathExpression::NamedNode(NamedNode::new_unchecked("x:p")))),
                object: TermPattern::Variable(spargebra::term::Variable::new_unchecked("dummy2")),
            },
            "values" => Values { variables: vec![dummy_var()], bindings: vec![vec![None]] },
            "join" => Join { left: Box::new(self.gp()?), right: Box::new(self.gp()?) },
            "leftjoin" => LeftJoin { left: Box::new(self.gp()?), right: Box::new(self.gp()?), expression: None },
            "minus" => Minus { left: Box::new(self.gp()?), right: Box::new(self.gp()?) },
            "union" => Union { left: Box::new(self.gp()?), right: Box::new(self.gp()?) },
            "filter" => {
                let expr = self.expr()?;
                Filter { expr, inner: Box::new(self.gp()?) }
            }
            "fexists" => {
                let neg = self.next()? == "1";
                let pat = Expression::Exists(Box::new(self.gp()?));
                let expr = if neg { Expression::Not(Box::new(pat)) } else { pat };
                Filter { expr, inner: Box::new(self.gp()?) }
            }
            "graph" => {
                let name = named_pattern(&self.term()?)?;
                Graph { name, inner: Box::new(self.gp()?) }
            }
            "extend" => {
                let inner = Box::new(self.gp()?);
                let variable = self.var()?;
                Extend { inner, variable, expression: self.expr()? }
            }
            "orderby" => {
                let inner = self.gp()?;
                // keys are not shipped: order by every variable the pattern mentions, ascending
                let mut vs = vec![];
                inner.on_in_scope_variable(|v| {
                    if !vs.contains(v) {
                        vs.push(v.clone())
                    }
                });
                OrderBy { inner: Box::new(inner), expression: vs.into_iter().map(|v| OrderExpression::Asc(Expression::Variable(v))).collect() }
            }
            "distinct" => Distinct { inner: Box::new(self.gp()?) },
            "reduced" => Reduced { inner: Box::new(self.gp()?) },
            "group" => Group { inner: Box::new(self.gp()?), variables: vec![], aggregates: vec![(dummy_var(), AggregateExpression::CountSolutions { distinct: false })] },
            "service" => Service { name: NamedNodePattern::NamedNode(NamedNode::new_unchecked("x:service")), inner: Box::new(self.gp()?), silent: false },
            "project" => {
                let inner = Box::new(self.gp()?);
                let n: usize = self.next()?.parse().ok()?;
                let mut variables = vec![];
                for _ in 0..n {
                    variables.push(self.var()?);
                }
                Project { inner, variables }
            }
            "slice" => {
                let inner = Box::new(self.gp()?);
                let start: usize = self.next()?.parse().ok()?;
                let l = self.next()?;
                let length = if l == "-" { None } else { Some(l.parse().ok()?) };
                Slice { inner, start, length }
            }
            _ => return None,
        })
    }
    fn ds(&mut self) -> Option<Option<QueryDataset>> {
        match self.next()? {
            "nods" => Some(None),
            "ds" => {
                let n: usize = self.next()?.parse().ok()?;
                let mut default = vec![];
                for _ in 0..n {
                    default.push(NamedNode::new_unchecked(unhex(self.next()?)?));
                }
                let named = match self.next()? {
                    "nonamed" => None,
                    "named" => {
                        let m: usize = self.next()?.parse().ok()?;
                        let mut v = vec![];
                        for _ in 0..m {
                            v.push(NamedNode::new_unchecked(unhex(self.next()?)?));
                        }
                        Some(v)
                    }
                    _ => return None,
                };
                Some(Some(QueryDataset { default, named }))
            }
            _ => None,
        }
    }
}

pub fn de_query(toks: &[&str]) -> Option<Query> {
    let mut d = De { toks: toks.iter().peekable() };
    let q = match d.next()? {
        "select" => {
            let dataset = d.ds()?;
            Query::Select { dataset, pattern: d.gp()?, base_iri: None }
        }
        "ask" => {
            let dataset = d.ds()?;
            Query::Ask { dataset, pattern: d.gp()?, base_iri: None }
        }
        "construct" => Query::Construct { template: vec![], dataset: None, pattern: GraphPattern::Bgp { patterns: vec![] }, base_iri: None },
        "describe" => Query::Describe { dataset: None, pattern: GraphPattern::Bgp { patterns: vec![] }, base_iri: None },
        _ => return None,
    };
    if d.toks.next().is_some() {
        return None;
    }
    Some(q)
}
