//! C13 — SPARQL evaluation = algebra semantics or NotImplemented.
//!
//! request:
//!   q <quad> | <quad> | ... ; <query algebra in prefix notation>
//!   raw <quad> | ... ; <hex SPARQL text>        (expressions outside the modelled core: no-panic only)
//!
//! `gen` writes SPARQL text from a grammar, parses it with the real `spargebra` and ships the
//! resulting *algebra*; `exec` rebuilds the `spargebra::Query` from the request and runs it through
//! `SparqlWrapper(&dataset).query(..)` on `LightDataset` and `FastDataset`.
mod codec;
mod measure;
mod qgen;

use sophia_api::prelude::*;
use sophia_api::sparql::SparqlResult;
use sophia_inmem::dataset::{FastDataset, LightDataset};
use sophia_sparql::{SparqlQuery, SparqlWrapper, SparqlWrapperError};
use spargebra::algebra::GraphPattern;
use vhcore::tgen::{q_to_simple, view};
use vhcore::util::*;
use vhcore::GenCtx;

fn term_c(t: &T) -> String {
    match t {
        T::Iri(s) => format!("i:{}", hex(s)),
        T::Bnode(s) => format!("b:{}", hex(s)),
        T::Lit(l, d) => format!("l:{}:{}", hex(l), hex(d)),
        T::Lang(l, t) => format!("g:{}:{}", hex(l), hex(&t.to_ascii_lowercase())),
        T::Triple(b) => format!("t({},{},{})", term_c(&b[0]), term_c(&b[1]), term_c(&b[2])),
        T::Var(s) => format!("v:{}", hex(s)),
    }
}

fn fnv(s: &str) -> u64 {
    let mut h: u64 = 0xcbf29ce484222325;
    for b in s.bytes() {
        h = (h ^ b as u64).wrapping_mul(0x100000001b3);
    }
    h
}

fn rows_c(rows: &[String]) -> String {
    let mut rs = rows.to_vec();
    rs.sort();
    let mut body = rs.concat();
    if body.len() > 6000 {
        body = format!("#{}", fnv(&body));
    }
    format!("{}/{}", rs.len(), body)
}

pub(crate) enum Outcome {
    /// variables, canonical rows, per row the set of bound columns (bit i = column i bound)
    Rows(Vec<String>, Vec<String>, Vec<u64>),
    Ask(bool),
    Err(String, String),
}

pub(crate) fn run_on<D: Dataset>(ds: &D, q: &spargebra::Query) -> Outcome
where
    D::Error: std::error::Error,
{
    let query: SparqlQuery<D> = SparqlQuery::from(q.clone());
    match SparqlWrapper(ds).query(&query) {
        Err(SparqlWrapperError::NotImplemented(w)) => Outcome::Err("notimpl".into(), format!("notimpl:{}", w.replace(' ', "_"))),
        Err(SparqlWrapperError::Override(v)) => Outcome::Err("override".into(), format!("override:{}", hex(&v))),
        Err(SparqlWrapperError::Parse(_)) => Outcome::Err("parse".into(), "parse".into()),
        Err(SparqlWrapperError::Dataset(_)) => Outcome::Err("dataset".into(), "dataset".into()),
        Ok(SparqlResult::Boolean(b)) => Outcome::Ask(b),
        Ok(SparqlResult::Triples(_)) => Outcome::Err("triples".into(), "triples".into()),
        Ok(SparqlResult::Bindings(bs)) => {
            let vars: Vec<String> = bs.variables().iter().map(|v| v.to_string()).collect();
            let mut rows = vec![];
            let mut masks = vec![];
            for r in bs {
                match r {
                    Err(_) => return Outcome::Err("rowerr".into(), "rowerr".into()),
                    Ok(cells) => {
                        let cs: Vec<String> = cells
                            .iter()
                            .map(|c| match c {
                                None => "-".to_string(),
                                Some(t) => term_c(&view(t.inner())),
                            })
                            .collect();
                        masks.push(cells.iter().enumerate().fold(0u64, |m, (i, c)| if c.is_some() && i < 64 { m | (1 << i) } else { m }));
                        rows.push(format!("[{}]", cs.join(",")));
                    }
                }
            }
            Outcome::Rows(vars, rows, masks)
        }
    }
}

fn vars_c(vs: &[String]) -> String {
    if vs.is_empty() { "_".into() } else { vs.iter().map(|v| hex(v)).collect::<Vec<_>>().join(",") }
}

fn sub_multiset(a: &[String], b: &[String]) -> bool {
    let mut m = std::collections::HashMap::new();
    for x in b {
        *m.entry(x.as_str()).or_insert(0i64) += 1;
    }
    for x in a {
        let e = m.entry(x.as_str()).or_insert(0);
        *e -= 1;
        if *e < 0 {
            return false;
        }
    }
    true
}

fn report<D: Dataset>(ds: &D, q: &spargebra::Query) -> String
where
    D::Error: std::error::Error,
{
    match run_on(ds, q) {
        Outcome::Err(c, e) => {
            if c == "notimpl" || c == "override" {
                format!("errclass={} err={}", c, e)
            } else {
                format!("errclass={} FAIL.error={}", c, e)
            }
        }
        Outcome::Ask(b) => format!("errclass=none ask={}", if b { 1 } else { 0 }),
        Outcome::Rows(vars, rows, _) => {
            // outermost Slice: the rows depend on the (unspecified) order — containment + size only
            if let spargebra::Query::Select { dataset, pattern: GraphPattern::Slice { inner, .. }, base_iri } = q {
                let q2 = spargebra::Query::Select { dataset: dataset.clone(), pattern: (**inner).clone(), base_iri: base_iri.clone() };
                match run_on(ds, &q2) {
                    Outcome::Rows(_, full, _) => format!(
                        "errclass=none vars={} n={} sub={} full={}",
                        vars_c(&vars),
                        rows.len(),
                        if sub_multiset(&rows, &full) { 1 } else { 0 },
                        rows_c(&full)
                    ),
                    _ => format!("errclass=none vars={} n={} FAIL.unsliced=error", vars_c(&vars), rows.len()),
                }
            } else {
                format!("errclass=none vars={} rows={}", vars_c(&vars), rows_c(&rows))
            }
        }
    }
}

fn parse_dataset<'a>(toks: &mut std::iter::Peekable<impl Iterator<Item = &'a str>>) -> Option<Vec<Q>> {
    let mut quads = vec![];
    loop {
        if toks.peek() == Some(&";") {
            toks.next();
            return Some(quads);
        }
        let q = Q::parse(toks)?;
        if toks.next() != Some("|") {
            return None;
        }
        quads.push(q);
    }
}

fn has_inner_modifier(p: &GraphPattern) -> bool {
    use GraphPattern::*;
    match p {
        Distinct { .. } | Slice { .. } | Reduced { .. } => true,
        Bgp { .. } | Path { .. } | Values { .. } => false,
        Filter { inner, expr } => {
            let _ = expr;
            has_inner_modifier(inner)
        }
        Graph { inner, .. } | Extend { inner, .. } | OrderBy { inner, .. } | Project { inner, .. } | Group { inner, .. }
        | Service { inner, .. } => has_inner_modifier(inner),
        Join { left, right } | LeftJoin { left, right, .. } | Union { left, right } | Minus { left, right } => {
            has_inner_modifier(left) || has_inner_modifier(right)
        }
    }
}

/// a DISTINCT / slice below the outermost `Slice? (Distinct? (Project (OrderBy? ..)))` chain
fn order_sensitive(q: &spargebra::Query) -> bool {
    use GraphPattern::*;
    let (spargebra::Query::Select { pattern, .. } | spargebra::Query::Ask { pattern, .. }) = q else { return false };
    let mut p = pattern;
    if let Slice { inner, .. } = p {
        p = inner;
    }
    if let Distinct { inner } = p {
        p = inner;
    }
    if let Project { inner, .. } = p {
        p = inner;
    }
    if let OrderBy { inner, .. } = p {
        p = inner;
    }
    has_inner_modifier(p)
}

pub fn exec(line: &str) -> String {
    let mut toks = line.split_whitespace().peekable();
    let kind = match toks.next() {
        Some(k @ ("q" | "raw")) => k,
        _ => return "bad-op".into(),
    };
    let Some(quads) = parse_dataset(&mut toks) else { return "bad-op".into() };
    let mut light = LightDataset::new();
    let mut fast = FastDataset::new();
    for q in &quads {
        let (spo, g) = q_to_simple(q);
        let _ = light.insert(&spo[0], &spo[1], &spo[2], g.as_ref()).unwrap();
        let _ = fast.insert(&spo[0], &spo[1], &spo[2], g.as_ref()).unwrap();
    }
    let query = if kind == "raw" {
        let Some(text) = toks.next().and_then(unhex) else { return "bad-hex".into() };
        match spargebra::Query::parse(&text, None) {
            Ok(q) => q,
            Err(_) => return "skip=1 parse=0".into(),
        }
    } else {
        let rest: Vec<&str> = toks.collect();
        match codec::de_query(&rest) {
            Some(q) => q,
            None => return "bad-op".into(),
        }
    };
    let a = report(&light, &query);
    // a DISTINCT / OFFSET-LIMIT inside a sub-select keeps the *first* of several rows; which one is
    // first depends on the store's iteration order, and the hidden variables of that row are visible
    // outside (finding C13-subselect-leak): the answer is order dependent, so the two stores are not
    // compared (the driver does not compare either: `orderSensitive`)
    if order_sensitive(&query) {
        return format!("{} skip=1", a.split(' ').next().unwrap_or(""));
    }
    let b = report(&fast, &query);
    if kind == "raw" {
        // only totality is claimed for expressions outside the modelled core
        return format!("skip=1 ran=1{}", if a == b { "" } else { " FAIL.light_vs_fast=1" });
    }
    if a == b { a } else { format!("{} FAIL.light_vs_fast={}", a, hex(&b)) }
}

pub fn generate(ctx: &mut GenCtx) {
    qgen::generate(ctx);
}

fn main() {
    // function.rs reports unimplemented functions with eprintln!; the checker reads stdout and
    // stderr through one pipe, so stderr is sent to /dev/null to keep one reply per line
    unsafe {
        let devnull = libc::open(c"/dev/null".as_ptr(), libc::O_WRONLY);
        if devnull >= 0 {
            libc::dup2(devnull, 2);
        }
    }
    vhcore::main_loop(generate, exec);
}
